-------------------------- MODULE Frame_Tcp_Trace --------------------------
(* C13 over a socket: trace validation for Frame.tla of executions in which the     *)
(* coordinator stand-in (harness/tctcp) writes a frame sequence, cut into chunks,   *)
(* to a real TCP connection of the real client (getty session, its receive loop,    *)
(* RpcPackageHandler.Read, listener, processors).                                   *)
(*                                                                                  *)
(* Over TCP the individual Read calls of the receive loop cannot be seen, so the    *)
(* reader's steps (Frame!Parse) are silent here; what is recorded is                *)
(*   Write(c)     the stand-in wrote the next c bytes (TCP_NODELAY, a pause of      *)
(*                1-3 ms before the next chunk)  = Frame!Recv(c): the network hands *)
(*                the client a chunk (the kernel may merge chunks: a merged chunk   *)
(*                is one of the chunkings the reader must survive as well)          *)
(*   TcpDeliver   after the last chunk: which of the sent frames reached the        *)
(*                client's dispatch (a pending caller got the response back /       *)
(*                the heartbeat was processed / the stub resource manager got the   *)
(*                request and the client's answer came back over the socket), in    *)
(*                frame order; `eq`: every delivered message equals the sent one    *)
(*                field by field (computed in Go); `cn`: the real session's own     *)
(*                count of dispatched packages; `alive`: the session survived       *)
(*   Probe        a fresh request is served afterwards (on the same connection      *)
(*                when it is alive, else on the one getty re-established)           *)
(* The specification demands: at rest every frame has been delivered exactly once,  *)
(* in order and unchanged; the session is closed only because of junk.              *)
EXTENDS Frame, Json, IOUtils

VARIABLES l,    \* next line of Trace to consume
          s0    \* first line of the trace this behaviour validates

Trace  == ndJsonDeserialize(IOEnv.TRACE_FILE)
Starts == {i \in 1..Len(Trace) : Trace[i].k = 1}
EndOf(s) == s + Trace[s].n - 1
Max(a, b) == IF a > b THEN a ELSE b

tvars == <<vars, l, s0>>

TraceInit ==
  \E s \in Starts :
    /\ s0 = s /\ l = s + 1
    /\ Trace[s].ev = "Start"
    /\ frames = Trace[s].frames
    /\ junk = Trace[s].junk
    /\ avail = 0 /\ consumed = 0 /\ out = 0 /\ mode = "recv"
    /\ last = [res |-> "none", n |-> 0]
    /\ cuts = <<>>
    /\ TLCSet(Trace[s].t, s + 1)

IsEv(e) == /\ l <= EndOf(s0)
           /\ Trace[l].ev = e
           /\ l' = l + 1 /\ s0' = s0

E == Trace[l]

TWrite == IsEv("Write") /\ Recv(E.c)

\* the client's receive loop: not observable over TCP
TSilent == ParseAny /\ UNCHANGED <<l, s0>>

\* getty hands every parsed package to a task pool and the task drops it when the session has been closed in
\* the meantime: frames parsed just before the junk that closes the session may therefore not reach the
\* dispatch.  The property is silent about that (the reader did yield them; the peer broke the protocol):
\* after a close the delivered frames are any subsequence of the sent ones - no duplicate, nothing
\* fabricated, in order, unchanged.  While the session lives every frame must have been delivered.
Increasing(q) == \A i \in 1..Len(q) : q[i] \in 1..Len(frames) /\ (i > 1 => q[i - 1] < q[i])

TDeliver == /\ IsEv("TcpDeliver")
            /\ Done /\ out = Len(frames)
            /\ E.sent = Len(frames)
            /\ IF mode = "closed" THEN Increasing(E.delivered)
                                  ELSE E.delivered = [i \in 1..Len(frames) |-> i]
            /\ E.eq = TRUE
            \* the session's own count of dispatched packages; a session that is being closed stops counting
            \* (and finally reports nothing: -1), so after a close the count only has to be a possible one
            /\ IF mode = "closed" THEN E.cn \in -1..Len(frames) ELSE E.cn = Len(frames)
            /\ E.alive = (mode # "closed")
            /\ UNCHANGED vars

TProbe == IsEv("Probe") /\ E.ok = TRUE /\ UNCHANGED vars

TEnd == IsEv("End") /\ Done /\ UNCHANGED vars

TraceNext == TWrite \/ TSilent \/ TDeliver \/ TProbe \/ TEnd
TraceSpec == TraceInit /\ [][TraceNext]_tvars

\* invariants of Frame evaluated in every state of every recorded behaviour
Invs == [AtBoundary |-> AtBoundary, NoFabrication |-> NoFabrication,
         Progress |-> Progress, CloseOnlyOnJunk |-> CloseOnlyOnJunk]
Failed == {i \in DOMAIN Invs : ~Invs[i]}

HighWater ==
  IF Failed = {} THEN TLCSet(Trace[s0].t, Max(TLCGet(Trace[s0].t), l))
  ELSE PrintT(<<"INVFAIL", Trace[s0].t, l - s0, Failed>>) /\ FALSE

Rejected == {s \in Starts : TLCGet(Trace[s].t) # EndOf(s) + 1}
Post ==
  /\ PrintT(<<"TRACES", Cardinality(Starts), "REJECTED", Cardinality(Rejected)>>)
  /\ \A s \in Rejected :
       LET hw == TLCGet(Trace[s].t) IN
       PrintT(<<"REJECT", Trace[s].t, hw - s + 1, IF hw <= EndOf(s) THEN Trace[hw].ev ELSE "?">>)
=============================================================================
