-------------------------- MODULE ATRollback_Trace --------------------------
(* Trace validation for ATRollback.tla (C01, C09, C10).  The harness logs the     *)
(* complete projected table after every step; each recorded step must be the      *)
(* corresponding action of ATRollback with exactly that resulting table.          *)
EXTENDS ATRollback, Json, IOUtils

VARIABLES l, s0

Trace  == ndJsonDeserialize(IOEnv.TRACE_FILE)
Starts == {i \in 1..Len(Trace) : Trace[i].k = 1}
EndOf(s) == s + Trace[s].n - 1
Max(a, b) == IF a > b THEN a ELSE b

EnvBool(s) == s = "true"
EnvOnlyCare == EnvBool(IOEnv.ONLYCARE)
EnvValidate == EnvBool(IOEnv.VALIDATE)

tvars == <<vars, l, s0>>

SeqToSet(q) == {q[i] : i \in 1..Len(q)}
ToStmts(js) == [i \in 1..Len(js) |-> [kind |-> js[i].kind, keys |-> SeqToSet(js[i].keys), w |-> js[i].w, u |-> js[i].u]]
ToRow(j) == [w |-> j.w, u |-> j.u]
ToDb(j) == [k \in 1..Len(j) |-> ToRow(j[k])]

TraceInit ==
  \E s \in Starts :
    /\ s0 = s /\ l = s + 1
    /\ Trace[s].ev = "Init"
    /\ db = ToDb(Trace[s].db)
    /\ snap0 = db
    /\ nbr = 0
    /\ imgs = [b \in Branches |-> <<>>]
    /\ undo = [b \in Branches |-> "none"]
    /\ rolled = [b \in Branches |-> 0]
    /\ tried = [b \in Branches |-> 0]
    /\ foreign = 0
    /\ phase = "p1" /\ next = 0
    /\ last = [op |-> "init"]
    /\ env = <<>>
    /\ TLCSet(Trace[s].t, s + 1)

IsEv(e) == /\ l <= EndOf(s0)
           /\ Trace[l].ev = e
           /\ l' = l + 1 /\ s0' = s0

\* phase one of a branch: succeeded, left exactly the table the statements' semantics give, the
\* connection went back to the pool outside any transaction
TP1 == /\ IsEv("P1")
       /\ Trace[l].ok = TRUE /\ Trace[l].extra = 0
       /\ Trace[l].undo \in {"normal", "none"}
       /\ P1(ToStmts(Trace[l].stmts), Trace[l].undo = "normal", Trace[l].reg)
       /\ db' = ToDb(Trace[l].db)

\* the rollback overtook phase one: marker left, reply rollbacked, late local commit failed, nothing committed
TP1Late == /\ IsEv("P1Late")
           /\ P1Overtaken(ToStmts(Trace[l].stmts))
           /\ Trace[l].rbstatus = "rollbacked"
           /\ Trace[l].undo = "marker"
           /\ Trace[l].ok = FALSE
           /\ ToDb(Trace[l].db) = db /\ Trace[l].extra = 0

\* the rollback read undo_log before phase one flushed and wrote its marker after phase one committed: phase one
\* succeeded; the delivery refused and changed nothing, or compensated; the log is never left beside 'rollbacked'
TP1Race == /\ IsEv("P1Race")
           /\ Trace[l].ok = TRUE /\ Trace[l].extra = 0 /\ Trace[l].idle = TRUE
           /\ P1Raced(ToStmts(Trace[l].stmts), Trace[l].rbstatus)
           /\ db' = ToDb(Trace[l].db)
           /\ undo'[nbr + 1] = Trace[l].undo

TForeign == /\ IsEv("Foreign")
            /\ Foreign(Trace[l].key, ToRow(Trace[l].row))
            /\ db' = ToDb(Trace[l].db)

\* one delivery of a branch rollback: status, resulting table and undo-log state as specified, and
\* no connection left inside a transaction or holding row locks
TRb == /\ IsEv("Rb")
       /\ Deliver(Trace[l].b, Trace[l].fail, Trace[l].fired, Trace[l].status)
       /\ db' = ToDb(Trace[l].db) /\ Trace[l].extra = 0
       /\ undo'[Trace[l].b] = Trace[l].undo
       /\ Trace[l].idle = TRUE

\* C18: the images recorded for the branch are exactly the rows the statements changed, with their
\* content just before and just after (u = -3: the column is not part of the image, allowed for the
\* unwritten part of an UPDATE image when only updated columns are tracked)
RowMatch(o, sp, kind) ==
  IF sp = Absent THEN o.w = -1
  ELSE /\ o.w = sp.w
       /\ (o.u = sp.u \/ (o.u = -3 /\ kind = "upd" /\ OnlyCare))
ImgKind(kd) == IF kd = "upsu" THEN "upd" ELSE kd
\* The recorded images are those of the specification, row by row.  How the images of ONE statement are
\* grouped into undo items and in which order they appear is the implementation's business (an upsert records
\* its updated and its inserted rows as two items); across statements the item order follows the statement order.
ImagesMatch(sp, ob) ==
  /\ Len(sp) = Len(ob)
  /\ \E pi \in Permutations(1..Len(sp)) :
       /\ \A i \in 1..Len(sp) :
            /\ ob[pi[i]].key = sp[i].k
            /\ ob[pi[i]].kind = ImgKind(sp[i].kind)
            /\ RowMatch(ob[pi[i]].before, sp[i].before, sp[i].kind)
            /\ RowMatch(ob[pi[i]].after, sp[i].after, sp[i].kind)
       /\ \A i, j \in 1..Len(sp) : sp[i].s < sp[j].s => ob[pi[i]].stmt < ob[pi[j]].stmt
TImages == /\ IsEv("Images")
           /\ Trace[l].decoded = TRUE
           /\ ImagesMatch(imgs[Trace[l].b], Trace[l].imgs)
           /\ UNCHANGED vars

\* C18: a primary-key update is refused and records nothing
TRefusedPk == /\ IsEv("RefusedPk")
              /\ P1Rejected(Trace[l].key)
              /\ ToDb(Trace[l].db) = db /\ Trace[l].undorows = 0

\* the proxy refused an ordinary statement (reported by C16): it must at least have recorded nothing
TRefused == /\ IsEv("Refused")
            /\ ToDb(Trace[l].db) = db /\ Trace[l].undorows = 0
            /\ UNCHANGED vars

\* unlogged coordinator steps
TSilent == /\ (StartRollback \/ NextBranch \/ GiveUp)
           /\ UNCHANGED <<l, s0>>

\* the scenario ended, or was abandoned because phase one failed without an injected fault
TEnd   == IsEv("End") /\ UNCHANGED vars
TAbort == IsEv("Abort") /\ UNCHANGED vars

TraceNext == TP1 \/ TP1Late \/ TP1Race \/ TForeign \/ TRb \/ TSilent \/ TEnd \/ TAbort \/ TImages \/ TRefusedPk \/ TRefused
TraceSpec == TraceInit /\ [][TraceNext]_tvars

Invs == [Exact |-> Exact, Honest |-> Honest]
Failed == {i \in DOMAIN Invs : ~Invs[i]}

HighWater ==
  IF Failed = {} THEN TLCSet(Trace[s0].t, Max(TLCGet(Trace[s0].t), l))
  ELSE PrintT(<<"INVFAIL", Trace[s0].t, l - s0, Failed>>) /\ FALSE

Rejected == {s \in Starts : TLCGet(Trace[s].t) # EndOf(s) + 1}
Post ==
  /\ PrintT(<<"TRACES", Cardinality(Starts), "REJECTED", Cardinality(Rejected)>>)
  /\ \A s \in Rejected :
       LET hw == TLCGet(Trace[s].t) IN
       PrintT(<<"REJECT", Trace[s].t, hw - s + 1, IF hw <= EndOf(s) THEN Trace[hw].ev ELSE "?">>)
=============================================================================
