-------------------------- MODULE Concurrency_Trace --------------------------
(* Validation of a recorded stress batch (C20).  A batch is one trace: Start(batch), per      *)
(* transaction TxStart/TxEnd in completion order, then Quiesce with the measured deltas, and   *)
(* one Race event per distinct data-race report of the Go race detector (never allowed).       *)
EXTENDS Integers, Sequences, FiniteSets, TLC, Json, IOUtils

VARIABLES l, s0, started, ended, quiesced

Trace  == ndJsonDeserialize(IOEnv.TRACE_FILE)
Starts == {i \in 1..Len(Trace) : Trace[i].k = 1}
EndOf(s) == s + Trace[s].n - 1
Max(a, b) == IF a > b THEN a ELSE b
vars == <<l, s0, started, ended, quiesced>>

TraceInit ==
  \E s \in Starts :
    /\ s0 = s /\ l = s + 1 /\ Trace[s].ev = "Start"
    /\ started = 0 /\ ended = 0 /\ quiesced = FALSE
    /\ TLCSet(Trace[s].t, s + 1)

IsEv(e) == /\ l <= EndOf(s0) /\ Trace[l].ev = e /\ l' = l + 1 /\ s0' = s0

TTxStart == IsEv("TxStart") /\ started' = started + 1 /\ UNCHANGED <<ended, quiesced>>
\* a transaction ends with a definite outcome (never a panic, never hung)
TTxEnd   == /\ IsEv("TxEnd") /\ Trace[l].outcome \in {"committed", "rolledback", "failed"}
            /\ ended' = ended + 1 /\ UNCHANGED <<started, quiesced>>
\* quiescence: every transaction terminated; nothing borrowed is still out
TQuiesce == /\ IsEv("Quiesce")
            /\ ended = started
            /\ Trace[l].hung = 0
            /\ Trace[l].inuse = 0            \* sql.DB.Stats().InUse of every shared handle
            /\ Trace[l].connleak = 0         \* physical connections opened beyond the pools' idle limits
            /\ Trace[l].intx = 0             \* connections left inside a transaction / holding locks
            /\ Trace[l].futures = 0          \* pending request futures
            /\ Trace[l].goroutines <= 0      \* goroutines alive beyond the level before the batch
            /\ quiesced' = TRUE /\ UNCHANGED <<started, ended>>
TEnd     == IsEv("End") /\ quiesced /\ UNCHANGED <<started, ended, quiesced>>
\* (no action for "Race": a data-race report is never a behaviour of the specification)

TraceNext == TTxStart \/ TTxEnd \/ TQuiesce \/ TEnd
TraceSpec == TraceInit /\ [][TraceNext]_vars

HighWater == TLCSet(Trace[s0].t, Max(TLCGet(Trace[s0].t), l))
Rejected == {s \in Starts : TLCGet(Trace[s].t) # EndOf(s) + 1}
Post ==
  /\ PrintT(<<"TRACES", Cardinality(Starts), "REJECTED", Cardinality(Rejected)>>)
  /\ \A s \in Rejected :
       LET hw == TLCGet(Trace[s].t) IN
       PrintT(<<"REJECT", Trace[s].t, hw - s + 1, IF hw <= EndOf(s) THEN Trace[hw].ev ELSE "?">>)
=============================================================================
