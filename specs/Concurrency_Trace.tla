-------------------------- MODULE Concurrency_Trace --------------------------
(* Validation of a recorded stress batch (C20).  A batch is one trace: Start(batch), per          *)
(* transaction TxStart/TxEnd in completion order (AT, XA, TCC and mixed transactions; sessions to   *)
(* the coordinator are lost and opened meanwhile: Session), the hot-spot phase (Hot), then Quiesce  *)
(* with the measured deltas.  Every distinct data-race report of the Go race detector is a trace    *)
(* of its own (Start, Race, End) and a run-time crash of the workload is one (Start, Crash, ..):    *)
(* neither is ever a behaviour of the specification.                                                *)
EXTENDS Integers, Sequences, FiniteSets, TLC, Json, IOUtils

VARIABLES l, s0, started, ended, quiesced, live, hot

Trace  == ndJsonDeserialize(IOEnv.TRACE_FILE)
Starts == {i \in 1..Len(Trace) : Trace[i].k = 1}
EndOf(s) == s + Trace[s].n - 1
Max(a, b) == IF a > b THEN a ELSE b
vars == <<l, s0, started, ended, quiesced, live, hot>>

Has(e, f) == f \in DOMAIN e

TraceInit ==
  \E s \in Starts :
    /\ s0 = s /\ l = s + 1 /\ Trace[s].ev = "Start"
    /\ started = {} /\ ended = {} /\ quiesced = FALSE /\ hot = FALSE
    /\ live = (IF Has(Trace[s], "live") THEN Trace[s].live ELSE 1)
    /\ TLCSet(Trace[s].t, s + 1)

IsEv(e) == /\ l <= EndOf(s0) /\ Trace[l].ev = e /\ l' = l + 1 /\ s0' = s0

TxKinds == {"at", "xa", "tcc", "mix"}

TTxStart == /\ IsEv("TxStart") /\ ~quiesced
            /\ Trace[l].id \notin started
            /\ Has(Trace[l], "kind") => Trace[l].kind \in TxKinds
            /\ started' = started \cup {Trace[l].id} /\ UNCHANGED <<ended, quiesced, live, hot>>
\* a transaction ends with a definite outcome: committed, rolled back because the business said so, or
\* failed (lock conflict, lock wait, a request that died with its session) - never a panic, never hung
TTxEnd   == /\ IsEv("TxEnd") /\ Trace[l].outcome \in {"committed", "rolledback", "failed"}
            /\ Trace[l].id \in started \ ended
            /\ ended' = ended \cup {Trace[l].id} /\ UNCHANGED <<started, quiesced, live, hot>>
\* session churn underneath the traffic; the workload never takes the last session away
TSession == /\ IsEv("Session") /\ ~quiesced
            /\ \/ Trace[l].op = "open" /\ live' = live + 1
               \/ Trace[l].op = "lose" /\ live > 1 /\ live' = live - 1
            /\ Trace[l].live = live'
            /\ UNCHANGED <<started, ended, quiesced, hot>>
\* the hot-spot phase: every loop over the shared components returned, none panicked
THot     == /\ IsEv("Hot") /\ ~quiesced /\ ~hot
            /\ Trace[l].hung = 0 /\ Trace[l].panics = 0 /\ Trace[l].iters >= Trace[l].workers
            /\ hot' = TRUE /\ UNCHANGED <<started, ended, quiesced, live>>
\* quiescence: every transaction terminated; nothing borrowed is still out; nothing owed is still due
TQuiesce == /\ IsEv("Quiesce") /\ ~quiesced /\ hot
            /\ ended = started
            /\ Trace[l].hung = 0
            /\ Trace[l].inuse = 0            \* sql.DB.Stats().InUse of every pool (handles and the resources' inner pools)
            /\ Trace[l].connleak = 0         \* physical connections on the AT / fence servers that no pool owns (vs. before the batch)
            /\ Trace[l].intx = 0             \* connections left inside a transaction / holding locks
            /\ Trace[l].futures = 0          \* pending request futures
            /\ Trace[l].goroutines <= 0      \* goroutines alive beyond the level before the batch
            /\ Trace[l].undoleft = 0         \* undo rows (log_status 0) of finished transactions; the marker rows a
                                             \* repeated rollback leaves on purpose (undomarkers) are not a leak
            /\ Trace[l].xaheld = 0           \* XA connections still held by the resource manager
            /\ Trace[l].xaprepared = 0       \* XA branches left PREPARED in the databases
            /\ Trace[l].xaconns = 0          \* connections left in an XA state
            /\ Trace[l].xaconnleak = 0       \* physical connections on the XA servers that no pool owns
            /\ Trace[l].tccnop2 = 0          \* TCC branches of decided transactions whose second phase never ran
            /\ Trace[l].tccextra = 0         \* TCC branches whose methods ran more often than delivered, or the wrong one
            /\ Trace[l].fencedup = 0         \* fenced branches whose business effect is not exactly-once
            /\ Trace[l].fencetx = 0          \* fence transactions left open
            /\ quiesced' = TRUE /\ UNCHANGED <<started, ended, live, hot>>
TEnd     == IsEv("End") /\ quiesced /\ UNCHANGED <<started, ended, quiesced, live, hot>>
\* (no action for "Race" and "Crash": a data-race report or a crash is never a behaviour of the specification)

TraceNext == TTxStart \/ TTxEnd \/ TSession \/ THot \/ TQuiesce \/ TEnd
TraceSpec == TraceInit /\ [][TraceNext]_vars

HighWater == TLCSet(Trace[s0].t, Max(TLCGet(Trace[s0].t), l))
Rejected == {s \in Starts : TLCGet(Trace[s].t) # EndOf(s) + 1}
Post ==
  /\ PrintT(<<"TRACES", Cardinality(Starts), "REJECTED", Cardinality(Rejected)>>)
  /\ \A s \in Rejected :
       LET hw == TLCGet(Trace[s].t) IN
       PrintT(<<"REJECT", Trace[s].t, hw - s + 1, IF hw <= EndOf(s) THEN Trace[hw].ev ELSE "?">>)
=============================================================================
