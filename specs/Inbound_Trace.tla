---------------------------- MODULE Inbound_Trace ----------------------------
(* Trace validation for Inbound.tla (C15): every recorded execution of the real  *)
(* OnMessage -> branch commit/rollback processor -> manager cache -> response    *)
(* path must be a behaviour of Inbound.                                          *)
(*   Req    : the coordinator hands a request to the client's dispatch            *)
(*   Invoke : a (stub) resource manager is entered; what it was given             *)
(*   Ret    : the manager returns the scripted (status, error)                    *)
(*   Resp   : a branch commit/rollback response reaches the coordinator           *)
(*   End    : every delivery has returned; nothing else is coming                 *)
(* ResultCode/Msg of a response are recorded (code) but not constrained: the      *)
(* property speaks about message id, xid, branch id and status only.              *)
EXTENDS Inbound, Json, IOUtils

VARIABLES l, s0

Trace  == ndJsonDeserialize(IOEnv.TRACE_FILE)
Starts == {i \in 1..Len(Trace) : Trace[i].k = 1}
EndOf(s) == s + Trace[s].n - 1
Max(a, b) == IF a > b THEN a ELSE b

tvars == <<vars, l, s0>>

TraceInit ==
  \E s \in Starts :
    /\ s0 = s /\ l = s + 1
    /\ Trace[s].ev = "Start"
    /\ Init
    /\ TLCSet(Trace[s].t, s + 1)

IsEv(e) == /\ l <= EndOf(s0)
           /\ Trace[l].ev = e
           /\ l' = l + 1 /\ s0' = s0

E == Trace[l]

TReq    == IsEv("Req") /\ Dispatch(E.id, [kind |-> E.kind, btype |-> E.btype, xid |-> E.xid, bid |-> E.bid,
                                          rid |-> E.rid, status |-> E.status, err |-> E.err])
TInvoke == IsEv("Invoke") /\ Invoke(E.mgr, E.op, E.id, E.xid, E.bid, E.rid)
TRet    == IsEv("Ret") /\ Complete(E.id, E.status, E.err)
TResp   == IsEv("Resp") /\ Respond(E.id, E.kind, E.xid, E.bid, E.status)
TEnd    == IsEv("End") /\ Settled /\ UNCHANGED vars

TraceNext == TReq \/ TInvoke \/ TRet \/ TResp \/ TEnd
TraceSpec == TraceInit /\ [][TraceNext]_tvars

Invs == [RoutedByType |-> RoutedByType, AtMostOneReply |-> AtMostOneReply, Echo |-> Echo,
         StatusVerbatim |-> StatusVerbatim, NoFalseSuccess |-> NoFalseSuccess, Independence |-> Independence]
Failed == {i \in DOMAIN Invs : ~Invs[i]}

HighWater ==
  IF Failed = {} THEN TLCSet(Trace[s0].t, Max(TLCGet(Trace[s0].t), l))
  ELSE PrintT(<<"INVFAIL", Trace[s0].t, l - s0, Failed>>) /\ FALSE

Rejected == {s \in Starts : TLCGet(Trace[s].t) # EndOf(s) + 1}
Post ==
  /\ PrintT(<<"TRACES", Cardinality(Starts), "REJECTED", Cardinality(Rejected)>>)
  /\ \A s \in Rejected :
       LET hw == TLCGet(Trace[s].t) IN
       PrintT(<<"REJECT", Trace[s].t, hw - s + 1, IF hw <= EndOf(s) THEN Trace[hw].ev ELSE "?">>)
=============================================================================
