----------------------------- MODULE TCCFenceInd -----------------------------
(***************************************************************************)
(* C06, unbounded in the number of deliveries: an inductive invariant of   *)
(* the statement-level fence design of TCCFence.tla (one delivery in       *)
(* flight at a time, any statement may be failed by the database, any      *)
(* number of deliveries in any order over the branches), checked with      *)
(* Apalache:                                                               *)
(*                                                                         *)
(*   apalache-mc check --init=Init    --inv=IndInv --length=0 TCCFenceInd.tla   (base)      *)
(*   apalache-mc check --init=IndInit --inv=IndInv --length=1 TCCFenceInd.tla   (step)      *)
(*   apalache-mc check --init=IndInit --inv=Safety --length=0 TCCFenceInd.tla   (IndInv => Safety) *)
(*                                                                         *)
(* Not part of ./check (TLC covers the bounded instances and the races).   *)
(***************************************************************************)
EXTENDS Integers

Branches == 1..3
Phases   == {"prepare", "commit", "rollback"}
Status   == {"none", "tried", "committed", "rollbacked", "suspended"}
PCs      == {"idle", "begin", "ins", "query", "cas", "biz", "commit", "rollback"}

VARIABLES
  \* @type: Int -> Str;
  rec,
  \* @type: Int -> (Str -> Int);
  eff,
  \* @type: { pc: Str, b: Int, p: Str, wrec: Str, inc: Bool };
  f

IdleF == [pc |-> "idle", b |-> 1, p |-> "prepare", wrec |-> "-", inc |-> FALSE]

Init ==
  /\ rec = [b \in Branches |-> "none"]
  /\ eff = [b \in Branches |-> [p \in Phases |-> 0]]
  /\ f = IdleF

Start(b, p) ==
  /\ f.pc = "idle"
  /\ f' = [pc |-> "begin", b |-> b, p |-> p, wrec |-> "-", inc |-> FALSE]
  /\ UNCHANGED <<rec, eff>>

\* the database fails the statement: whatever it was, nothing of the delivery becomes durable
Fail ==
  /\ f.pc # "idle"
  /\ f' = IdleF
  /\ UNCHANGED <<rec, eff>>

To(pc) == f' = [f EXCEPT !.pc = pc]

Stmt ==
  /\ f.pc # "idle"
  /\ \/ /\ f.pc = "begin"
        /\ To(IF f.p = "prepare" THEN "ins" ELSE "query")
        /\ UNCHANGED <<rec, eff>>
     \/ /\ f.pc = "ins"
        /\ IF rec[f.b] # "none" THEN To("rollback")
           ELSE f' = [f EXCEPT !.wrec = IF f.p = "prepare" THEN "tried" ELSE "suspended",
                               !.pc = IF f.p = "prepare" THEN "biz" ELSE "commit"]
        /\ UNCHANGED <<rec, eff>>
     \/ /\ f.pc = "query"
        /\ LET st == rec[f.b] IN
           IF f.p = "commit"
           THEN IF st = "tried" THEN To("cas") ELSE IF st = "committed" THEN To("commit") ELSE To("rollback")
           ELSE IF st = "none" THEN To("ins")
                ELSE IF st = "tried" THEN To("cas")
                ELSE IF st = "committed" THEN To("rollback") ELSE To("commit")
        /\ UNCHANGED <<rec, eff>>
     \/ /\ f.pc = "cas"
        /\ IF rec[f.b] = "tried"
           THEN f' = [f EXCEPT !.wrec = IF f.p = "commit" THEN "committed" ELSE "rollbacked", !.pc = "biz"]
           ELSE To("rollback")
        /\ UNCHANGED <<rec, eff>>
     \/ /\ f.pc = "biz"
        /\ f' = [f EXCEPT !.inc = TRUE, !.pc = "commit"]
        /\ UNCHANGED <<rec, eff>>
     \/ /\ f.pc = "commit"
        /\ rec' = IF f.wrec = "-" THEN rec ELSE [rec EXCEPT ![f.b] = f.wrec]
        /\ eff' = IF f.inc THEN [eff EXCEPT ![f.b] = [@ EXCEPT ![f.p] = @ + 1]] ELSE eff
        /\ f' = IdleF
     \/ /\ f.pc = "rollback"
        /\ f' = IdleF
        /\ UNCHANGED <<rec, eff>>

Next ==
  \/ \E b \in Branches, p \in Phases : Start(b, p)
  \/ Fail
  \/ Stmt

-----------------------------------------------------------------------------
TypeOK ==
  /\ rec \in [Branches -> Status]
  /\ eff \in [Branches -> [Phases -> 0..2]]
  /\ f \in [pc : PCs, b : Branches, p : Phases, wrec : Status \union {"-"}, inc : BOOLEAN]

\* status / effect coupling
Coupled ==
  \A b \in Branches :
    /\ rec[b] \in {"none", "suspended"} => eff[b]["prepare"] = 0 /\ eff[b]["commit"] = 0 /\ eff[b]["rollback"] = 0
    /\ rec[b] = "tried"      => eff[b]["prepare"] = 1 /\ eff[b]["commit"] = 0 /\ eff[b]["rollback"] = 0
    /\ rec[b] = "committed"  => eff[b]["prepare"] = 1 /\ eff[b]["commit"] = 1 /\ eff[b]["rollback"] = 0
    /\ rec[b] = "rollbacked" => eff[b]["prepare"] = 1 /\ eff[b]["commit"] = 0 /\ eff[b]["rollback"] = 1

\* what the uncommitted writes of the delivery in flight are, given where it is
Writes(w, st) ==
  \/ f.p = "prepare"  /\ w = "tried"      /\ st = "none"
  \/ f.p = "commit"   /\ w = "committed"  /\ st = "tried"
  \/ f.p = "rollback" /\ w = "rollbacked" /\ st = "tried"

FlightOK ==
  /\ f.pc \in {"idle", "begin", "query", "ins", "cas"} => f.wrec = "-" /\ ~f.inc
  /\ f.pc = "ins" => f.p \in {"prepare", "rollback"}
  /\ f.pc \in {"query", "cas"} => f.p \in {"commit", "rollback"}
  /\ f.pc = "biz" => ~f.inc /\ Writes(f.wrec, rec[f.b])
  /\ f.pc = "commit" =>
       \/ f.wrec = "-" /\ ~f.inc
       \/ f.wrec = "suspended" /\ ~f.inc /\ f.p = "rollback" /\ rec[f.b] = "none"
       \/ f.inc /\ Writes(f.wrec, rec[f.b])

IndInv == TypeOK /\ Coupled /\ FlightOK

IndInit == IndInv

AtMostOnce == \A b \in Branches, p \in Phases : eff[b][p] <= 1
NotBoth == \A b \in Branches : eff[b]["commit"] + eff[b]["rollback"] <= 1
Safety == AtMostOnce /\ NotBoth
=============================================================================
