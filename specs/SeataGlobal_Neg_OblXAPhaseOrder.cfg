SPECIFICATION Spec
CONSTANTS
  G = {1, 2}
  Rows = {"r1"}
  Acts = {"a1"}
  MaxBranches = 2
  MaxDup = 1
  MaxForeign = 0
  AllowTimeout = TRUE
  OblTruthful = TRUE
  OblLockCover = TRUE
  OblDirtyRefused = TRUE
  OblIdempotent = TRUE
  OblMarker = TRUE
  OblFence = TRUE
  OblP1Atomic = TRUE
  OblLockQuery = TRUE
  AllowReads = FALSE
  OblHonest = TRUE
  AllowXA = TRUE
  OblXATruthful = TRUE
  OblXAPhaseOrder = FALSE
INVARIANTS TypeOK ATAtomicRollback TCCAtomic XAAtomic NoDirtyGlobalWrite RollbackPossible
CHECK_DEADLOCK FALSE
