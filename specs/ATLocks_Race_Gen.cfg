SPECIFICATION RSpec
CONSTANTS
  NKeys = 2
  MaxOps = 4
  WriteKinds = {"upd", "ups", "del"}
  AllowSfu = TRUE
  EndHows = {"commit"}
  AKinds = {"sfu", "sfux", "upd", "ups"}
  BKinds = {"upd", "ups", "del"}
  KeyPairs <- QuickPairs
  StmtPoints <- Stmt8
  Inits <- TwoInits
  Nested = TRUE
  EndAfterBoth = TRUE
  Strict = TRUE
INVARIANTS Dump
CHECK_DEADLOCK FALSE
