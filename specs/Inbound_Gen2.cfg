INIT Init
NEXT GenNext
CONSTANTS
  MaxReq = 2
  BTypes <- AllB
  Kinds <- AllK
  Outcomes <- FewOutcomes
  Places <- P3
  Rids = {1}
CONSTRAINT Canon
INVARIANTS Dump
CHECK_DEADLOCK FALSE
