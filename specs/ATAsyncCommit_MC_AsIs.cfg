\* The design of the code AS IT IS (blocking re-queue by the workers, batch abandoned after a failed
\* connection acquisition).  NOT part of ./check: TLC is EXPECTED TO FAIL here -
\*   CHAN=1 LIMIT=1 FANBUF=1 WORKERS=1 MAXREQ=4 NROWS=2 : NoWedge violated after 15 steps (EventuallyGone /
\*       EventuallyAnswered violated by stuttering in the wedged state when NoWedge is not listed)
\*   CHAN=2 LIMIT=3 FANBUF=1 WORKERS=2 MAXREQ=3         : NoneLost violated (contexts of the other resource
\*       of the batch dropped after a failed connection acquisition)
\* Both were reproduced on the real code (known findings F-C11-1, F-C11-2).  Setting CrossProduct = TRUE in
\* ATAsyncCommit_MC.cfg (one DELETE .. IN (..) AND .. IN (..) per group) violates OnlyAccepted.
SPECIFICATION Spec
CONSTANTS
  Res <- MCRes
  Xids <- MCXids
  Bids <- MCBids
  ReqRows <- MCReqRows
  ReceiveChanSize <- EnvChan
  BufferLimit <- EnvLimit
  CommitWorkerBufferSize <- EnvFan
  NWorkers <- EnvWorkers
  MaxReq <- EnvMaxReq
  MaxConnFail = 1
  MaxDelFail = 1
  LateRes <- MCLate
  BlockingRequeue = TRUE
  ConnFailAborts = TRUE
  CrossProduct = FALSE
INVARIANTS TypeOK OnlyAccepted AlwaysCommitted NoneLost NoWedge
PROPERTIES EventuallyAnswered EventuallyGone
CHECK_DEADLOCK FALSE
