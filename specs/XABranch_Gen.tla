---------------------------- MODULE XABranch_Gen ----------------------------
(* The environment's choice space for one XA branch (C17).  TLC enumerates it; the expected         *)
(* behaviour is XABranch's, checked on the recorded trace of each replay.                            *)
(*   kind    business statement                                                                      *)
(*   mode    autocommit use (db.ExecContext) | explicit transaction (BeginTx .. Commit)               *)
(*   reg     the coordinator's answer to BranchRegister: grant | refusal | transport error            *)
(*   failAt  index of the client statement, counted from the start of the call, that the database     *)
(*           fails (1 = XA START, 2 = business statement, 3 = XA END, 4 = XA PREPARE, 5.. = whatever   *)
(*           else the client may send), 0 = none                                                      *)
(*   p2      what the transaction manager decides when phase one returned nil (else: rollback)        *)
(*   how     phase two delivered once | twice | first delivery meets a database fault, then retried | *)
(*           after the process died and a new one took over | on another process while the first is   *)
(*           alive (only where the server detaches prepared branches, >= 8.0.29)                       *)
(*   ver     server version: prepared branch attached to its connection (8.0.28) | detached (8.0.30)  *)
(*   reuse   1: the pooled connection has served a complete XA transaction before;                    *)
(*           3: the pooled connection has rolled a branch back in phase one before (failed statement); *)
(*           2: another global transaction runs its phase one on the pool between this branch's       *)
(*              phase one and its phase two (its own statements are not part of the trace)            *)
(*   early   (leg xab-early only) the coordinator does not wait for the application: it sends BranchRollback   *)
(*           while phase one is still running - when the named statement of the branch is in flight at the     *)
(*           database (held in memsql's statement gate): XA START | the business statement | XA END |          *)
(*           XA PREPARE; afterwards it retries the rollback as `how` says                                      *)
EXTENDS Integers, Sequences, TLC, IOUtils

Scen == {s \in [kind : {"ins", "upd", "del", "sel"}, mode : {"auto", "explicit"}, reg : {"ok", "fail", "neterr"},
               failAt : 0..8, p2 : {"commit", "rollback"}, how : {"once", "dup", "retry", "restart", "other"},
               ver : {"8.0.28", "8.0.30"}, reuse : {0, 1, 2, 3}, ca : {0, 1}] :
           \* ca = 1: the application ignores the error of the failed business statement and calls tx.Commit() all the same
           /\ s.ca = 1 => (s.mode = "explicit" /\ s.failAt = 2 /\ s.how = "once" /\ s.reuse = 0 /\ s.reg = "ok")
           /\ s.reg # "ok" => (s.failAt = 0 /\ s.p2 = "rollback" /\ s.how = "once" /\ s.reuse = 0)
           /\ s.how = "other" => s.ver = "8.0.30"
           /\ s.failAt >= 5 => s.how = "once"
           /\ s.reuse = 1 => (s.how = "once" /\ s.failAt \in {0, 2})
           /\ s.reuse = 2 => (s.how \in {"once", "dup"} /\ s.failAt = 0)
           /\ s.reuse = 3 => (s.how = "once" /\ s.failAt \in {0, 2, 3, 4})}

\* the slow leg: the business statement takes longer than the configured branch execution timeout
\* (xa_branch_execution_timeout); the client must then end the branch, roll it back and return an error
SlowScen == {s \in Scen : s.failAt = 0 /\ s.reg = "ok" /\ s.how = "once" /\ s.reuse = 0}

\* the early leg: the coordinator's rollback overtakes phase one (XABranch!P2Early).  The statement the rollback
\* arrives at is the client's statement number StmtNo(early); a database fault, if any, hits that statement or a later
\* one (an earlier fault ends phase one before the rollback could arrive: that is a scenario of the base set).
StmtNo(e) == CASE e = "start" -> 1 [] e = "dml" -> 2 [] e = "end" -> 3 [] e = "prepare" -> 4
EarlyScen == {s \in [kind : {"upd", "sel"}, mode : {"auto", "explicit"}, reg : {"ok"}, failAt : {0, 2, 3, 4}, p2 : {"rollback"},
                     how : {"once", "retry", "restart"}, ver : {"8.0.28", "8.0.30"}, reuse : {0, 1}, ca : {0},
                     early : {"start", "dml", "end", "prepare"}] :
                /\ s.failAt # 0 => (s.failAt >= StmtNo(s.early) /\ s.how = "once" /\ s.reuse = 0)
                /\ s.reuse = 1 => s.how = "once"}

VARIABLE sc
GenInit == sc \in Scen
GenInitSlow == sc \in SlowScen
GenInitEarly == sc \in EarlyScen
GenNext == UNCHANGED sc
ScenFile == IOEnv.SCEN_FILE
Dump ==
  LET r == Serialize(<<sc>>, ScenFile, [format |-> "NDJSON", charset |-> "UTF-8",
                                        openOptions |-> <<"WRITE", "CREATE", "APPEND">>])
  IN r = r
=============================================================================
