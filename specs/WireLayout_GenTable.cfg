INIT TableInit
NEXT GenNext
INVARIANTS Dump
CHECK_DEADLOCK FALSE
