------------------------------ MODULE TCCFence ------------------------------
(***************************************************************************)
(* C06 - TCC fence: idempotence, anti-suspension and empty rollback.       *)
(*                                                                         *)
(* Code: fence.WithFence / DoFence (pkg/rm/tcc/fence/fence_api.go), the    *)
(* fence handler (handler/tcc_fence_wrapper_handler.go), the DAO           *)
(* (store/db/dao/tcc_fence_db.go) and its SQL, the fence driver            *)
(* (fence_driver_conn.go, fence_driver_tx.go).                             *)
(*                                                                         *)
(* The database is abstract: per branch the committed fence row            *)
(* rec[b] (or "none") and the committed business-effect counters           *)
(* eff[b][phase].  The business callback writes its effect in the SAME     *)
(* local transaction as the fence row.                                     *)
(*                                                                         *)
(* The module has two layers.                                              *)
(*  1. The contract of one delivery seen from outside (Normal, Failed,     *)
(*     Step, RaceStep): what the caller and the database may observe.      *)
(*     The trace specification checks the real code against this layer,    *)
(*     with the complete (rec, eff) state compared after every delivery.   *)
(*  2. The design: a delivery as a sequence of client statements           *)
(*     Begin -> Insert(tried) | Query FOR UPDATE -> compare-and-set |      *)
(*     Insert(suspended) -> Business -> Commit / Rollback, any of which    *)
(*     the database may fail, and two deliveries for one branch running    *)
(*     on two connections, serialised by the row lock / the unique key.    *)
(*     TLC checks that every completed delivery of the design is a step    *)
(*     of the contract and that the invariants hold, and enumerates the    *)
(*     environment (delivery sequences, fault positions, interleavings).   *)
(***************************************************************************)
EXTENDS Integers, Sequences, FiniteSets, TLC

CONSTANTS
  NBranches,   \* branches sharing the fence table: 1..NBranches
  MaxDeliver,  \* deliveries per scenario (a racing pair counts as two)
  MaxFaults,   \* injected database failures per scenario
  FailPoints,  \* statement indices of a delivery at which a failure may be injected (0 = none)
  MaxRace,     \* racing pairs per scenario
  Locking      \* BOOLEAN: the row lock / unique key makes a rival wait (TRUE in the design; FALSE only to
               \* enumerate every statement interleaving as a schedule for the real code, whose database decides)

Branches == 1..NBranches
Phases   == {"prepare", "commit", "rollback"}
Status   == {"none", "tried", "committed", "rollbacked", "suspended"}

VARIABLES
  rec,     \* Branches -> Status : the committed fence row of the branch
  eff,     \* Branches -> [Phases -> Nat] : committed business effects (try / confirm / cancel)
  fl,      \* 1..2 -> in-flight delivery or Idle (slot 2 is used by the second racer only)
  last,    \* what the caller observed from the delivery that completed last
  nfault, ndel, nrace,  \* generation bounds
  env      \* history: the scenario

vars == <<rec, eff, fl, last, nfault, ndel, nrace, env>>

-----------------------------------------------------------------------------
(* Layer 1: the contract of one delivery.                                   *)
(* An outcome is [rec: the status of the branch afterwards, inc: whether   *)
(* the business effect of the delivered phase was applied (exactly once),  *)
(* err: whether the call returned an error].  Nothing else may change.     *)

Outcome == [rec : Status, inc : BOOLEAN, err : BOOLEAN]
Out(s, i, e) == [rec |-> s, inc |-> i, err |-> e]
Either(s) == {Out(s, FALSE, e) : e \in BOOLEAN}   \* no change; the property does not fix the reply

\* st: status of the branch when the delivery takes effect
Normal(st, p) ==
  CASE p = "prepare" ->
         (CASE st = "none"      -> {Out("tried", TRUE, FALSE)}
            [] st = "suspended" -> {Out(st, FALSE, TRUE)}        \* AntiSuspension: refused
            [] OTHER            -> Either(st))                   \* duplicate try: never a second effect
    [] p = "commit" ->
         (CASE st = "tried"     -> {Out("committed", TRUE, FALSE)}
            [] st = "committed" -> {Out(st, FALSE, FALSE)}       \* duplicate: nil, no second effect
            [] OTHER            -> Either(st))                   \* none, rollbacked, suspended: no confirm
    [] p = "rollback" ->
         (CASE st = "none"       -> {Out("suspended", FALSE, FALSE)}  \* EmptyRollback
            [] st = "tried"      -> {Out("rollbacked", TRUE, FALSE)}
            [] st = "rollbacked" -> {Out(st, FALSE, FALSE)}      \* duplicate: nil, no second effect
            [] OTHER             -> Either(st))                  \* suspended, committed: no cancel

\* the delivery failed as a whole: error, nothing changed (a database failure, a lost race)
Failed(st) == Out(st, FALSE, TRUE)

Outs(st, p, lenient) == Normal(st, p) \cup (IF lenient THEN {Failed(st)} ELSE {})

Bump(e, p, o) == [e EXCEPT ![p] = @ + (IF o.inc THEN 1 ELSE 0)]

\* one whole delivery; lenient: a database failure was injected into it
Step(b, p, lenient, o) ==
  /\ o \in Outs(rec[b], p, lenient)
  /\ rec' = [rec EXCEPT ![b] = o.rec]
  /\ eff' = [eff EXCEPT ![b] = Bump(@, p, o)]

\* two deliveries for one branch racing: some serial order; the loser of a lock / unique-key conflict
\* may fail as a whole.  o1 belongs to p1, o2 to p2.
RaceStep(b, p1, p2, o1, o2) ==
  \/ /\ o1 \in Outs(rec[b], p1, TRUE) /\ o2 \in Outs(o1.rec, p2, TRUE)
     /\ rec' = [rec EXCEPT ![b] = o2.rec]
     /\ eff' = [eff EXCEPT ![b] = Bump(Bump(@, p1, o1), p2, o2)]
  \/ /\ o2 \in Outs(rec[b], p2, TRUE) /\ o1 \in Outs(o2.rec, p1, TRUE)
     /\ rec' = [rec EXCEPT ![b] = o1.rec]
     /\ eff' = [eff EXCEPT ![b] = Bump(Bump(@, p2, o2), p1, o1)]

-----------------------------------------------------------------------------
(* Layer 2: the design at statement granularity.                            *)

Idle == [pc |-> "idle"]
\* pc: the statement the delivery issues next
\* n: statements issued so far; fail: index of the statement the database fails (0: none)
\* seen: what the query returned; wrec: uncommitted fence-row write ("-": none); inc: uncommitted
\* business effect; lk: holds the row lock / the unique-key lock of its branch; raced: has a rival
Flight(b, p, fail, raced) ==
  [pc |-> "begin", b |-> b, p |-> p, n |-> 0, fail |-> fail, fired |-> FALSE, seen |-> "-",
   wrec |-> "-", inc |-> FALSE, lk |-> FALSE, err |-> FALSE, raced |-> raced]

Slots == {1, 2}
Other(i) == 3 - i
Blocked(i) == LET o == fl[Other(i)] IN Locking /\ o.pc # "idle" /\ o.b = fl[i].b /\ o.lk

Init ==
  /\ rec = [b \in Branches |-> "none"]
  /\ eff = [b \in Branches |-> [p \in Phases |-> 0]]
  /\ fl = [i \in Slots |-> Idle]
  /\ last = [op |-> "init"]
  /\ nfault = 0 /\ ndel = 0 /\ nrace = 0
  /\ env = <<>>

AllIdle == \A i \in Slots : fl[i].pc = "idle"

\* the environment delivers one phase of one branch, possibly with a database failure at statement fail
Deliver(b, p, fail) ==
  /\ AllIdle /\ ndel < MaxDeliver
  /\ fail \in FailPoints /\ (fail # 0 => nfault < MaxFaults)
  /\ fl' = [fl EXCEPT ![1] = Flight(b, p, fail, FALSE)]
  /\ ndel' = ndel + 1
  /\ nfault' = IF fail # 0 THEN nfault + 1 ELSE nfault
  /\ last' = [op |-> "deliver", b |-> b, p |-> p]
  /\ env' = Append(env, [op |-> "deliver", b |-> b, phase |-> p, fail |-> fail])
  /\ UNCHANGED <<rec, eff, nrace>>

\* two deliveries for the same branch are released together
Race(b, p1, p2) ==
  /\ AllIdle /\ ndel + 2 <= MaxDeliver /\ nrace < MaxRace
  /\ fl' = [i \in Slots |-> Flight(b, IF i = 1 THEN p1 ELSE p2, 0, TRUE)]
  /\ ndel' = ndel + 2 /\ nrace' = nrace + 1
  /\ last' = [op |-> "race", b |-> b]
  /\ env' = Append(env, [op |-> "race", b |-> b, phases |-> <<p1, p2>>, order |-> <<>>])
  /\ UNCHANGED <<rec, eff, nfault>>

\* the delivery in slot i ends: what the caller sees
Finish(f, err) == [op |-> "result", b |-> f.b, p |-> f.p, err |-> err, fired |-> f.fired, raced |-> f.raced]

\* the history of a race records which connection issued each statement
Sched(i) == IF fl[i].raced
            THEN env' = [env EXCEPT ![Len(env)].order = Append(@, i)]
            ELSE UNCHANGED env

\* Slot i issues its next client statement.
Stmt(i) ==
  LET f  == fl[i]
      b  == f.b
      n1 == f.n + 1
      g  == [f EXCEPT !.n = n1]
      To(pc) == fl' = [fl EXCEPT ![i] = [g EXCEPT !.pc = pc]]
      Abort  == fl' = [fl EXCEPT ![i] = [g EXCEPT !.pc = "rollback", !.err = TRUE]]
  IN
  /\ f.pc \notin {"idle"}
  /\ Sched(i)
  /\ IF n1 = f.fail
     THEN \* the database fails this statement, whatever it is
          LET h == [g EXCEPT !.fired = TRUE, !.err = TRUE] IN
          IF f.pc \in {"begin", "commit", "rollback"}
          THEN \* no transaction / a failed COMMIT leaves nothing behind / the connection is dropped
               /\ fl' = [fl EXCEPT ![i] = Idle]
               /\ last' = Finish(h, TRUE)
               /\ UNCHANGED <<rec, eff>>
          ELSE /\ fl' = [fl EXCEPT ![i] = [h EXCEPT !.pc = "rollback"]]
               /\ UNCHANGED <<rec, eff, last>>
     ELSE
     CASE f.pc = "begin" ->
            /\ To(IF f.p = "prepare" THEN "ins" ELSE "query")
            /\ UNCHANGED <<rec, eff, last>>
       [] f.pc = "ins" ->
            \* insert the fence row (tried for a try, suspended for an empty rollback); waits for a rival
            \* that holds the key; a committed row is a duplicate key
            /\ ~Blocked(i)
            /\ IF rec[b] # "none" THEN Abort
               ELSE fl' = [fl EXCEPT ![i] = [g EXCEPT !.wrec = IF f.p = "prepare" THEN "tried" ELSE "suspended",
                                                      !.lk = TRUE,
                                                      !.pc = IF f.p = "prepare" THEN "biz" ELSE "commit"]]
            /\ UNCHANGED <<rec, eff, last>>
       [] f.pc = "query" ->
            \* SELECT .. FOR UPDATE: locks the row if there is one
            /\ ~Blocked(i)
            /\ LET st == rec[b]
                   q  == [g EXCEPT !.seen = st, !.lk = (st # "none")]
                   Go(pc, err) == fl' = [fl EXCEPT ![i] = [q EXCEPT !.pc = pc, !.err = err]]
               IN CASE f.p = "commit" ->
                         (CASE st = "tried"     -> Go("cas", FALSE)
                            [] st = "committed" -> Go("commit", FALSE)     \* nothing to do, nil
                            [] OTHER            -> Go("rollback", TRUE))
                    [] f.p = "rollback" ->
                         (CASE st = "none"      -> Go("ins", FALSE)
                            [] st = "tried"     -> Go("cas", FALSE)
                            [] st = "committed" -> Go("rollback", TRUE)
                            [] OTHER            -> Go("commit", FALSE))    \* rollbacked / suspended: nil
            /\ UNCHANGED <<rec, eff, last>>
       [] f.pc = "cas" ->
            \* UPDATE .. SET status = new WHERE .. AND status = tried (under the row lock)
            /\ IF rec[b] = "tried"
               THEN fl' = [fl EXCEPT ![i] = [g EXCEPT !.wrec = IF f.p = "commit" THEN "committed" ELSE "rollbacked",
                                                      !.pc = "biz"]]
               ELSE Abort
            /\ UNCHANGED <<rec, eff, last>>
       [] f.pc = "biz" ->
            \* the business callback writes its effect in the same local transaction
            /\ fl' = [fl EXCEPT ![i] = [g EXCEPT !.inc = TRUE, !.pc = "commit"]]
            /\ UNCHANGED <<rec, eff, last>>
       [] f.pc = "commit" ->
            /\ rec' = IF f.wrec = "-" THEN rec ELSE [rec EXCEPT ![b] = f.wrec]
            /\ eff' = IF f.inc THEN [eff EXCEPT ![b][f.p] = @ + 1] ELSE eff
            /\ fl' = [fl EXCEPT ![i] = Idle]
            /\ last' = Finish(g, FALSE)
       [] f.pc = "rollback" ->
            /\ fl' = [fl EXCEPT ![i] = Idle]
            /\ last' = Finish(g, TRUE)
            /\ UNCHANGED <<rec, eff>>
  /\ UNCHANGED <<nfault, ndel, nrace>>

Next ==
  \/ \E b \in Branches, p \in Phases, f \in FailPoints : Deliver(b, p, f)
  \/ \E b \in Branches, p1 \in Phases, p2 \in Phases : Race(b, p1, p2)
  \/ \E i \in Slots : Stmt(i)

Spec == Init /\ [][Next]_vars

-----------------------------------------------------------------------------
(* Properties *)

TypeOK ==
  /\ rec \in [Branches -> Status]
  /\ eff \in [Branches -> [Phases -> Nat]]

\* each of the try, confirm and cancel effects is applied at most once
AtMostOnce == \A b \in Branches, p \in Phases : eff[b][p] <= 1

\* confirm and cancel are never both applied
NotBoth == \A b \in Branches : eff[b]["commit"] + eff[b]["rollback"] <= 1

\* the committed record and the committed effects always tell the same story
Coupled ==
  \A b \in Branches :
    LET e == eff[b] IN
    CASE rec[b] = "none"       -> e["prepare"] = 0 /\ e["commit"] = 0 /\ e["rollback"] = 0
      [] rec[b] = "suspended"  -> e["prepare"] = 0 /\ e["commit"] = 0 /\ e["rollback"] = 0
      [] rec[b] = "tried"      -> e["prepare"] = 1 /\ e["commit"] = 0 /\ e["rollback"] = 0
      [] rec[b] = "committed"  -> e["prepare"] = 1 /\ e["commit"] = 1 /\ e["rollback"] = 0
      [] rec[b] = "rollbacked" -> e["prepare"] = 1 /\ e["commit"] = 0 /\ e["rollback"] = 1

\* a step completes the delivery of slot i
Completes(i) == fl[i].pc # "idle" /\ fl'[i].pc = "idle"
Observed(i) == Out(rec'[fl[i].b], eff'[fl[i].b][fl[i].p] = eff[fl[i].b][fl[i].p] + 1, last'.err)

\* Together: record and effect change in the same commit or not at all
Together ==
  [][\A b \in Branches :
       /\ (eff'[b] # eff[b] => rec'[b] # rec[b])
       /\ (rec'[b] # rec[b] /\ rec'[b] # "suspended" => eff'[b] # eff[b])]_vars

\* every completed delivery is a step of the contract (lenient iff a failure was injected or it raced)
Contract ==
  [][\A i \in Slots : Completes(i) =>
       LET f == fl[i] IN
       /\ Observed(i) \in Outs(rec[f.b], f.p, last'.fired \/ f.raced)
       /\ \A c \in Branches \ {f.b} : rec'[c] = rec[c] /\ eff'[c] = eff[c]
       /\ \A q \in Phases \ {f.p} : eff'[f.b][q] = eff[f.b][q]
       /\ eff'[f.b][f.p] \in {eff[f.b][f.p], eff[f.b][f.p] + 1}]_vars

\* the named cases of the property, for an undisturbed delivery
Undisturbed(i) == Completes(i) /\ ~last'.fired /\ ~fl[i].raced

EmptyRollback ==
  [][\A i \in Slots : Undisturbed(i) /\ fl[i].p = "rollback" /\ rec[fl[i].b] = "none" =>
       rec'[fl[i].b] = "suspended" /\ eff' = eff /\ ~last'.err]_vars

AntiSuspension ==
  [][\A i \in Slots : Completes(i) /\ fl[i].p = "prepare" /\ rec[fl[i].b] = "suspended" =>
       rec' = rec /\ eff' = eff /\ last'.err]_vars

DuplicateReply ==
  [][\A i \in Slots : Undisturbed(i) /\
       ((fl[i].p = "commit" /\ rec[fl[i].b] = "committed") \/ (fl[i].p = "rollback" /\ rec[fl[i].b] = "rollbacked")) =>
       rec' = rec /\ eff' = eff /\ ~last'.err]_vars

NoCross ==
  [][\A i \in Slots : Completes(i) /\
       ((fl[i].p = "commit" /\ rec[fl[i].b] \in {"rollbacked", "suspended"}) \/
        (fl[i].p = "rollback" /\ rec[fl[i].b] = "committed")) =>
       rec' = rec /\ eff' = eff]_vars

\* an undisturbed delivery on a fresh / tried branch does its work (the fence is not vacuous)
Progress ==
  [][\A i \in Slots : Undisturbed(i) =>
       /\ (fl[i].p = "prepare" /\ rec[fl[i].b] = "none" => rec'[fl[i].b] = "tried" /\ ~last'.err)
       /\ (fl[i].p = "commit" /\ rec[fl[i].b] = "tried" => rec'[fl[i].b] = "committed" /\ ~last'.err)
       /\ (fl[i].p = "rollback" /\ rec[fl[i].b] = "tried" => rec'[fl[i].b] = "rollbacked" /\ ~last'.err)]_vars

\* two racers never wait for each other (the design has no deadlock between the two connections)
NoDeadlock == ~(fl[1].pc # "idle" /\ fl[2].pc # "idle" /\
                fl[1].pc \in {"ins", "query"} /\ fl[2].pc \in {"ins", "query"} /\ Blocked(1) /\ Blocked(2))
=============================================================================
