INIT GenInitSlow
NEXT GenNext
INVARIANTS Dump
CHECK_DEADLOCK FALSE
