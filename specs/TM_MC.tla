------------------------------ MODULE TM_MC ------------------------------
EXTENDS TM, IOUtils

AllModes == {"Required", "Supports", "Mandatory", "RequiresNew", "NotSupported", "Never"}
EnvMaxRetry == atoi(IOEnv.MAXRETRY)
EnvMaxKids  == atoi(IOEnv.MAXKIDS)
EnvMaxDepth == atoi(IOEnv.MAXDEPTH)

View == <<stack, tclog, nxid, cancelled, decided, budget>>

ScenFile == IOEnv.SCEN_FILE
Dump ==
  Finished =>
    LET r == Serialize(<<[steps |-> env, maxretry |-> budget]>>, ScenFile,
                       [format |-> "NDJSON", charset |-> "UTF-8",
                        openOptions |-> <<"WRITE", "CREATE", "APPEND">>])
    IN r = r
=============================================================================
