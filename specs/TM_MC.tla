------------------------------ MODULE TM_MC ------------------------------
EXTENDS TM, IOUtils

AllModes == {"Required", "Supports", "Mandatory", "RequiresNew", "NotSupported", "Never"}
EnvMaxRetryC == atoi(IOEnv.MAXRETRYC)
EnvMaxRetryR == atoi(IOEnv.MAXRETRYR)
EnvMaxKids  == atoi(IOEnv.MAXKIDS)
EnvMaxDepth == atoi(IOEnv.MAXDEPTH)

View == <<stack, tclog, nxid, cancelled, decided, budget>>

ScenFile == IOEnv.SCEN_FILE
Dump ==
  Finished =>
    LET r == Serialize(<<[steps |-> env, retryc |-> budget.commit, retryr |-> budget.rollback]>>, ScenFile,
                       [format |-> "NDJSON", charset |-> "UTF-8",
                        openOptions |-> <<"WRITE", "CREATE", "APPEND">>])
    IN r = r
=============================================================================
