INIT Init
NEXT Next
CONSTANTS
  NKeys = 2
  MaxOps = 3
  WriteKinds = {"upd"}
  AllowSfu = TRUE
  EndHows = {"commit"}
INVARIANTS Dump
CHECK_DEADLOCK FALSE
