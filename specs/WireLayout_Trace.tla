-------------------------- MODULE WireLayout_Trace --------------------------
(* Trace validation for WireLayout.tla (C12): every recorded passage of a message     *)
(* through the real codec.GetCodecManager().Encode / Decode, and the codec look-ups   *)
(* of the registration round, must be a behaviour of WireLayout.  One initial state   *)
(* per recorded trace (DESIGN App. A).                                                *)
(*                                                                                    *)
(* Division of labour: byte equality with the table interpreter's output (`same`),    *)
(* equality of the decoded message with the wire-normal message and independence of   *)
(* trailing bytes (`same`, `all`) are computed in Go from the exported table; TLC      *)
(* checks the flags, recomputes the body length from the abstract message (`len`),    *)
(* judges whether the cut the encoder made is an allowed one (`cut`), and checks the  *)
(* type codes and the completeness of the registration round.                         *)
EXTENDS WireLayout, Json, IOUtils

VARIABLES l,    \* next line of Trace to consume
          s0    \* first line of the trace this behaviour validates

Trace  == ndJsonDeserialize(IOEnv.TRACE_FILE)
Starts == {i \in 1..Len(Trace) : Trace[i].k = 1}
EndOf(s) == s + Trace[s].n - 1
Max(a, b) == IF a > b THEN a ELSE b

tvars == <<vars, l, s0>>

TraceInit ==
  \E s \in Starts :
    /\ s0 = s /\ l = s + 1
    /\ Trace[s].ev = "Start"
    /\ ty = Trace[s].ty
    /\ IF Trace[s].ty = "*"
       THEN m = <<>> /\ st = "reg"
       ELSE /\ Trace[s].ty \in Types
            /\ m = Trace[s].m
            /\ DOMAIN m = Names(ty)
            /\ st = "start"
    /\ w = <<>> /\ seen = {}
    /\ TLCSet(Trace[s].t, s + 1)

IsEv(e) == /\ l <= EndOf(s0)
           /\ Trace[l].ev = e
           /\ l' = l + 1 /\ s0' = s0

\* the real encoder produced exactly the bytes of the v1 layout for the message cut to `cut` bytes,
\* the cut is an allowed one and the body has the length the specification computes
TEncode == /\ IsEv("Encode")
           /\ Trace[l].same = TRUE
           /\ Trace[l].stable = TRUE   \* the returned body is still the same bytes after later encodes (no shared buffer)
           /\ Encode(Trace[l].cut)
           /\ Trace[l].len = WireLen(Enc(ty, w'))

\* the real decoder returned the wire-normal message and is not influenced by bytes after the body
TDecode == /\ IsEv("Decode")
           /\ Trace[l].same = TRUE /\ Trace[l].all = TRUE
           /\ Decode

\* a codec is registered under the message's own type code, which is the v1 code
TRegistered == /\ IsEv("Registered")
               /\ Trace[l].found = TRUE /\ Trace[l].code = TRUE
               /\ Lookup(Trace[l].mt)
               /\ Trace[l].tc = Code[Trace[l].mt]

\* The look-ups are recorded one trace per type (so that one unregistered type does not hide the
\* others behind the same rejection); the summary trace lists every type that was looked up.
TRound == /\ IsEv("Round")
          /\ st = "reg" /\ seen = {}
          /\ {Trace[l].types[i] : i \in 1..Len(Trace[l].types)} = Client
          /\ seen' = Client
          /\ UNCHANGED <<ty, m, w, st>>

TEnd == /\ IsEv("End")
        /\ IF st = "reg"
           THEN \/ Finish                                             \* the summary trace
                \/ Cardinality(seen) = 1 /\ UNCHANGED vars             \* the trace of one look-up
           ELSE st = "decoded" /\ UNCHANGED vars

TraceNext == TEncode \/ TDecode \/ TRegistered \/ TRound \/ TEnd
TraceSpec == TraceInit /\ [][TraceNext]_tvars

\* invariants of WireLayout evaluated in every state of every recorded behaviour
Invs == [RoundTrip |-> RoundTrip, TruncKeepsDecodable |-> TruncKeepsDecodable,
         InLimits |-> ((ty \in Types) => InLimits(ty, m))]
Failed == {i \in DOMAIN Invs : ~Invs[i]}

HighWater ==
  IF Failed = {} THEN TLCSet(Trace[s0].t, Max(TLCGet(Trace[s0].t), l))
  ELSE PrintT(<<"INVFAIL", Trace[s0].t, l - s0, Failed>>) /\ FALSE

Rejected == {s \in Starts : TLCGet(Trace[s].t) # EndOf(s) + 1}
Post ==
  /\ PrintT(<<"TRACES", Cardinality(Starts), "REJECTED", Cardinality(Rejected)>>)
  /\ \A s \in Rejected :
       LET hw == TLCGet(Trace[s].t) IN
       PrintT(<<"REJECT", Trace[s].t, hw - s + 1, IF hw <= EndOf(s) THEN Trace[hw].ev ELSE "?">>)
  \* coverage per message type: traces recorded / accepted
  /\ \A t \in Types \cup {"*"} :
       PrintT(<<"COVER", t, Cardinality({s \in Starts : Trace[s].ty = t}),
                "ACCEPTED", Cardinality({s \in Starts \ Rejected : Trace[s].ty = t})>>)
=============================================================================
