----------------------------- MODULE SeataGlobal -----------------------------
(***************************************************************************)
(* The umbrella specification: transaction initiators (TM), AT and TCC     *)
(* resource managers (RM) of the Go client, and an abstract coordinator    *)
(* (TC), composed.  It has no code binding of its own.  The client-side    *)
(* steps are constrained by exactly the obligations the component          *)
(* specifications establish on the real code:                              *)
(*                                                                         *)
(*   TM.tla          (C04, C07)  one truthful decision per global          *)
(*                               transaction, only by its launcher         *)
(*   ATPhaseOne.tla  (C02)       business writes + undo log commit         *)
(*                               together, after the branch is registered  *)
(*   ATLocks.tla     (C03)       the registration names every written row  *)
(*   ATRollback.tla  (C01,C09,C10) rollback restores exactly, refuses      *)
(*                               dirty rows, is idempotent, marker blocks  *)
(*                               a late phase one                          *)
(*   ATAsyncCommit   (C11)       commit only deletes undo logs             *)
(*   TCCBranch/Fence (C05, C06)  try/confirm/cancel at most once, not      *)
(*                               both, empty rollback + anti-suspension    *)
(*   XABranch.tla    (C17)       an XA branch is prepared before phase one *)
(*                               reports success, a failed phase one is    *)
(*                               rolled back AND surfaces as an error,     *)
(*                               phase two reaches exactly its own branch  *)
(*   Inbound/Rpc     (C14, C15)  phase-two requests are answered           *)
(*                               truthfully (duplicates and losses are the *)
(*                               environment's here)                       *)
(*                                                                         *)
(* and TLC checks that together with a coordinator that behaves like       *)
(* Seata's they give what users rely on: global atomicity (all branches    *)
(* take effect or none does) and write isolation between global           *)
(* transactions.  This is why the twenty listed properties are the right   *)
(* ones: drop one obligation below (e.g. let a rollback overwrite a        *)
(* foreign write, let a registration miss a row, let the TM send both      *)
(* decisions) and an invariant here fails - the negative configurations    *)
(* in SeataGlobal_Neg*.cfg show it.                                        *)
(*                                                                         *)
(* Also modelled beyond the listed properties: coordinator-initiated       *)
(* rollback of a running transaction (global timeout), message loss and    *)
(* duplication on the phase-two path, retries of the coordinator, a mixed  *)
(* AT + TCC transaction.                                                   *)
(***************************************************************************)
EXTENDS Integers, Sequences, FiniteSets, TLC

CONSTANTS
  G,            \* global transactions, e.g. {1, 2}
  Rows,         \* AT rows, e.g. {"r1", "r2"}
  Acts,         \* TCC actions, e.g. {"a1"}
  MaxBranches,  \* branches per global transaction
  MaxDup,       \* extra deliveries of one phase-two request (duplication / coordinator retry)
  AllowTimeout, \* BOOLEAN: the coordinator may roll back a running transaction on its own (timeout)
  MaxForeign,   \* writes by somebody outside any global transaction (no global lock consulted)
  \* obligations that can be switched off to see what breaks (all TRUE = the verified client)
  OblTruthful,       \* C04: the TM's decision follows the business outcome, and only one kind is sent
  OblLockCover,      \* C03: every written row is named in the registration
  OblDirtyRefused,   \* C09: a rollback refuses rows somebody else has changed
  OblIdempotent,     \* C10: a repeated rollback does nothing
  OblMarker,         \* C10: a rollback that finds no undo log leaves a marker, on which a late flush of the branch fails
  OblFence,          \* C06: confirm/cancel at most once and never both; empty rollback suspends
  OblP1Atomic,       \* C02: business writes and the undo log are committed together (or not at all)
  OblLockQuery,      \* C03: a locking read returns rows only after the coordinator confirmed they are lockable
  AllowReads,        \* BOOLEAN: locking reads (SELECT .. FOR UPDATE inside a global transaction) take part
  OblHonest,         \* C01/C15: 'rollbacked' is answered only when the rows are restored and the undo log is gone
  AllowXA,           \* BOOLEAN: XA branches take part
  OblXATruthful,     \* C17: a phase one that failed (branch rolled back in the database) surfaces as an error
  OblXAPhaseOrder    \* C17: phase two leaves a branch alone whose phase one is still running (it answers "retry later")

NoG == 0
Foreign == -1   \* content written by somebody outside any global transaction

VARIABLES
  \* ---- coordinator
  gst,        \* G -> "none" | "begun" | "committing" | "rollbacking" | "committed" | "rollbacked"
  branches,   \* G -> sequence of [kind: "AT"|"TCC", rows/act, st: "registered"|"p1done"|"p1failed"|"committed"|"rollbacked"]
  lock,       \* Rows -> G \cup {NoG} : global row locks
  \* ---- databases (AT)
  val,        \* Rows -> value: which global transaction's write is the committed content (NoG = initial)
  undo,       \* [G, branch index] -> "none" | "normal" | "marker"   (as a function over G \X 1..MaxBranches)
  before,     \* [G, branch index] -> Rows -> value before this branch wrote (only meaningful for written rows)
  \* ---- TCC
  fence,      \* [G, branch index] -> "none" | "tried" | "committed" | "rollbacked" | "suspended"
  eff,        \* [G, branch index] -> [try, confirm, cancel] counters
  \* ---- TM
  outcome,    \* G -> "none" | "nil" | "err"   (business callback outcome)
  sent,       \* G -> set of decisions the TM has sent {"commit", "rollback"}
  \* ---- network: phase-two deliveries the coordinator has issued and the client has not processed yet
  net,        \* bag as set of [g, i, kind, n] with n the copy number
  dups,       \* duplications used so far
  nforeign,   \* foreign writes so far
  \* ---- XA
  dirtyRead,  \* BOOLEAN: some locking read returned a row written by another unfinished global transaction
  xa,         \* [G, branch index] -> "none" | "prepared" | "committed" | "rolledback": the branch in its database
  p1err       \* G -> BOOLEAN: some statement of the business callback returned an error

xvars == <<xa, p1err, dirtyRead>>
vars == <<gst, branches, lock, val, undo, before, fence, eff, outcome, sent, net, dups, nforeign, xa, p1err, dirtyRead>>

BIdx == 1..MaxBranches
Slots == G \X BIdx

Init ==
  /\ gst = [g \in G |-> "none"]
  /\ branches = [g \in G |-> <<>>]
  /\ lock = [r \in Rows |-> NoG]
  /\ val = [r \in Rows |-> NoG]
  /\ undo = [s \in Slots |-> "none"]
  /\ before = [s \in Slots |-> [r \in Rows |-> NoG]]
  /\ fence = [s \in Slots |-> "none"]
  /\ eff = [s \in Slots |-> [try |-> 0, confirm |-> 0, cancel |-> 0]]
  /\ outcome = [g \in G |-> "none"]
  /\ sent = [g \in G |-> {}]
  /\ net = {} /\ dups = 0 /\ nforeign = 0
  /\ xa = [s \in Slots |-> "none"]
  /\ p1err = [g \in G |-> FALSE]
  /\ dirtyRead = FALSE

-----------------------------------------------------------------------------
(* TM *)

Begin(g) ==
  /\ gst[g] = "none"
  /\ gst' = [gst EXCEPT ![g] = "begun"]
  /\ UNCHANGED <<branches, lock, val, undo, before, fence, eff, outcome, sent, net, dups, nforeign>>

\* the business callback ends
Business(g, o) ==
  /\ gst[g] \in {"begun", "rollbacking", "rollbacked"}   \* the TM does not know about a timeout rollback
  /\ outcome[g] = "none" /\ o \in {"nil", "err"}
  /\ p1err[g] => o = "err"                               \* an honest business callback does not hide a failed statement
  \* the callback cannot end while one of its statements is still inside phase one of an XA branch
  /\ \A i \in 1..Len(branches[g]) : branches[g][i].kind = "XA" => xa[<<g, i>>] # "none"
  /\ \A i \in 1..Len(branches[g]) : ~branches[g][i].open
  /\ outcome' = [outcome EXCEPT ![g] = o]
  /\ UNCHANGED <<gst, branches, lock, val, undo, before, fence, eff, sent, net, dups, nforeign>>

\* the TM sends its decision (C04: truthful, one kind only; retries of the same kind are idempotent here)
Decide(g, d) ==
  /\ outcome[g] # "none" /\ d \in {"commit", "rollback"}
  /\ OblTruthful => /\ d = (IF outcome[g] = "nil" THEN "commit" ELSE "rollback")
                    /\ sent[g] \subseteq {d}
  /\ sent' = [sent EXCEPT ![g] = @ \cup {d}]
  \* the coordinator acts on the first decision it can still honour
  /\ gst' = [gst EXCEPT ![g] = IF gst[g] = "begun" THEN (IF d = "commit" THEN "committing" ELSE "rollbacking") ELSE @]
  \* global commit releases the global locks at once (AT)
  /\ lock' = IF gst[g] = "begun" /\ d = "commit" THEN [r \in Rows |-> IF lock[r] = g THEN NoG ELSE lock[r]] ELSE lock
  /\ UNCHANGED <<branches, val, undo, before, fence, eff, outcome, net, dups, nforeign>>

\* the coordinator rolls a running transaction back on its own (global timeout)
Timeout(g) ==
  /\ AllowTimeout /\ gst[g] = "begun"
  /\ gst' = [gst EXCEPT ![g] = "rollbacking"]
  /\ UNCHANGED <<branches, lock, val, undo, before, fence, eff, outcome, sent, net, dups, nforeign>>

-----------------------------------------------------------------------------
(* AT phase one (C02, C03): register (locks granted or refused) -> write rows + undo log in one local commit *)

\* Phase one of an AT branch is two steps for the coordinator: the registration (ATOpen: locks granted or refused)
\* and, later, the local commit of business writes + undo log (ATClose).  In between the coordinator may time the
\* global transaction out and roll the registered branch back (C10: the rollback overtakes phase one).
\* rows: the rows this local transaction writes; named: the rows the registration names
ATOpen(g, rows, named) ==
  /\ gst[g] \in {"begun", "rollbacking"}            \* a late phase one may overlap a timeout rollback (C10)
  /\ outcome[g] = "none"
  /\ Len(branches[g]) < MaxBranches
  /\ \A i \in 1..Len(branches[g]) : ~branches[g][i].open   \* the business callback runs its statements one after the other
  /\ rows # {} /\ named \subseteq rows
  /\ OblLockCover => named = rows
  /\ IF gst[g] = "begun" /\ \A r \in named : lock[r] \in {NoG, g}
     THEN \* registration granted
          /\ branches' = [branches EXCEPT ![g] = Append(@, [kind |-> "AT", rows |-> rows, act |-> "", st |-> "p1run", open |-> TRUE])]
          /\ lock' = [r \in Rows |-> IF r \in named THEN g ELSE lock[r]]
     ELSE \* refused (lock conflict, or the transaction is no longer active): the local transaction rolls back
          UNCHANGED <<branches, lock>>
  /\ UNCHANGED <<gst, val, undo, before, fence, eff, outcome, sent, net, dups, nforeign, xa, p1err, dirtyRead>>

\* the local commit: business writes + undo log together - unless the branch's rollback came first and left its
\* marker, on whose unique key the flush of the undo log fails: then nothing is committed and the statement fails
ATClose(g, i) ==
  /\ i \in 1..Len(branches[g]) /\ branches[g][i].kind = "AT" /\ branches[g][i].open
  /\ outcome[g] = "none"
  /\ LET s == <<g, i>>
         rows == branches[g][i].rows IN
     IF undo[s] = "marker"
     THEN /\ branches' = [branches EXCEPT ![g][i].open = FALSE]
          /\ p1err' = [p1err EXCEPT ![g] = TRUE]
          /\ UNCHANGED <<before, val, undo>>
     ELSE /\ branches' = [branches EXCEPT ![g][i].open = FALSE,
                                           ![g][i].st = IF @ = "p1run" THEN "p1done" ELSE @]
          /\ before' = [before EXCEPT ![s] = [r \in Rows |-> val[r]]]
          /\ val' = [r \in Rows |-> IF r \in rows THEN g ELSE val[r]]
          /\ \/ undo' = [undo EXCEPT ![s] = "normal"]
             \/ ~OblP1Atomic /\ UNCHANGED undo      \* the writes are durable, their undo log is not
          /\ UNCHANGED p1err
  /\ UNCHANGED <<gst, lock, fence, eff, outcome, sent, net, dups, nforeign, xa, dirtyRead>>

-----------------------------------------------------------------------------
(* TCC phase one (C05): register, then try (fenced) *)

TCCBranch(g, a) ==
  /\ gst[g] = "begun" /\ outcome[g] = "none"
  /\ Len(branches[g]) < MaxBranches
  /\ LET i == Len(branches[g]) + 1 IN
     /\ branches' = [branches EXCEPT ![g] = Append(@, [kind |-> "TCC", rows |-> {}, act |-> a, st |-> "registered", open |-> FALSE])]
     /\ UNCHANGED <<fence, eff>>
  /\ UNCHANGED <<gst, lock, val, undo, before, outcome, sent, net, dups, nforeign>>

\* the try of a registered TCC branch runs (possibly late: after the coordinator already rolled the branch back)
Try(g, i) ==
  /\ i \in 1..Len(branches[g]) /\ branches[g][i].kind = "TCC"
  /\ eff[<<g, i>>].try = 0
  /\ IF fence[<<g, i>>] = "none"
     THEN /\ fence' = [fence EXCEPT ![<<g, i>>] = "tried"]
          /\ eff' = [eff EXCEPT ![<<g, i>>].try = 1]
     ELSE \* anti-suspension: a suspended (or finished) branch refuses the late try
          IF OblFence THEN UNCHANGED <<fence, eff>>
          ELSE eff' = [eff EXCEPT ![<<g, i>>].try = 1] /\ UNCHANGED fence
  /\ UNCHANGED <<gst, branches, lock, val, undo, before, outcome, sent, net, dups, nforeign>>

-----------------------------------------------------------------------------
(* the coordinator's phase two *)

\* issue the phase-two request for branch i of g (commit: any order; rollback: reverse order of registration)
Issue(g, i) ==
  /\ gst[g] \in {"committing", "rollbacking"}
  /\ i \in 1..Len(branches[g])
  /\ LET kind == IF gst[g] = "committing" THEN "commit" ELSE "rollback"
         done == IF kind = "commit" THEN "committed" ELSE "rollbacked" IN
     /\ branches[g][i].st # done
     /\ kind = "rollback" => \A j \in (i + 1)..Len(branches[g]) : branches[g][j].st = "rollbacked"
     /\ ~\E m \in net : m.g = g /\ m.i = i
     /\ net' = net \cup {[g |-> g, i |-> i, kind |-> kind, n |-> 0]}
  /\ UNCHANGED <<gst, branches, lock, val, undo, before, fence, eff, outcome, sent, dups, nforeign>>

\* the network duplicates a request in flight (or the coordinator retries before the answer arrives)
Duplicate(m) ==
  /\ m \in net /\ dups < MaxDup
  /\ net' = net \cup {[m EXCEPT !.n = m.n + 1 + dups]}
  /\ dups' = dups + 1
  /\ UNCHANGED <<gst, branches, lock, val, undo, before, fence, eff, outcome, sent, nforeign>>

\* the network loses a request (the coordinator will issue it again: Issue is enabled again)
Lose(m) ==
  /\ m \in net
  /\ net' = net \ {m}
  /\ UNCHANGED <<gst, branches, lock, val, undo, before, fence, eff, outcome, sent, dups, nforeign>>

SetBranch(g, i, s) == [branches EXCEPT ![g][i].st = s]

\* the client processes an AT branch commit: answer committed, delete the undo log (C11)
ATCommit(m) ==
  /\ m \in net /\ m.kind = "commit" /\ branches[m.g][m.i].kind = "AT"
  /\ net' = net \ {m}
  /\ undo' = [undo EXCEPT ![<<m.g, m.i>>] = "none"]
  /\ branches' = SetBranch(m.g, m.i, "committed")
  /\ UNCHANGED <<gst, lock, val, before, fence, eff, outcome, sent, dups, nforeign>>

\* the client processes an AT branch rollback (C01, C09, C10)
ATRollback(m) ==
  /\ m \in net /\ m.kind = "rollback" /\ branches[m.g][m.i].kind = "AT"
  /\ LET s    == <<m.g, m.i>>
         rows == branches[m.g][m.i].rows
         dirty == \E r \in rows : val[r] # m.g /\ val[r] # before[s][r] IN
     CASE undo[s] = "normal" /\ dirty /\ OblDirtyRefused ->
            \* refuse: nothing changes, no 'rollbacked' answer; the coordinator will retry
            /\ net' = net \ {m}
            /\ UNCHANGED <<val, undo, branches>>
       [] undo[s] = "normal" /\ (~dirty \/ ~OblDirtyRefused) ->
            /\ net' = net \ {m}
            /\ val' = [r \in Rows |-> IF r \in rows /\ (val[r] = m.g \/ ~OblDirtyRefused) THEN before[s][r] ELSE val[r]]
            /\ undo' = [undo EXCEPT ![s] = "none"]
            /\ branches' = SetBranch(m.g, m.i, "rollbacked")
       [] undo[s] \in {"none", "marker"} ->
            \* nothing to undo (already undone, or never flushed): marker, answer rollbacked
            /\ net' = net \ {m}
            /\ IF OblIdempotent THEN UNCHANGED val
               ELSE val' = [r \in Rows |-> IF r \in rows THEN before[s][r] ELSE val[r]]   \* a non-idempotent undo
            /\ undo' = [undo EXCEPT ![s] = IF OblMarker THEN "marker" ELSE @]
            /\ branches' = SetBranch(m.g, m.i, "rollbacked")
  /\ UNCHANGED <<gst, lock, before, fence, eff, outcome, sent, dups, nforeign>>

\* a dishonest client: answers 'rollbacked' for a branch it has not undone (a swallowed undo error)
ATRollbackLie(m) ==
  /\ ~OblHonest
  /\ m \in net /\ m.kind = "rollback" /\ branches[m.g][m.i].kind = "AT" /\ undo[<<m.g, m.i>>] = "normal"
  /\ net' = net \ {m}
  /\ branches' = SetBranch(m.g, m.i, "rollbacked")
  /\ UNCHANGED <<gst, lock, val, undo, before, fence, eff, outcome, sent, dups, nforeign>>

\* the client processes a TCC phase-two request through the fence (C05, C06)
TCCPhaseTwo(m) ==
  /\ m \in net /\ branches[m.g][m.i].kind = "TCC"
  /\ LET s == <<m.g, m.i>>
         f == fence[s] IN
     /\ net' = net \ {m}
     /\ IF m.kind = "commit"
        THEN /\ IF f = "tried" \/ (~OblFence /\ f # "none")
                THEN /\ fence' = [fence EXCEPT ![s] = "committed"]
                     /\ eff' = [eff EXCEPT ![s].confirm = @ + 1]
                ELSE UNCHANGED <<fence, eff>>
             /\ branches' = IF f \in {"tried", "committed"} THEN SetBranch(m.g, m.i, "committed") ELSE branches
        ELSE /\ CASE f = "tried" ->
                       /\ fence' = [fence EXCEPT ![s] = "rollbacked"]
                       /\ eff' = [eff EXCEPT ![s].cancel = @ + 1]
                  [] f = "none" ->
                       \* empty rollback: record the suspension, no business effect
                       /\ fence' = [fence EXCEPT ![s] = "suspended"]
                       /\ IF OblFence THEN UNCHANGED eff ELSE eff' = [eff EXCEPT ![s].cancel = @ + 1]
                  [] OTHER ->
                       /\ UNCHANGED fence
                       /\ IF OblFence THEN UNCHANGED eff ELSE eff' = [eff EXCEPT ![s].cancel = @ + 1]
             /\ branches' = IF f # "committed" THEN SetBranch(m.g, m.i, "rollbacked") ELSE branches
  /\ UNCHANGED <<gst, lock, val, undo, before, outcome, sent, dups, nforeign>>

\* somebody who does not take part in any global transaction commits a write (C09's foreign writer)
ForeignWrite(r) ==
  /\ nforeign < MaxForeign /\ val[r] # Foreign
  /\ val' = [val EXCEPT ![r] = Foreign]
  /\ nforeign' = nforeign + 1
  /\ UNCHANGED <<gst, branches, lock, undo, before, fence, eff, outcome, sent, net, dups>>

\* the coordinator closes the global transaction once every branch has answered
Close(g) ==
  /\ gst[g] \in {"committing", "rollbacking"}
  /\ LET done == IF gst[g] = "committing" THEN "committed" ELSE "rollbacked" IN
     /\ \A i \in 1..Len(branches[g]) : branches[g][i].st = done
     /\ gst' = [gst EXCEPT ![g] = done]
  \* global rollback releases the locks only now
  /\ lock' = [r \in Rows |-> IF lock[r] = g THEN NoG ELSE lock[r]]
  /\ UNCHANGED <<branches, val, undo, before, fence, eff, outcome, sent, net, dups, nforeign>>

-----------------------------------------------------------------------------
(* XA (C17): phase one = XA START .. DML .. XA END, XA PREPARE inside the statement (autocommit use) or at   *)
(* tx.Commit; phase two = XA COMMIT / XA ROLLBACK of exactly that branch, idempotent under redelivery         *)

\* Phase one of an XA branch is not one step: the branch is registered with the coordinator first (XAOpen), and
\* only then do XA START, the statement, XA END and XA PREPARE run on the connection (XAClose).  In between the
\* coordinator may time the global transaction out and send the branch's rollback (the defect repaired in 85aae88,
\* seeded change C17-5): the client must not carry it out on the connection the application is still using.
XAOpen(g) ==
  /\ AllowXA /\ gst[g] = "begun" /\ outcome[g] = "none"
  /\ Len(branches[g]) < MaxBranches
  /\ branches' = [branches EXCEPT ![g] = Append(@, [kind |-> "XA", rows |-> {}, act |-> "", st |-> "p1run", open |-> FALSE])]
  /\ UNCHANGED <<gst, lock, val, undo, before, fence, eff, outcome, sent, net, dups, nforeign, xa, p1err, dirtyRead>>

\* ok = FALSE: XA END / XA PREPARE (or a statement) failed; the client rolls the branch back in the database.
\* The application runs on whatever the coordinator has decided meanwhile; a client without the phase-order
\* obligation may already have answered 'rollbacked' for this branch (the coordinator then never asks again).
XAClose(g, i, ok) ==
  /\ AllowXA /\ i \in 1..Len(branches[g]) /\ branches[g][i].kind = "XA"
  /\ outcome[g] = "none" /\ xa[<<g, i>>] = "none"
  /\ branches[g][i].st = "p1run" \/ (~OblXAPhaseOrder /\ branches[g][i].st = "rollbacked")
  /\ xa' = [xa EXCEPT ![<<g, i>>] = IF ok THEN "prepared" ELSE "rolledback"]
  /\ branches' = IF branches[g][i].st = "p1run"
                 THEN SetBranch(g, i, IF ok \/ ~OblXATruthful THEN "p1done" ELSE "rollbacked")
                 ELSE branches
  \* C17: the failure reaches the caller (and is reported to the coordinator); without the obligation it is swallowed
  /\ p1err' = [p1err EXCEPT ![g] = @ \/ (~ok /\ OblXATruthful)]
  /\ UNCHANGED <<gst, lock, val, undo, before, fence, eff, outcome, sent, net, dups, nforeign, dirtyRead>>

XAPhaseTwo(m) ==
  /\ m \in net /\ branches[m.g][m.i].kind = "XA"
  /\ LET s == <<m.g, m.i>> IN
     /\ net' = net \ {m}
     /\ IF OblXAPhaseOrder /\ branches[m.g][m.i].st = "p1run"
        THEN UNCHANGED <<xa, branches>>      \* "retry later": the coordinator issues the request again
        ELSE
        IF m.kind = "commit"
        THEN CASE xa[s] = "prepared"  -> xa' = [xa EXCEPT ![s] = "committed"] /\ branches' = SetBranch(m.g, m.i, "committed")
               [] xa[s] = "committed" -> UNCHANGED xa /\ branches' = SetBranch(m.g, m.i, "committed")     \* redelivery
               [] OTHER               -> UNCHANGED <<xa, branches>>     \* XAER_NOTA: no truthful 'committed' is possible
        ELSE /\ xa' = [xa EXCEPT ![s] = IF @ = "prepared" THEN "rolledback" ELSE @]
             /\ branches' = IF xa[s] # "committed" THEN SetBranch(m.g, m.i, "rollbacked") ELSE branches
  /\ UNCHANGED <<gst, lock, val, undo, before, fence, eff, outcome, sent, dups, nforeign, p1err, dirtyRead>>

\* C03, second clause: SELECT .. FOR UPDATE of rows inside global transaction g.  The rows are returned only if
\* the coordinator says nobody else holds their global locks (no lock is taken: the local row locks protect the
\* rows until the local transaction ends, which this step abstracts).  What is read is remembered only as
\* "was any of it the uncommitted write of another global transaction".
LockingRead(g, rows) ==
  /\ AllowReads /\ gst[g] = "begun" /\ outcome[g] = "none" /\ rows # {}
  /\ (OblLockQuery => \A r \in rows : lock[r] \in {NoG, g})      \* otherwise: conflict, nothing is returned
  /\ dirtyRead' = (dirtyRead \/ \E r \in rows : val[r] \in G \ {g} /\ gst[val[r]] \in {"begun", "rollbacking"}
                                                 /\ \E i \in BIdx : i <= Len(branches[val[r]])
                                                      /\ branches[val[r]][i].kind = "AT" /\ r \in branches[val[r]][i].rows
                                                      /\ undo[<<val[r], i>>] = "normal")
  /\ UNCHANGED <<gst, branches, lock, val, undo, before, fence, eff, outcome, sent, net, dups, nforeign, xa, p1err>>

Next ==
  \/ /\ UNCHANGED xvars
     /\ \/ \E g \in G : Begin(g) \/ Timeout(g) \/ Close(g)
        \/ \E g \in G, o \in {"nil", "err"} : Business(g, o)
        \/ \E g \in G, d \in {"commit", "rollback"} : Decide(g, d)
        \/ \E g \in G, a \in Acts : TCCBranch(g, a)
        \/ \E g \in G, i \in BIdx : Try(g, i) \/ Issue(g, i)
        \/ \E r \in Rows : ForeignWrite(r)
        \/ \E m \in net : Duplicate(m) \/ Lose(m) \/ ATCommit(m) \/ ATRollback(m) \/ ATRollbackLie(m) \/ TCCPhaseTwo(m)
  \/ \E g \in G, rows \in SUBSET Rows, named \in SUBSET Rows : ATOpen(g, rows, named)
  \/ \E g \in G, i \in BIdx : ATClose(g, i)
  \/ \E g \in G : XAOpen(g)
  \/ \E g \in G, i \in BIdx, ok \in BOOLEAN : XAClose(g, i, ok)
  \/ \E g \in G, rows \in SUBSET Rows : LockingRead(g, rows)
  \/ \E m \in net : XAPhaseTwo(m)

Spec == Init /\ [][Next]_vars

-----------------------------------------------------------------------------
(* What users rely on *)

Finished(g) == gst[g] \in {"committed", "rollbacked"}

\* Atomicity, AT part: after a global rollback no row carries the transaction's write and no undo log
\* with images is left; after a global commit every written row carries the write unless a later
\* transaction (which could only get the lock after this one finished) has overwritten it
ATAtomicRollback ==
  \A g \in G : gst[g] = "rollbacked" =>
    /\ \A r \in Rows : val[r] # g
    /\ \A i \in BIdx : undo[<<g, i>>] # "normal"

\* Atomicity, TCC part: confirm only in committed transactions, cancel only in rolled-back ones, each at
\* most once, never both, and a tried branch of a finished transaction got its second phase
TCCAtomic ==
  \A g \in G, i \in BIdx :
    LET e == eff[<<g, i>>] IN
    /\ e.try <= 1 /\ e.confirm <= 1 /\ e.cancel <= 1
    /\ e.confirm + e.cancel <= 1
    /\ e.confirm = 1 => gst[g] \in {"committing", "committed"}
    /\ e.cancel = 1 => gst[g] \in {"rollbacking", "rollbacked"}
    /\ (Finished(g) /\ i <= Len(branches[g]) /\ branches[g][i].kind = "TCC" /\ e.try = 1)
          => (e.confirm = 1 <=> gst[g] = "committed") /\ (e.cancel = 1 <=> gst[g] = "rollbacked")
    \* a branch whose try never ran has no business effect at all (empty rollback)
    /\ e.try = 0 => e.confirm = 0 /\ e.cancel = 0

\* Atomicity, XA part: the work of a branch is never lost under a commit decision, never kept under a rollback
XAAtomic ==
  \A g \in G, i \in BIdx :
    (i <= Len(branches[g]) /\ branches[g][i].kind = "XA") =>
      LET x == xa[<<g, i>>] IN
      /\ gst[g] \in {"committing", "committed"} => x \in {"prepared", "committed"}
      /\ gst[g] = "committed" => x = "committed"
      /\ gst[g] = "rollbacked" => x = "rolledback"
      /\ x = "committed" => gst[g] \in {"committing", "committed"}

\* Read isolation for locking reads (C03): no SELECT .. FOR UPDATE inside a global transaction ever returned the
\* write of another global transaction that could still be rolled back
NoDirtyGlobalRead == ~dirtyRead

\* the coordinator's decision follows the business outcome (unless it timed the transaction out)
DecisionTruthful ==
  \A g \in G :
    /\ gst[g] \in {"committing", "committed"} => outcome[g] = "nil"
    /\ (gst[g] \in {"rollbacking", "rollbacked"} /\ ~AllowTimeout) => outcome[g] = "err"

\* Write isolation: a row written by a global transaction that is not finished is not overwritten by
\* another one (no dirty global write), so that its rollback can always restore
NoDirtyGlobalWrite ==
  \A g \in G, i \in BIdx :
    (i <= Len(branches[g]) /\ branches[g][i].kind = "AT" /\ undo[<<g, i>>] = "normal"
       /\ gst[g] \in {"begun", "rollbacking"})
      => \A r \in branches[g][i].rows : val[r] \in {g, Foreign} \/ \E j \in (i + 1)..Len(branches[g]) : r \in branches[g][j].rows

\* a rollback is never stuck on a dirty row: follows from NoDirtyGlobalWrite (checked as: whenever the
\* coordinator is rolling back, the last not yet rolled back AT branch is restorable)
RollbackPossible ==
  \A g \in G : gst[g] = "rollbacking" =>
    \A i \in BIdx :
      (i <= Len(branches[g]) /\ branches[g][i].kind = "AT" /\ undo[<<g, i>>] = "normal"
        /\ \A j \in (i + 1)..Len(branches[g]) : branches[g][j].st = "rollbacked")
      => \A r \in branches[g][i].rows : val[r] \in {g, Foreign} \/ val[r] = before[<<g, i>>][r]

\* a foreign write is never overwritten by a rollback (C09): checked as an action property.  What may overwrite it is
\* the business write of a global transaction - whose local commit (ATClose) may come while the coordinator is
\* already rolling the transaction back on a time-out (the write is then undone to the foreign value again)
ForeignSafe == [][\A r \in Rows : (val[r] = Foreign /\ val'[r] # Foreign) =>
                    \E g \in G : val'[r] = g /\ gst'[g] \in {"begun", "rollbacking"}]_vars

TypeOK ==
  /\ gst \in [G -> {"none", "begun", "committing", "rollbacking", "committed", "rollbacked"}]
  /\ lock \in [Rows -> G \cup {NoG}] /\ val \in [Rows -> G \cup {NoG, Foreign}]
=============================================================================
