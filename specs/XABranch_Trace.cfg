SPECIFICATION TraceSpec
CONSTANTS
  Conns = {1, 2, 3, 4, 5, 6, 7, 8, 9, 10, 11, 12}
  Ids = {"good", "bad"}
  RegReplies = {"ok", "fail", "neterr"}
  Modes = {"auto", "explicit"}
  Strict = FALSE
  MaxFaults = 100
  MaxDml = 100
  EarlyP2 = TRUE
  MaxP2 = 100
  MaxCmds = 1000
CONSTRAINT HighWater
POSTCONDITION Post
CHECK_DEADLOCK FALSE
