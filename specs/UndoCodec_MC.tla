---------------------------- MODULE UndoCodec_MC ----------------------------
(* Design check and scenario generation for UndoCodec.tla (C08).              *)
EXTENDS UndoCodec, IOUtils

C(jt, kind) == [jt |-> jt, kind |-> kind]

\* JDBC type codes the image builder (exec/at/base_executor.go buildRecordImages: MySQLStrToJavaType of
\* the column's DATA_TYPE) can emit, paired with the Go kind its scan slice (GetScanSlice + getSqlNullValue)
\* produces for the MySQL types that map to the code:
\*   int   <- BIT, TINYINT, SMALLINT, MEDIUMINT/INT, BIGINT                 (int64 / NullInt64)
\*   float <- FLOAT (REAL), DOUBLE, DECIMAL                                 (float64 / NullFloat64)
\*   str   <- CHAR/JSON, VARCHAR/TINYTEXT, TEXT, unknown type names (OTHER) (NullString)
\*   time  <- DATE/YEAR, TIME, DATETIME/TIMESTAMP                           (NullTime)
\*   bytes <- everything else: TINYBLOB/BINARY, VARBINARY, BLOB/MEDIUMBLOB, ENUM/SET (CHAR),
\*            MEDIUMTEXT/LONGTEXT (LONGVARCHAR), unknown type names (OTHER)  (sql.RawBytes)
AllCols ==
  {C("BIT", "int"), C("TINYINT", "int"), C("SMALLINT", "int"), C("INTEGER", "int"), C("BIGINT", "int"),
   C("REAL", "float"), C("DOUBLE", "float"), C("DECIMAL", "float"),
   C("CHAR", "str"), C("VARCHAR", "str"), C("LONGVARCHAR", "str"), C("OTHER", "str"),
   C("DATE", "time"), C("TIME", "time"), C("TIMESTAMP", "time"),
   C("BINARY", "bytes"), C("VARBINARY", "bytes"), C("LONGVARBINARY", "bytes"),
   C("CHAR", "bytes"), C("LONGVARCHAR", "bytes"), C("OTHER", "bytes")}

\* the columns the end-to-end table has (OTHER has no MySQL type; ENUM is left to the parser level)
E2ECols == AllCols \ {C("OTHER", "str"), C("OTHER", "bytes"), C("CHAR", "bytes")}
\* primary-key columns of the end-to-end tables
E2EKeyCols == {C("INTEGER", "int"), C("BIGINT", "int"), C("VARCHAR", "str"), C("CHAR", "str"), C("TIMESTAMP", "time")}

AllSer   == {"json", "protobuf"}
MCSer    == {"json", "protobuf", "xml"}
AllComp  == {"None", "Gzip", "Zip", "Bzip2", "Lz4", "Deflate", "Zstd", "gzip", "", "Sevenz", "zstd ", "n/a"}
AllStmts == {"insert", "update", "delete", "upsert"}
E2EStmts == {"insert", "update", "delete"}

\* design check: every configuration (serializer x compress spelling x threshold class) on every
\* (type, class), plus the full vector product under the default compression setting
MCKeep(c, v) ==
  \/ c.comp = "None" /\ c.thr = "below"
  \/ ~v.key /\ v.stmt = "update"

\* ---- scenario generation -------------------------------------------------------------------------
\* parser level (all serializers and compress types in one process): the full
\* (type, class, key flag, statement, serializer) product without compression, and every compress
\* type x threshold class on every (type, class, serializer) with the other coordinates fixed
GenKeepParser(c, v) ==
  \/ c.comp = "None" /\ c.thr = "below"
  \/ c.comp # "None" /\ ~v.key /\ v.stmt = "update"

\* end to end: the process is configured by the environment (one client configuration per process)
EnvSer  == IOEnv.SERIALIZER
EnvComp == IF IOEnv.COMPRESS = "EMPTY" THEN "" ELSE IOEnv.COMPRESS
EnvThr  == IOEnv.THRCLASS
GenKeepE2E(c, v) ==
  /\ c.ser = EnvSer /\ c.comp = EnvComp /\ c.thr = EnvThr
  /\ (v.key => v.col \in E2EKeyCols)

ScenFile == IOEnv.SCEN_FILE
Dump ==
  Done =>
    LET r == Serialize(<<[jt |-> vec.col.jt, kind |-> vec.col.kind, cls |-> vec.cls, key |-> vec.key,
                          stmt |-> vec.stmt, ser |-> cfg.ser, comp |-> cfg.comp, thr |-> cfg.thr]>>, ScenFile,
                       [format |-> "NDJSON", charset |-> "UTF-8",
                        openOptions |-> <<"WRITE", "CREATE", "APPEND">>])
    IN r = r
=============================================================================
