SPECIFICATION Spec
CONSTANTS
  Shapes <- MCShapes
  MaxFrames = 2
  JunkLens = {0, 1, 3}
  MaxCuts = 1000
VIEW View
INVARIANTS TypeOK AtBoundary NoFabrication Progress CloseOnlyOnJunk ExactAtEnd
PROPERTIES NeedIsPure Terminates
CHECK_DEADLOCK FALSE
