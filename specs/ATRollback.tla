----------------------------- MODULE ATRollback -----------------------------
(***************************************************************************)
(* C01, C09, C10 - AT mode: phase-one effects, branch rollback, foreign    *)
(* writers, repeated / failed / early rollback.                            *)
(*                                                                         *)
(* Code: ATSourceManager.BranchRollback (at_resource_manager.go),          *)
(* BaseUndoLogManager.Undo / FlushUndoLog (undo/base/undo.go), the undo    *)
(* executors (undo/executor), the AT executors that capture the images     *)
(* (exec/at), ATTx.commitOnAT (tx_at.go).                                  *)
(*                                                                         *)
(* The database is abstract: a row is [w, u] - the part the transaction's  *)
(* UPDATE statements write and a part they never write - or Absent.  The   *)
(* harness maps concrete rows of concrete schemas to this projection and   *)
(* logs the whole projected table after every step (it is small), so the   *)
(* trace specification compares complete states, not summaries.            *)
(*                                                                         *)
(* One global transaction; its branches are local transactions of one or   *)
(* more statements.  The coordinator rolls branches back in reverse order  *)
(* of registration, may repeat a delivery, and may deliver a rollback      *)
(* before the branch has flushed its undo log (C10).                       *)
(***************************************************************************)
EXTENDS Integers, Sequences, FiniteSets, TLC

CONSTANTS
  NKeys,       \* row identities are 1..NKeys
  WVals,       \* values of the written part, e.g. 0..2
  UVals,       \* values of the unwritten part, e.g. 0..1
  InitRows,    \* rows a key may hold initially (generation bound; a subset of Rows)
  StmtW,       \* written values statements use (generation bound)
  MaxBranches, \* branches per global transaction
  MaxStmts,    \* statements per branch
  Kinds,       \* subset of {"ins", "upd", "del", "ups"}
  OnlyCare,    \* BOOLEAN: only-care-update-columns (update images hold the written part only)
  Validate,    \* BOOLEAN: undo data validation
  MaxForeign,  \* foreign writes between phase one and rollback (C09)
  MaxDeliver,  \* deliveries of a rollback per branch (C10)
  FailPoints,  \* set of statement indices of the rollback transaction at which a fault may be injected (0 = none)
  AllowEarly,  \* BOOLEAN: a rollback may overtake the undo-log flush of phase one (C10)
  AllowPkUpd   \* BOOLEAN: the application may try to UPDATE a primary key (C18: must be rejected)

Keys == 1..NKeys
Absent == [w |-> -1, u |-> -1]
Row(w, u) == [w |-> w, u |-> u]
Rows == {Row(w, u) : w \in WVals, u \in UVals} \cup {Absent}

VARIABLES
  db,        \* Keys -> Rows : committed application table
  snap0,     \* db when the global transaction began
  nbr,       \* branches registered so far
  imgs,      \* branch -> sequence of images [k, kind, before, after] in statement order
  undo,      \* branch -> "none" | "normal" | "marker"
  rolled,    \* branch -> number of deliveries answered "rollbacked"
  tried,     \* branch -> deliveries so far
  foreign,   \* number of foreign writes so far
  phase,     \* "p1" (branches are being executed) | "rb" (coordinator is rolling back) | "done"
  next,      \* during "rb": the branch the coordinator is working on (counts down)
  last,      \* result of the last step, as the harness observes it
  env        \* history: scenario

vars == <<db, snap0, nbr, imgs, undo, rolled, tried, foreign, phase, next, last, env>>

Branches == 1..MaxBranches

-----------------------------------------------------------------------------
(* statement semantics: one statement = kind + target keys + new written value (+ unwritten value for inserts) *)

\* effect of a statement on a table d; returns [d |-> new table, img |-> sequence of images]
\* image kinds: "ins", "del", "upd" (UPDATE statement: written columns only when OnlyCare), "upsu" (the
\* update case of INSERT .. ON DUPLICATE KEY UPDATE: all columns)
RECURSIVE ApplyKeys(_, _, _, _, _)
ApplyKeys(d, kind, ks, w, u) ==
  IF ks = {} THEN [d |-> d, img |-> <<>>]
  ELSE LET k    == CHOOSE x \in ks : \A y \in ks : x <= y
           cur  == d[k]
           new  == CASE kind = "ins" -> Row(w, u)
                     [] kind = "upd" -> Row(w, cur.u)
                     [] kind = "del" -> Absent
                     [] kind = "ups" -> IF cur = Absent THEN Row(w, u) ELSE Row(w, cur.u)
           rest == ApplyKeys([d EXCEPT ![k] = new], kind, ks \ {k}, w, u)
           ik   == IF kind = "ups" THEN (IF cur = Absent THEN "ins" ELSE "upsu") ELSE kind
       IN [d |-> rest.d, img |-> <<[k |-> k, kind |-> ik, before |-> cur, after |-> new]>> \o rest.img]

\* a statement is well formed w.r.t. the current table: inserts hit absent keys, updates/deletes
\* address any keys but only existing rows are affected (the rest of the WHERE clause matches nothing)
Affected(d, kind, ks) ==
  CASE kind = "ins" -> ks
    [] kind = "ups" -> ks
    [] OTHER        -> {k \in ks : d[k] # Absent}

Legal(d, kind, ks) ==
  /\ kind = "ins" => \A k \in ks : d[k] = Absent
  /\ kind \in {"ins", "ups"} => ks # {}
  \* (an upsert may name several rows: some inserted, some updated by the same statement)

Init ==
  /\ db \in [Keys -> InitRows]
  /\ snap0 = db
  /\ nbr = 0
  /\ imgs = [b \in Branches |-> <<>>]
  /\ undo = [b \in Branches |-> "none"]
  /\ rolled = [b \in Branches |-> 0]
  /\ tried = [b \in Branches |-> 0]
  /\ foreign = 0
  /\ phase = "p1" /\ next = 0
  /\ last = [op |-> "init"]
  /\ env = <<>>

(***************************************************************************)
(* Phase one of a branch: its statements run in one local transaction; the *)
(* business writes and the undo log (the images) commit together.  A       *)
(* branch whose statements change nothing may or may not leave an undo     *)
(* log (the property does not say); the harness reports which.             *)
(***************************************************************************)
\* images carry the index of their statement (one image record per statement in the undo log)
Tag(ims, i) == [j \in 1..Len(ims) |-> [k |-> ims[j].k, kind |-> ims[j].kind, before |-> ims[j].before,
                                         after |-> ims[j].after, s |-> i]]
RECURSIVE RunFrom(_, _, _)
RunFrom(d, stmts, i) ==
  IF stmts = <<>> THEN [d |-> d, img |-> <<>>]
  ELSE LET s == Head(stmts)
           r == ApplyKeys(d, s.kind, Affected(d, s.kind, s.keys), s.w, s.u)
           t == RunFrom(r.d, Tail(stmts), i + 1)
       IN [d |-> t.d, img |-> Tag(r.img, i) \o t.img]
RunStmts(d, stmts) == RunFrom(d, stmts, 1)

RECURSIVE LegalStmts(_, _)
LegalStmts(d, stmts) ==
  IF stmts = <<>> THEN TRUE
  ELSE LET s == Head(stmts)
           r == ApplyKeys(d, s.kind, Affected(d, s.kind, s.keys), s.w, s.u)
       IN Legal(d, s.kind, s.keys) /\ LegalStmts(r.d, Tail(stmts))

Stmt == [kind : Kinds, keys : SUBSET Keys, w : StmtW, u : {0}]

\* registered: the branch was registered with the coordinator (a branch that changes no row need not be)
P1(stmts, undoWritten, registered) ==
  /\ phase = "p1" /\ nbr < MaxBranches
  /\ LegalStmts(db, stmts)
  /\ LET r == RunStmts(db, stmts)
         b == nbr + 1
     IN /\ db' = r.d
        /\ imgs' = [imgs EXCEPT ![b] = r.img]
        /\ undoWritten \in BOOLEAN /\ registered \in BOOLEAN
        /\ r.img # <<>> => (undoWritten /\ registered)   \* rows changed => registered, and an undo log exists
        /\ undoWritten => registered
        /\ undo' = [undo EXCEPT ![b] = IF undoWritten THEN "normal" ELSE "none"]
        \* a branch the coordinator never heard of needs no rollback
        /\ rolled' = IF registered THEN rolled ELSE [rolled EXCEPT ![b] = 1]
        /\ nbr' = b
        /\ last' = [op |-> "p1", b |-> b]
        /\ env' = Append(env, [op |-> "p1", stmts |-> stmts])
  /\ UNCHANGED <<snap0, tried, foreign, phase, next>>

(***************************************************************************)
(* C18: a statement that would change the primary key of row k is rejected *)
(* and records nothing (no branch, no undo log, no change).                *)
(***************************************************************************)
P1Rejected(k) ==
  /\ AllowPkUpd /\ phase = "p1" /\ nbr < MaxBranches
  /\ k \in Keys /\ db[k] # Absent
  /\ nbr' = nbr + 1
  /\ rolled' = [rolled EXCEPT ![nbr + 1] = 1]
  /\ last' = [op |-> "p1pk", b |-> nbr + 1]
  /\ env' = Append(env, [op |-> "p1pk", key |-> k])
  /\ UNCHANGED <<db, snap0, imgs, undo, tried, foreign, phase, next>>

(***************************************************************************)
(* C10: the rollback of branch b = nbr+1 overtakes phase one.  The branch  *)
(* is registered (it has an id) but has not flushed its undo log; the      *)
(* rollback finds no log and leaves the marker; the late flush then fails  *)
(* on the unique key, the local transaction rolls back, nothing commits.   *)
(***************************************************************************)
P1Overtaken(stmts) ==
  /\ AllowEarly /\ phase = "p1" /\ nbr < MaxBranches
  /\ LegalStmts(db, stmts)
  /\ RunStmts(db, stmts).img # <<>>               \* the branch would have written rows
  /\ LET b == nbr + 1
     IN /\ undo' = [undo EXCEPT ![b] = "marker"]
        /\ rolled' = [rolled EXCEPT ![b] = 1]
        /\ tried' = [tried EXCEPT ![b] = 1]
        /\ nbr' = b
        /\ last' = [op |-> "p1late", b |-> b]
        /\ env' = Append(env, [op |-> "p1late", stmts |-> stmts])
  /\ UNCHANGED <<db, snap0, imgs, foreign, phase, next>>

(***************************************************************************)
(* Someone outside any global transaction commits a write (C09).           *)
(***************************************************************************)
Foreign(k, r) ==
  /\ phase = "p1" /\ nbr > 0 /\ foreign < MaxForeign
  /\ r \in Rows /\ r # db[k]
  /\ db' = [db EXCEPT ![k] = r]
  /\ foreign' = foreign + 1
  /\ last' = [op |-> "foreign", k |-> k]
  /\ env' = Append(env, [op |-> "foreign", k |-> k, row |-> r])
  /\ UNCHANGED <<snap0, nbr, imgs, undo, rolled, tried, phase, next>>

StartRollback ==
  /\ phase = "p1" /\ nbr > 0
  /\ phase' = "rb" /\ next' = nbr
  /\ last' = [op |-> "start"]
  /\ UNCHANGED <<db, snap0, nbr, imgs, undo, rolled, tried, foreign, env>>

-----------------------------------------------------------------------------
(* Rollback of one branch.                                                 *)

\* the part of a row an image speaks about
Proj(r, ik) == IF ik = "upd" /\ OnlyCare /\ r # Absent THEN [w |-> r.w, u |-> 0] ELSE r

\* undo one image on table d: "ok" with the new table, "skip" (already before), or "dirty"
UndoOne(d, im) ==
  LET cur == d[im.k] IN
  IF ~Validate
  THEN \* validation off (configuration): the compensating statement runs blindly and does what SQL does
       CASE im.kind = "ins" -> [res |-> "ok", d |-> [d EXCEPT ![im.k] = Absent]]           \* DELETE by key
         [] im.kind = "del" -> \* INSERT of the before image: a row that is there again is a duplicate key
                               IF cur = Absent THEN [res |-> "ok", d |-> [d EXCEPT ![im.k] = im.before]]
                               ELSE [res |-> "dirty", d |-> d]
         [] OTHER -> \* UPDATE by key: matches nothing when the row is gone
                     IF cur = Absent THEN [res |-> "skip", d |-> d]
                     ELSE [res |-> "ok",
                           d |-> [d EXCEPT ![im.k] = IF im.kind = "upd" /\ OnlyCare
                                                     THEN Row(im.before.w, cur.u) ELSE im.before]]
  ELSE
  IF Proj(im.before, im.kind) = Proj(im.after, im.kind)
  THEN \* the statement did not change this row: nothing to restore, nothing to protect
       [res |-> "skip", d |-> d]
  ELSE
  IF Proj(cur, im.kind) = Proj(im.after, im.kind)
  THEN [res |-> "ok",
        d |-> [d EXCEPT ![im.k] = IF im.kind = "upd" /\ OnlyCare /\ cur # Absent
                                  THEN Row(im.before.w, cur.u) ELSE im.before]]
  ELSE IF Proj(cur, im.kind) = Proj(im.before, im.kind) THEN [res |-> "skip", d |-> d]
  ELSE [res |-> "dirty", d |-> d]

\* undo all images of a branch, last statement first; marks = the (statement, result) pairs met
RECURSIVE UndoAll(_, _)
UndoAll(d, ims) ==
  IF ims = <<>> THEN [res |-> "ok", d |-> d, marks |-> {}]
  ELSE LET im == ims[Len(ims)]
           r  == UndoOne(d, im)
       IN IF r.res = "dirty" THEN [res |-> "dirty", d |-> d, marks |-> {}]
          ELSE LET t == UndoAll(r.d, SubSeq(ims, 1, Len(ims) - 1))
               IN [res |-> t.res, d |-> t.d, marks |-> t.marks \cup {<<im.s, r.res>>}]

\* some statement has rows that already equal the before image next to rows that still equal the after
\* image.  The property speaks row by row; an implementation that compares whole images refuses such a
\* statement although no row is dirty.  Both readings are accepted.
Mixed(r) == \E x \in r.marks, y \in r.marks : x[1] = y[1] /\ x[2] = "ok" /\ y[2] = "skip"

(***************************************************************************)
(* C10: the rollback of branch b = nbr+1 and the end of its phase one      *)
(* interleave statement by statement (a database without gap locks: READ   *)
(* COMMITTED).  The rollback transaction reads undo_log and finds no log;  *)
(* phase one flushes its undo log and commits; only then does the rollback *)
(* write its marker, which fails on the unique key.  Now the rows ARE      *)
(* committed and the log IS there: this delivery either refuses (changes   *)
(* nothing; a later delivery finds the log and compensates) or notices and *)
(* compensates itself.  It never answers 'rollbacked' beside an unapplied  *)
(* log.  (Three statement-level steps of two transactions composed into    *)
(* one action: their order is fixed by the scenario.)                      *)
(***************************************************************************)
P1Raced(stmts, status) ==
  /\ AllowEarly /\ phase = "p1" /\ nbr < MaxBranches
  /\ LegalStmts(db, stmts)
  /\ RunStmts(db, stmts).img # <<>>
  /\ LET r == RunStmts(db, stmts)
         b == nbr + 1
     IN /\ imgs' = [imgs EXCEPT ![b] = r.img]
        /\ nbr' = b
        /\ last' = [op |-> "p1race", b |-> b, status |-> status]
        /\ env' = Append(env, [op |-> "p1race", stmts |-> stmts])
        /\ IF status = "rollbacked"
           THEN LET u == UndoAll(r.d, r.img) IN
                /\ u.res = "ok"
                /\ db' = u.d
                /\ \E m \in {"none", "marker"} : undo' = [undo EXCEPT ![b] = m]
                /\ rolled' = [rolled EXCEPT ![b] = 1]
                /\ tried' = [tried EXCEPT ![b] = 1]
           ELSE /\ db' = r.d
                /\ undo' = [undo EXCEPT ![b] = "normal"]
                /\ UNCHANGED <<rolled, tried>>
  /\ UNCHANGED <<snap0, foreign, phase, next>>

\* One delivery of BranchRollback(b).  fired: the injected database fault hit a statement of the
\* rollback transaction (observed by the harness).  status: what the coordinator was told.
Deliver(b, fail, fired, status) ==
  /\ phase = "rb" /\ b = next /\ tried[b] < MaxDeliver
  /\ fail \in FailPoints /\ (fail = 0 => ~fired)
  /\ fail # 0 => tried[b] = 0                   \* a fault on the first attempt, then clean retries
  /\ tried' = [tried EXCEPT ![b] = @ + 1]
  /\ env' = Append(env, [op |-> "rb", b |-> b, fail |-> fail])
  /\ last' = [op |-> "rb", b |-> b, status |-> status]
  /\ IF fired
     THEN \* NoPartial: a failed attempt changes nothing and is never reported as success
          /\ status # "rollbacked"
          /\ UNCHANGED <<db, undo, rolled>>
     ELSE CASE undo[b] = "normal" ->
               LET r == UndoAll(db, imgs[b]) IN
               IF r.res = "dirty" \/ (Mixed(r) /\ status # "rollbacked")
               THEN \* C09: refuse, leave rows and undo log untouched
                    /\ status # "rollbacked"
                    /\ UNCHANGED <<db, undo, rolled>>
               ELSE /\ status = "rollbacked"
                    /\ db' = r.d
                    /\ undo' = [undo EXCEPT ![b] = "none"]
                    /\ rolled' = [rolled EXCEPT ![b] = @ + 1]
            [] undo[b] = "none" ->
               \* nothing to undo (never written, or already undone): leave the marker
               /\ status = "rollbacked"
               /\ undo' = [undo EXCEPT ![b] = "marker"]
               /\ rolled' = [rolled EXCEPT ![b] = @ + 1]
               /\ UNCHANGED db
            [] undo[b] = "marker" ->
               /\ status = "rollbacked"
               /\ rolled' = [rolled EXCEPT ![b] = @ + 1]
               /\ UNCHANGED <<db, undo>>
  /\ UNCHANGED <<snap0, nbr, imgs, foreign, phase, next>>

\* the coordinator moves on to the previous branch once the current one answered rollbacked
NextBranch ==
  /\ phase = "rb" /\ rolled[next] > 0
  /\ IF next > 1 THEN next' = next - 1 /\ phase' = "rb" ELSE next' = 0 /\ phase' = "done"
  /\ last' = [op |-> "next"]
  /\ UNCHANGED <<db, snap0, nbr, imgs, undo, rolled, tried, foreign, env>>

\* the coordinator gives up on a branch that keeps failing (ends the scenario)
GiveUp ==
  /\ phase = "rb" /\ rolled[next] = 0 /\ tried[next] >= 1
  /\ phase' = "done"
  /\ last' = [op |-> "giveup"]
  /\ UNCHANGED <<db, snap0, nbr, imgs, undo, rolled, tried, foreign, next, env>>

Next ==
  \/ \E n \in 1..MaxStmts : \E stmts \in [1..n -> Stmt] : \E uw \in BOOLEAN, reg \in BOOLEAN : P1(stmts, uw, reg)
  \/ \E n \in 1..MaxStmts : \E stmts \in [1..n -> Stmt] : P1Overtaken(stmts)
  \/ \E n \in 1..MaxStmts : \E stmts \in [1..n -> Stmt] : P1Raced(stmts, "failed")
  \/ \E k \in Keys : P1Rejected(k)
  \/ \E k \in Keys, r \in Rows : Foreign(k, r)
  \/ StartRollback
  \/ \E b \in Branches, f \in FailPoints, fired \in BOOLEAN, st \in {"rollbacked", "failed"} : Deliver(b, f, fired, st)
  \/ NextBranch
  \/ GiveUp

Spec == Init /\ [][Next]_vars

-----------------------------------------------------------------------------
(* Properties *)

AllRolled == phase = "done" /\ \A b \in 1..nbr : rolled[b] > 0

\* C01 Exact: every branch answered rollbacked and nobody else wrote => the table is as it was and
\* no undo log with images is left
Exact == (AllRolled /\ foreign = 0) => (db = snap0 /\ \A b \in 1..nbr : undo[b] # "normal")

\* C01 Honest / C09: a branch that answered rollbacked has no undo log left to apply
Honest == \A b \in 1..nbr : rolled[b] > 0 => undo[b] # "normal"

\* C10 Idempotent: answering rollbacked again never changes the table (checked as action property)
Idempotent == [][\A b \in Branches : (rolled[b] > 0 /\ rolled'[b] > rolled[b]) => db' = db]_vars

TypeOK == /\ db \in [Keys -> Rows] /\ nbr \in 0..MaxBranches /\ phase \in {"p1", "rb", "done"}
=============================================================================
