SPECIFICATION TraceSpec
CONSTANTS
  NKeys = 2
  MaxOps = 1000
  WriteKinds = {"upd", "ups", "del", "ins"}
  AllowSfu = TRUE
  EndHows = {"commit", "rollback"}
  AKinds = {"sfu", "sfux", "upd", "ups", "del", "updx"}
  BKinds = {"upd", "ups", "del", "updx"}
  KeyPairs = {}
  StmtPoints = {}
  Inits = {}
  Nested = FALSE
  EndAfterBoth = FALSE
  Strict = FALSE
CONSTRAINT HighWater
POSTCONDITION Post
CHECK_DEADLOCK FALSE
