---------------------------- MODULE Sessions_Trace ----------------------------
(* Trace validation for Sessions.tla (C19): every recorded execution of the real        *)
(* loadbalance.Select / session manager / reconnect path must be a behaviour of the    *)
(* specification, with the property's invariants holding in every state.               *)
EXTENDS Sessions, Json, IOUtils

VARIABLES l, s0

Trace  == ndJsonDeserialize(IOEnv.TRACE_FILE)
Starts == {i \in 1..Len(Trace) : Trace[i].k = 1}
EndOf(s) == s + Trace[s].n - 1
Max(a, b) == IF a > b THEN a ELSE b
ToSet(q) == {q[i] : i \in 1..Len(q)}

tvars == <<vars, l, s0>>

TraceInit ==
  \E s \in Starts :
    /\ s0 = s /\ l = s + 1
    /\ Trace[s].ev = "Init"
    /\ env = <<>>
    /\ \/ /\ Trace[s].part = "sel"
          /\ SelInit(Trace[s].policy, Trace[s].sess)
       \/ /\ Trace[s].part = "rc"
          /\ RcInit(ToSet(Trace[s].resources), Trace[s].by,
                    [tm |-> Trace[s].tm0, rm |-> ToSet(Trace[s].rm0)],
                    [tm |-> Trace[s].tmb, rm |-> ToSet(Trace[s].rmb)])
    /\ TLCSet(Trace[s].t, s + 1)

IsEv(e) == /\ l <= EndOf(s0)
           /\ Trace[l].ev = e
           /\ l' = l + 1 /\ s0' = s0

E == UNCHANGED env

\* part "sel": the history of the table as the driver (or the client) made it, and the selections
TOpen     == IsEv("Open") /\ Open(Trace[l].id, Trace[l].addr) /\ E
TRegister == IsEv("Register") /\ Register(Trace[l].id) /\ E
TClose    == IsEv("Close") /\ Close(Trace[l].id) /\ E
TRelease  == IsEv("Release") /\ Release(Trace[l].id) /\ E
TSelect   == IsEv("Select") /\ Observe(Trace[l].xid, Trace[l].r, Trace[l].res) /\ E

\* part "rc"
TWork       == IsEv("Work") /\ PhaseOne(ToSet(Trace[l].branches)) /\ E
TLose       == IsEv("Lose") /\ Lose /\ E
TReopen     == IsEv("Reopen") /\ Reopen /\ E
TAnnounceTM == IsEv("AnnounceTM") /\ AnnounceTM(Trace[l].s) /\ E
TAnnounceRM == IsEv("AnnounceRM") /\ AnnounceRM(Trace[l].s, Trace[l].rid) /\ E
TAnnounceFailed == IsEv("AnnounceFailed") /\ AnnounceFailed(Trace[l].s, Trace[l].rid) /\ E
TSettle     == IsEv("Settle") /\ Settle /\ E
TBeginAfter == IsEv("BeginAfter") /\ BeginAfter(Trace[l].ok) /\ E
TPhase2     == IsEv("Phase2") /\ Phase2(Trace[l].rid, Trace[l].reached, Trace[l].answered) /\ E

TEnd == IsEv("End") /\ UNCHANGED vars

TraceNext == TOpen \/ TRegister \/ TClose \/ TRelease \/ TSelect
             \/ TWork \/ TLose \/ TReopen \/ TAnnounceTM \/ TAnnounceRM \/ TAnnounceFailed \/ TSettle \/ TBeginAfter \/ TPhase2
             \/ TEnd
TraceSpec == TraceInit /\ [][TraceNext]_tvars

Invs == [LiveOnly |-> LiveOnly, XidAffinity |-> XidAffinity, NoCrash |-> NoCrash,
         ReannounceTM |-> ReannounceTM, ReannounceRM |-> ReannounceRM,
         BeginWorks |-> BeginWorks, Phase2Reaches |-> Phase2Reaches]
Failed == {i \in DOMAIN Invs : ~Invs[i]}

HighWater ==
  IF Failed = {} THEN TLCSet(Trace[s0].t, Max(TLCGet(Trace[s0].t), l))
  ELSE PrintT(<<"INVFAIL", Trace[s0].t, l - s0, Failed>>) /\ FALSE

Rejected == {s \in Starts : TLCGet(Trace[s].t) # EndOf(s) + 1}
Post ==
  /\ PrintT(<<"TRACES", Cardinality(Starts), "REJECTED", Cardinality(Rejected)>>)
  /\ \A s \in Rejected :
       LET hw == TLCGet(Trace[s].t) IN
       PrintT(<<"REJECT", Trace[s].t, hw - s + 1, IF hw <= EndOf(s) THEN Trace[hw].ev ELSE "?">>)
=============================================================================
