----------------------------- MODULE XAHold_Gen -----------------------------
(* Scenario generation for the xahold driver: every maximal sequence of whole calls (one call in    *)
(* flight at a time) the specification allows, written as the list of call names.                    *)
EXTENDS XAHold, Sequences, IOUtils, Json

VARIABLE hist
gvars == <<vars, hist>>

GenInit == Init /\ hist = <<>>
\* a call is started only when nothing is in flight; a call in flight runs to its end
GenNext == \E o \in Ops :
             /\ Step(o)
             /\ (pc[o] = "idle" => Quiet)
             /\ hist' = IF pc[o] = "idle" THEN Append(hist, o) ELSE hist

GenDone == Quiet /\ \A o \in Ops : ~CanStart(o)

ScenFile == IOEnv.SCEN_FILE
Dump ==
  GenDone =>
    LET r == Serialize(<<[calls |-> hist]>>, ScenFile,
                       [format |-> "NDJSON", charset |-> "UTF-8",
                        openOptions |-> <<"WRITE", "CREATE", "APPEND">>])
    IN r = r
=============================================================================
