SPECIFICATION TraceSpec
CONSTANTS
  SplitClose = FALSE
  WithForce = TRUE
CONSTRAINT HighWater
POSTCONDITION Post
CHECK_DEADLOCK FALSE
