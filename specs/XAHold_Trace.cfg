SPECIFICATION TraceSpec
CONSTANTS
  SplitClose = FALSE
  SplitRelease = FALSE
  WithForce = TRUE
CONSTRAINT HighWater
POSTCONDITION Post
CHECK_DEADLOCK FALSE
