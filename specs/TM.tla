--------------------------------- MODULE TM ---------------------------------
(***************************************************************************)
(* C04, C07 - the transaction initiator (pkg/tm).                          *)
(*                                                                         *)
(* Code: tm.WithGlobalTx / begin / commitOrRollback (transaction_executor  *)
(* .go), GlobalTransactionManager.Begin/Commit/Rollback (global_transaction*)
(* .go), backoff (util/backoff), the shared ContextVariable (context.go).  *)
(*                                                                         *)
(* A behaviour is one call tree of WithGlobalTx scopes executed by one     *)
(* goroutine (nested calls), the coordinator's replies, and cancellation   *)
(* of the caller's context.  The specification says what the coordinator   *)
(* may observe and what each scope may return; it does not model the       *)
(* client's mutable context variable - only what must be observable of it. *)
(*                                                                         *)
(* Layers: the actions below are the protocol layer (precise where C04/C07 *)
(* speak, silent elsewhere).  `env` is the history of environment choices  *)
(* used for scenario generation.                                           *)
(***************************************************************************)
EXTENDS Integers, Sequences, FiniteSets, TLC

CONSTANTS
  MaxRetryC,     \* configured commit retry count; 0 = retry without bound
  MaxRetryR,     \* configured rollback retry count; 0 = retry without bound
  MaxFail,       \* generation bound: transport errors per second-phase loop
  MaxDepth,      \* nesting depth of scopes
  MaxKids,       \* child scopes per scope
  Modes,         \* subset of the six propagation modes
  Kinds,         \* how a child gets its context: "shared" (same context object) | "fresh" (new context carrying the xid)
  Outcomes,      \* subset of {"nil", "err", "panic"}
  BeginReplies,  \* subset of {"ok", "fail", "neterr"}
  P2Replies,     \* subset of {"ok", "neterr"}
  AllowCancel,   \* BOOLEAN
  DetReturn      \* BOOLEAN: generation only - close scopes with the one return value the property prescribes

VARIABLES
  stack,      \* open scopes, innermost last
  tclog,      \* requests the coordinator has received: <<[kind, xid]>>  (begin carries the new xid once answered)
  nxid,       \* xids handed out so far
  cancelled,  \* the caller's context has been cancelled
  rets,       \* values returned by closed scopes, in closing order (history)
  decided,    \* xid -> outcome of the scope that began it ("none" while open)
  env,        \* history of environment choices (scenario)
  budget      \* the configured retry counts in force [commit, rollback] (configuration: never changes)

vars == <<stack, tclog, nxid, cancelled, rets, decided, env, budget>>

Xid(n) == n   \* abstract xids are 1, 2, ...; 0 is "no transaction"
NoXid  == 0

Act(mode, cx) ==
  CASE mode = "Required"     -> IF cx # NoXid THEN "join" ELSE "new"
    [] mode = "Supports"     -> IF cx # NoXid THEN "join" ELSE "none"
    [] mode = "Mandatory"    -> IF cx # NoXid THEN "join" ELSE "error"
    [] mode = "RequiresNew"  -> "new"
    [] mode = "NotSupported" -> "none"
    [] mode = "Never"        -> IF cx # NoXid THEN "error" ELSE "none"

Top == stack[Len(stack)]
SetTop(f) == [stack EXCEPT ![Len(stack)] = f]
Depth == Len(stack)

Init ==
  /\ stack = <<>> /\ tclog = <<>> /\ nxid = 0 /\ cancelled = FALSE
  /\ rets = <<>> /\ decided = <<>> /\ env = <<>>
  /\ budget = [commit |-> MaxRetryC, rollback |-> MaxRetryR]

(***************************************************************************)
(* A scope is entered: at the root, or from inside a running callback.     *)
(*   st: "begin" (must ask the coordinator) -> "beginw" -> "ready" (the    *)
(*   callback may start) -> "run" -> "p2" / "p2w" (second phase loop) ->   *)
(*   "closing" (about to return).                                          *)
(***************************************************************************)
Enter(mode, kind) ==
  /\ \/ stack = <<>> /\ rets = <<>>
     \/ /\ stack # <<>> /\ Top.st = "run" /\ Top.kids < MaxKids /\ Depth < MaxDepth
  /\ LET cx  == IF stack = <<>> THEN NoXid ELSE Top.xid
         act == Act(mode, cx)
         f   == [mode |-> mode, kind |-> kind, act |-> act,
                 xid |-> IF act = "join" THEN cx ELSE NoXid,
                 st |-> CASE act = "new" -> "begin" [] act = "error" -> "closing" [] OTHER -> "ready",
                 outcome |-> "none", beginok |-> (act # "new" /\ act # "error"),
                 kids |-> 0, att |-> 0, fails |-> 0, acked |-> FALSE, lastrep |-> "none",
                 cancelledAtAck |-> FALSE]
     IN /\ stack' = (IF stack = <<>> THEN <<>> ELSE SetTop([Top EXCEPT !.kids = @ + 1])) \o <<f>>
        /\ env' = Append(env, [op |-> "enter", mode |-> mode, kind |-> kind])
  /\ UNCHANGED <<tclog, nxid, cancelled, rets, decided, budget>>

BeginReq ==
  /\ stack # <<>> /\ Top.st = "begin"
  /\ stack' = SetTop([Top EXCEPT !.st = "beginw"])
  /\ tclog' = Append(tclog, [kind |-> "begin", xid |-> NoXid])
  /\ UNCHANGED <<nxid, cancelled, rets, decided, env, budget>>

BeginRep(r) ==
  /\ stack # <<>> /\ Top.st = "beginw"
  /\ IF r = "ok"
     THEN /\ nxid' = nxid + 1
          /\ stack' = SetTop([Top EXCEPT !.st = "ready", !.xid = Xid(nxid + 1), !.beginok = TRUE])
          /\ decided' = Append(decided, "none")
     ELSE /\ stack' = SetTop([Top EXCEPT !.st = "closing"])
          /\ UNCHANGED <<nxid, decided, budget>>
  /\ env' = Append(env, [op |-> "beginrep", r |-> r])
  /\ UNCHANGED <<tclog, cancelled, rets, budget>>

\* the business callback starts and sees xid x
Callback(x) ==
  /\ stack # <<>> /\ Top.st = "ready"
  /\ x = Top.xid
  /\ stack' = SetTop([Top EXCEPT !.st = "run"])
  /\ UNCHANGED <<tclog, nxid, cancelled, rets, decided, env, budget>>

\* the business callback ends with outcome o
Leave(o) ==
  /\ stack # <<>> /\ Top.st = "run"
  /\ stack' = SetTop([Top EXCEPT !.outcome = o, !.st = IF Top.act = "new" THEN "p2" ELSE "closing"])
  /\ decided' = IF Top.act = "new" THEN [decided EXCEPT ![Top.xid] = o] ELSE decided
  /\ env' = Append(env, [op |-> "leave", o |-> o])
  /\ UNCHANGED <<tclog, nxid, cancelled, rets, budget>>

P2Kind(f) == IF f.outcome = "nil" THEN "commit" ELSE "rollback"

\* one attempt of the second phase: only by the scope that began the transaction, only of the kind
\* the outcome dictates, a repeated attempt only after a transport error, within the retry budget
P2Req(kind, x) ==
  /\ stack # <<>> /\ Top.st = "p2"
  /\ ~Top.acked
  /\ Top.att = 0 \/ Top.lastrep = "neterr"
  /\ budget[kind] = 0 \/ Top.att < budget[kind]
  /\ kind = P2Kind(Top) /\ x = Top.xid
  /\ stack' = SetTop([Top EXCEPT !.st = "p2w", !.att = @ + 1])
  /\ tclog' = Append(tclog, [kind |-> kind, xid |-> x])
  /\ UNCHANGED <<nxid, cancelled, rets, decided, env, budget>>

P2Rep(r) ==
  /\ stack # <<>> /\ Top.st = "p2w"
  /\ r = "neterr" => Top.fails < MaxFail
  /\ stack' = SetTop([Top EXCEPT !.lastrep = r,
                                  !.acked = (r = "ok"),
                                  !.fails = IF r = "neterr" THEN @ + 1 ELSE @,
                                  !.st = IF r = "ok" THEN "closing" ELSE "p2"])
  /\ env' = Append(env, [op |-> "p2rep", r |-> r])
  /\ UNCHANGED <<tclog, nxid, cancelled, rets, decided, budget>>

\* the second phase may end without acknowledgement when the budget is used up or the caller's
\* context is cancelled
GaveUp(f) ==
  /\ f.st = "p2" /\ ~f.acked
  /\ \/ budget[P2Kind(f)] > 0 /\ f.att >= budget[P2Kind(f)]
     \/ cancelled

\* nil is earned: the business succeeded and (if this scope decides) the commit was acknowledged
NilEarned(f) == f.beginok /\ f.outcome = "nil" /\ (f.act = "new" => f.acked)

Return(v) ==
  /\ stack # <<>>
  /\ Top.st = "closing" \/ GaveUp(Top)
  /\ v \in {"nil", "err"}              \* never a panic escaping WithGlobalTx
  /\ v = "nil" => NilEarned(Top)
  /\ rets' = Append(rets, v)
  /\ stack' = SubSeq(stack, 1, Len(stack) - 1)
  /\ UNCHANGED <<tclog, nxid, cancelled, decided, env, budget>>

\* what the enclosing scope sees of its own transaction after a child scope has returned:
\* its xid, role and name are intact (C07)
After(x, role, nameok) ==
  /\ stack # <<>> /\ Top.st = "run"
  /\ x = Top.xid
  /\ Top.act = "new"  => role = "Launcher" /\ nameok
  /\ Top.act = "join" => role = "Participant" /\ nameok
  /\ UNCHANGED vars

Cancel ==
  /\ AllowCancel /\ ~cancelled
  /\ stack # <<>> \/ rets = <<>>
  /\ ~(stack # <<>> /\ Top.st \in {"beginw", "p2w"})   \* generation: cancellation is placed between steps
  /\ cancelled' = TRUE
  /\ env' = Append(env, [op |-> "cancel"])
  /\ UNCHANGED <<stack, tclog, nxid, rets, decided, budget>>

\* what the code does today for a Return value, used only to close generated scenarios
AnyReturn ==
  IF DetReturn THEN stack # <<>> /\ Return(IF NilEarned(Top) THEN "nil" ELSE "err")
               ELSE \E v \in {"nil", "err"} : Return(v)

Next ==
  \/ \E m \in Modes, k \in Kinds : Enter(m, k)
  \/ BeginReq
  \/ \E r \in BeginReplies : BeginRep(r)
  \/ (stack # <<>> /\ Callback(Top.xid))
  \/ \E o \in Outcomes : Leave(o)
  \/ (stack # <<>> /\ Top.st = "p2" /\ P2Req(P2Kind(Top), Top.xid))
  \/ \E r \in P2Replies : P2Rep(r)
  \/ AnyReturn
  \/ Cancel

Spec == Init /\ [][Next]_vars

-----------------------------------------------------------------------------
(* Properties of the design (checked by TLC on TM_MC*.cfg) *)

Reqs(x, k) == {i \in 1..Len(tclog) : tclog[i].xid = x /\ tclog[i].kind = k}

\* never both decisions for one transaction
OneDecision == \A x \in 1..nxid : Reqs(x, "commit") = {} \/ Reqs(x, "rollback") = {}

\* the decision is truthful
Truthful == \A x \in 1..nxid :
  /\ Reqs(x, "commit") # {}   => decided[x] = "nil"
  /\ Reqs(x, "rollback") # {} => decided[x] \in {"err", "panic"}

\* retry discipline: at most MaxRetry requests per decision
RetryBound ==
  \A x \in 1..nxid :
    /\ budget.commit > 0 => Cardinality(Reqs(x, "commit")) <= budget.commit
    /\ budget.rollback > 0 => Cardinality(Reqs(x, "rollback")) <= budget.rollback

\* an open joining scope never has requests of its own: every second-phase request names an xid whose
\* beginner is on the stack or closed -- by construction of P2Req; checked as: xids in the log were issued
Issued == \A i \in 1..Len(tclog) : tclog[i].kind # "begin" => tclog[i].xid \in 1..nxid

Finished == stack = <<>> /\ rets # <<>>

\* the root's return value is nil only if every ... (root frame itself is gone; use rets)
TypeOK == /\ nxid \in Nat /\ cancelled \in BOOLEAN /\ Len(stack) <= MaxDepth
=============================================================================
