--------------------------------- MODULE Rpc ---------------------------------
(***************************************************************************)
(* C14 - concurrent requests are answered by their own responses;          *)
(* stragglers do no harm.                                                   *)
(*                                                                         *)
(* Code: GettyRemotingClient.SendSyncRequest / syncCallback (getty_client   *)
(* .go), GettyRemoting.sendAsync / futures table / NotifyRpcMessageResponse *)
(* (getty_remoting.go), clientOnResponseProcessor, clientHeartBeatProcessor,*)
(* gettyClientHandler.OnMessage / OnCron / OnClose (listener.go).           *)
(*                                                                         *)
(* Callers send requests; each request gets a message id and an entry in    *)
(* the client's table of pending futures.  The coordinator (environment)    *)
(* emits replies - in any order, possibly twice, possibly never - and the   *)
(* network delivers them; every message is delivered on its own goroutine   *)
(* (StartDeliver .. EndDeliver).  A caller returns with its reply or, when   *)
(* none came, with a timeout.  Other traffic carrying the *same message id* *)
(* as a pending request exists and must be harmless: the coordinator's own  *)
(* requests (its ids come from its own counter; the client answers with the *)
(* same id) and the client's heartbeats (ids from the listener's own        *)
(* counter; the coordinator's pong carries the same id).                    *)
(*                                                                         *)
(* Message ids are opaque values.                                           *)
(***************************************************************************)
EXTENDS Integers, Sequences, FiniteSets, TLC

CONSTANTS
  N,          \* callers 1..N
  MaxDup,     \* generation bound: duplicated replies
  MaxLate,    \* generation bound: replies emitted after their caller timed out
  MaxDrop,    \* generation bound: callers whose reply never comes in time
  MaxColl,    \* generation bound: foreign messages reusing a pending id
  CollKinds,  \* subset of {"coordreq", "hb"}
  AllowLoss   \* BOOLEAN: the connection may be lost while requests are pending

VARIABLES
  cst,       \* caller -> "idle" | "waiting" | "returned"
  cid,       \* caller -> message id of its request (0: none yet)
  cret,      \* caller -> "none" | "own" | "timeout"
  used,      \* message ids handed out to callers
  futures,   \* the client's table: id -> "pending" | "done"   (DOMAIN = entries present)
  net,       \* id -> copies of the reply in flight
  emitted,   \* id -> copies of the reply the coordinator has emitted
  indeliv,   \* id -> deliveries (of any message carrying this id) in progress
  matched,   \* history: ids whose reply met a pending future
  lost,      \* the connection has been lost
  colls,     \* history: number of foreign messages that reused a pending id
  env        \* history of environment choices (scenario)

vars == <<cst, cid, cret, used, futures, net, emitted, indeliv, matched, lost, colls, env>>

Callers == DOMAIN cst

Get(f, id) == IF id \in DOMAIN f THEN f[id] ELSE 0
Put(f, id, v) == [x \in DOMAIN f \cup {id} |-> IF x = id THEN v ELSE f[x]]
Without(f, id) == [x \in DOMAIN f \ {id} |-> f[x]]

Pending(id) == id \in DOMAIN futures /\ futures[id] = "pending"
Done(id)    == id \in DOMAIN futures /\ futures[id] = "done"

Init ==
  /\ cst = [c \in 1..N |-> "idle"] /\ cid = [c \in 1..N |-> 0] /\ cret = [c \in 1..N |-> "none"]
  /\ used = {} /\ futures = <<>> /\ net = <<>> /\ emitted = <<>> /\ indeliv = <<>>
  /\ matched = {} /\ lost = FALSE /\ colls = 0 /\ env = <<>>

\* caller c sends its request; the request carries a fresh message id and is entered in the table
Send(c, id) ==
  /\ cst[c] = "idle" /\ id \notin used /\ ~lost
  /\ used' = used \cup {id}
  /\ cid' = [cid EXCEPT ![c] = id] /\ cst' = [cst EXCEPT ![c] = "waiting"]
  /\ futures' = Put(futures, id, "pending")
  /\ UNCHANGED <<cret, net, emitted, indeliv, matched, lost, colls, env>>

\* the coordinator emits a (further) copy of the reply to request id
Emit(id) ==
  /\ id \in used /\ ~lost
  /\ emitted' = Put(emitted, id, Get(emitted, id) + 1)
  /\ net' = Put(net, id, Get(net, id) + 1)
  /\ UNCHANGED <<cst, cid, cret, used, futures, indeliv, matched, lost, colls, env>>

\* what the arrival of a reply does to the table: it completes the pending future of its id, if there is
\* one; a late, duplicate or unknown-id reply changes nothing (it is discarded)
Arrive(id) ==
  /\ futures' = IF Pending(id) THEN [futures EXCEPT ![id] = "done"] ELSE futures
  /\ matched' = IF Pending(id) THEN matched \cup {id} ELSE matched
  /\ indeliv' = Put(indeliv, id, Get(indeliv, id) + 1)

\* a reply in flight is handed to the client's dispatch (on its own goroutine)
StartDeliver(id) ==
  /\ Get(net, id) > 0
  /\ net' = Put(net, id, net[id] - 1)
  /\ Arrive(id)
  /\ UNCHANGED <<cst, cid, cret, used, emitted, lost, colls, env>>

\* emission and arrival in one step (what a recorded execution shows: "the coordinator's reply arrives")
Reply(id) ==
  /\ id \in used /\ ~lost
  /\ emitted' = Put(emitted, id, Get(emitted, id) + 1)
  /\ Arrive(id)
  /\ UNCHANGED <<cst, cid, cret, used, net, lost, colls>>

\* the dispatch of a message returns: always possible - no delivery ever waits for anybody
EndDeliver(id) ==
  /\ Get(indeliv, id) > 0
  /\ indeliv' = Put(indeliv, id, indeliv[id] - 1)
  /\ UNCHANGED <<cst, cid, cret, used, futures, net, emitted, matched, lost, colls, env>>

\* a message that is not a reply to the client's request but carries a pending request's id is dispatched:
\*   "coordreq": a coordinator request (the client's response to it reuses the id)
\*   "hb"      : the client's own heartbeat went out with this id; this is the coordinator's pong
\* neither touches the table
Foreign(kind, id) ==
  /\ ~lost
  /\ indeliv' = Put(indeliv, id, Get(indeliv, id) + 1)
  /\ colls' = colls + 1
  /\ UNCHANGED <<cst, cid, cret, used, futures, net, emitted, matched, lost>>

\* the client's heartbeat leaves with an id that a pending request uses as well: nothing happens to the table
Heartbeat(id) == UNCHANGED vars

\* caller c returns: with its own reply if one has arrived, with a timeout error only if none has
Return(c, v) ==
  /\ cst[c] = "waiting"
  /\ \/ v = "own" /\ Done(cid[c])
     \/ v = "timeout" /\ Pending(cid[c])
  /\ futures' = Without(futures, cid[c])            \* completed or abandoned: the entry goes
  /\ cst' = [cst EXCEPT ![c] = "returned"] /\ cret' = [cret EXCEPT ![c] = v]
  /\ UNCHANGED <<cid, used, net, emitted, indeliv, matched, lost, colls, env>>

\* the connection is lost: replies in flight are gone, none will be emitted
ConnLost ==
  /\ AllowLoss /\ ~lost
  /\ lost' = TRUE
  /\ net' = [id \in DOMAIN net |-> 0]
  /\ UNCHANGED <<cst, cid, cret, used, futures, emitted, indeliv, matched, colls>>

AllReturned == \A c \in Callers : cst[c] = "returned"
NetEmpty    == \A id \in DOMAIN net : net[id] = 0
NoDelivery  == \A id \in DOMAIN indeliv : indeliv[id] = 0

-----------------------------------------------------------------------------
(* The design's behaviours (environment bounded for model checking) *)

NextId == Cardinality(used) + 1
Dups   == LET S == {id \in DOMAIN emitted : emitted[id] > 1} IN Cardinality(S)

Next ==
  \/ \E c \in Callers : Send(c, NextId)
  \/ \E id \in used : /\ Get(emitted, id) < (IF Dups < MaxDup THEN 2 ELSE 1)
                      /\ Emit(id) /\ env' = env
  \/ \E id \in DOMAIN net : StartDeliver(id)
  \/ \E id \in DOMAIN indeliv : EndDeliver(id)
  \/ \E k \in CollKinds : \E id \in DOMAIN futures :
        /\ colls < MaxColl /\ Pending(id) /\ Foreign(k, id) /\ env' = env
  \/ \E c \in Callers : \E v \in {"own", "timeout"} : Return(c, v)
  \/ ConnLost /\ env' = env

Fair == /\ \A c \in 1..N : WF_vars(\E v \in {"own", "timeout"} : Return(c, v))
        /\ \A id \in 1..N : WF_vars(EndDeliver(id)) /\ WF_vars(StartDeliver(id))

Spec     == Init /\ [][Next]_vars
FairSpec == Spec /\ Fair

-----------------------------------------------------------------------------
(* Properties *)

TypeOK ==
  /\ \A c \in Callers : cst[c] \in {"idle", "waiting", "returned"} /\ cret[c] \in {"none", "own", "timeout"}
  /\ DOMAIN futures \subseteq used

\* a caller that received a reply received the one carrying its own id; no two callers share an id
OwnReply ==
  /\ \A c \in Callers : cret[c] = "own" => cid[c] \in matched
  /\ \A c, d \in Callers : (c # d /\ cid[c] # 0) => cid[c] # cid[d]

\* a timeout is given only to a caller whose reply had not come - never instead of a reply that did
TimeoutNotTheft == \A c \in Callers : cret[c] = "timeout" => cid[c] \notin matched

\* the table holds exactly the requests somebody still waits for
Exact == DOMAIN futures = {cid[c] : c \in {d \in Callers : cst[d] = "waiting"}}

NoLeak == (AllReturned /\ NetEmpty /\ NoDelivery) => DOMAIN futures = {}

\* a delivery in progress can always finish: a late, duplicate or unknown-id reply is discarded
DeliveryNeverBlocks == \A id \in DOMAIN indeliv : indeliv[id] > 0 => ENABLED EndDeliver(id)

\* every caller returns
EveryCallerReturns == \A c \in 1..N : (cst[c] = "waiting") ~> (cst[c] = "returned")
=============================================================================
