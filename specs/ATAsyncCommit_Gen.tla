------------------------- MODULE ATAsyncCommit_Gen -------------------------
(* The environment's choice space for C11: which branch commits the coordinator sends (two          *)
(* resources x two xids x two branch ids, ids shared across xids and vice versa, repeats allowed),  *)
(* which transient failures happen (connection acquisition, delete statement), whether the database *)
(* of resource A is stalled while the requests arrive (queue pressure), whether resource B is       *)
(* registered only later.  TLC enumerates it; the expected behaviour is ATAsyncCommit's property    *)
(* layer, checked on the recorded trace of each replay.  Worker settings come per process from the  *)
(* registry.                                                                                        *)
(*                                                                                                  *)
(* A scenario is [late, steps]; a step is [op, x, b, r] with op one of                              *)
(*   req      deliver BranchCommit(xid x, branch b, resource r) and wait (bounded) for the reply    *)
(*   connfail the next connection attempt to the database of r fails                                *)
(*   delfail  the next DELETE on undo_log of r fails                                                *)
(*   hold / release   DELETEs on undo_log of r stall until released                                 *)
(*   appear   the application opens data source r (it becomes known to the resource manager)        *)
(*   settle   wait (bounded) until everything requested so far has been deleted                     *)
(* Request sequences are taken up to renaming of xids and branch ids (the first request has x = 1,  *)
(* b = 1).                                                                                          *)
EXTENDS Integers, Sequences, FiniteSets, TLC, IOUtils

CONSTANTS Plan   \* set of <<family, min requests, max requests, max faults>>

Req(x, b, r) == [op |-> "req", x |-> x, b |-> b, r |-> r]
Op(o, r)     == [op |-> o, x |-> 0, b |-> 0, r |-> r]
Settle       == Op("settle", "")
Reqs         == {Req(x, b, r) : x \in 1..2, b \in 1..2, r \in {"A", "B"}}
Ord(q)       == (IF q.r = "A" THEN 0 ELSE 4) + 2 * (q.x - 1) + (q.b - 1)
FOrd(f)      == (IF f.op = "connfail" THEN 0 ELSE 2) + (IF f.r = "A" THEN 0 ELSE 1)

Canon(s)    == s[1].x = 1 /\ s[1].b = 1
Sorted(s)   == \A i \in 1..(Len(s) - 1) : Ord(s[i]) <= Ord(s[i + 1])
Distinct(s) == \A i, j \in 1..Len(s) : i < j => s[i] # s[j]
SeqsAll(n)    == {s \in [1..n -> Reqs] : Canon(s)}
SeqsSorted(n) == {s \in SeqsAll(n) : Sorted(s)}

FaultOps == {Op(o, r) : o \in {"connfail", "delfail"}, r \in {"A", "B"}}
FaultSeqs(m) == UNION {{f \in [1..k -> FaultOps] : \A i \in 1..(k - 1) : FOrd(f[i]) <= FOrd(f[i + 1])} : k \in 1..m}
Uses(s, r) == \E i \in 1..Len(s) : s[i].r = r
OnA(s) == Cardinality({i \in 1..Len(s) : s[i].r = "A"})
FirstB(s) == CHOOSE i \in 1..Len(s) : s[i].r = "B" /\ \A j \in 1..(i - 1) : s[j].r # "B"

RECURSIVE Spread(_)
Spread(s) == IF Len(s) <= 1 THEN s ELSE <<s[1], Settle>> \o Spread(Tail(s))

Sc(late, steps) == [late |-> late, steps |-> steps]

Fam(Family, MinReq, MaxReq, MaxFaults) ==
  LET Ns == MinReq..MaxReq IN
  CASE Family = "plain" ->
         UNION {{Sc(<<>>, s) : s \in SeqsAll(n)} : n \in Ns}
    [] Family = "plainsorted" ->
         UNION {{Sc(<<>>, s) : s \in SeqsSorted(n)} : n \in Ns}
    [] Family = "settle" ->
         UNION {{Sc(<<>>, Spread(s)) : s \in SeqsSorted(n)} : n \in Ns}
    [] Family = "fault" ->
         UNION {UNION {{Sc(<<>>, f \o s) : f \in {g \in FaultSeqs(MaxFaults) : \A i \in 1..Len(g) : Uses(s, g[i].r)}}
                         : s \in SeqsSorted(n)} : n \in Ns}
    [] Family = "faultmid" ->
         UNION {UNION {{Sc(<<>>, <<s[1], Settle, f>> \o Tail(s)) : f \in {g \in FaultOps : Uses(Tail(s), g.r)}}
                         : s \in SeqsSorted(n)} : n \in Ns}
    [] Family = "late" ->
         UNION {UNION {{Sc(<<"B">>, SubSeq(s, 1, p) \o <<Op("appear", "B")>> \o SubSeq(s, p + 1, n))
                          : p \in FirstB(s)..n} : s \in {q \in SeqsSorted(n) : Uses(q, "B")}} : n \in Ns}
    [] Family = "press" ->
         UNION {{Sc(<<>>, <<Op("hold", "A")>> \o f \o s \o <<Op("release", "A")>>)
                   : s \in {q \in SeqsSorted(n) : Distinct(q) /\ OnA(q) >= 3},
                     f \in {<<>>} \cup {<<Op(o, "A")>> : o \in (IF MaxFaults > 0 THEN {"connfail", "delfail"} ELSE {})}} : n \in Ns}
    [] Family = "latepress" ->
         UNION {{Sc(<<"B">>, s \o <<Op("appear", "B")>>) : s \in {q \in SeqsSorted(n) : OnA(q) = 0}} : n \in Ns}

Scen == UNION {Fam(p[1], p[2], p[3], p[4]) : p \in Plan}

\* quick: all sequences of <= 3 requests; sorted sequences (multisets) with settling pauses, with <= 2 faults
\* armed up front (<= 2 requests) or 1 fault (3 requests), one fault armed after the first request was
\* served; resource B appearing late at every position; 5 distinct requests arriving while A's database is
\* stalled, without and with a fault; 4..5 requests for the still unknown B
PlanQuick == {<<"plain", 1, 3, 0>>, <<"settle", 2, 3, 0>>, <<"fault", 1, 2, 2>>, <<"fault", 3, 3, 1>>,
              <<"faultmid", 2, 2, 1>>, <<"late", 1, 3, 0>>, <<"press", 5, 5, 1>>, <<"latepress", 4, 5, 0>>}
PlanThorough == PlanQuick \cup
             {<<"plain", 4, 4, 0>>, <<"plainsorted", 5, 5, 0>>, <<"fault", 3, 3, 2>>, <<"faultmid", 3, 3, 1>>,
              <<"press", 4, 4, 1>>, <<"late", 4, 4, 0>>}

VARIABLE sc
GenInit == sc \in Scen
GenNext == UNCHANGED sc
ScenFile == IOEnv.SCEN_FILE
Dump ==
  LET r == Serialize(<<sc>>, ScenFile, [format |-> "NDJSON", charset |-> "UTF-8",
                                        openOptions |-> <<"WRITE", "CREATE", "APPEND">>])
  IN r = r
=============================================================================
