INIT Init
NEXT Next
CONSTANTS
  Parts = {"rc"}
  Ids = {1}
  Nil = 0
  Addrs <- A2
  Policies <- GenPolicy
  FirstXids <- XidsHit
  Xids <- XidsHit
  InitSess <- InitEmpty
  Macro = TRUE
  DetSelect = TRUE
  MaxSel = 0
  MaxSteps = 0
  MaxTotal = 0
  StepsFirst = FALSE
  Resources = {"at", "tcc"}
  Bystanders = {FALSE}
  MaxLoss = 2
  MaxAnnFail = 1
  Shifts = {0}
INVARIANTS Dump
CHECK_DEADLOCK FALSE
