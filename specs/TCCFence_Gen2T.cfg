INIT Init
NEXT Next
CONSTANTS
  NBranches = 2
  MaxDeliver = 3
  MaxFaults = 1
  FailPoints = {0, 1, 2, 3, 4, 5, 6}
  MaxRace = 0
  Locking = TRUE
INVARIANTS DumpSeq
CHECK_DEADLOCK FALSE
