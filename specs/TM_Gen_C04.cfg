INIT Init
NEXT Next
CONSTANTS
  MaxRetryC <- EnvMaxRetryC
  MaxRetryR <- EnvMaxRetryR
  MaxFail = 4
  MaxDepth = 1
  MaxKids = 0
  Modes <- AllModes
  Kinds = {"fresh"}
  Outcomes = {"nil", "err", "panic"}
  BeginReplies = {"ok", "fail", "neterr"}
  P2Replies = {"ok", "neterr"}
  AllowCancel = TRUE
  DetReturn = TRUE
INVARIANTS Dump
CHECK_DEADLOCK FALSE
