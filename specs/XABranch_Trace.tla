--------------------------- MODULE XABranch_Trace ---------------------------
(* Trace validation for XABranch.tla (C17).  The merged sequence of what the database journal and   *)
(* the coordinator observed for one branch must be a behaviour of XABranch with a client that may    *)
(* send anything (Strict = FALSE) and an environment that answers as the database model does - the  *)
(* answers memsql gave (accepted / XAER refusal / injected fault) must be the model's answers: two   *)
(* independent witnesses - and the invariants of the property must hold in every state; what the     *)
(* database shows after each phase (prepared branches, connections inside a branch, durable delta)   *)
(* must be what the specification says.                                                              *)
(* The second kind of trace (IdStart .. IdEnd) is the identifier function over the data dimension.   *)
EXTENDS XABranch, Json, IOUtils

VARIABLES l, s0

Trace  == ndJsonDeserialize(IOEnv.TRACE_FILE)
Starts == {i \in 1..Len(Trace) : Trace[i].k = 1}
EndOf(s) == s + Trace[s].n - 1
Max(a, b) == IF a > b THEN a ELSE b

tvars == <<vars, l, s0>>

TraceInit ==
  \E s \in Starts :
    /\ s0 = s /\ l = s + 1
    /\ Trace[s].ev \in {"Start", "IdStart"}
    /\ mode = (IF Trace[s].ev = "Start" THEN Trace[s].mode ELSE "ids")
    /\ detach = (IF Trace[s].ev = "Start" THEN Trace[s].detach ELSE FALSE)
    /\ reg = "no" /\ db = [i \in Ids |-> "none"] /\ own = [i \in Ids |-> 0]
    /\ failed = FALSE /\ wrote = FALSE /\ leak = FALSE
    /\ ret = "none" /\ retdb = [i \in Ids |-> "none"]
    /\ cmds = <<>> /\ cur = NoP2 /\ p2 = <<>> /\ nfaults = 0 /\ env = <<>>
    /\ TLCSet(Trace[s].t, s + 1)

IsEv(e) == /\ l <= EndOf(s0)
           /\ Trace[l].ev = e
           /\ l' = l + 1 /\ s0' = s0

IdName(ok) == IF ok THEN "good" ELSE "bad"

TRegReq  == IsEv("RegReq") /\ Trace[l].xa /\ RegReq          \* branch type XA, for this global transaction
TRegRep  == IsEv("RegRep") /\ RegRep(Trace[l].r)
TXa      == IsEv("Xa") /\ Xa(Trace[l].cmd, IdName(Trace[l].idok), Trace[l].c, Trace[l].res)
TDml     == IsEv("Dml") /\ Dml(Trace[l].c, Trace[l].res, Trace[l].w)
TOther   == IsEv("OtherFailed") /\ OtherFailed
TReport  == IsEv("Report") /\ Trace[l].idok /\ Report(Trace[l].status)
TReturn  == IsEv("Return") /\ Return(Trace[l].v)
TRefused == IsEv("Refused") /\ ret # "none" /\ UNCHANGED vars
TRestart == IsEv("Restart") /\ Restart
TP2Req   == IsEv("P2Req") /\ P2Req(Trace[l].kind)
\* the coordinator's rollback that arrives while the application is still inside the call (the driver delivers it
\* from memsql's statement gate, i.e. while the named statement of the branch is in flight)
TP2Early == IsEv("P2Early") /\ Trace[l].kind = "rollback" /\ P2Early
TP2      == IsEv("P2") /\ cur.kind = Trace[l].kind /\ P2Rep(Trace[l].status)

\* what the database shows: after the call returned (ph 1) and after phase two (ph 2)
TState == /\ IsEv("State")
          /\ ret # "none" /\ cur = NoP2
          /\ Trace[l].prepared = NPrepared
          /\ Trace[l].inxa = NInXA
          /\ Trace[l].delta = Delta
          /\ UNCHANGED vars

\* phase two used the very text phase one used
TEnd == IsEv("End") /\ Trace[l].idsame /\ UNCHANGED vars

\* unlogged: on the failure path the client may give the connection up instead of rolling back by
\* command (the database then rolls the open branch back)
TDrop == /\ failed /\ ret = "none" /\ l <= EndOf(s0)
         /\ \E c \in Conns : Drop(c)
         /\ UNCHANGED <<l, s0>>

\* ---- the identifier function over the data dimension (pure leg) ----
Minus == 45
Digits == 48..57
IdTextOK(e) ==
  /\ e.text = e.xid \o <<Minus>> \o e.dec                     \* f(xid, b) = xid '-' decimal(b)
  /\ Len(e.dec) >= 1 /\ \A i \in 1..Len(e.dec) : e.dec[i] \in Digits
  /\ Len(e.dec) > 1 => e.dec[1] # 48                          \* canonical decimal: one text per branch id
  /\ e.decok
TId == IsEv("Id") /\ mode = "ids"
       /\ IdTextOK(Trace[l]) /\ Trace[l].rt /\ Trace[l].get /\ Trace[l].inj
       /\ UNCHANGED vars
TIdEnd == IsEv("IdEnd") /\ mode = "ids" /\ UNCHANGED vars

TraceNext == TRegReq \/ TRegRep \/ TXa \/ TDml \/ TOther \/ TReport \/ TReturn \/ TRefused \/ TRestart
             \/ TP2Req \/ TP2Early \/ TP2 \/ TState \/ TEnd \/ TDrop \/ TId \/ TIdEnd
TraceSpec == TraceInit /\ [][TraceNext]_tvars

Invs == [LegalSequence |-> LegalSequence, AcceptedLegal |-> AcceptedLegal, RegisterBeforeStart |-> RegisterBeforeStart,
         OneIdentifier |-> OneIdentifier, NoCommitAfterFailure |-> NoCommitAfterFailure, ErrorSurfaces |-> ErrorSurfaces,
         RolledBackOnFailure |-> RolledBackOnFailure, PhaseOneComplete |-> PhaseOneComplete, PoolClean |-> PoolClean,
         ExactlyOneOutcome |-> ExactlyOneOutcome, NothingEarly |-> NothingEarly, RolledBackStays |-> RolledBackStays]
Failed == {i \in DOMAIN Invs : ~Invs[i]}

HighWater ==
  IF Failed = {} THEN TLCSet(Trace[s0].t, Max(TLCGet(Trace[s0].t), l))
  ELSE PrintT(<<"INVFAIL", Trace[s0].t, l - s0, Failed>>) /\ FALSE

Rejected == {s \in Starts : TLCGet(Trace[s].t) # EndOf(s) + 1}
Post ==
  /\ PrintT(<<"TRACES", Cardinality(Starts), "REJECTED", Cardinality(Rejected)>>)
  /\ \A s \in Rejected :
       LET hw == TLCGet(Trace[s].t) IN
       PrintT(<<"REJECT", Trace[s].t, hw - s + 1, IF hw <= EndOf(s) THEN Trace[hw].ev ELSE "?">>)
=============================================================================
