SPECIFICATION Spec
CONSTANTS
  MaxReq = 2
  BTypes <- AllB
  Kinds <- AllK
  Outcomes <- FewOutcomes
  Places <- P3
  Rids = {1}
CONSTRAINT Canon
VIEW View
INVARIANTS TypeOK RoutedByType AtMostOneReply Echo StatusVerbatim NoFalseSuccess Independence
CHECK_DEADLOCK FALSE
