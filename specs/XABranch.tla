------------------------------ MODULE XABranch ------------------------------
(***************************************************************************)
(* C17 - an XA branch follows the XA protocol; phase two addresses the     *)
(* prepared branch.                                                        *)
(*                                                                         *)
(* Code: XAConn.BeginTx / ExecContext / QueryContext /                     *)
(* createNewTxOnExecIfNeed / Commit / Rollback (conn_xa.go), XATx          *)
(* (tx_xa.go), XAResourceManager.BranchCommit / BranchRollback /           *)
(* finishBranch (xa_resource_manager.go), DBResource.Hold / Lookup /       *)
(* ConnectionForXA (db.go), MysqlXAConn (xa/mysql_xa_connection.go),       *)
(* XaIdBuild (xa_xid_builder.go, xa_branch_xid.go).                        *)
(*                                                                         *)
(* The ENVIRONMENT is the database's XA state machine, per branch          *)
(* identifier and per connection (none -> active -> idle -> prepared ->    *)
(* committed | rolledback; MySQL rejects every other command with an       *)
(* XAER error; a prepared branch stays attached to its connection before   *)
(* 8.0.29 and is detached from it from 8.0.29 on; a connection that dies   *)
(* rolls back what is active or idle and leaves what is prepared), the     *)
(* coordinator (registration answer, phase-two requests, a transaction     *)
(* manager that commits only what returned nil) and the fault plan.        *)
(*                                                                         *)
(* The CLIENT is what is specified: register -> XA START(id) -> business   *)
(* statements -> XA END(id) -> XA PREPARE(id) -> report? -> return; a      *)
(* failure anywhere before a successful prepare => XA END? / XA            *)
(* ROLLBACK(id) (or the connection is given up) and an error to the        *)
(* caller; phase two: XA COMMIT(id) | XA ROLLBACK(id) from the holding     *)
(* connection or a fresh one.                                              *)
(*                                                                         *)
(* Phase two does not wait for phase one (EarlyP2): the coordinator may     *)
(* give the global transaction up (time-out, another participant failed)   *)
(* and ask for the rollback of a branch it has registered while the        *)
(* application is still between register and return (P2Early).  The        *)
(* resource manager must then leave the connection the application is      *)
(* working on alone; whatever it answers must be true, and a branch it     *)
(* reported as rolled back stays rolled back (RolledBackStays).            *)
(*                                                                         *)
(* With Strict = TRUE the client takes only steps the protocol allows      *)
(* (design check: the invariants hold).  With Strict = FALSE the client    *)
(* may send anything at any time; the environment answers as the database  *)
(* does and the invariants decide (trace validation of the real code).     *)
(* The invariants are stated over the history of commands that reached     *)
(* the database (cmds) and the state at the moment the call returned.      *)
(***************************************************************************)
EXTENDS Integers, Sequences, FiniteSets, TLC

CONSTANTS
  Conns,       \* physical connection numbers
  Ids,         \* branch identifiers: "good" = f(xid, branch id), anything else = some other text
  RegReplies,  \* subset of {"ok", "fail", "neterr"}
  Modes,       \* subset of {"auto", "explicit"}
  Strict,      \* BOOLEAN, see above
  MaxFaults,   \* faults the database may inject
  MaxDml,      \* business statements per branch
  MaxP2,       \* phase-two deliveries
  EarlyP2,     \* BOOLEAN: the coordinator may ask for the rollback while phase one is still running (P2Early)
  MaxCmds      \* bound on the command history (design check only)

VARIABLES
  mode,     \* "auto" | "explicit"
  detach,   \* BOOLEAN: server >= 8.0.29 (XA PREPARE detaches the branch from its connection)
  reg,      \* "no" | "asked" | "yes" | "refused"
  db,       \* [Ids -> "none" | "active" | "idle" | "prepared" | "committed" | "rolledback"]
  own,      \* [Ids -> Conns \cup {0}]: the connection the branch is attached to (0: none / detached)
  failed,   \* a step of phase one failed (refusal, transport error, database error)
  wrote,    \* a business statement changed rows inside a branch
  leak,     \* a business statement changed rows outside any branch (autocommitted: beyond phase two)
  ret,      \* "none" | "nil" | "err" | "panic"
  retdb,    \* db at the moment the call returned
  cmds,     \* history: what reached the database, with the situation it arrived in
  cur,      \* phase-two delivery in progress: [kind, fault, early] or NoP2
  p2,       \* finished deliveries: [kind, fault, early, status, after]
  nfaults,
  env       \* scenario history (hidden by VIEW)

vars == <<mode, detach, reg, db, own, failed, wrote, leak, ret, retdb, cmds, cur, p2, nfaults, env>>

NoP2 == [kind |-> "none", fault |-> FALSE, early |-> FALSE]
States == {"none", "active", "idle", "prepared", "committed", "rolledback"}
Live == {"active", "idle", "prepared"}
Open == {"active", "idle"}

Init ==
  /\ mode \in Modes /\ detach \in BOOLEAN
  /\ reg = "no" /\ db = [i \in Ids |-> "none"] /\ own = [i \in Ids |-> 0]
  /\ failed = FALSE /\ wrote = FALSE /\ leak = FALSE
  /\ ret = "none" /\ retdb = [i \in Ids |-> "none"]
  /\ cmds = <<>> /\ cur = NoP2 /\ p2 = <<>> /\ nfaults = 0 /\ env = <<>>

Phase == IF ret = "none" THEN 1 ELSE 2

\* the resource manager has told the coordinator that the branch is rolled back
AnsweredRollbacked == \E i \in 1..Len(p2) : p2[i].status = "rollbacked"

-----------------------------------------------------------------------------
(* The database (environment) *)

\* the state of branch id as connection c sees it
Seen(id, c) ==
  IF \E j \in Ids \ {id} : own[j] = c /\ db[j] \in Live THEN "busy"      \* c is inside another branch
  ELSE IF db[id] \in Open THEN (IF own[id] = c THEN db[id] ELSE "foreign")
  ELSE IF db[id] = "prepared" THEN (IF own[id] \in {0, c} THEN "prepared" ELSE "foreign")
  ELSE db[id]

\* what the XA state machine accepts
LegalCmd(cmd, st) ==
  \/ cmd = "start"    /\ st = "none"
  \/ cmd = "dml"      /\ st = "active"
  \/ cmd = "end"      /\ st = "active"
  \/ cmd = "prepare"  /\ st = "idle"
  \/ cmd = "commit"   /\ st = "prepared"
  \/ cmd = "rollback" /\ st \in {"idle", "prepared"}

\* MySQL forgets a finished branch: its identifier may be started again
DbAccepts(cmd, st) == LegalCmd(cmd, st) \/ (cmd = "start" /\ st \in {"committed", "rolledback"})

Effect(cmd, id, c) ==
  CASE cmd = "start"    -> /\ db' = [db EXCEPT ![id] = "active"]     /\ own' = [own EXCEPT ![id] = c]
    [] cmd = "end"      -> /\ db' = [db EXCEPT ![id] = "idle"]       /\ UNCHANGED own
    [] cmd = "prepare"  -> /\ db' = [db EXCEPT ![id] = "prepared"]   /\ own' = [own EXCEPT ![id] = IF detach THEN 0 ELSE c]
    [] cmd = "commit"   -> /\ db' = [db EXCEPT ![id] = "committed"]  /\ own' = [own EXCEPT ![id] = 0]
    [] cmd = "rollback" -> /\ db' = [db EXCEPT ![id] = "rolledback"] /\ own' = [own EXCEPT ![id] = 0]

\* what the protocol allows the client to send (Strict)
ClientMay(cmd, id, st) ==
  /\ id = "good"
  /\ IF Phase = 1
       THEN /\ LegalCmd(cmd, st) /\ cmd # "commit"
            \* a branch that was reported as rolled back is finished: the application's connection sends nothing
            \* more for it (the code never gets here: during phase one BranchRollback answers 'retryable', see P2Early)
            /\ ~AnsweredRollbacked
            /\ cmd = "start" => (reg = "yes" /\ ~failed)
            /\ cmd \in {"dml", "prepare"} => ~failed
       ELSE /\ cur # NoP2 /\ cmd = cur.kind
            /\ LegalCmd(cmd, st) \/ st \in {"none", "committed", "rolledback"}

Rec(cmd, id, st, res) ==
  [cmd |-> cmd, id |-> id, st |-> st, res |-> res, ph |-> Phase, reg |-> reg, failed |-> failed, req |-> cur.kind,
   rb |-> AnsweredRollbacked]

\* an XA command reaches the database on connection c and is answered
Xa(cmd, id, c, res) ==
  /\ cmd \in {"start", "end", "prepare", "commit", "rollback"} /\ id \in Ids /\ c \in Conns
  /\ LET st == Seen(id, c) IN
     /\ Strict => ClientMay(cmd, id, st)
     /\ \/ res = "ok" /\ DbAccepts(cmd, st) /\ Effect(cmd, id, c) /\ UNCHANGED nfaults
        \/ res = "xaer" /\ ~DbAccepts(cmd, st) /\ UNCHANGED <<db, own, nfaults>>
        \/ res = "fault" /\ nfaults < MaxFaults /\ nfaults' = nfaults + 1 /\ UNCHANGED <<db, own>>
        \* the database cannot take the text at all: a syntax error, or an identifier it rejects as such
        \* (longer than 64 bytes); never the protocol-abiding client's doing
        \/ res = "invalid" /\ ~Strict /\ UNCHANGED <<db, own, nfaults>>
     /\ cmds' = Append(cmds, Rec(cmd, id, IF res = "invalid" THEN "invalid" ELSE st, res))
  /\ failed' = (failed \/ (Phase = 1 /\ res # "ok"))
  /\ cur' = IF cur # NoP2 /\ res = "fault" THEN [cur EXCEPT !.fault = TRUE] ELSE cur
  /\ IF res = "fault" THEN env' = Append(env, [op |-> "fault", at |-> cmd]) ELSE UNCHANGED env
  /\ UNCHANGED <<mode, detach, reg, wrote, leak, ret, retdb, p2>>

\* the branch connection c is inside ("none": c is in no branch)
BranchOf(c) == IF \E i \in Ids : own[i] = c /\ db[i] \in Live THEN db[CHOOSE i \in Ids : own[i] = c /\ db[i] \in Live] ELSE "none"

\* a business statement on connection c; w: it changed rows
Dml(c, res, w) ==
  /\ c \in Conns /\ w \in BOOLEAN
  /\ Cardinality({i \in 1..Len(cmds) : cmds[i].cmd = "dml"}) < MaxDml
  /\ LET st == BranchOf(c) IN
     /\ Strict => (ClientMay("dml", "good", st) /\ own["good"] = c)
     /\ \/ res = "ok" /\ st \in {"active", "none"} /\ UNCHANGED nfaults
           /\ wrote' = (wrote \/ (w /\ st = "active")) /\ leak' = (leak \/ (w /\ st = "none"))
        \/ res = "xaer" /\ st \in {"idle", "prepared"} /\ UNCHANGED <<wrote, leak, nfaults>>
        \/ res = "fault" /\ nfaults < MaxFaults /\ nfaults' = nfaults + 1 /\ UNCHANGED <<wrote, leak>>
     /\ cmds' = Append(cmds, Rec("dml", "good", st, res))
  /\ failed' = (failed \/ (Phase = 1 /\ res # "ok"))
  /\ IF res = "fault" THEN env' = Append(env, [op |-> "fault", at |-> "dml"]) ELSE UNCHANGED env
  /\ UNCHANGED <<mode, detach, reg, db, own, ret, retdb, cur, p2>>

\* some other statement of the call (version / metadata query ...) failed
OtherFailed ==
  /\ Phase = 1 /\ nfaults < MaxFaults /\ nfaults' = nfaults + 1
  /\ failed' = (failed \/ db["good"] # "prepared")     \* "any failure before a successful prepare"
  /\ UNCHANGED <<mode, detach, reg, db, own, wrote, leak, ret, retdb, cmds, cur, p2, env>>

\* connection c dies or is closed: open branches are rolled back, a prepared one survives detached
Drop(c) ==
  /\ c \in Conns /\ \E i \in Ids : own[i] = c /\ db[i] \in Live
  /\ db' = [i \in Ids |-> IF own[i] = c /\ db[i] \in Open THEN "rolledback" ELSE db[i]]
  /\ own' = [i \in Ids |-> IF own[i] = c THEN 0 ELSE own[i]]
  /\ UNCHANGED <<mode, detach, reg, failed, wrote, leak, ret, retdb, cmds, cur, p2, nfaults, env>>

\* the client process dies and a new one takes over: every connection dies
Restart ==
  /\ ret # "none" /\ cur = NoP2
  /\ db' = [i \in Ids |-> IF db[i] \in Open THEN "rolledback" ELSE db[i]]
  /\ own' = [i \in Ids |-> 0]
  /\ env' = Append(env, [op |-> "restart"])
  /\ UNCHANGED <<mode, detach, reg, failed, wrote, leak, ret, retdb, cmds, cur, p2, nfaults>>

-----------------------------------------------------------------------------
(* The coordinator (environment) and the client's non-database steps *)

RegReq ==
  /\ reg = "no" /\ ret = "none"
  /\ Strict => ~failed
  /\ reg' = "asked"
  /\ UNCHANGED <<mode, detach, db, own, failed, wrote, leak, ret, retdb, cmds, cur, p2, nfaults, env>>

RegRep(r) ==
  /\ reg = "asked" /\ r \in RegReplies
  /\ IF r = "ok" THEN reg' = "yes" /\ UNCHANGED failed ELSE reg' = "refused" /\ failed' = TRUE
  /\ env' = Append(env, [op |-> "reg", r |-> r])
  /\ UNCHANGED <<mode, detach, db, own, wrote, leak, ret, retdb, cmds, cur, p2, nfaults>>

\* optional phase-one status report, truthful
Report(status) ==
  /\ reg = "yes"
  /\ Strict => /\ status = "done" => (db["good"] = "prepared" /\ ~failed)
               /\ status = "failed" => failed
  /\ UNCHANGED vars

\* the call returns to the application
Return(v) ==
  /\ ret = "none" /\ v \in {"nil", "err", "panic"}
  /\ Strict => /\ v # "panic"
               /\ v = "nil" => (db["good"] = "prepared" /\ ~failed)
               /\ failed => (v = "err" /\ db["good"] \in {"none", "rolledback"})
               /\ \A i \in Ids : db[i] \notin Open
  /\ ret' = v /\ retdb' = db
  /\ UNCHANGED <<mode, detach, reg, db, own, failed, wrote, leak, cmds, cur, p2, nfaults, env>>

\* phase two: the coordinator knows the branch (it granted the registration); the transaction manager
\* commits only what returned nil; decisions do not change
P2Req(kind) ==
  /\ ret # "none" /\ cur = NoP2 /\ reg = "yes" /\ Len(p2) < MaxP2
  /\ kind \in {"commit", "rollback"}
  /\ kind = "commit" => ret = "nil"
  /\ \A i \in 1..Len(p2) : p2[i].kind = kind
  /\ cur' = [kind |-> kind, fault |-> FALSE, early |-> FALSE]
  /\ env' = Append(env, [op |-> "p2", kind |-> kind])
  /\ UNCHANGED <<mode, detach, reg, db, own, failed, wrote, leak, ret, retdb, cmds, p2, nfaults>>

\* early phase two: the coordinator does not wait for the application.  It has granted the registration, so it
\* knows the branch; when it gives the global transaction up (time-out, failure of another participant) it sends
\* BranchRollback although the call has not returned - before or while XA START, a statement, XA END or
\* XA PREPARE runs on the branch's connection (which is visible to phase two from DBResource.Hold in
\* XAConn.keepIfNecessary on, i.e. before XA START is sent).  Only a rollback can come early (the transaction
\* manager commits what returned nil), and the decision does not change afterwards.
\* Code: XAResourceManager.BranchRollback -> XAConn.phaseOneRunning(): while the application works on the branch
\* the connection is not touched and the answer is PhaseTwo_RollbackFailed_Retryable; the coordinator retries
\* (P2Req) until the branch is resolved.
P2Early ==
  /\ EarlyP2
  /\ ret = "none" /\ cur = NoP2 /\ reg = "yes" /\ Len(p2) < MaxP2
  /\ \A i \in 1..Len(p2) : p2[i].kind = "rollback"
  /\ cur' = [kind |-> "rollback", fault |-> FALSE, early |-> TRUE]
  /\ env' = Append(env, [op |-> "p2early", at |-> Len(cmds)])
  /\ UNCHANGED <<mode, detach, reg, db, own, failed, wrote, leak, ret, retdb, cmds, p2, nfaults>>

Truthful(status) ==
  /\ status = "committed"  => db["good"] = "committed"
  /\ status = "rollbacked" => db["good"] \in {"rolledback", "none"}

Resolved(kind) ==
  IF kind = "commit" THEN db["good"] = "committed" ELSE db["good"] \in {"rolledback", "none"}

P2Rep(status) ==
  /\ cur # NoP2 /\ status \in {"committed", "rollbacked", "failed", "noreply"}
  \* a delivery that arrived during phase one may be answered 'try again' (any status that is true); every
  \* other delivery that met no fault resolves the branch
  /\ Strict => /\ Truthful(status)
               /\ (~cur.fault /\ ~cur.early) => Resolved(cur.kind)
  /\ p2' = Append(p2, [kind |-> cur.kind, fault |-> cur.fault, early |-> cur.early, status |-> status, after |-> db["good"]])
  /\ cur' = NoP2
  /\ UNCHANGED <<mode, detach, reg, db, own, failed, wrote, leak, ret, retdb, cmds, nfaults, env>>

Next ==
  \/ \E cmd \in {"start", "end", "prepare", "commit", "rollback"}, id \in Ids, c \in Conns, res \in {"ok", "xaer", "fault", "invalid"} :
       Xa(cmd, id, c, res)
  \/ \E c \in Conns, res \in {"ok", "xaer", "fault"}, w \in BOOLEAN : Dml(c, res, w)
  \/ OtherFailed
  \/ \E c \in Conns : Drop(c)
  \/ Restart
  \/ RegReq
  \/ \E r \in RegReplies : RegRep(r)
  \/ \E v \in {"nil", "err", "panic"} : Return(v)
  \/ \E k \in {"commit", "rollback"} : P2Req(k)
  \/ P2Early
  \/ \E s \in {"committed", "rollbacked", "failed", "noreply"} : P2Rep(s)

Spec == Init /\ [][Next]_vars

-----------------------------------------------------------------------------
(* Properties (C17) *)

CmdIdx == 1..Len(cmds)

\* the commands of the branch form a legal XA sequence: every command arrives in a state in which the
\* XA state machine accepts it (so the database never has to refuse one); the business statements run
\* inside the branch; phase one never commits; phase two sends what the coordinator asked for, and may
\* find the branch already gone (the database answers "unknown xid")
LegalSequence ==
  \A i \in CmdIdx :
    LET r == cmds[i] IN
    IF r.ph = 1 THEN LegalCmd(r.cmd, r.st) /\ r.cmd # "commit"
    ELSE /\ r.cmd = r.req
         /\ LegalCmd(r.cmd, r.st) \/ r.st \in {"none", "committed", "rolledback"}

\* what the database accepted, per identifier, is a prefix of start end prepare (commit | rollback)
\* or of start end rollback (guaranteed by the environment; checks the harness and the model agree)
Accepted(id) == SelectSeq(cmds, LAMBDA r : r.id = id /\ r.res = "ok" /\ r.cmd # "dml")
AcceptedLegal ==
  \A id \in Ids :
    LET a == Accepted(id) IN
    \A i \in 1..Len(a) :
      LET prev == IF i = 1 THEN "-" ELSE a[i - 1].cmd IN
      CASE a[i].cmd = "start"    -> prev # "prepare"     \* (a branch whose connection died may be started again)
        [] a[i].cmd = "end"      -> prev = "start"
        [] a[i].cmd = "prepare"  -> prev = "end"
        [] a[i].cmd = "commit"   -> prev = "prepare"
        [] a[i].cmd = "rollback" -> prev \in {"end", "prepare"}

\* the branch is registered before XA START
RegisterBeforeStart == \A i \in CmdIdx : cmds[i].cmd = "start" => cmds[i].reg = "yes"

\* every XA command of the branch carries the identifier f(xid, branch id), in both phases
OneIdentifier == \A i \in CmdIdx : cmds[i].id = "good"

\* a failure before a successful prepare is never followed by a commit
NoCommitAfterFailure == \A i \in CmdIdx : cmds[i].cmd = "commit" => ~cmds[i].failed

\* ... is returned to the caller as an error (a panic is not an error value)
ErrorSurfaces == /\ ret # "panic"
                 /\ (ret # "none" /\ failed) => ret = "err"

\* ... and rolls the branch back
RolledBackOnFailure == (ret # "none" /\ failed) => retdb["good"] \in {"none", "rolledback"}

\* nil means: the branch is prepared
PhaseOneComplete == ret = "nil" => retdb["good"] = "prepared"

\* no connection is left in XA ACTIVE / IDLE state when the call has returned
PoolClean == ret # "none" => \A i \in Ids : retdb[i] \notin Open

\* after a phase-two delivery that met no fault exactly the requested one of commit / rollback has been
\* accepted by the database; the reported status is truthful
ExactlyOneOutcome ==
  \A i \in 1..Len(p2) :
    LET d == p2[i] IN
    /\ d.status = "committed"  => d.after = "committed"
    /\ d.status = "rollbacked" => d.after \in {"rolledback", "none"}
    /\ (~d.fault /\ ~d.early) => IF d.kind = "commit" THEN d.after = "committed" ELSE d.after \in {"rolledback", "none"}

\* what the coordinator was told stays true: once the reply 'rollbacked' has been given the branch is never
\* active / idle / prepared again, and the database accepts no further command of the application for it (a
\* rollback that overtakes phase one - P2Early - must not be answered 'rollbacked' by a resource manager whose
\* application then goes on with XA START .. XA PREPARE: the branch would stay prepared for ever while the
\* coordinator has forgotten it)
AppCmds == {"start", "dml", "end", "prepare"}
RolledBackStays ==
  /\ AnsweredRollbacked => db["good"] \notin Live
  /\ \A j \in CmdIdx : cmds[j].rb => ~(cmds[j].id = "good" /\ cmds[j].res = "ok" /\ cmds[j].cmd \in AppCmds)

\* nothing is durable before phase two commits, and nothing of the branch is durable outside it
NothingEarly == /\ ~leak
                /\ ret = "none" => db["good"] # "committed"

TypeOK == /\ reg \in {"no", "asked", "yes", "refused"} /\ ret \in {"none", "nil", "err", "panic"}
          /\ \A i \in Ids : db[i] \in States /\ own[i] \in Conns \cup {0}

\* what an observer of the database sees
NPrepared == Cardinality({i \in Ids : db[i] = "prepared"})
NInXA == Cardinality({i \in Ids : db[i] \in Open})
Delta == leak \/ (wrote /\ \E i \in Ids : db[i] = "committed")

-----------------------------------------------------------------------------
(* The identifier function, on a small domain: text of the xid, '-', the branch id in decimal. *)

Digit(d) == <<"0", "1", "2", "3", "4", "5", "6", "7", "8", "9">>[d + 1]
RECURSIVE Dec(_)
Dec(n) == IF n < 10 THEN <<Digit(n)>> ELSE Append(Dec(n \div 10), Digit(n % 10))
IdOf(xid, b) == xid \o <<"-">> \o Dec(b)

\* injective although the xid may itself contain '-' and digits: the last '-' separates
IdInjectiveOn(X, B) == \A x1, x2 \in X, b1, b2 \in B : IdOf(x1, b1) = IdOf(x2, b2) => (x1 = x2 /\ b1 = b2)
=============================================================================
