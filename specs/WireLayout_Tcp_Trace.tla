------------------------ MODULE WireLayout_Tcp_Trace ------------------------
(* C12 over the wire: trace validation for WireLayout.tla of executions in which    *)
(* the message travels through the client's real transport stack (public sending    *)
(* API -> getty session -> RpcPackageHandler.Write -> codec -> socket, and socket    *)
(* -> RpcPackageHandler.Read -> codec -> listener -> processor -> caller / resource  *)
(* manager) and the peer is harness/tctcp, whose frame and body codec are an         *)
(* interpreter of the table exported from this specification.                        *)
(*                                                                                  *)
(*   WireSent      a message of a type in ClientSends was handed to the client's API *)
(*                 and captured as raw bytes at the stand-in: `same` = the body is    *)
(*                 byte for byte what the table interpreter encodes for the message   *)
(*                 cut to `cut`, the interpreter decodes it to the last byte and      *)
(*                 finds the message field by field, and the frame header carries the *)
(*                 right kind / serializer / id; `len` = body length on the wire      *)
(*   WireReceived  a message of a type in ClientExpects was encoded by the table      *)
(*                 interpreter (canonical cut) and sent to the client: `same` = the   *)
(*                 caller of SendSyncRequest got back exactly the wire-normal         *)
(*                 message (results), or the resource manager was called with exactly *)
(*                 its fields and the client's answer echoed xid and branch id        *)
(*                 (BranchCommit / BranchRollback requests)                           *)
EXTENDS WireLayout, Json, IOUtils

VARIABLES l, s0

Trace  == ndJsonDeserialize(IOEnv.TRACE_FILE)
Starts == {i \in 1..Len(Trace) : Trace[i].k = 1}
EndOf(s) == s + Trace[s].n - 1
Max(a, b) == IF a > b THEN a ELSE b

tvars == <<vars, l, s0>>

TraceInit ==
  \E s \in Starts :
    /\ s0 = s /\ l = s + 1
    /\ Trace[s].ev = "Start"
    /\ ty = Trace[s].ty
    /\ Trace[s].ty \in Client
    /\ m = Trace[s].m
    /\ DOMAIN m = Names(ty)
    /\ st = "start"
    /\ w = <<>> /\ seen = {}
    /\ TLCSet(Trace[s].t, s + 1)

IsEv(e) == /\ l <= EndOf(s0)
           /\ Trace[l].ev = e
           /\ l' = l + 1 /\ s0' = s0

E == Trace[l]

\* the bytes the client put on the wire are the v1 layout of the message (cut at an allowed place) and have
\* the length the specification computes
TSent == /\ IsEv("WireSent")
         /\ ty \in ClientSends
         /\ E.same = TRUE
         /\ Encode(E.cut)
         /\ E.len = WireLen(Enc(ty, w'))

\* the canonical v1 bytes of the message came out of the client's stack as the wire-normal message
TReceived == /\ IsEv("WireReceived")
             /\ ty \in ClientExpects
             /\ E.same = TRUE
             /\ Encode(CanonCut(ty, m))
             /\ Dec(ty, Enc(ty, w')).ok

TEnd == IsEv("End") /\ st = "encoded" /\ UNCHANGED vars

TraceNext == TSent \/ TReceived \/ TEnd
TraceSpec == TraceInit /\ [][TraceNext]_tvars

Invs == [RoundTrip |-> RoundTrip, TruncKeepsDecodable |-> TruncKeepsDecodable,
         InLimits |-> ((ty \in Types) => InLimits(ty, m))]
Failed == {i \in DOMAIN Invs : ~Invs[i]}

HighWater ==
  IF Failed = {} THEN TLCSet(Trace[s0].t, Max(TLCGet(Trace[s0].t), l))
  ELSE PrintT(<<"INVFAIL", Trace[s0].t, l - s0, Failed>>) /\ FALSE

Rejected == {s \in Starts : TLCGet(Trace[s].t) # EndOf(s) + 1}
Post ==
  /\ PrintT(<<"TRACES", Cardinality(Starts), "REJECTED", Cardinality(Rejected)>>)
  /\ \A s \in Rejected :
       LET hw == TLCGet(Trace[s].t) IN
       PrintT(<<"REJECT", Trace[s].t, hw - s + 1, IF hw <= EndOf(s) THEN Trace[hw].ev ELSE "?">>)
  \* coverage per message type: traces recorded / accepted
  /\ \A t \in Client :
       PrintT(<<"COVER", t, Cardinality({s \in Starts : Trace[s].ty = t}),
                "ACCEPTED", Cardinality({s \in Starts \ Rejected : Trace[s].ty = t})>>)
=============================================================================
