INIT Init
NEXT Next
CONSTANTS
  NBranches = 1
  MaxDeliver = 4
  MaxFaults = 0
  FailPoints = {0}
  MaxRace = 1
  Locking = FALSE
VIEW ViewRace
INVARIANTS DumpRace
ACTION_CONSTRAINT RaceIsLast FewSwitches
CHECK_DEADLOCK FALSE
