SPECIFICATION Spec
CONSTANTS
  G = {1, 2}
  Rows = {"r1", "r2"}
  Acts = {"a1"}
  MaxBranches = 2
  MaxDup = 1
  MaxForeign = 0
  AllowTimeout = TRUE
  OblTruthful = TRUE
  OblLockCover = TRUE
  OblDirtyRefused = TRUE
  OblIdempotent = TRUE
  OblMarker = TRUE
  OblFence = TRUE
  OblP1Atomic = FALSE
  OblLockQuery = TRUE
  AllowReads = FALSE
  OblHonest = TRUE
  AllowXA = FALSE
  OblXATruthful = TRUE
  OblXAPhaseOrder = TRUE
INVARIANTS TypeOK ATAtomicRollback TCCAtomic NoDirtyGlobalWrite RollbackPossible
CHECK_DEADLOCK FALSE
