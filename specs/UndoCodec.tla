----------------------------- MODULE UndoCodec -----------------------------
(***************************************************************************)
(* C08 - undo-log encoding is lossless under every serializer and          *)
(* compressor setting.                                                     *)
(*                                                                         *)
(* Code: pkg/datasource/sql/undo/base/undo.go                              *)
(*   FlushUndoLog:  ctx  = encodeUndoLogCtx{serializerKey, compressorTypeKey}*)
(*                  info = serializeBranchUndoLog(log, serializer)         *)
(*                  INSERT INTO undo_log (context, rollback_info) ...      *)
(*   Undo:          ctx  = decodeUndoLogCtx(context)                       *)
(*                  info = getRollbackInfo(rollback_info, ctx)   (decompress)*)
(*                  log  = deserializeBranchUndoLog(info, ctx)   (parser)  *)
(* parser cache: undo/parser/parser_cache.go, compressor registry:         *)
(* pkg/compressor/compressor_type.go, ColumnImage (un)marshalling:         *)
(* types/image.go, parser_json.go, parser_protobuf.go.                     *)
(*                                                                         *)
(* The protocol part is a two-step state machine.  Flush writes            *)
(*   [ctx |-> (serializer, compress type),                                 *)
(*    payload |-> Comp(applied, Enc(serializer, log))]                     *)
(* and Undo reads ctx, chooses (parser, decompressor) from it and decodes. *)
(* Enc/Comp are symbolic: a payload remembers which encoder and which      *)
(* compressor produced it, and decoding with any other pair fails.         *)
(*                                                                         *)
(* The value dimension (which BranchUndoLog) is a finite partition that    *)
(* the specification enumerates: JDBC type code x Go kind the row scanner  *)
(* produces for it x value class x key flag x statement type.  Whether a   *)
(* concrete value of a class survives the real codec is computed by the    *)
(* harness with the undo executors' equality and arrives here as the       *)
(* observation of UndoAs (see UndoCodec_Trace).                            *)
(***************************************************************************)
EXTENDS Integers, Sequences, FiniteSets, TLC

CONSTANTS Serializers,   \* configured log-serialization names
          CompTypes,     \* configured compress.type spellings
          Thresholds,    \* size of the log relative to compress.threshold: "below" | "above" | "aboverep"
                         \* (aboverep: above, and so repetitive that it shrinks more than a hundredfold)
          Cols,          \* set of [jt |-> JDBC type name, kind |-> Go kind of the scanned value]
          Stmts,         \* statement types
          KeyFlags,      \* is the column part of the primary key
          Keep(_, _)     \* pruning predicate on (configuration, vector): TRUE for the design check

KnownSer  == {"json", "protobuf"}                                          \* parser cache
KnownComp == {"None", "Gzip", "Zip", "Bzip2", "Lz4", "Deflate", "Zstd"}    \* compressor registry
\* compressor.CompressorType(x).GetCompressor(): every unknown spelling means "no compression"
Canon(c) == IF c \in KnownComp THEN c ELSE "None"

(***************************************************************************)
(* The partition of the value dimension.                                   *)
(***************************************************************************)
IntClasses   == {"null", "zero", "positive", "negative", "min", "max", "umax", "p53m1", "p53p1"}
FloatClasses == {"null", "zero", "negative", "fraction", "integral", "min", "max", "p53m1", "p53p1", "wide"}
StrClasses   == {"null", "empty", "plain", "base64", "number", "json", "multibyte", "escape", "timelike"}
TimeClasses  == {"null", "epoch", "nosub", "sub", "min", "max", "zone"}
BytesClasses == {"null", "empty", "bin", "ascii", "base64", "multibyte"}

ClassesOf(c) ==
  CASE c.kind = "int"   -> IF c.jt = "BIGINT" THEN IntClasses \ {"umax"}
                           ELSE IF c.jt = "BIT" THEN {"null", "zero", "positive", "max"}
                           ELSE IntClasses \ {"p53m1", "p53p1"}
    [] c.kind = "float" -> IF c.jt = "DECIMAL" THEN FloatClasses ELSE FloatClasses \ {"wide"}
    [] c.kind = "str"   -> StrClasses
    [] c.kind = "time"  -> TimeClasses
    [] c.kind = "bytes" -> BytesClasses

AllClasses == IntClasses \cup FloatClasses \cup StrClasses \cup TimeClasses \cup BytesClasses

\* a primary key column is never NULL
Vectors == {v \in [col : Cols, cls : AllClasses, key : KeyFlags, stmt : Stmts] :
              /\ v.cls \in ClassesOf(v.col)
              /\ (v.key => v.cls # "null")}

Configs == [ser : Serializers, comp : CompTypes, thr : Thresholds]

None == [none |-> TRUE]   \* (a record: TLC refuses to compare a record with a string)

VARIABLES cfg,      \* the client configuration (environment choice)
          vec,      \* the class of the branch undo log being written (environment choice)
          stored,   \* the undo_log row: None | [ctx |-> [ser, comp], payload |-> [ser, comp, log]]
          dec,      \* result of Undo's decoding: None | [ser, comp, ok, log]
          pc        \* "flush" | "undo" | "done"

vars == <<cfg, vec, stored, dec, pc>>

Init ==
  /\ cfg \in Configs
  /\ vec \in Vectors
  /\ Keep(cfg, vec)
  /\ stored = None /\ dec = None
  /\ pc = "flush"

(***************************************************************************)
(* Flush, parameterised by what ends up in the row: the context (cser,     *)
(* ccomp) and the payload's real encoder pser and real compressor applied. *)
(* The trace specification uses FlushAs with the observed values; the      *)
(* design (Flush) chooses them correctly.                                  *)
(***************************************************************************)
FlushAs(cser, ccomp, pser, applied) ==
  /\ pc = "flush"
  /\ stored' = [ctx |-> [ser |-> cser, comp |-> ccomp],
                payload |-> [ser |-> pser, comp |-> applied, log |-> vec]]
  /\ pc' = "undo"
  /\ UNCHANGED <<cfg, vec, dec>>

\* Whether to compress at all (switch, threshold, incompressible data) is the implementation's
\* business; what it did must be what the context says.
Flush ==
  /\ cfg.ser \in KnownSer
  /\ \E applied \in {"None", Canon(cfg.comp)} :
       \E ccomp \in CompTypes \cup KnownComp :
         /\ Canon(ccomp) = applied
         /\ FlushAs(cfg.ser, ccomp, cfg.ser, applied)

\* an unknown serializer name is refused when the log is written (parser cache miss): nothing is stored
FlushRefused ==
  /\ pc = "flush"
  /\ cfg.ser \notin KnownSer
  /\ pc' = "done"
  /\ UNCHANGED <<cfg, vec, stored, dec>>

(***************************************************************************)
(* Undo: the decoder pair is chosen from the stored context alone.         *)
(***************************************************************************)
ChosenParser == stored.ctx.ser
ChosenDecomp == Canon(stored.ctx.comp)

UndoAs(ok, equal) ==
  /\ pc = "undo"
  /\ dec' = [ser |-> ChosenParser, comp |-> ChosenDecomp, ok |-> ok,
             log |-> IF ok /\ equal THEN stored.payload.log ELSE None]
  /\ pc' = "done"
  /\ UNCHANGED <<cfg, vec, stored>>

\* symbolic codec: decoding succeeds and yields the log iff the chosen pair is the pair that was used
Matches == ChosenParser = stored.payload.ser /\ ChosenDecomp = stored.payload.comp
Undo == UndoAs(Matches, Matches)

Next == Flush \/ FlushRefused \/ Undo
Spec == Init /\ [][Next]_vars /\ WF_vars(Next)

-----------------------------------------------------------------------------
TypeOK ==
  /\ cfg \in Configs /\ vec \in Vectors
  /\ pc \in {"flush", "undo", "done"}
  /\ stored # None => /\ stored.ctx.ser \in Serializers
                      /\ stored.payload.comp \in KnownComp
  /\ dec # None => dec.ok \in BOOLEAN

\* the context stored beside the log is sufficient to pick the right decoder and decompressor:
\* decoder chosen = encoder used, decompressor chosen = compressor actually applied
CtxSufficient == stored # None => Matches

\* what phase one writes is what rollback reads
Lossless == dec # None => dec.ok /\ dec.log = vec

\* a stored log is always decoded in the end; a refused flush stores nothing
Done == pc = "done"
Terminates == <>Done
RefusedStoresNothing == (Done /\ dec = None) => (stored = None /\ cfg.ser \notin KnownSer)
=============================================================================
