------------------------- MODULE ATAsyncCommit_MC -------------------------
(* Design check of ATAsyncCommit.tla.  The worker setting comes from the environment (registry):   *)
(* CHAN, LIMIT, FANBUF, WORKERS.  ATAsyncCommit_MC.cfg checks the design that has the property     *)
(* (safety and liveness, no state constraint, no VIEW); ATAsyncCommit_MC_AsIs.cfg is the design of *)
(* the code as it is: TLC finds the wedge and the lost contexts there (expected to FAIL).          *)
EXTENDS ATAsyncCommit, IOUtils

EnvOr(name, def) == IF name \in DOMAIN IOEnv THEN atoi(IOEnv[name]) ELSE def
EnvChan    == EnvOr("CHAN", 1)
EnvLimit   == EnvOr("LIMIT", 1)
EnvFan     == EnvOr("FANBUF", 1)
EnvWorkers == EnvOr("WORKERS", 1)
EnvMaxReq  == EnvOr("MAXREQ", 3)

MCRes  == {"A", "B"}
MCXids == {"x1", "x2"}
MCBids == {1, 2}
\* requests: two rows of A that share neither xid nor branch id (their cross product are decoys), one
\* row of B that shares both with a row of A
\* (NROWS=2: only the first and the last, for the larger request bound of the tightest setting, where every
\* batch is a single context anyway)
MCReqRows == IF EnvOr("NROWS", 3) = 2 THEN {<<"A", "x1", 1>>, <<"B", "x1", 1>>}
             ELSE {<<"A", "x1", 1>>, <<"A", "x2", 2>>, <<"B", "x1", 1>>}
MCLate == {"B"}
=============================================================================
