-------------------------------- MODULE Proxy --------------------------------
(***************************************************************************)
(* C16 - the AT/XA proxy driver is transparent apart from its duties.      *)
(*                                                                         *)
(* Code: conn.go / conn_at.go / conn_xa.go / stmt.go / tx.go / connector.go*)
(* / driver.go, exec/at/at_executor.go, plain_executor.go, util/params.go. *)
(*                                                                         *)
(* A program (a short sequence of database/sql calls) is executed twice on *)
(* identical databases: once through the proxy driver, once through the    *)
(* bare driver.  The specification is the refinement statement: step by    *)
(* step the same results and errors; at the end the same committed data;   *)
(* outside a global transaction the very same statements reach the         *)
(* database and the coordinator hears nothing; inside, the application's   *)
(* statements still reach the database in the same order and everything    *)
(* else the proxy sends is of an allowed kind (image queries, undo-log row, *)
(* savepoints, metadata, the implicit local transaction).                  *)
(***************************************************************************)
EXTENDS Integers, Sequences, FiniteSets, TLC

CONSTANTS StepKinds,   \* statement-level steps: "q", "upd", "ins", "del", "ups", "dup", "ddl", "multi", "prep", "prepq", "updw", "qfu", "drop" (the server drops idle connections)
          EndKinds,    \* how a local transaction ends: "commit", "rollback", "commitf" (the database fails the COMMIT and rolls back)
          MaxSteps,
          Gtx,         \* subset of BOOLEAN: run inside a global transaction?
          Lits         \* subset of BOOLEAN: literal values instead of bound parameters

VARIABLES gtx, lit, intx, nsteps, done, prog

vars == <<gtx, lit, intx, nsteps, done, prog>>

Init == /\ gtx \in Gtx /\ lit \in Lits /\ intx = FALSE /\ nsteps = 0 /\ done = FALSE /\ prog = <<>>

\* the application's calls
\* opt: transaction options the application asks for ("begin" = default, "beginro" = read only,
\* "beginser" = isolation level serializable): they must reach the database unchanged
Begin(opt) ==
  /\ ~done /\ ~intx /\ nsteps < MaxSteps /\ opt \in {"begin", "beginro", "beginser"}
  /\ intx' = TRUE /\ nsteps' = nsteps + 1 /\ prog' = Append(prog, opt)
  /\ UNCHANGED <<gtx, lit, done>>

EndTx(how) ==
  /\ ~done /\ intx /\ how \in EndKinds
  /\ intx' = FALSE /\ prog' = Append(prog, how)
  /\ UNCHANGED <<gtx, lit, nsteps, done>>

\* one statement: sameRes - the proxy returned the same rows / affected count / generated id as the bare
\* driver; sameErr - both failed or both succeeded, with the same error class
Step(kind, sameRes, sameErr) ==
  /\ ~done /\ kind \in StepKinds /\ nsteps < MaxSteps
  /\ sameRes /\ sameErr
  /\ nsteps' = nsteps + 1 /\ prog' = Append(prog, kind)
  /\ UNCHANGED <<gtx, lit, intx, done>>

\* the program is over (an open transaction has been ended by the application)
\*   sameData    : committed business tables are equal
\*   sameJournal : the proxied database saw exactly the statements the bare one saw (text, arguments, order)
\*   appInOrder  : the application's statements appear in the proxied journal in the same order
\*   extrasOK    : every other statement in the proxied journal is of an allowed kind
\*   tcreq       : requests the coordinator received because of the program (begin/commit of the global
\*                 transaction itself not counted)
Finish(sameData, sameJournal, appInOrder, extrasOK, tcreq) ==
  /\ ~done /\ ~intx
  /\ sameData
  /\ IF gtx THEN appInOrder /\ extrasOK
            ELSE sameJournal /\ tcreq = 0
  /\ done' = TRUE
  /\ UNCHANGED <<gtx, lit, intx, nsteps, prog>>

Next ==
  \/ \E o \in {"begin", "beginro", "beginser"} : Begin(o)
  \/ \E h \in EndKinds : EndTx(h)
  \/ \E k \in StepKinds : Step(k, TRUE, TRUE)
  \/ Finish(TRUE, TRUE, TRUE, TRUE, 0)

Spec == Init /\ [][Next]_vars
TypeOK == nsteps \in 0..MaxSteps /\ intx \in BOOLEAN
Finished == done
=============================================================================
