------------------------------ MODULE Sessions ------------------------------
(***************************************************************************)
(* C19 - only live sessions are chosen; reconnection restores both         *)
(* directions.                                                             *)
(*                                                                         *)
(* Code: pkg/remoting/loadbalance (Select and the five policies),          *)
(* pkg/remoting/getty/session_manager.go (registerSession, releaseSession, *)
(* selectSession, getXid), listener.go (OnOpen / OnClose),                 *)
(* pkg/rm/rm_remoting.go (RegisterResource), the AT and TCC resource       *)
(* managers.                                                               *)
(*                                                                         *)
(* Two parts share this module (variable `part`):                          *)
(*                                                                         *)
(*  "sel"  the client's table of sessions, its history (connections open,  *)
(*         get registered, die, are released) and the selections made in   *)
(*         between.  The specification says which answers a selection may  *)
(*         give; it is silent about *which* live session a policy prefers  *)
(*         except for the XID policy's affinity.                           *)
(*  "rc"   one coordinator connection that is lost and re-established      *)
(*         (once or repeatedly) during a workload; what the coordinator    *)
(*         sees announced on each connection; whether a new global         *)
(*         transaction begins and whether phase two of earlier branches    *)
(*         reaches the client afterwards.                                  *)
(*                                                                         *)
(* `env` is the history of environment choices (scenario generation).      *)
(***************************************************************************)
EXTENDS Integers, Sequences, FiniteSets, TLC

CONSTANTS
  Parts,       \* subset of {"sel", "rc"}
  \* ---- part "sel"
  Ids,         \* session slots
  Nil,         \* "no session"
  Addrs,       \* coordinator addresses
  Policies,    \* load-balance policies ("XID" is the one with an affinity rule)
  Xids,        \* xids of later selections: records [form, addr]; form "wf" is ip:port:id
  FirstXids,   \* xids of the first selection of a behaviour
  InitSess,    \* initial session tables
  Macro,       \* BOOLEAN: generation - history steps are the driver's operations (open = connect + register,
               \*          lose = release), announcements happen at once on reopen
  DetSelect,   \* BOOLEAN: generation - one representative answer per selection
  MaxSel, MaxSteps, MaxTotal, StepsFirst,   \* generation bounds (selections, steps between two, steps in total)
  \* ---- part "rc"
  Resources,   \* resources the client has created before the workload
  MaxLoss,     \* connection losses per behaviour
  MaxAnnFail,  \* re-announcements per new connection that the transport fails (the client sees a write error)
  Bystanders,  \* subset of BOOLEAN: is there a second, healthy connection to another coordinator
  Shifts       \* generation only: extra requests sent before the first loss (moves round-robin's phase)

VARIABLES
  part, env,
  \* "sel"
  policy,    \* the configured policy (configuration: never changes)
  sess,      \* slot -> [addr, open, reg]: connected to addr / usable / in the client's table
  last,      \* the latest selection and the situation it was made in (reset by every history step)
  nsel, nstep, ntot,
  \* "rc"
  by,        \* a bystander connection exists (session index 0)
  cur,       \* index of the current connection to the coordinator, 0 = none
  nsess,     \* connections to the coordinator opened so far (1, 2, ...)
  reg,       \* resources the client holds
  ann,       \* session index -> [tm, rm]: what the coordinator side has seen announced on it
  branches,  \* resources with a branch whose phase one is complete and phase two outstanding
  settled,   \* the grace period after the latest reopen is over
  losses, done,
  begins,    \* outcomes of global transactions begun after a settled reconnect
  p2s        \* outcomes of phase-two deliveries over the new connection

avars == <<policy, sess, last, nsel, nstep, ntot>>
bvars == <<by, cur, nsess, reg, ann, branches, settled, losses, done, begins, p2s>>
vars  == <<part, env, avars, bvars>>

-----------------------------------------------------------------------------
NoAddr == "none"
Absent == [addr |-> NoAddr, open |-> FALSE, reg |-> FALSE]
NoXid  == [form |-> "none", addr |-> NoAddr]
NoSel  == [r |-> Nil, res |-> "none", xid |-> NoXid, live |-> {}, target |-> {}]

SessIdx == 0..(MaxLoss + 1)
\* fail: resources whose re-announcement on this session was attempted and failed in the transport
NoAnn   == [tm |-> FALSE, rm |-> {}, fail |-> {}]
Ann(a)  == [tm |-> a.tm, rm |-> a.rm, fail |-> {}]

\* the sessions a request may be written to
Live(s) == {i \in Ids : s[i].reg /\ s[i].open}
\* ... and, for an xid of the form ip:port:id, those among them connected to ip:port
Target(s, x) == IF x.form = "wf" THEN {i \in Live(s) : s[i].addr = x.addr} ELSE {}

AIdle == /\ policy = "none" /\ sess = [i \in Ids |-> Absent] /\ last = NoSel
         /\ nsel = 0 /\ nstep = 0 /\ ntot = 0
BIdle == /\ by = FALSE /\ cur = 0 /\ nsess = 0 /\ reg = {} /\ ann = [s \in SessIdx |-> NoAnn]
         /\ branches = {} /\ settled = FALSE /\ losses = 0 /\ done = {} /\ begins = {} /\ p2s = {}

SelInit(p, s) ==
  /\ part = "sel" /\ policy = p /\ sess = s /\ last = NoSel /\ nsel = 0 /\ nstep = 0 /\ ntot = 0
  /\ BIdle

\* the first connection carries the announcements a0 (the TM on open, each resource at its creation)
RcInit(r, b, a0, ab) ==
  /\ part = "rc" /\ by = b /\ cur = 1 /\ nsess = 1 /\ reg = r
  /\ ann = [s \in SessIdx |-> IF s = 1 THEN Ann(a0) ELSE IF s = 0 /\ b THEN Ann(ab) ELSE NoAnn]
  /\ branches = {} /\ settled = FALSE /\ losses = 0 /\ done = {} /\ begins = {} /\ p2s = {}
  /\ AIdle

Init ==
  \/ /\ "sel" \in Parts
     /\ \E p \in Policies, s \in InitSess : SelInit(p, s) /\ env = <<[op |-> "init", sess |-> s]>>
  \/ /\ "rc" \in Parts
     /\ \E b \in Bystanders, sh \in Shifts :
          /\ RcInit(Resources, b, [tm |-> TRUE, rm |-> Resources], [tm |-> TRUE, rm |-> {}])
          /\ env = <<[op |-> "init", by |-> b, shift |-> IF b THEN sh ELSE 0]>>

-----------------------------------------------------------------------------
(* Part "sel": history of the session table *)

Step(s2) ==
  /\ part = "sel"
  /\ sess' = s2 /\ last' = NoSel
  /\ nstep' = nstep + 1 /\ ntot' = ntot + 1
  /\ UNCHANGED <<part, policy, nsel, bvars>>

\* a connection to address a is established in slot i
Open(i, a) ==
  /\ ~sess[i].open /\ ~sess[i].reg
  /\ Step([sess EXCEPT ![i] = [addr |-> a, open |-> TRUE, reg |-> FALSE]])
\* the client enters it into its table (OnOpen)
Register(i) ==
  /\ sess[i].open /\ ~sess[i].reg
  /\ Step([sess EXCEPT ![i].reg = TRUE])
\* the connection dies; the client has not been told yet (still in the table)
Close(i) ==
  /\ sess[i].open
  /\ Step([sess EXCEPT ![i].open = FALSE])
\* the client drops it from its table (OnClose / OnError; a dropped session is closed)
Release(i) ==
  /\ sess[i].reg
  /\ Step([sess EXCEPT ![i].reg = FALSE, ![i].open = FALSE])

\* a selection for a request with xid x was answered with r (a slot, Nil, or anything else for "a session
\* that is none of the table's"); res: "ok" | "err" (the request failed, nothing was written) | "panic"
Observe(x, r, res) ==
  /\ part = "sel"
  /\ last' = [r |-> r, res |-> res, xid |-> x, live |-> Live(sess), target |-> Target(sess, x)]
  /\ nsel' = nsel + 1 /\ nstep' = 0
  /\ UNCHANGED <<part, policy, sess, ntot, bvars>>

\* the answers the property allows
Allowed(x) ==
  IF policy = "XID" /\ Target(sess, x) # {} THEN Target(sess, x)
  ELSE IF Live(sess) = {} THEN {Nil} ELSE Live(sess)

Select(x) ==
  /\ nsel < MaxSel
  /\ x \in (IF nsel = 0 THEN FirstXids ELSE Xids)
  /\ \E r \in (IF DetSelect THEN {CHOOSE q \in Allowed(x) : TRUE} ELSE Allowed(x)) : Observe(x, r, "ok")
  /\ env' = Append(env, [op |-> "select", xid |-> x])

IsFree(i) == ~sess[i].open /\ ~sess[i].reg /\ sess[i].addr = NoAddr
StepOK == nstep < MaxSteps /\ ntot < MaxTotal /\ (nsel > 0 \/ StepsFirst) /\ nsel < MaxSel

\* the driver's operations (generation)
GOpen(i, a) ==
  /\ IsFree(i) /\ \A j \in Ids : IsFree(j) => i <= j
  /\ Step([sess EXCEPT ![i] = [addr |-> a, open |-> TRUE, reg |-> TRUE]])
  /\ env' = Append(env, [op |-> "open", id |-> i, addr |-> a])
GClose(i) ==
  /\ sess[i].open /\ sess[i].reg
  /\ Step([sess EXCEPT ![i].open = FALSE])
  /\ env' = Append(env, [op |-> "close", id |-> i])
GLose(i) ==
  /\ sess[i].reg
  /\ Step([sess EXCEPT ![i].reg = FALSE, ![i].open = FALSE])
  /\ env' = Append(env, [op |-> "lose", id |-> i])

HistStep ==
  /\ part = "sel" /\ StepOK
  /\ IF Macro
     THEN \E i \in Ids : (\E a \in Addrs : GOpen(i, a)) \/ GClose(i) \/ GLose(i)
     ELSE /\ \E i \in Ids : (\E a \in Addrs : Open(i, a)) \/ Register(i) \/ Close(i) \/ Release(i)
          /\ env' = env

-----------------------------------------------------------------------------
(* Part "rc": loss and re-establishment of the coordinator connection *)

BStep == part = "rc" /\ UNCHANGED <<part, avars>>

\* a piece of workload on the current connection:
\*   "tx"       a global transaction with one branch on every resource runs through phase one and its
\*              global end is acknowledged; phase two is outstanding
\*   "inflight" a request is sent whose reply is still outstanding
Work(k) ==
  /\ BStep /\ cur # 0 /\ (losses = 0 \/ settled)
  /\ k \notin done /\ "inflight" \notin done
  /\ branches' = (IF k = "tx" THEN branches \cup reg ELSE branches)
  /\ done' = done \cup {k}
  /\ UNCHANGED <<by, cur, nsess, reg, ann, settled, losses, begins, p2s>>

\* the same as observed: phase one of branches on the resources rs completed on the current connection
PhaseOne(rs) ==
  /\ BStep /\ cur # 0
  /\ branches' = branches \cup rs
  /\ UNCHANGED <<by, cur, nsess, reg, ann, settled, losses, done, begins, p2s>>

Lose ==
  /\ BStep /\ cur # 0 /\ losses < MaxLoss
  /\ cur' = 0 /\ settled' = FALSE /\ losses' = losses + 1 /\ done' = {}
  /\ UNCHANGED <<by, nsess, reg, ann, branches, begins, p2s>>

Reopen ==
  /\ BStep /\ cur = 0
  /\ nsess' = nsess + 1 /\ cur' = nsess + 1
  /\ UNCHANGED <<by, reg, ann, branches, settled, losses, done, begins, p2s>>

\* the coordinator side sees an announcement on session s (of either coordinator)
AnnounceTM(s) ==
  /\ BStep /\ s \in SessIdx
  /\ ann' = [ann EXCEPT ![s].tm = TRUE]
  /\ UNCHANGED <<by, cur, nsess, reg, branches, settled, losses, done, begins, p2s>>
AnnounceRM(s, r) ==
  /\ BStep /\ s \in SessIdx
  /\ ann' = [ann EXCEPT ![s].rm = @ \cup {r}]
  /\ UNCHANGED <<by, cur, nsess, reg, branches, settled, losses, done, begins, p2s>>

\* the client tried to announce resource r on session s and the transport failed the request (a write error,
\* a time-out): the coordinator saw nothing.  The client is not asked to try again - but it goes on with the
\* other resources.
AnnounceFailed(s, r) ==
  /\ BStep /\ s \in SessIdx
  /\ ann' = [ann EXCEPT ![s].fail = @ \cup {r}]
  /\ UNCHANGED <<by, cur, nsess, reg, branches, settled, losses, done, begins, p2s>>

\* the grace period the coordinator grants a new connection is over
Settle ==
  /\ BStep /\ cur # 0 /\ losses > 0 /\ ~settled
  /\ settled' = TRUE
  /\ UNCHANGED <<by, cur, nsess, reg, ann, branches, losses, done, begins, p2s>>

\* a new global transaction is attempted after the reconnect
BeginAfter(ok) ==
  /\ BStep /\ settled /\ cur # 0
  /\ begins' = begins \cup {ok}
  /\ UNCHANGED <<by, cur, nsess, reg, ann, branches, settled, losses, done, p2s>>

\* the coordinator decides an earlier transaction: phase two for the branch on resource r.  reached: it
\* had a connection to send it over; answered: the client answered it
Phase2(r, reached, answered) ==
  /\ BStep /\ settled /\ cur # 0 /\ r \in branches
  \* a resource whose announcement the transport failed is not expected to be reachable
  /\ p2s' = p2s \cup {[reached |-> reached \/ r \in ann[cur].fail, answered |-> answered \/ r \in ann[cur].fail]}
  /\ branches' = branches \ {r}
  /\ UNCHANGED <<by, cur, nsess, reg, ann, settled, losses, done, begins>>

(* the design: what a client that satisfies the property does, and what a coordinator does with it *)
DAnnounce ==
  /\ cur # 0 /\ losses > 0 /\ ~settled
  /\ \/ ~ann[cur].tm /\ AnnounceTM(cur)
     \/ \E r \in reg \ (ann[cur].rm \cup ann[cur].fail) :
          AnnounceRM(cur, r) \/ (Cardinality(ann[cur].fail) < MaxAnnFail /\ AnnounceFailed(cur, r))
DSettle == Settle /\ ann[cur].tm /\ reg \subseteq ann[cur].rm \cup ann[cur].fail
\* the coordinator accepts a begin only on a connection that announced a transaction manager and routes
\* phase two only over a connection that announced the resource
DBegin  == BeginAfter(ann[cur].tm)
DPhase2 == \E r \in branches : Phase2(r, r \in ann[cur].rm, r \in ann[cur].rm)

\* generation: the environment's choices; the design's reaction is folded into them
\* (with a bystander the workload runs before the first loss only: afterwards its requests would be spread
\* over two coordinators, which is not this property's subject)
GWork(k) == Work(k) /\ (by => losses = 0) /\ env' = Append(env, [op |-> "work", kind |-> k])
GLoseC   == Lose /\ env' = Append(env, [op |-> "lose"])
GReopen  ==
  /\ BStep /\ cur = 0
  /\ nsess' = nsess + 1 /\ cur' = nsess + 1
  /\ \E f \in SUBSET reg :
       /\ Cardinality(f) <= MaxAnnFail
       /\ ann' = [ann EXCEPT ![nsess + 1] = [tm |-> TRUE, rm |-> reg \ f, fail |-> f]]
       /\ env' = Append(env, [op |-> "reopen", failann |-> f])
  /\ UNCHANGED <<by, reg, branches, settled, losses, done, begins, p2s>>
GSettle  == DSettle /\ env' = Append(env, [op |-> "settle"])

RcStep ==
  /\ part = "rc"
  /\ IF Macro
     THEN (\E k \in {"tx", "inflight"} : GWork(k)) \/ GLoseC \/ GReopen \/ GSettle
     ELSE /\ (\E k \in {"tx", "inflight"} : Work(k)) \/ Lose \/ Reopen \/ DAnnounce \/ DSettle \/ DBegin \/ DPhase2
          /\ env' = env

Next == (\E x \in Xids \cup FirstXids : Select(x)) \/ HistStep \/ RcStep

Spec == Init /\ [][Next]_vars

-----------------------------------------------------------------------------
(* The property *)

\* the chosen session is one of the registered, open sessions; nil only when there is none
LiveOnly ==
  last.res # "none" =>
    /\ last.r \in last.live \cup {Nil}
    /\ last.r = Nil => last.live = {}

\* XID policy: ip:port:id goes to the open session connected to ip:port whenever there is one
XidAffinity ==
  (last.res # "none" /\ policy = "XID" /\ last.target # {}) => last.r \in last.target

\* "nil" is an answer, not a crash of the caller
NoCrash == last.res # "panic"

\* after the grace period the new connection carries the announcements
ReannounceTM == (part = "rc" /\ settled /\ cur # 0) => ann[cur].tm
ReannounceRM == (part = "rc" /\ settled /\ cur # 0) => reg \subseteq ann[cur].rm \cup ann[cur].fail
BeginWorks    == FALSE \notin begins
Phase2Reaches == \A p \in p2s : p.reached /\ p.answered

TypeOK ==
  /\ part \in {"sel", "rc"}
  /\ \A i \in Ids : sess[i].open \in BOOLEAN /\ sess[i].reg \in BOOLEAN
  /\ cur \in SessIdx /\ nsess \in SessIdx /\ losses \in 0..MaxLoss
  /\ settled \in BOOLEAN /\ begins \subseteq BOOLEAN
=============================================================================
