----------------------------- MODULE Inbound_MC -----------------------------
EXTENDS Inbound, IOUtils

AllB == {"AT", "TCC", "XA"}
AllK == {"commit", "rollback"}

\* every BranchStatus value (0..10), without and with an error
AllOutcomes == [status : 0..10, err : BOOLEAN]
\* a small representative set: success, retryable failure, error, error carrying a success status
FewOutcomes == {[status |-> 5, err |-> FALSE], [status |-> 9, err |-> FALSE],
                [status |-> 0, err |-> TRUE], [status |-> 8, err |-> TRUE]}
TwoOutcomes == {[status |-> 8, err |-> FALSE], [status |-> 5, err |-> TRUE]}

P1 == {[xid |-> 1, bid |-> 1]}
\* same branch again, a sibling branch, a branch of another transaction
P3 == {[xid |-> 1, bid |-> 1], [xid |-> 1, bid |-> 2], [xid |-> 2, bid |-> 1]}

View == <<reqs, st, calls, resps>>

(* Generation: the environment chooses the stream and the order in which the managers return; the     *)
(* client's own steps are taken eagerly in a fixed order so that one behaviour per choice remains.     *)
(* The stream is delivered completely (all requests in flight) before the first manager returns.       *)
CanInvoke  == {id \in Ids : st[id] = "sent"}
CanRespond == {id \in Ids : st[id] = "returned" /\ ~reqs[id].err}
Min(S) == CHOOSE x \in S : \A y \in S : x <= y
NoneReturned == \A id \in Ids : st[id] \in {"sent", "invoked"}

GenNext ==
  IF CanRespond # {}
  THEN LET id == Min(CanRespond) IN Respond(id, reqs[id].kind, reqs[id].xid, reqs[id].bid, reqs[id].status)
  ELSE \/ NoneReturned /\ NewReq
       \/ /\ Cardinality(Ids) = MaxReq
          /\ IF CanInvoke # {}
             THEN LET id == Min(CanInvoke) IN Invoke(reqs[id].btype, reqs[id].kind, id, reqs[id].xid, reqs[id].bid, reqs[id].rid)
             ELSE \E id \in Ids : Complete(id, reqs[id].status, reqs[id].err)

\* symmetry of the places: the first request names place (1, 1)
Canon == Cardinality(Ids) >= 1 => (reqs[1].xid = 1 /\ reqs[1].bid = 1)

GenDone == Cardinality(Ids) = MaxReq /\ Settled

ReqSeq == [i \in 1..Cardinality(Ids) |-> reqs[i]]
Order  == LET c == SelectSeq(env, LAMBDA e : e.op = "complete") IN [i \in 1..Len(c) |-> c[i].id]

ScenFile == IOEnv.SCEN_FILE
Dump ==
  GenDone =>
    LET r == Serialize(<<[reqs |-> ReqSeq, order |-> Order]>>, ScenFile,
                       [format |-> "NDJSON", charset |-> "UTF-8",
                        openOptions |-> <<"WRITE", "CREATE", "APPEND">>])
    IN r = r
=============================================================================
