SPECIFICATION Spec
CONSTANTS
  N = 3
  MaxDup = 1
  MaxLate = 1
  MaxDrop = 3
  MaxColl = 1
  CollKinds <- BothKinds
  AllowLoss = TRUE
VIEW View
INVARIANTS TypeOK OwnReply TimeoutNotTheft Exact NoLeak DeliveryNeverBlocks
CHECK_DEADLOCK FALSE
