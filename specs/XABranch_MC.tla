---------------------------- MODULE XABranch_MC ----------------------------
EXTENDS XABranch, IOUtils

\* the scenario history is not part of the state
View == <<mode, detach, reg, db, own, failed, wrote, leak, ret, retdb, cmds, cur, p2, nfaults>>

Bounded == Len(cmds) <= MaxCmds

\* the identifier function is injective on a domain whose xids contain '-' and digits
XidDom == UNION {[1..n -> {"a", "-", "1"}] : n \in 0..3}
BidDom == {0, 1, 2, 9, 10, 11, 12, 21, 101}
ASSUME IdInjectiveOn(XidDom, BidDom)
ASSUME IdOf(<<"a", "-", "1">>, 12) = <<"a", "-", "1", "-", "1", "2">>
=============================================================================
