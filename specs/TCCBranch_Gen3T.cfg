INIT Init
NEXT Next
CONSTANTS
  Unknown <- Unk
  Params <- OneShape
  RegReplies <- AllReg
  TryOutcomes <- NilErr
  Kinds <- AllKinds
  UserOutcomes <- NilErr
  Xids <- One
  Bids <- One
  AllowMalformedPanic = TRUE
  Actions <- A12
  DataClasses <- Captured
  MaxPrep = 1
  MaxRegReq = 1
  MaxP2 = 3
  MaxP2NoBranch = 1
  Det = TRUE
INVARIANTS Dump
CHECK_DEADLOCK FALSE
