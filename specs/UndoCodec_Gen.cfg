INIT Init
NEXT Next
CONSTANTS
  Serializers <- AllSer
  CompTypes <- AllComp
  Thresholds = {"below", "above", "aboverep"}
  Cols <- AllCols
  Stmts <- AllStmts
  KeyFlags = {TRUE, FALSE}
  Keep <- GenKeepParser
INVARIANTS Dump
CHECK_DEADLOCK FALSE
