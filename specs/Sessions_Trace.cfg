SPECIFICATION TraceSpec
CONSTANTS
  Parts = {}
  Ids = {1, 2, 3, 4}
  Nil = 0
  Addrs = {}
  Policies = {}
  Xids = {}
  FirstXids = {}
  InitSess = {}
  Macro = FALSE
  DetSelect = FALSE
  MaxSel = 0
  MaxSteps = 0
  MaxTotal = 0
  StepsFirst = FALSE
  Resources = {}
  MaxLoss = 8
  MaxAnnFail = 0
  Bystanders = {}
  Shifts = {}
CONSTRAINT HighWater
POSTCONDITION Post
CHECK_DEADLOCK FALSE
