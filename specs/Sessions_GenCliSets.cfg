INIT Init
NEXT Next
CONSTANTS
  Parts = {"sel"}
  Ids = {1, 2, 3}
  Nil = 0
  Addrs <- A2
  Policies <- GenPolicy
  FirstXids <- XidsGen
  Xids <- XidsGen
  InitSess <- Tables2x3
  Macro = TRUE
  DetSelect = TRUE
  MaxSel = 1
  MaxSteps = 0
  MaxTotal = 0
  StepsFirst = FALSE
  Resources = {"at", "tcc"}
  Bystanders = {FALSE}
  MaxLoss = 1
  MaxAnnFail = 0
  Shifts = {0}
INVARIANTS Dump
CHECK_DEADLOCK FALSE
