------------------------------ MODULE Rpc_Trace ------------------------------
(* Trace validation for Rpc.tla (C14): every recorded execution of the real        *)
(* SendSyncRequest / futures table / response dispatch must be a behaviour of Rpc. *)
(*   Send(c, id)            the coordinator receives caller c's request, message id *)
(*   Reply(id, kind)        a reply with this id is handed to the client's dispatch *)
(*                          (kind reply | dup | late: informative)                  *)
(*   CoordReq(id), Pong(id) a coordinator request / heartbeat pong carrying a       *)
(*                          pending request's id is handed to the dispatch          *)
(*   Heartbeat(id)          the client's heartbeat with this id reaches the         *)
(*                          coordinator                                             *)
(*   DeliveryReturned(id)   the dispatch of a message with this id returned         *)
(*   DeliveryStuck(id)      ... did not return (no action: always a rejection)      *)
(*   Return(c, v)           SendSyncRequest returned to caller c: own | other |     *)
(*                          timeout | err                                           *)
(*   ConnLost               the session was lost (OnClose)                          *)
(*   Quiesce(pending, parked, fresh)  after everything: entries of the scenario's   *)
(*                          ids still in the futures table, deliveries still parked,*)
(*                          a fresh request was served                              *)
(* Hang / NotSent / Panic have no action.                                           *)
EXTENDS Rpc, Json, IOUtils

VARIABLES l, s0

Trace  == ndJsonDeserialize(IOEnv.TRACE_FILE)
Starts == {i \in 1..Len(Trace) : Trace[i].k = 1}
EndOf(s) == s + Trace[s].n - 1
Max(a, b) == IF a > b THEN a ELSE b

tvars == <<vars, l, s0>>

TraceInit ==
  \E s \in Starts :
    /\ s0 = s /\ l = s + 1
    /\ Trace[s].ev = "Start"
    /\ cst = [c \in 1..Trace[s].cn |-> "idle"] /\ cid = [c \in 1..Trace[s].cn |-> 0]
    /\ cret = [c \in 1..Trace[s].cn |-> "none"]
    /\ used = {} /\ futures = <<>> /\ net = <<>> /\ emitted = <<>> /\ indeliv = <<>>
    /\ matched = {} /\ lost = FALSE /\ colls = 0 /\ env = <<>>
    /\ TLCSet(Trace[s].t, s + 1)

IsEv(e) == /\ l <= EndOf(s0)
           /\ Trace[l].ev = e
           /\ l' = l + 1 /\ s0' = s0

E == Trace[l]

TSend      == IsEv("Send") /\ E.c \in Callers /\ Send(E.c, E.id)
TReply     == IsEv("Reply") /\ Reply(E.id) /\ env' = env
TCoordReq  == IsEv("CoordReq") /\ Foreign("coordreq", E.id) /\ env' = env
TPong      == IsEv("Pong") /\ Foreign("hb", E.id) /\ env' = env
THeartbeat == IsEv("Heartbeat") /\ Heartbeat(E.id)
TReturned  == IsEv("DeliveryReturned") /\ EndDeliver(E.id)
TReturn    == IsEv("Return") /\ E.c \in Callers /\ Return(E.c, E.v)
TConnLost  == IsEv("ConnLost") /\ ConnLost /\ env' = env
TQuiesce   == /\ IsEv("Quiesce")
              /\ AllReturned /\ NoDelivery
              /\ E.pending = 0 /\ E.parked = 0 /\ E.fresh = TRUE
              /\ UNCHANGED vars

TraceNext == TSend \/ TReply \/ TCoordReq \/ TPong \/ THeartbeat \/ TReturned \/ TReturn \/ TConnLost \/ TQuiesce
TraceSpec == TraceInit /\ [][TraceNext]_tvars

Invs == [OwnReply |-> OwnReply, TimeoutNotTheft |-> TimeoutNotTheft, Exact |-> Exact, NoLeak |-> NoLeak]
Failed == {i \in DOMAIN Invs : ~Invs[i]}

HighWater ==
  IF Failed = {} THEN TLCSet(Trace[s0].t, Max(TLCGet(Trace[s0].t), l))
  ELSE PrintT(<<"INVFAIL", Trace[s0].t, l - s0, Failed>>) /\ FALSE

Rejected == {s \in Starts : TLCGet(Trace[s].t) # EndOf(s) + 1}
Post ==
  /\ PrintT(<<"TRACES", Cardinality(Starts), "REJECTED", Cardinality(Rejected)>>)
  /\ \A s \in Rejected :
       LET hw == TLCGet(Trace[s].t) IN
       PrintT(<<"REJECT", Trace[s].t, hw - s + 1, IF hw <= EndOf(s) THEN Trace[hw].ev ELSE "?">>)
=============================================================================
