SPECIFICATION TraceSpec
CONSTRAINT HighWater
POSTCONDITION Post
CHECK_DEADLOCK FALSE
