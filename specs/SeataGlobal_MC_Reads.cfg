SPECIFICATION Spec
CONSTANTS
  G = {1, 2}
  Rows = {"r1", "r2"}
  Acts = {}
  MaxBranches = 2
  MaxDup = 1
  MaxForeign = 0
  AllowTimeout = TRUE
  OblTruthful = TRUE
  OblLockCover = TRUE
  OblDirtyRefused = TRUE
  OblIdempotent = TRUE
  OblMarker = TRUE
  OblFence = TRUE
  OblP1Atomic = TRUE
  OblLockQuery = TRUE
  AllowReads = TRUE
  OblHonest = TRUE
  AllowXA = FALSE
  OblXATruthful = TRUE
  OblXAPhaseOrder = TRUE
INVARIANTS NoDirtyGlobalRead TypeOK ATAtomicRollback TCCAtomic NoDirtyGlobalWrite RollbackPossible
CHECK_DEADLOCK FALSE
