---------------------------- MODULE TCCFence_MC ----------------------------
EXTENDS TCCFence, IOUtils

View == <<rec, eff, fl, last, nfault, ndel, nrace>>

ScenFile == IOEnv.SCEN_FILE
Write(x) ==
  LET r == Serialize(<<x>>, ScenFile,
                     [format |-> "NDJSON", charset |-> "UTF-8",
                      openOptions |-> <<"WRITE", "CREATE", "APPEND">>])
  IN r = r

\* delivery sequences of full length (every shorter sequence is a prefix of one of them)
DumpSeq == (AllIdle /\ ndel = MaxDeliver) => Write([nb |-> NBranches, steps |-> env])

\* a prefix that sets the record up, then one racing pair with its statement interleaving
DumpRace == (AllIdle /\ nrace = 1) => Write([nb |-> NBranches, steps |-> env])
RaceIsLast == ~(nrace = 1 /\ ndel' > ndel)
\* schedules with a bounded number of switches between the two connections
Switches(q) == Cardinality({i \in 1..(Len(q) - 1) : q[i] # q[i + 1]})
FewSwitches == nrace' = 1 => Switches(env'[Len(env')].order) <= 4
\* one prefix per record state reached (breadth-first search keeps the shortest)
ViewRace == <<rec, eff, fl, nrace, IF nrace = 1 THEN env[Len(env)] ELSE <<>> >>
=============================================================================
