------------------------ MODULE ATAsyncCommit_Trace ------------------------
(* Trace validation for ATAsyncCommit.tla (C11).  Only the property layer is used: every recorded  *)
(* request, reply and undo_log DELETE must be an AbsRequest / AbsReply / AbsDelete step, OnlyAccepted *)
(* and AlwaysCommitted must hold in every state, and at the end of the scenario (all faults were   *)
(* transient, nothing is stalled any more, every resource that was asked about is registered, the  *)
(* bound has passed) every accepted request must have been answered and its undo log must be gone. *)
(* The pipeline of the implementation (queue, batch, fanout, workers) is not observed, so any      *)
(* implementation that keeps the property is accepted.                                             *)
EXTENDS ATAsyncCommit, Json, IOUtils

VARIABLES l, s0,
  obs      \* [final : BOOLEAN, unanswered : Nat] - what the harness saw when the bound had passed

Trace  == ndJsonDeserialize(IOEnv.TRACE_FILE)
Starts == {i \in 1..Len(Trace) : Trace[i].k = 1}
EndOf(s) == s + Trace[s].n - 1
Max(a, b) == IF a > b THEN a ELSE b

tvars == <<vars, l, s0, obs>>

ToRow(j)  == <<j[1], j[2], j[3]>>
ToRows(q) == {ToRow(q[i]) : i \in 1..Len(q)}

TraceInit ==
  \E s \in Starts :
    /\ s0 = s /\ l = s + 1
    /\ Trace[s].ev = "Init"
    /\ undoRows = ToRows(Trace[s].rows)
    /\ accepted = {} /\ replies = {} /\ deleted = {}
    /\ known = SeqToSet(Trace[s].known)
    \* the design layer is not observed
    /\ door = <<>> /\ queue = <<>> /\ buf = <<>> /\ hand = <<>> /\ fan = <<>> /\ retry = <<>> /\ wk = <<>>
    /\ connLeft = 0 /\ delLeft = 0 /\ nreq = 0
    /\ obs = [final |-> FALSE, unanswered |-> 0]
    /\ TLCSet(Trace[s].t, s + 1)

IsEv(e) == /\ l <= EndOf(s0)
           /\ Trace[l].ev = e
           /\ l' = l + 1 /\ s0' = s0

NotFinal == obs.final = FALSE

\* the coordinator stand-in hands a BranchCommitRequest to the client's OnMessage
TReq == /\ IsEv("Req") /\ NotFinal
        /\ AbsRequest(ToRow(Trace[l].row))
        /\ UNCHANGED <<dvars, obs>>

\* the client's answer arrives at the coordinator stand-in
TReply == /\ IsEv("Reply")
          /\ AbsReply(ToRow(Trace[l].row), Trace[l].status)
          /\ UNCHANGED <<dvars, obs>>

\* a DELETE on undo_log reached the database of resource r and removed exactly these rows
TDelete == /\ IsEv("Delete")
           /\ \A i \in 1..Len(Trace[l].keys) : Trace[l].keys[i][1] = Trace[l].r
           /\ AbsDelete(ToRows(Trace[l].keys))
           /\ UNCHANGED <<dvars, obs>>

\* fault plan and stall of the database: the property is silent about them (they are transient)
TEnv == /\ (IsEv("Arm") \/ IsEv("Release"))
        /\ UNCHANGED <<vars, obs>>

TAppear == /\ IsEv("Appear")
           /\ known' = known \cup {Trace[l].r}
           /\ UNCHANGED <<pvars, door, queue, buf, hand, fan, wk, retry, connLeft, delLeft, nreq, obs>>

\* quiescence or the bound: the final snapshot must be what the observed deletes left
TFinal == /\ IsEv("Final") /\ NotFinal
          /\ ToRows(Trace[l].remaining) = undoRows
          /\ SeqToSet(Trace[l].known) = known
          /\ obs' = [final |-> TRUE, unanswered |-> Trace[l].unanswered]
          /\ UNCHANGED vars

TraceNext == TReq \/ TReply \/ TDelete \/ TEnv \/ TAppear \/ TFinal
TraceSpec == TraceInit /\ [][TraceNext]_tvars

\* bounded reading of EventuallyGone / EventuallyAnswered
GoneWithinBound     == obs.final => \A row \in accepted : row[1] \in known => row \notin undoRows
AnsweredWithinBound == obs.final => (obs.unanswered = 0 /\ \A row \in accepted : Answered(row))

Invs == [OnlyAccepted |-> OnlyAccepted, AlwaysCommitted |-> AlwaysCommitted,
         GoneWithinBound |-> GoneWithinBound, AnsweredWithinBound |-> AnsweredWithinBound]
Failed == {i \in DOMAIN Invs : ~Invs[i]}

HighWater ==
  IF Failed = {} THEN TLCSet(Trace[s0].t, Max(TLCGet(Trace[s0].t), l))
  ELSE PrintT(<<"INVFAIL", Trace[s0].t, l - s0, Failed>>) /\ FALSE

Rejected == {s \in Starts : TLCGet(Trace[s].t) # EndOf(s) + 1}
Post ==
  /\ PrintT(<<"TRACES", Cardinality(Starts), "REJECTED", Cardinality(Rejected)>>)
  /\ \A s \in Rejected :
       LET hw == TLCGet(Trace[s].t) IN
       PrintT(<<"REJECT", Trace[s].t, hw - s + 1, IF hw <= EndOf(s) THEN Trace[hw].ev ELSE "?">>)
=============================================================================
