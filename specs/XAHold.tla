------------------------------- MODULE XAHold -------------------------------
(***************************************************************************)
(* C20 / C17 - the life of ONE XA connection between the three parties that *)
(* own it at different times: database/sql's pool, the resource manager's    *)
(* keeper (phase two) and the hold-time checker.  One action per critical    *)
(* section of XAConn.holdMu (pkg/datasource/sql/conn_xa.go):                 *)
(*   keep     keepIfNecessary: res.Hold(id), then {isConnKept := TRUE}       *)
(*   valid    IsValid: {read isConnKept}                    (pool goroutine) *)
(*   close    Close: {kept ? poolClosed := TRUE : -} else closePhysical      *)
(*   release  releaseIfNecessary: {snapshot kept, poolClosed; kept := FALSE} *)
(*            then res.Release(id), then closePhysical if it was orphaned    *)
(*   force    CloseForce: closePhysical, then the steps of release           *)
(*   closePhysical: {already := physClosed; physClosed := TRUE}, the target  *)
(*            connection's Close is called iff ~already                      *)
(* What must hold however the parties interleave: the physical connection    *)
(* is closed at most once, is never lost (given up by the pool, released by  *)
(* the keeper, still open, owned by nobody), and a connection that is held   *)
(* and was not force-closed stays open for phase two.                        *)
(* SplitClose = TRUE is the deliberate wrong design (check and mark of Close *)
(* in two critical sections): the negative configuration shows that NoLeak   *)
(* tells the two apart.  SplitRelease = TRUE is the other one (release takes  *)
(* its snapshot in one critical section and clears the hold in a later one,  *)
(* seeded change C20-8).                                                     *)
(***************************************************************************)
EXTENDS Integers, FiniteSets, TLC

CONSTANTS SplitClose, SplitRelease, WithForce

Ops == {"keep", "valid", "close", "release", "force"}

VARIABLES pc,         \* op -> "idle" | "s1" | "s2" | "s3" | "done"
          kept, poolClosed, physClosed, keeper,
          closes,     \* calls of the target connection's Close
          vres,       \* what IsValid answered ("none" before)
          snapK, snapO  \* op -> the snapshot release / force took

vars == <<pc, kept, poolClosed, physClosed, keeper, closes, vres, snapK, snapO>>

Init == /\ pc = [o \in Ops |-> "idle"]
        /\ kept = FALSE /\ poolClosed = FALSE /\ physClosed = FALSE /\ keeper = FALSE
        /\ closes = 0 /\ vres = "none"
        /\ snapK = [o \in {"release", "force"} |-> FALSE] /\ snapO = [o \in {"release", "force"} |-> FALSE]

Go(o, s) == pc' = [pc EXCEPT ![o] = s]

\* who may start when (one connection, every call at most once)
CanStart(o) ==
  /\ pc[o] = "idle"
  /\ CASE o = "keep"    -> pc["valid"] = "idle"                 \* the application still has the connection
       [] o = "valid"   -> pc["keep"] \in {"idle", "done"}      \* the application is through with it
       [] o = "close"   -> pc["valid"] = "done"                 \* database/sql drops it (invalid, or pool full / too old)
       [] o = "release" -> pc["keep"] = "done"                  \* phase two of the branch it is held for
       [] o = "force"   -> WithForce /\ pc["keep"] = "done"     \* the hold-time checker

ClosePhysical == /\ physClosed' = TRUE
                 /\ closes' = IF physClosed THEN closes ELSE closes + 1

\* ---- keep
Keep1 == /\ CanStart("keep") /\ keeper' = TRUE /\ Go("keep", "s2")
         /\ UNCHANGED <<kept, poolClosed, physClosed, closes, vres, snapK, snapO>>
Keep2 == /\ pc["keep"] = "s2" /\ kept' = TRUE /\ Go("keep", "done")
         /\ UNCHANGED <<poolClosed, physClosed, keeper, closes, vres, snapK, snapO>>
\* ---- valid (the target's own validator answers for a connection that is not held: open = valid)
Valid == /\ CanStart("valid")
         /\ vres' = IF kept \/ physClosed THEN "no" ELSE "yes"
         /\ Go("valid", "done")
         /\ UNCHANGED <<kept, poolClosed, physClosed, keeper, closes, snapK, snapO>>
\* ---- close
Close1 == /\ CanStart("close") /\ ~SplitClose
          /\ IF kept THEN poolClosed' = TRUE /\ Go("close", "done") ELSE poolClosed' = poolClosed /\ Go("close", "s2")
          /\ UNCHANGED <<kept, physClosed, keeper, closes, vres, snapK, snapO>>
Close1a == /\ CanStart("close") /\ SplitClose
           /\ IF kept THEN Go("close", "s3") ELSE Go("close", "s2")
           /\ UNCHANGED <<kept, poolClosed, physClosed, keeper, closes, vres, snapK, snapO>>
Close1b == /\ pc["close"] = "s3" /\ poolClosed' = TRUE /\ Go("close", "done")
           /\ UNCHANGED <<kept, physClosed, keeper, closes, vres, snapK, snapO>>
Close2 == /\ pc["close"] = "s2" /\ ClosePhysical /\ Go("close", "done")
          /\ UNCHANGED <<kept, poolClosed, keeper, vres, snapK, snapO>>
\* ---- release (o = "release"), and the tail of force
Rel1(o, from) == /\ pc[o] = from
                 /\ snapK' = [snapK EXCEPT ![o] = kept] /\ snapO' = [snapO EXCEPT ![o] = poolClosed]
                 /\ kept' = IF SplitRelease THEN kept ELSE FALSE
                 /\ Go(o, IF kept THEN "s2" ELSE "done")
                 /\ UNCHANGED <<poolClosed, physClosed, keeper, closes, vres>>
\* (the wrong design clears the hold here, in a critical section of its own, after the keeper entry is gone)
Rel2(o) == /\ pc[o] = "s2" /\ keeper' = FALSE
           /\ kept' = IF SplitRelease THEN FALSE ELSE kept
           /\ Go(o, IF snapO[o] THEN "s3" ELSE "done")
           /\ UNCHANGED <<poolClosed, physClosed, closes, vres, snapK, snapO>>
Rel3(o) == /\ pc[o] = "s3" /\ ClosePhysical /\ Go(o, "done")
           /\ UNCHANGED <<kept, poolClosed, keeper, vres, snapK, snapO>>
Release1 == CanStart("release") /\ Rel1("release", "idle")
\* ---- force
Force1 == /\ CanStart("force") /\ ClosePhysical /\ Go("force", "s1")
          /\ UNCHANGED <<kept, poolClosed, keeper, vres, snapK, snapO>>

Step(o) == CASE o = "keep"    -> Keep1 \/ Keep2
             [] o = "valid"   -> Valid
             [] o = "close"   -> Close1 \/ Close1a \/ Close1b \/ Close2
             [] o = "release" -> Release1 \/ Rel2("release") \/ Rel3("release")
             [] o = "force"   -> Force1 \/ Rel1("force", "s1") \/ Rel2("force") \/ Rel3("force")

Next == \E o \in Ops : Step(o)
Spec == Init /\ [][Next]_vars /\ WF_vars(Next)

\* ------------------------------------------------------------------ properties
InFlight(o) == pc[o] \notin {"idle", "done"}
Quiet       == \A o \in Ops : ~InFlight(o)

TypeOK == /\ pc \in [Ops -> {"idle", "s1", "s2", "s3", "done"}]
          /\ closes \in 0..2 /\ vres \in {"none", "yes", "no"}
          /\ kept \in BOOLEAN /\ poolClosed \in BOOLEAN /\ physClosed \in BOOLEAN /\ keeper \in BOOLEAN

CloseOnce == closes <= 1 /\ (physClosed <=> closes = 1)

\* the pool gave the connection up and nobody holds it: it is closed (nothing is lost)
NoLeak == (Quiet /\ pc["close"] = "done" /\ ~kept) => physClosed

\* a connection that is held (and not force-closed) stays open for phase two, whatever the pool did
HeldStaysOpen == (kept /\ pc["force"] = "idle") => ~physClosed

\* the connection is closed only after the pool gave it up or the checker forced it
NoEarlyClose == physClosed => (pc["close"] # "idle" \/ pc["force"] # "idle")

\* a held connection is never handed to the next caller
NeverValidWhileHeld == (pc["valid"] = "done" /\ vres = "yes") => (pc["keep"] = "idle")

KeeperAgrees == Quiet => (keeper = kept)

\* every started call finishes
Terminates == <>[](Quiet)
=============================================================================
