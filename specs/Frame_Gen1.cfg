INIT Init
NEXT Next
CONSTANTS
  Shapes <- GenShapes1
  MaxFrames = 1
  JunkLens = {0, 1, 3, 20}
  MaxCuts = 2
INVARIANTS Dump
CHECK_DEADLOCK FALSE
