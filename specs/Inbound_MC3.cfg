SPECIFICATION Spec
CONSTANTS
  MaxReq = 3
  BTypes = {"AT", "XA"}
  Kinds <- AllK
  Outcomes <- TwoOutcomes
  Places <- P1
  Rids = {1}
VIEW View
INVARIANTS TypeOK RoutedByType AtMostOneReply Echo StatusVerbatim NoFalseSuccess Independence
CHECK_DEADLOCK FALSE
