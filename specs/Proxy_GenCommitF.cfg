INIT Init
NEXT Next
CONSTANTS
  EndKinds = {"commit", "commitf"}
  StepKinds <- CommitFKinds
  MaxSteps = 3
  Gtx = {TRUE, FALSE}
  Lits = {FALSE}
INVARIANTS Dump
CHECK_DEADLOCK FALSE
