---------------------------- MODULE XAHold_Trace ----------------------------
(* Trace validation for XAHold.tla: what the xahold driver recorded on a real XAConn must be a     *)
(* behaviour of the specification.                                                                 *)
(*   Start : a fresh connection                                                                    *)
(*   Calls : the calls named in procs have all returned; the abstract state read afterwards        *)
(*           (kept, pclosed, phys, keeper, closes) and IsValid's answer (res) are recorded.        *)
(* The critical sections inside the calls are not logged: they are silent steps of the             *)
(* specification, taken only by the calls of the event that is next (so the trace specification    *)
(* stays finite).  A sequential call is an event with one name; calls that ran on goroutines of    *)
(* their own are one event with all their names: the recorded state has to be reachable by some    *)
(* interleaving of their critical sections, and every invariant holds in every state on the way.   *)
EXTENDS XAHold, Sequences, Json, IOUtils

VARIABLES l, s0

Trace  == ndJsonDeserialize(IOEnv.TRACE_FILE)
Starts == {i \in 1..Len(Trace) : Trace[i].k = 1}
EndOf(s) == s + Trace[s].n - 1
Max(a, b) == IF a > b THEN a ELSE b
B(x) == IF x THEN 1 ELSE 0

tvars == <<vars, l, s0>>

TraceInit ==
  \E s \in Starts :
    /\ s0 = s /\ l = s + 1
    /\ Trace[s].ev = "Start"
    /\ Init
    /\ TLCSet(Trace[s].t, s + 1)

E == Trace[l]
Procs == {E.procs[i] : i \in 1..Len(E.procs)}

Live == l <= EndOf(s0) /\ E.ev = "Calls"

Silent == /\ Live
          /\ \E o \in Procs : Step(o)
          /\ UNCHANGED <<l, s0>>

Returned == /\ Live
            /\ \A o \in Procs : pc[o] = "done"
            /\ B(kept) = E.kept /\ B(poolClosed) = E.pclosed /\ B(physClosed) = E.phys
            /\ B(keeper) = E.keeper /\ closes = E.closes
            /\ ("valid" \in Procs => vres = E.res)
            /\ l' = l + 1 /\ UNCHANGED <<vars, s0>>

TraceNext == Silent \/ Returned
TraceSpec == TraceInit /\ [][TraceNext]_tvars

Invs == [CloseOnce |-> CloseOnce, NoLeak |-> NoLeak, HeldStaysOpen |-> HeldStaysOpen,
         NoEarlyClose |-> NoEarlyClose, KeeperAgrees |-> KeeperAgrees]
Failed == {i \in DOMAIN Invs : ~Invs[i]}

HighWater ==
  IF Failed = {} THEN TLCSet(Trace[s0].t, Max(TLCGet(Trace[s0].t), l))
  ELSE PrintT(<<"INVFAIL", Trace[s0].t, l - s0, Failed>>) /\ FALSE

Rejected == {s \in Starts : TLCGet(Trace[s].t) # EndOf(s) + 1}
Post ==
  /\ PrintT(<<"TRACES", Cardinality(Starts), "REJECTED", Cardinality(Rejected)>>)
  /\ \A s \in Rejected :
       LET hw == TLCGet(Trace[s].t) IN
       PrintT(<<"REJECT", Trace[s].t, hw - s + 1, IF hw <= EndOf(s) THEN Trace[hw].ev ELSE "?">>)
=============================================================================
