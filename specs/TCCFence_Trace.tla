--------------------------- MODULE TCCFence_Trace ---------------------------
(* Trace validation for TCCFence.tla (C06).  The harness records, for every delivery of      *)
(* prepare / commit / rollback to the real fence, the error returned and the complete state  *)
(* (the fence row and the business-effect counters of every branch) read back from the       *)
(* database; each recorded delivery must be a step of the delivery contract of TCCFence      *)
(* with exactly that resulting state.  Statements are not logged: the contract does not      *)
(* prescribe them.                                                                           *)
EXTENDS TCCFence, Json, IOUtils

VARIABLES l, s0

Trace  == ndJsonDeserialize(IOEnv.TRACE_FILE)
Starts == {i \in 1..Len(Trace) : Trace[i].k = 1}
EndOf(s) == s + Trace[s].n - 1
Max(a, b) == IF a > b THEN a ELSE b

tvars == <<vars, l, s0>>

ToRec(j) == [b \in Branches |-> IF b <= Len(j) THEN j[b] ELSE "none"]
ToEff(j) == [b \in Branches |->
               IF b <= Len(j)
               THEN [p \in Phases |-> CASE p = "prepare" -> j[b][1] [] p = "commit" -> j[b][2] [] OTHER -> j[b][3]]
               ELSE [p \in Phases |-> 0]]

TraceInit ==
  \E s \in Starts :
    /\ s0 = s /\ l = s + 1
    /\ Trace[s].ev = "Init"
    /\ Trace[s].nb \in Branches
    /\ rec = [b \in Branches |-> "none"]
    /\ eff = [b \in Branches |-> [p \in Phases |-> 0]]
    /\ fl = [i \in Slots |-> Idle]
    /\ last = [op |-> "init"]
    /\ nfault = 0 /\ ndel = 0 /\ nrace = 0
    /\ env = <<>>
    /\ TLCSet(Trace[s].t, s + 1)

IsEv(e) == /\ l <= EndOf(s0)
           /\ Trace[l].ev = e
           /\ l' = l + 1 /\ s0' = s0

Rest == UNCHANGED <<fl, nfault, ndel, nrace, env>>

\* a delivery is handed to the fence
TDeliver == /\ IsEv("Deliver")
            /\ last.op \notin {"deliver", "race"}
            /\ Trace[l].b \in Branches /\ Trace[l].phase \in Phases
            /\ last' = [op |-> "deliver", b |-> Trace[l].b, p |-> Trace[l].phase]
            /\ UNCHANGED <<rec, eff>> /\ Rest

\* it returned: the reply and the complete state afterwards are a step of the contract (a delivery into
\* which a database failure was injected may also fail as a whole); no stray rows
TResult == /\ IsEv("Result")
           /\ last.op = "deliver"
           /\ Trace[l].extra = 0
           /\ \E o \in Outcome : /\ o.err = Trace[l].err
                                 /\ Step(last.b, last.p, Trace[l].fired, o)
           /\ rec' = ToRec(Trace[l].rec)
           /\ eff' = ToEff(Trace[l].eff)
           /\ last' = [op |-> "result"]
           /\ Rest

\* after the call returned no connection is left inside a transaction or holding locks: the record and
\* the effect were committed or rolled back, together
TIdle == /\ IsEv("Idle")
         /\ Trace[l].idle = TRUE
         /\ UNCHANGED vars

TRace == /\ IsEv("Race")
         /\ last.op \notin {"deliver", "race"}
         /\ Trace[l].b \in Branches /\ Trace[l].phases[1] \in Phases /\ Trace[l].phases[2] \in Phases
         /\ last' = [op |-> "race", b |-> Trace[l].b, p1 |-> Trace[l].phases[1], p2 |-> Trace[l].phases[2]]
         /\ UNCHANGED <<rec, eff>> /\ Rest

\* both racers returned: the replies and the state are those of some serial order
TRaceResult == /\ IsEv("RaceResult")
               /\ last.op = "race"
               /\ Trace[l].extra = 0
               /\ \E o1 \in Outcome, o2 \in Outcome :
                    /\ o1.err = Trace[l].errs[1] /\ o2.err = Trace[l].errs[2]
                    /\ RaceStep(last.b, last.p1, last.p2, o1, o2)
               /\ rec' = ToRec(Trace[l].rec)
               /\ eff' = ToEff(Trace[l].eff)
               /\ last' = [op |-> "result"]
               /\ Rest

TEnd == IsEv("End") /\ last.op \notin {"deliver", "race"} /\ UNCHANGED vars

TraceNext == TDeliver \/ TResult \/ TIdle \/ TRace \/ TRaceResult \/ TEnd
TraceSpec == TraceInit /\ [][TraceNext]_tvars

Invs == [AtMostOnce |-> AtMostOnce, NotBoth |-> NotBoth, Coupled |-> Coupled]
Failed_ == {i \in DOMAIN Invs : ~Invs[i]}

HighWater ==
  IF Failed_ = {} THEN TLCSet(Trace[s0].t, Max(TLCGet(Trace[s0].t), l))
  ELSE PrintT(<<"INVFAIL", Trace[s0].t, l - s0, Failed_>>) /\ FALSE

Rejected == {s \in Starts : TLCGet(Trace[s].t) # EndOf(s) + 1}
Post ==
  /\ PrintT(<<"TRACES", Cardinality(Starts), "REJECTED", Cardinality(Rejected)>>)
  /\ \A s \in Rejected :
       LET hw == TLCGet(Trace[s].t) IN
       PrintT(<<"REJECT", Trace[s].t, hw - s + 1, IF hw <= EndOf(s) THEN Trace[hw].ev ELSE "?">>)
=============================================================================
