------------------------------ MODULE TM_Trace ------------------------------
(* Trace validation for TM.tla (C04, C07): every recorded execution of the real  *)
(* tm.WithGlobalTx against the coordinator stand-in must be a behaviour of TM.   *)
EXTENDS TM, Json, IOUtils

VARIABLES l, s0

Trace  == ndJsonDeserialize(IOEnv.TRACE_FILE)
Starts == {i \in 1..Len(Trace) : Trace[i].k = 1}
EndOf(s) == s + Trace[s].n - 1
Max(a, b) == IF a > b THEN a ELSE b

tvars == <<vars, l, s0>>

TraceInit ==
  \E s \in Starts :
    /\ s0 = s /\ l = s + 1
    /\ Trace[s].ev = "Start"
    /\ stack = <<>> /\ tclog = <<>> /\ nxid = 0 /\ cancelled = FALSE
    /\ rets = <<>> /\ decided = <<>> /\ env = <<>>
    /\ budget = [commit |-> Trace[s].retryc, rollback |-> Trace[s].retryr]   \* the configured retry counts
    /\ TLCSet(Trace[s].t, s + 1)

IsEv(e) == /\ l <= EndOf(s0)
           /\ Trace[l].ev = e
           /\ l' = l + 1 /\ s0' = s0

TCancel   == IsEv("Cancel") /\ cancelled' = TRUE /\ UNCHANGED <<stack, tclog, nxid, rets, decided, env, budget>>
TEnter    == IsEv("Enter") /\ Enter(Trace[l].mode, Trace[l].kind)
TBeginReq == IsEv("BeginReq") /\ BeginReq
TBeginRep == IsEv("BeginRep") /\ BeginRep(Trace[l].r)
TCallback == IsEv("Callback") /\ Callback(Trace[l].xid)
TLeave    == IsEv("Leave") /\ Leave(Trace[l].o)
TP2Req    == IsEv("P2Req") /\ P2Req(Trace[l].kind, Trace[l].xid)
TP2Rep    == IsEv("P2Rep") /\ P2Rep(Trace[l].r)
TAfter    == IsEv("After") /\ After(Trace[l].xid, Trace[l].role, Trace[l].nameok)
TReturn   == IsEv("Return") /\ Return(Trace[l].v)
TEnd      == IsEv("End") /\ Finished /\ UNCHANGED vars

TraceNext == TCancel \/ TEnter \/ TBeginReq \/ TBeginRep \/ TCallback \/ TLeave
             \/ TP2Req \/ TP2Rep \/ TAfter \/ TReturn \/ TEnd
TraceSpec == TraceInit /\ [][TraceNext]_tvars

Invs == [OneDecision |-> OneDecision, Truthful |-> Truthful, RetryBound |-> RetryBound, Issued |-> Issued]
Failed == {i \in DOMAIN Invs : ~Invs[i]}

HighWater ==
  IF Failed = {} THEN TLCSet(Trace[s0].t, Max(TLCGet(Trace[s0].t), l))
  ELSE PrintT(<<"INVFAIL", Trace[s0].t, l - s0, Failed>>) /\ FALSE

Rejected == {s \in Starts : TLCGet(Trace[s].t) # EndOf(s) + 1}
Post ==
  /\ PrintT(<<"TRACES", Cardinality(Starts), "REJECTED", Cardinality(Rejected)>>)
  /\ \A s \in Rejected :
       LET hw == TLCGet(Trace[s].t) IN
       PrintT(<<"REJECT", Trace[s].t, hw - s + 1, IF hw <= EndOf(s) THEN Trace[hw].ev ELSE "?">>)
=============================================================================
