SPECIFICATION FairSpec
CONSTANTS
  N = 2
  MaxDup = 1
  MaxLate = 1
  MaxDrop = 2
  MaxColl = 1
  CollKinds <- BothKinds
  AllowLoss = TRUE
INVARIANTS TypeOK OwnReply TimeoutNotTheft Exact NoLeak DeliveryNeverBlocks
PROPERTIES EveryCallerReturns
CHECK_DEADLOCK FALSE
