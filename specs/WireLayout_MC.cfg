SPECIFICATION MCSpec
INVARIANTS TypeOK WellFormed CodesUnique Registered RoundTrip TruncKeepsDecodable PairwiseCovered
PROPERTIES Completes
CHECK_DEADLOCK FALSE
