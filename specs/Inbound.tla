------------------------------- MODULE Inbound -------------------------------
(***************************************************************************)
(* C15 - every coordinator phase-two request gets one correctly addressed,  *)
(* truthful reply.                                                          *)
(*                                                                         *)
(* Code: gettyClientHandler.OnMessage (listener.go) -> rmBranchCommit /    *)
(* rmBranchRollback processor -> rm.GetRmCacheInstance().GetResourceManager *)
(* (branch type) -> manager.BranchCommit / BranchRollback ->                *)
(* GettyRemotingClient.SendAsyncResponse.                                   *)
(*                                                                         *)
(* A behaviour: the coordinator delivers a stream of branch commit and      *)
(* rollback requests on one session, concurrently; each is handed to the    *)
(* resource manager registered for its branch type; the manager returns a   *)
(* (status, error) pair some time later - in any order across requests;     *)
(* the client answers.  The managers are environment: their outcome is      *)
(* scripted per request (field `status`, `err` of the request record).      *)
(*                                                                         *)
(* Message ids, xids, branch ids and resource ids are opaque values.        *)
(***************************************************************************)
EXTENDS Integers, Sequences, FiniteSets, TLC

CONSTANTS
  MaxReq,     \* generation bound: number of requests in a stream
  BTypes,     \* branch types, e.g. {"AT", "TCC", "XA"}
  Kinds,      \* {"commit", "rollback"}
  Outcomes,   \* scripted manager outcomes: set of [status : Int, err : BOOLEAN]
  Places,     \* generation: set of [xid, bid] a request may name
  Rids        \* generation: resource ids

VARIABLES
  reqs,    \* id -> [kind, btype, xid, bid, rid, status, err]   requests delivered so far
  st,      \* id -> "sent" | "invoked" | "returned" | "replied"
  calls,   \* history: <<[mgr, id]>> invocations of the managers
  resps,   \* history: <<[id, kind, xid, bid, status]>> responses the coordinator received
  env      \* history of environment choices (scenario)

vars == <<reqs, st, calls, resps, env>>

\* the two statuses that tell the coordinator "this branch is finished successfully"
Success == {5, 8}    \* PhasetwoCommitted, PhasetwoRollbacked

Ids == DOMAIN reqs

Init ==
  /\ reqs = <<>> /\ st = <<>> /\ calls = <<>> /\ resps = <<>> /\ env = <<>>

\* the coordinator delivers a request with a message id it has not used in this stream
Dispatch(id, r) ==
  /\ id \notin Ids
  /\ reqs' = reqs @@ (id :> r)
  /\ st' = st @@ (id :> "sent")
  /\ env' = Append(env, [op |-> "req", id |-> id, r |-> r])
  /\ UNCHANGED <<calls, resps>>

\* manager `mgr` is entered with operation `op` for the request `id` and the arguments (xid, bid, rid):
\* only the manager of the request's branch type, only the request's operation, the request's own
\* coordinates, and once
Invoke(mgr, op, id, xid, bid, rid) ==
  /\ id \in Ids /\ st[id] = "sent"
  /\ mgr = reqs[id].btype
  /\ op = reqs[id].kind
  /\ xid = reqs[id].xid /\ bid = reqs[id].bid /\ rid = reqs[id].rid
  /\ st' = [st EXCEPT ![id] = "invoked"]
  /\ calls' = Append(calls, [mgr |-> mgr, id |-> id])
  /\ UNCHANGED <<reqs, resps, env>>

\* the manager returns what the script says (environment step)
Complete(id, status, err) ==
  /\ id \in Ids /\ st[id] = "invoked"
  /\ status = reqs[id].status /\ err = reqs[id].err
  /\ st' = [st EXCEPT ![id] = "returned"]
  /\ env' = Append(env, [op |-> "complete", id |-> id])
  /\ UNCHANGED <<reqs, calls, resps>>

\* the coordinator receives a response
Respond(id, kind, xid, bid, status) ==
  /\ id \in Ids /\ st[id] = "returned"              \* after the manager answered, at most once
  /\ kind = reqs[id].kind                           \* a commit response for a commit request
  /\ xid = reqs[id].xid /\ bid = reqs[id].bid       \* echo
  /\ IF reqs[id].err THEN status \notin Success     \* never a false success
                     ELSE status = reqs[id].status  \* the manager's status, verbatim
  /\ st' = [st EXCEPT ![id] = "replied"]
  /\ resps' = Append(resps, [id |-> id, kind |-> kind, xid |-> xid, bid |-> bid, status |-> status])
  /\ UNCHANGED <<reqs, calls, env>>

\* nothing further will happen: every request was routed and answered by its manager, and every request
\* whose manager returned a status without error has its reply
Settled ==
  \A id \in Ids : /\ st[id] \in {"returned", "replied"}
                  /\ ~reqs[id].err => st[id] = "replied"

Mk(k, b, p, rid, o) ==
  [kind |-> k, btype |-> b, xid |-> p.xid, bid |-> p.bid, rid |-> rid, status |-> o.status, err |-> o.err]

NewReq ==
  /\ Cardinality(Ids) < MaxReq
  /\ \E k \in Kinds, b \in BTypes, p \in Places, rid \in Rids, o \in Outcomes :
       Dispatch(Cardinality(Ids) + 1, Mk(k, b, p, rid, o))

Next ==
  \/ NewReq
  \/ \E id \in Ids : Invoke(reqs[id].btype, reqs[id].kind, id, reqs[id].xid, reqs[id].bid, reqs[id].rid)
  \/ \E id \in Ids : Complete(id, reqs[id].status, reqs[id].err)
  \/ \E id \in Ids : \E s \in 0..10 : Respond(id, reqs[id].kind, reqs[id].xid, reqs[id].bid, s)

Spec == Init /\ [][Next]_vars

-----------------------------------------------------------------------------
(* Properties of the design *)

RespsOf(id) == {i \in 1..Len(resps) : resps[i].id = id}

RoutedByType == \A i \in 1..Len(calls) : calls[i].id \in Ids /\ reqs[calls[i].id].btype = calls[i].mgr

AtMostOneReply == \A id \in Ids : /\ Cardinality(RespsOf(id)) <= 1
                                  /\ st[id] = "replied" <=> Cardinality(RespsOf(id)) = 1

Echo == \A i \in 1..Len(resps) :
          /\ resps[i].id \in Ids
          /\ resps[i].xid = reqs[resps[i].id].xid /\ resps[i].bid = reqs[resps[i].id].bid
          /\ resps[i].kind = reqs[resps[i].id].kind

StatusVerbatim == \A i \in 1..Len(resps) :
                    ~reqs[resps[i].id].err => resps[i].status = reqs[resps[i].id].status

NoFalseSuccess == \A i \in 1..Len(resps) : reqs[resps[i].id].err => resps[i].status \notin Success

\* the reply to r is a function of r alone: two requests with equal content and outcome get equal replies
\* (up to the message id), whatever else is in the stream
Independence ==
  \A i, j \in 1..Len(resps) :
     LET a == reqs[resps[i].id]  b == reqs[resps[j].id] IN
     (a = b /\ ~a.err) => [resps[i] EXCEPT !.id = 0] = [resps[j] EXCEPT !.id = 0]

TypeOK == DOMAIN st = Ids
=============================================================================
