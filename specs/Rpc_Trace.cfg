SPECIFICATION TraceSpec
CONSTANTS
  N = 0
  MaxDup = 0
  MaxLate = 0
  MaxDrop = 0
  MaxColl = 0
  CollKinds = {}
  AllowLoss = TRUE
CONSTRAINT HighWater
POSTCONDITION Post
CHECK_DEADLOCK FALSE
