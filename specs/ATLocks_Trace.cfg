SPECIFICATION TraceSpec
CONSTANTS
  NKeys = 2
  MaxOps = 1000
  WriteKinds = {"upd", "ups", "del", "ins"}
  AllowSfu = TRUE
  EndHows = {"commit", "rollback"}
CONSTRAINT HighWater
POSTCONDITION Post
CHECK_DEADLOCK FALSE
