------------------------------- MODULE Frame -------------------------------
(***************************************************************************)
(* C13 - the Seata v1 frame reader under arbitrary fragmentation.          *)
(*                                                                         *)
(* Code: pkg/remoting/getty/readwriter.go RpcPackageHandler.Read/Write,    *)
(* driven by getty's session.handleTCPPackage:                             *)
(*     recv chunk; loop { pkg,n,err = Read(buf);                           *)
(*                        err => close; pkg=nil => wait for more bytes;    *)
(*                        else deliver pkg, drop n bytes }                 *)
(*                                                                         *)
(* The peer sends a sequence of frames (only their lengths matter here:    *)
(* 16 header bytes, hm head-map bytes, body bytes) optionally followed by  *)
(* junk that does not start with the magic.  The network cuts the byte     *)
(* stream into arbitrary chunks.  Byte *content* (ids, head-map entries,   *)
(* body fields) is compared by the Go harness and arrives here as the      *)
(* boolean field `eq` of a Deliver event.                                  *)
(***************************************************************************)
EXTENDS Integers, Sequences, FiniteSets, TLC

CONSTANTS Shapes,     \* set of [hm |-> Nat, body |-> Nat]
          MaxFrames,  \* frames per stream: 1..MaxFrames
          JunkLens,   \* set of Nat: junk bytes after the last frame (0 = none)
          MaxCuts     \* bound on the number of chunk boundaries (generation only; MC uses a large value)

HeaderLen == 16
FLen(f)   == HeaderLen + f.hm + f.body

VARIABLES frames,    \* Seq(Shapes) - what the peer sends
          junk,      \* junk bytes after the frames
          avail,     \* bytes received so far
          consumed,  \* bytes dropped from the buffer by the transport loop
          out,       \* frames delivered so far (they are delivered in order)
          mode,      \* "recv" | "parse" | "closed"
          last,      \* last Read result  [res |-> "none"|"need"|"msg"|"err", n |-> Int]
          cuts       \* history: sizes of the chunks received (environment choices)

vars == <<frames, junk, avail, consumed, out, mode, last, cuts>>

RECURSIVE SumLen(_)
SumLen(s) == IF s = <<>> THEN 0 ELSE FLen(Head(s)) + SumLen(Tail(s))

FramesLen == SumLen(frames)
Total     == FramesLen + junk
Buffered  == avail - consumed

\* offset at which frame i (1-based) starts
StartOf(i) == SumLen(SubSeq(frames, 1, i - 1))

Init ==
  /\ \E n \in 1..MaxFrames : frames \in [1..n -> Shapes]
  /\ junk \in JunkLens
  /\ avail = 0 /\ consumed = 0 /\ out = 0
  /\ mode = "recv"
  /\ last = [res |-> "none", n |-> 0]
  /\ cuts = <<>>

(***************************************************************************)
(* The network delivers the next chunk.  The last chunk is forced to end   *)
(* at the end of the stream once the cut budget is used up.                *)
(***************************************************************************)
Recv(c) ==
  /\ mode = "recv"
  /\ avail < Total
  /\ c \in 1..(Total - avail)
  /\ (Len(cuts) >= MaxCuts) => (c = Total - avail)
  /\ avail' = avail + c
  /\ cuts' = Append(cuts, c)
  /\ mode' = "parse"
  /\ UNCHANGED <<frames, junk, consumed, out, last>>

(***************************************************************************)
(* What a correct reader answers for the current buffer.                   *)
(*   - the buffer starts at a frame boundary (invariant AtBoundary);       *)
(*   - inside the frames region: complete frame => (msg, its length),      *)
(*     otherwise need-more (pkg = nil, no error, n arbitrary);             *)
(*   - in the junk region (bytes that are not a frame): an error (the      *)
(*     session is closed) or need-more; never a message.  The property     *)
(*     does not say how early junk must be recognised, so both are allowed.*)
(***************************************************************************)
InJunk == out = Len(frames)

Allowed(res, n) ==
  IF ~InJunk
  THEN LET f == frames[out + 1] IN
       IF Buffered >= FLen(f) THEN res = "msg" /\ n = FLen(f)
                              ELSE res = "need"
  ELSE res \in {"err", "need"}

\* One iteration of the inner loop of handleTCPPackage.
Parse(res, n) ==
  /\ mode = "parse"
  /\ Buffered > 0
  /\ Allowed(res, n)
  /\ last' = [res |-> res, n |-> n]
  /\ CASE res = "msg"  -> /\ out' = out + 1
                          /\ consumed' = consumed + n
                          /\ mode' = IF consumed' = avail THEN "recv" ELSE "parse"
       [] res = "need" -> /\ mode' = "recv"
                          /\ UNCHANGED <<out, consumed>>
       [] res = "err"  -> /\ mode' = "closed"
                          /\ UNCHANGED <<out, consumed>>
  /\ UNCHANGED <<frames, junk, avail, cuts>>

ParseAny ==
  \/ /\ ~InJunk
     /\ Buffered >= FLen(frames[out + 1])
     /\ Parse("msg", FLen(frames[out + 1]))
  \/ Parse("need", 0)
  \/ Parse("err", 0)

Next == (\E c \in 1..(Total - avail) : Recv(c)) \/ ParseAny

Spec == Init /\ [][Next]_vars /\ WF_vars(Next)

-----------------------------------------------------------------------------
TypeOK ==
  /\ avail \in 0..Total /\ consumed \in 0..avail /\ out \in 0..Len(frames)
  /\ mode \in {"recv", "parse", "closed"}

\* the buffer always starts at a frame boundary
AtBoundary == consumed = StartOf(out + 1)

\* ExactOutput / NoFabrication: delivered frames are a prefix of the sent ones, and a frame
\* is delivered only when all of its bytes have arrived.
NoFabrication == consumed <= avail /\ out <= Len(frames)

\* Progress: a Read that yields a message consumes at least the header.
Progress == last.res = "msg" => last.n >= HeaderLen

\* Need-more never consumes and never delivers (checked as an action property).
NeedIsPure == [][(last'.res = "need" /\ last' # last) => (out' = out /\ consumed' = consumed)]_vars

\* The session is closed only because of junk.
CloseOnlyOnJunk == mode = "closed" => InJunk /\ junk > 0

Done == mode = "closed" \/ (avail = Total /\ mode = "recv")

\* at the end every frame has been delivered
ExactAtEnd == Done => out = Len(frames)

\* liveness: the loop always comes to rest with everything delivered
Terminates == <>(Done /\ out = Len(frames))
=============================================================================
