INIT Init
NEXT Next
CONSTANTS
  NBranches = 2
  MaxDeliver = 3
  MaxFaults = 0
  FailPoints = {0}
  MaxRace = 0
  Locking = TRUE
INVARIANTS DumpSeq
CHECK_DEADLOCK FALSE
