SPECIFICATION Spec
CONSTANTS
  Conns = {1, 2}
  MaxDml = 2
  RegReplies = {"ok", "conflict", "fail", "neterr"}
  MaxReportFails = 2
  ReportBudget = 2
  Modes = {"auto", "explicit"}
  AllowDbFault = TRUE
VIEW View
INVARIANTS TypeOK AllOrNothing CommitDiscipline ErrorSurfaces PoolClean FailedIsReported
CHECK_DEADLOCK FALSE
