---------------------------- MODULE ATLocks_Trace ----------------------------
(* Trace validation for ATLocks.tla (C03). *)
EXTENDS ATLocks, Json, IOUtils

VARIABLES l, s0

Trace  == ndJsonDeserialize(IOEnv.TRACE_FILE)
Starts == {i \in 1..Len(Trace) : Trace[i].k = 1}
EndOf(s) == s + Trace[s].n - 1
Max(a, b) == IF a > b THEN a ELSE b
SeqToSet(q) == {q[i] : i \in 1..Len(q)}

tvars == <<vars, l, s0>>

TraceInit ==
  \E s \in Starts :
    /\ s0 = s /\ l = s + 1
    /\ Trace[s].ev \in {"Start", "StartCover", "StartCanon"}
    /\ Init
    /\ TLCSet(Trace[s].t, s + 1)

IsEv(e) == /\ l <= EndOf(s0)
           /\ Trace[l].ev = e
           /\ l' = l + 1 /\ s0' = s0

\* two-transaction scenarios
TWrite == /\ IsEv("Write")
          /\ Write(Trace[l].g, Trace[l].kind, SeqToSet(Trace[l].keys), Trace[l].ok, Trace[l].changed)
          /\ Trace[l].idle = TRUE
TSfu   == IsEv("Sfu") /\ Sfu(Trace[l].g, SeqToSet(Trace[l].keys), Trace[l].nrows, Trace[l].err, Trace[l].locksLeft)
TEnd2  == IsEv("End") /\ "g" \in DOMAIN Trace[l] /\ Trace[l].err = FALSE /\ End(Trace[l].g, Trace[l].how)
TFinal == IsEv("Final") /\ UNCHANGED vars

\* single-branch scenarios: the registered lock keys name every row the local transaction changed
TCover == IsEv("Cover") /\ Trace[l].covered = TRUE /\ UNCHANGED vars
\* ... and a locking read of the same rows asks the coordinator about exactly them, by the same key text
TSfuKeys == IsEv("SfuKeys") /\ Trace[l].same = TRUE /\ UNCHANGED vars
TAbort == IsEv("Abort") /\ UNCHANGED vars
TEnd1  == IsEv("End") /\ ~("g" \in DOMAIN Trace[l]) /\ UNCHANGED vars
\* one row has one key text whatever statement form touched it
TCanon == IsEv("Canon") /\ Trace[l].distinct <= 1 /\ UNCHANGED vars

TraceNext == TWrite \/ TSfu \/ TEnd2 \/ TFinal \/ TCover \/ TSfuKeys \/ TAbort \/ TEnd1 \/ TCanon
TraceSpec == TraceInit /\ [][TraceNext]_tvars

Invs == [NoDirty |-> NoDirty]
Failed == {i \in DOMAIN Invs : ~Invs[i]}

HighWater ==
  IF Failed = {} THEN TLCSet(Trace[s0].t, Max(TLCGet(Trace[s0].t), l))
  ELSE PrintT(<<"INVFAIL", Trace[s0].t, l - s0, Failed>>) /\ FALSE

Rejected == {s \in Starts : TLCGet(Trace[s].t) # EndOf(s) + 1}
Post ==
  /\ PrintT(<<"TRACES", Cardinality(Starts), "REJECTED", Cardinality(Rejected)>>)
  /\ \A s \in Rejected :
       LET hw == TLCGet(Trace[s].t) IN
       PrintT(<<"REJECT", Trace[s].t, hw - s + 1, IF hw <= EndOf(s) THEN Trace[hw].ev ELSE "?">>)
=============================================================================
