INIT GenInit
NEXT GenNext
CONSTANTS
  Plan <- PlanThorough
INVARIANTS Dump
CHECK_DEADLOCK FALSE
