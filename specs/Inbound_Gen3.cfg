INIT Init
NEXT GenNext
CONSTANTS
  MaxReq = 3
  BTypes <- AllB
  Kinds <- AllK
  Outcomes <- TwoOutcomes
  Places <- P1
  Rids = {1}
CONSTRAINT Canon
INVARIANTS Dump
CHECK_DEADLOCK FALSE
