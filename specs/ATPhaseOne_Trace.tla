-------------------------- MODULE ATPhaseOne_Trace --------------------------
(* Trace validation for ATPhaseOne.tla (C02): the merged journal of the database  *)
(* connections and the coordinator for one local transaction must be a behaviour  *)
(* of ATPhaseOne; the durable delta afterwards must be what the specification     *)
(* says is durable.                                                               *)
EXTENDS ATPhaseOne, Json, IOUtils

VARIABLES l, s0

Trace  == ndJsonDeserialize(IOEnv.TRACE_FILE)
Starts == {i \in 1..Len(Trace) : Trace[i].k = 1}
EndOf(s) == s + Trace[s].n - 1
Max(a, b) == IF a > b THEN a ELSE b

tvars == <<vars, l, s0>>

TraceInit ==
  \E s \in Starts :
    /\ s0 = s /\ l = s + 1
    /\ Trace[s].ev = "Start"
    /\ pc = "idle" /\ mode = Trace[s].mode /\ conn = 0 /\ ndml = 0 /\ changed = 0
    /\ registered = "no" /\ undoW = FALSE /\ failed = FALSE
    /\ reports = <<>> /\ ret = "none" /\ faults = 0 /\ env = <<>>
    /\ TLCSet(Trace[s].t, s + 1)

IsEv(e) == /\ l <= EndOf(s0)
           /\ Trace[l].ev = e
           /\ l' = l + 1 /\ s0' = s0

TBegin    == IsEv("Begin") /\ Begin(Trace[l].c)
TBeginF   == IsEv("BeginFailed") /\ pc = "idle" /\ UNCHANGED vars   \* the database refused BEGIN: no transaction
TDml      == IsEv("Dml") /\ Dml(Trace[l].c, Trace[l].aff, Trace[l].err)
TStmtFail == IsEv("StmtFailed") /\ StmtFailed
TRefused  == IsEv("Refused") /\ (StmtFailed \/ (failed /\ UNCHANGED vars))
TRegReq   == IsEv("RegReq") /\ RegReq
TRegRep   == IsEv("RegRep") /\ RegRep(Trace[l].r)
TUndoIns  == IsEv("UndoIns") /\ UndoIns(Trace[l].c, Trace[l].err)
TCommit   == IsEv("Commit") /\ Commit(Trace[l].c, Trace[l].err)
TRollback == IsEv("Rollback") /\ Rollback(Trace[l].c)
TReport   == IsEv("Report") /\ Report(Trace[l].status, Trace[l].r)
TReturn   == IsEv("Return") /\ Return(Trace[l].v)

\* after the call: what is durable is what the specification says, and no connection is still inside
\* a transaction (the pooled connection was not handed back inside an open transaction)
TState == /\ IsEv("State")
          /\ ret # "none"
          /\ Trace[l].biz = Durable.biz
          /\ Trace[l].undo = Durable.undo
          /\ Trace[l].intx = FALSE
          /\ UNCHANGED vars

TraceNext == TBegin \/ TBeginF \/ TDml \/ TStmtFail \/ TRefused \/ TRegReq \/ TRegRep \/ TUndoIns \/ TCommit
             \/ TRollback \/ TReport \/ TReturn \/ TState
TraceSpec == TraceInit /\ [][TraceNext]_tvars

Invs == [AllOrNothing |-> AllOrNothing, CommitDiscipline |-> CommitDiscipline, ErrorSurfaces |-> ErrorSurfaces,
         PoolClean |-> PoolClean, FailedIsReported |-> FailedIsReported]
Failed == {i \in DOMAIN Invs : ~Invs[i]}

HighWater ==
  IF Failed = {} THEN TLCSet(Trace[s0].t, Max(TLCGet(Trace[s0].t), l))
  ELSE PrintT(<<"INVFAIL", Trace[s0].t, l - s0, Failed>>) /\ FALSE

Rejected == {s \in Starts : TLCGet(Trace[s].t) # EndOf(s) + 1}
Post ==
  /\ PrintT(<<"TRACES", Cardinality(Starts), "REJECTED", Cardinality(Rejected)>>)
  /\ \A s \in Rejected :
       LET hw == TLCGet(Trace[s].t) IN
       PrintT(<<"REJECT", Trace[s].t, hw - s + 1, IF hw <= EndOf(s) THEN Trace[hw].ev ELSE "?">>)
=============================================================================
