INIT Init
NEXT GenNext
CONSTANTS
  N <- EnvN
  MaxDup = 1
  MaxLate = 1
  MaxDrop = 2
  MaxColl = 1
  CollKinds <- BothKinds
  AllowLoss = TRUE
INVARIANTS Dump
CHECK_DEADLOCK FALSE
