INIT GenInit
NEXT GenNext
CONSTANTS
  SplitClose = FALSE
  SplitRelease = FALSE
  WithForce = TRUE
INVARIANTS Dump
CHECK_DEADLOCK FALSE
