INIT GenInit
NEXT GenNext
CONSTANTS
  SplitClose = FALSE
  WithForce = TRUE
INVARIANTS Dump
CHECK_DEADLOCK FALSE
