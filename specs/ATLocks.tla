------------------------------- MODULE ATLocks -------------------------------
(***************************************************************************)
(* C03 - global locks: the keys a branch registers cover every row it      *)
(* writes, one row has one key text, and locking reads consult the         *)
(* coordinator.                                                            *)
(*                                                                         *)
(* Code: exec/at/base_executor.go buildLockKey, the AT executors           *)
(* (TxCtx.LockKeys), tx.go register, select_for_update_executor.go.        *)
(*                                                                         *)
(* Two global transactions work on the same rows, one operation at a time. *)
(* The specification keeps the lock table a correct coordinator would have *)
(* if every written row were named in the registration (`held`): a write   *)
(* or a locking read of a row another open global transaction has written  *)
(* must fail and change nothing.  The coordinator stand-in, in contrast,   *)
(* only knows the lock keys the client really sent - a row missing from    *)
(* them, or spelt differently by another statement form, lets the second   *)
(* transaction through and the recorded trace is rejected here.            *)
(***************************************************************************)
EXTENDS Integers, Sequences, FiniteSets, TLC

CONSTANTS NKeys, MaxOps, WriteKinds, AllowSfu, EndHows

Keys == 1..NKeys
G == {1, 2}
KeySets == (SUBSET Keys) \ {{}}

VARIABLES
  held,     \* Keys -> 0 | 1 | 2 : which open global transaction has written / locked the row
  open,     \* G -> BOOLEAN : the global transaction has not ended yet
  began,    \* G -> BOOLEAN
  nops,
  env       \* history: scenario

vars == <<held, open, began, nops, env>>

\* both global transactions are open from the start (who began first is irrelevant here)
Init == /\ held = [k \in Keys |-> 0] /\ open = [g \in G |-> TRUE] /\ began = [g \in G |-> TRUE]
        /\ nops = 0 /\ env = <<>>

Free(g, ks) == \A k \in ks : held[k] \in {0, g}

\* a branch of g writes rows ks (one local transaction).  ok: the call succeeded.
\* It must succeed iff no other open global transaction holds one of the rows; on refusal nothing
\* is written (changed = FALSE).
Write(g, kind, ks, ok, changed) ==
  /\ open[g] /\ nops < MaxOps /\ kind \in WriteKinds
  /\ ok = Free(g, ks)
  /\ changed = ok
  /\ held' = IF ok THEN [k \in Keys |-> IF k \in ks THEN g ELSE held[k]] ELSE held
  /\ nops' = nops + 1
  /\ env' = Append(env, [op |-> "write", g |-> g, kind |-> kind, keys |-> ks])
  /\ UNCHANGED <<open, began>>

\* SELECT .. FOR UPDATE of rows ks inside g: returns the rows only if the coordinator says they are
\* lockable; otherwise it fails and holds no local row lock afterwards.
Sfu(g, ks, nrows, err, locksLeft) ==
  /\ AllowSfu /\ open[g] /\ nops < MaxOps
  /\ IF Free(g, ks) THEN ~err /\ nrows = Cardinality(ks)
                    ELSE err /\ nrows = 0 /\ locksLeft = 0
  /\ nops' = nops + 1
  /\ env' = Append(env, [op |-> "sfu", g |-> g, keys |-> ks])
  /\ UNCHANGED <<held, open, began>>

\* the global transaction ends (commit or rollback): the coordinator releases its locks
End(g, how) ==
  /\ open[g] /\ how \in EndHows
  /\ open' = [open EXCEPT ![g] = FALSE]
  /\ held' = [k \in Keys |-> IF held[k] = g THEN 0 ELSE held[k]]
  /\ env' = Append(env, [op |-> "end", g |-> g, how |-> how])
  /\ UNCHANGED <<began, nops>>

Next ==
  \/ \E g \in G, kind \in WriteKinds, ks \in KeySets, ok \in BOOLEAN, ch \in BOOLEAN : Write(g, kind, ks, ok, ch)
  \/ \E g \in G, ks \in KeySets, n \in 0..NKeys, e \in BOOLEAN, ll \in 0..NKeys : Sfu(g, ks, n, e, ll)
  \/ \E g \in G, how \in EndHows : End(g, how)

Spec == Init /\ [][Next]_vars

\* NoDirtyGlobalWrite: a row is held by at most one open transaction, and only by open ones
NoDirty == \A k \in Keys : held[k] # 0 => open[held[k]]
TypeOK == held \in [Keys -> 0..2]
Finished == \A g \in G : began[g] /\ ~open[g]
=============================================================================
