SPECIFICATION Spec
CONSTANTS
  MaxRetryC = 1
  MaxRetryR = 1
  MaxFail = 0
  MaxDepth = 3
  MaxKids = 2
  Modes <- AllModes
  Kinds = {"shared", "fresh"}
  Outcomes = {"nil", "err"}
  BeginReplies = {"ok"}
  P2Replies = {"ok"}
  AllowCancel = FALSE
  DetReturn = FALSE
VIEW View
INVARIANTS TypeOK OneDecision Truthful RetryBound Issued
CHECK_DEADLOCK FALSE
