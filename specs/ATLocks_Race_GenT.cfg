SPECIFICATION RSpec
CONSTANTS
  NKeys = 2
  MaxOps = 4
  WriteKinds = {"upd", "ups", "del"}
  AllowSfu = TRUE
  EndHows = {"commit"}
  AKinds = {"sfu", "sfux", "upd", "ups", "del", "updx"}
  BKinds = {"upd", "ups", "del"}
  KeyPairs <- Overlaps
  StmtPoints <- Stmt8
  Inits <- ThreeInits
  Nested = TRUE
  EndAfterBoth = TRUE
  Strict = TRUE
INVARIANTS Dump
CHECK_DEADLOCK FALSE
