SPECIFICATION TraceSpec
CONSTANTS
  NKeys = 2
  WVals = {0, 1, 2}
  UVals = {0, 1}
  InitRows = {}
  StmtW = {}
  MaxBranches = 3
  MaxStmts = 3
  Kinds = {"ins", "upd", "del", "ups"}
  OnlyCare <- EnvOnlyCare
  Validate <- EnvValidate
  MaxForeign = 100
  MaxDeliver = 100
  FailPoints = {0, 1, 2, 3, 4, 5, 6, 7, 8, 9, 10}
  AllowEarly = TRUE
  AllowPkUpd = TRUE
CONSTRAINT HighWater
POSTCONDITION Post
CHECK_DEADLOCK FALSE
