---------------------------- MODULE ATLocks_Race ----------------------------
(***************************************************************************)
(* C03, leg "race": two global transactions whose operations OVERLAP IN    *)
(* TIME.  ATLocks.tla runs one operation at a time; here an operation has  *)
(* a start and an end, and the other transaction's operation may take      *)
(* effect in between.                                                      *)
(*                                                                         *)
(*   OpStart(g, ..)   the application calls the operation                  *)
(*   Lin(g, wk)       linearization point of a write: the local commit of  *)
(*                    the writer makes rows wk visible and (in a correct   *)
(*                    system) globally locked by g until g ends            *)
(*   OpEnd(g, res,..) the call returns: ok / conflict / error, and for a   *)
(*                    locking read the rows it hands to the application    *)
(*   End(g, how)      the global transaction ends, its locks are released  *)
(*                                                                         *)
(* A locking read takes its rows at some moment between its start and its  *)
(* end; `snaps[g]` collects every (table, lock table) pair that existed    *)
(* during the pending operation of g.  The property:                       *)
(*   CleanRead       a successful SELECT..FOR UPDATE returns the rows of   *)
(*                   one of these moments, and at that moment none of the  *)
(*                   returned rows was written-and-still-held by another   *)
(*                   open global transaction (no globally dirty data);     *)
(*   ReadAfterConfirm  every returned row was named in a lock query of   *)
(*                   the operation that the coordinator answered lockable; *)
(*   ConflictReleases  a failed locking read holds no local row lock;      *)
(*   NoOverlapWrite  a write never lands on a row written by the other     *)
(*                   open global transaction;                              *)
(*   FailedOpsChangeNothing, TableMatches  a failed operation changes      *)
(*                   nothing; the table is what the successful operations  *)
(*                   produce.                                              *)
(* Which of two racing operations wins is free: an operation may succeed,  *)
(* fail with a lock conflict (if there was or is a competitor) or fail     *)
(* with a database error (lock wait timeout, deadlock victim).             *)
(*                                                                         *)
(* The actions come in two strengths.  `Strict = TRUE` (design check,      *)
(* scenario generation): the guards of a correct system are enforced and   *)
(* TLC checks that they imply the value-based statement ValueClean (no     *)
(* returned value is the one an open holder of the row wrote) and          *)
(* DirtyIsHeld.  `Strict = FALSE` (trace validation): every recorded step  *)
(* is taken, what it breaks is collected in `viol` and reported through    *)
(* the invariants, so that a rejection names the clause.                   *)
(***************************************************************************)
EXTENDS ATLocks

CONSTANTS
  AKinds,      \* operations of the first transaction (g = 1): "sfu" (locking read, autocommit use),
               \* "sfux" (locking read inside an explicit local transaction), "upd", "ups", "del", "updx"
  BKinds,      \* operations of the second transaction (g = 2): "upd", "ups", "del"
  KeyPairs,    \* admissible <<keys of A, keys of B>>
  StmtPoints,  \* gate positions "before the k-th database statement of A's operation"
  Inits,       \* initial tables: functions Keys -> {0, Absent}
  Nested,      \* TRUE: B's operation starts while A's is pending, at a named gate position
  EndAfterBoth,\* TRUE: the global transactions end only after both operations returned
  Strict

Absent == -1
Vals   == {Absent, 0} \cup G          \* a write of g sets the value g
ReadKinds  == {"sfu", "sfux"}
RWriteKinds == {"upd", "ups", "del", "updx"}
None == [kind |-> "none", keys |-> {}, lin |-> "no"]

\* gate positions that make sense for an operation of A: statement boundaries, and the coordinator replies
PointsFor(kind) == StmtPoints \cup (IF kind \in ReadKinds THEN {"lqb", "lqa"} ELSE {"rgb", "rga"})

VARIABLES
  tbl,     \* Keys -> Vals : the committed table
  pre,     \* Keys -> Vals : value of a held row before its holder wrote it
  pend,    \* G -> the pending operation or None
  snaps,   \* G -> set of <<tbl, held>> that existed while the operation of g was pending
  done,    \* G -> BOOLEAN : g has performed its operation
  wrote,   \* G -> BOOLEAN : g has completed a write operation successfully (it has a registered branch)
  dirtyv,  \* history: some successful read returned a value whose writer still held the row
  viol     \* history (Strict = FALSE): clauses broken so far

rvars == <<vars, tbl, pre, pend, snaps, done, wrote, dirtyv, viol>>

RInit ==
  /\ held = [k \in Keys |-> 0] /\ open = [g \in G |-> TRUE] /\ began = [g \in G |-> TRUE] /\ nops = 0
  /\ tbl \in Inits
  /\ env = <<[op |-> "init", rows |-> tbl]>>
  /\ pre = [k \in Keys |-> Absent]
  /\ pend = [g \in G |-> None]
  /\ snaps = [g \in G |-> {}]
  /\ done = [g \in G |-> FALSE]
  /\ wrote = [g \in G |-> FALSE]
  /\ dirtyv = FALSE
  /\ viol = {}

FreeIn(h, g, ks) == \A k \in ks : h[k] \in {0, g}
Other(g) == 3 - g

\* every pending operation sees the new (table, lock table) pair
Seen(t, h, except) == [g \in G |-> IF pend[g] # None /\ g # except THEN snaps[g] \cup {<<t, h>>} ELSE snaps[g]]

OpStart(g, kind, ks, at) ==
  /\ open[g] /\ pend[g] = None /\ ~done[g]
  /\ kind \in (IF g = 1 THEN AKinds ELSE BKinds)
  /\ IF Nested
       THEN IF g = 1 THEN /\ pend[2] = None /\ ~done[2] /\ at = "-"
                          /\ \E p \in KeyPairs : p[1] = ks
                     ELSE /\ pend[1] # None /\ pend[1].lin = "no"
                          /\ at \in PointsFor(pend[1].kind)
                          /\ <<pend[1].keys, ks>> \in KeyPairs
       ELSE at = "-"
  /\ pend' = [pend EXCEPT ![g] = [kind |-> kind, keys |-> ks, lin |-> "no"]]
  /\ snaps' = [snaps EXCEPT ![g] = {<<tbl, held>>}]
  /\ env' = Append(env, [op |-> "start", g |-> g, kind |-> kind, keys |-> ks, at |-> at])
  /\ UNCHANGED <<held, open, began, nops, tbl, pre, done, wrote, dirtyv, viol>>

\* rows a write statement of this kind can touch in table t
Touchable(kind, ks, t) == IF kind = "ups" THEN ks ELSE {k \in ks : t[k] # Absent}
NewVal(kind, g) == IF kind = "del" THEN Absent ELSE g

\* the local commit of g's write makes rows wk visible
Lin(g, wk) ==
  /\ pend[g] # None /\ pend[g].kind \in RWriteKinds /\ pend[g].lin = "no"
  /\ wk \subseteq Touchable(pend[g].kind, pend[g].keys, tbl)
  /\ IF Strict THEN Free(g, wk) /\ wk = Touchable(pend[g].kind, pend[g].keys, tbl)
               ELSE TRUE
  /\ viol' = IF Free(g, wk) THEN viol ELSE viol \cup {"OverlapWrite"}
  /\ LET t2 == [k \in Keys |-> IF k \in wk THEN NewVal(pend[g].kind, g) ELSE tbl[k]]
         h2 == [k \in Keys |-> IF k \in wk THEN g ELSE held[k]]
     IN /\ tbl' = t2 /\ held' = h2
        /\ pre' = [k \in Keys |-> IF k \in wk /\ held[k] # g THEN tbl[k] ELSE pre[k]]
        /\ snaps' = Seen(t2, h2, g)
  /\ pend' = [pend EXCEPT ![g].lin = "yes"]
  /\ UNCHANGED <<open, began, nops, env, done, wrote, dirtyv>>

\* a snapshot explains a successful locking read: returned rows are the rows of that moment and none of
\* them was held by the other transaction; a row that is not returned did not exist at that moment
ReadOk(s, g, ks, rows) ==
  /\ DOMAIN rows \subseteq ks
  /\ \A k \in ks : IF k \in DOMAIN rows
                  THEN s[1][k] = rows[k] /\ rows[k] # Absent /\ s[2][k] \in {0, g}
                  ELSE s[1][k] = Absent

\* a lock conflict needs a competitor: the other transaction holds (held at some moment of the operation,
\* or holds now) one of the rows, or is writing right now (its registration precedes its commit), or is open
\* with a registered branch (what that branch locks at the coordinator is the coordinator's business: the
\* client registers a branch, with an empty key list, even for a write that matched no row)
Justified(g, ks) ==
  \/ \E s \in snaps[g] \cup {<<tbl, held>>} : ~FreeIn(s[2], g, ks)
  \/ pend[Other(g)] # None /\ pend[Other(g)].kind \in RWriteKinds
  \/ open[Other(g)] /\ wrote[Other(g)]

\* the operation returns.  rows: Keys -|-> Vals, the rows handed to the application (reads only);
\* confirmed: the rows for which the coordinator answered a lock query of this operation with "lockable";
\* locksLeft: local row locks the connection still holds when a failed locking read returns.
\* quiet: no operation is pending afterwards; db is then the table the driver saw.
OpEnd(g, res, rows, confirmed, locksLeft, db) ==
  /\ pend[g] # None
  /\ res \in {"ok", "conflict", "error"}
  /\ LET p == pend[g]
         isread == p.kind \in ReadKinds
         clean == \E s \in snaps[g] : ReadOk(s, g, p.keys, rows)
         quiet == pend[Other(g)] = None
         broken ==
           (IF isread /\ res = "ok" /\ ~clean THEN {"DirtyRead"} ELSE {})
           \cup (IF isread /\ res = "ok" /\ ~(DOMAIN rows \subseteq confirmed) THEN {"Unconfirmed"} ELSE {})
           \cup (IF isread /\ res # "ok" /\ locksLeft # 0 THEN {"LocksKept"} ELSE {})
           \cup (IF res # "ok" /\ p.lin = "yes" THEN {"FailedOpChanged"} ELSE {})
           \cup (IF res # "ok" /\ DOMAIN rows # {} THEN {"FailedReadReturnedRows"} ELSE {})
           \cup (IF res = "conflict" /\ ~Justified(g, p.keys) THEN {"SpuriousConflict"} ELSE {})
           \cup (IF quiet /\ db # tbl THEN {"TableDiffers"} ELSE {})
     IN /\ (~isread => DOMAIN rows = {})
        /\ (Strict => broken = {})
        /\ viol' = viol \cup broken
        /\ dirtyv' = (dirtyv \/ (isread /\ res = "ok" /\
                        \E k \in DOMAIN rows : rows[k] \in G \ {g} /\ held[k] = rows[k]))
  /\ pend' = [pend EXCEPT ![g] = None]
  /\ snaps' = [snaps EXCEPT ![g] = {}]
  /\ done' = [done EXCEPT ![g] = TRUE]
  /\ wrote' = [wrote EXCEPT ![g] = @ \/ (res = "ok" /\ pend[g].kind \in RWriteKinds)]
  /\ UNCHANGED <<held, open, began, nops, env, tbl, pre>>

\* the global transaction ends: the coordinator releases its locks; a rollback restores the rows it wrote
REnd(g, how, db) ==
  /\ open[g] /\ how \in EndHows /\ pend[g] = None
  /\ (EndAfterBoth => \A h \in G : done[h])
  /\ LET t2 == [k \in Keys |-> IF held[k] = g /\ how = "rollback" THEN pre[k] ELSE tbl[k]]
         h2 == [k \in Keys |-> IF held[k] = g THEN 0 ELSE held[k]]
         quiet == \A h \in G : pend[h] = None
         broken == IF quiet /\ db # t2 THEN {"TableDiffers"} ELSE {}
     IN /\ tbl' = t2 /\ held' = h2
        /\ snaps' = Seen(t2, h2, g)
        /\ (Strict => broken = {})
        /\ viol' = viol \cup broken
  /\ open' = [open EXCEPT ![g] = FALSE]
  /\ env' = Append(env, [op |-> "end", g |-> g, how |-> how])
  /\ UNCHANGED <<began, nops, pre, pend, done, wrote, dirtyv>>

RowFns(ks) == UNION {[S -> Vals] : S \in SUBSET ks}
Tables == [Keys -> Vals]

RNext ==
  \/ \E g \in G, kind \in AKinds \cup BKinds, ks \in KeySets, at \in StmtPoints \cup {"-", "lqb", "lqa", "rgb", "rga"} :
       OpStart(g, kind, ks, at)
  \/ \E g \in G, wk \in SUBSET Keys : Lin(g, wk)
  \/ \E g \in G, res \in {"ok", "conflict", "error"}, rows \in RowFns(Keys) : OpEnd(g, res, rows, DOMAIN rows, 0, tbl)
  \/ \E g \in G, how \in EndHows : REnd(g, how, IF how = "rollback"
                                                  THEN [k \in Keys |-> IF held[k] = g THEN pre[k] ELSE tbl[k]]
                                                  ELSE tbl)

RSpec == RInit /\ [][RNext]_rvars

-----------------------------------------------------------------------------
RTypeOK ==
  /\ TypeOK /\ tbl \in Tables /\ pre \in Tables
  /\ \A g \in G : pend[g] = None \/ (pend[g].keys \in KeySets /\ pend[g].lin \in {"no", "yes"})
  /\ dirtyv \in BOOLEAN

\* no successful locking read ever returned the value an open holder of the row had written
ValueClean == ~dirtyv
\* a value written by an open global transaction sits on a row that transaction holds
DirtyIsHeld == \A k \in Keys : (tbl[k] \in G /\ open[tbl[k]]) => held[k] = tbl[k]

\* the clauses, as reported by trace validation
CleanRead       == "DirtyRead" \notin viol
ReadAfterConfirm == "Unconfirmed" \notin viol
ConflictReleases == "LocksKept" \notin viol
NoOverlapWrite  == "OverlapWrite" \notin viol
FailedOpsChangeNothing == "FailedOpChanged" \notin viol /\ "FailedReadReturnedRows" \notin viol
NoSpuriousConflict == "SpuriousConflict" \notin viol
TableMatches    == "TableDiffers" \notin viol

RFinished == \A g \in G : done[g] /\ ~open[g]
=============================================================================
