INIT Init
NEXT Next
CONSTANTS
  StepKinds <- MidKinds
  MaxSteps = 3
  Gtx = {TRUE, FALSE}
  Lits = {FALSE}
INVARIANTS Dump
CHECK_DEADLOCK FALSE
