SPECIFICATION TraceSpec
CONSTANTS
  Actions = {}
  Unknown = {"zz"}
  Params = {}
  MaxPrep = 1000
  MaxRegReq = 1000
  RegReplies = {}
  TryOutcomes = {}
  Kinds = {}
  DataClasses = {}
  UserOutcomes = {}
  MaxP2 = 1000
  MaxP2NoBranch = 1000
  Xids = {}
  Bids = {}
  AllowMalformedPanic = TRUE
  Det = FALSE
CONSTRAINT HighWater
POSTCONDITION Post
CHECK_DEADLOCK FALSE
