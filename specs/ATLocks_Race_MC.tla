--------------------------- MODULE ATLocks_Race_MC ---------------------------
(* Design check and scenario generation for ATLocks_Race.tla (C03, leg "race"). *)
EXTENDS ATLocks_Race, IOUtils

AllInits  == [Keys -> {0, Absent}]
BothRows  == {[k \in Keys |-> 0]}
\* both rows present, or the second row missing (so that an upsert of the other transaction inserts it)
TwoInits  == {[k \in Keys |-> 0], [k \in Keys |-> IF k = 2 THEN Absent ELSE 0]}
\* either row missing as well
ThreeInits == TwoInits \cup {[k \in Keys |-> IF k = 1 THEN Absent ELSE 0]}
AllPairs  == KeySets \X KeySets
Overlaps  == {p \in AllPairs : p[1] \cap p[2] # {}}
\* A reads/writes row 1 or both rows; B writes one of A's rows
QuickPairs == {<<{1}, {1}>>, <<{1, 2}, {1}>>, <<{1, 2}, {2}>>}
Stmt8 == {"s1", "s2", "s3", "s4", "s5", "s6", "s7", "s8"}

View == <<held, open, began, nops, tbl, pre, pend, snaps, done, wrote, dirtyv, viol>>

ScenFile == IOEnv.SCEN_FILE
Dump ==
  RFinished =>
    LET r == Serialize(<<[race |-> env]>>, ScenFile,
                       [format |-> "NDJSON", charset |-> "UTF-8", openOptions |-> <<"WRITE", "CREATE", "APPEND">>])
    IN r = r
=============================================================================
