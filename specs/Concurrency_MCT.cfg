SPECIFICATION Spec
CONSTANTS
  NTx = 3
  MaxBranch = 1
  MaxSess = 2
INVARIANTS TypeOK Balanced
PROPERTIES AllTerminate
CHECK_DEADLOCK FALSE
