INIT GenInitEarly
NEXT GenNext
INVARIANTS Dump
CHECK_DEADLOCK FALSE
