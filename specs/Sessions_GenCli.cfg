INIT Init
NEXT Next
CONSTANTS
  Parts = {"sel"}
  Ids = {1, 2, 3}
  Nil = 0
  Addrs <- A2
  Policies <- GenPolicy
  FirstXids <- XidsHit
  Xids <- XidsHitM
  InitSess <- Tables2x2
  Macro = TRUE
  DetSelect = TRUE
  MaxSel = 2
  MaxSteps = 1
  MaxTotal = 1
  StepsFirst = FALSE
  Resources = {"at", "tcc"}
  Bystanders = {FALSE}
  MaxLoss = 1
  MaxAnnFail = 0
  Shifts = {0}
INVARIANTS Dump
CHECK_DEADLOCK FALSE
