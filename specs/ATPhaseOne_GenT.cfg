INIT GenInitT
NEXT GenNext
INVARIANTS Dump
CHECK_DEADLOCK FALSE
