SPECIFICATION TraceSpec
CONSTANTS
  Serializers = {}
  CompTypes = {}
  Thresholds = {}
  Cols = {}
  Stmts = {}
  KeyFlags = {}
  Keep <- TraceKeep
CONSTRAINT HighWater
POSTCONDITION Post
CHECK_DEADLOCK FALSE
