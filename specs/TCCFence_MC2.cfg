SPECIFICATION Spec
CONSTANTS
  NBranches = 2
  MaxDeliver = 3
  MaxFaults = 1
  FailPoints = {0, 1, 2, 3, 4, 5, 6}
  MaxRace = 1
  Locking = TRUE
VIEW View
INVARIANTS TypeOK AtMostOnce NotBoth Coupled NoDeadlock
PROPERTIES Together Contract EmptyRollback AntiSuspension DuplicateReply NoCross Progress
CHECK_DEADLOCK FALSE
