----------------------------- MODULE Frame_MC -----------------------------
EXTENDS Frame, IOUtils

MCShapes == {[hm |-> h, body |-> b] : h \in {0, 4, 5, 9}, b \in {0, 1, 7, 12}}

\* the history variable is irrelevant for the design check
View == <<frames, junk, avail, consumed, out, mode, last>>

\* ---- scenario generation (Frame_Gen.cfg): dump every terminal behaviour once ----
GenShapes1 == MCShapes
\* body = 1: a well-formed frame whose body is too short to hold a type code (delivered with an empty body)
GenShapes2 == {[hm |-> h, body |-> b] : h \in {0, 9}, b \in {0, 1, 7}}
GenShapes3 == {[hm |-> 0, body |-> 0], [hm |-> 5, body |-> 7]}

ScenFile == IOEnv.SCEN_FILE
Dump ==
  Done =>
    LET r == Serialize(<<[frames |-> frames, junk |-> junk, cuts |-> cuts]>>, ScenFile,
                       [format |-> "NDJSON", charset |-> "UTF-8",
                        openOptions |-> <<"WRITE", "CREATE", "APPEND">>])
    IN r = r
=============================================================================
