INIT Init
NEXT GenNext
CONSTANTS
  MaxReq = 1
  BTypes <- AllB
  Kinds <- AllK
  Outcomes <- AllOutcomes
  Places <- P1
  Rids = {1, 2}
CONSTRAINT Canon
INVARIANTS Dump
CHECK_DEADLOCK FALSE
