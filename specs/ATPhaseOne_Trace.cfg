SPECIFICATION TraceSpec
CONSTANTS
  Conns = {1, 2, 3, 4, 5, 6, 7, 8, 9, 10, 11, 12, 13, 14, 15, 16, 17, 18, 19, 20}
  MaxDml = 8
  RegReplies = {"ok", "conflict", "fail", "neterr"}
  MaxReportFails = 100
  ReportBudget = 100
  Modes = {"auto", "explicit"}
  AllowDbFault = TRUE
CONSTRAINT HighWater
POSTCONDITION Post
CHECK_DEADLOCK FALSE
