SPECIFICATION Spec
CONSTANTS
  N = 4
  MaxDup = 1
  MaxLate = 1
  MaxDrop = 4
  MaxColl = 0
  CollKinds <- BothKinds
  AllowLoss = TRUE
VIEW View
INVARIANTS TypeOK OwnReply TimeoutNotTheft Exact NoLeak DeliveryNeverBlocks
CHECK_DEADLOCK FALSE
