INIT GenInit
NEXT GenNext
INVARIANTS Dump
CHECK_DEADLOCK FALSE
