SPECIFICATION TraceSpec
CONSTANTS
  Res = {}
  Xids = {}
  Bids = {}
  ReqRows = {}
  ReceiveChanSize = 1
  BufferLimit = 1
  CommitWorkerBufferSize = 1
  NWorkers = 1
  MaxReq = 0
  MaxConnFail = 0
  MaxDelFail = 0
  LateRes = {}
  BlockingRequeue = FALSE
  ConnFailAborts = FALSE
  CrossProduct = FALSE
CONSTRAINT HighWater
POSTCONDITION Post
CHECK_DEADLOCK FALSE
