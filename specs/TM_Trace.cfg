SPECIFICATION TraceSpec
CONSTANTS
  MaxRetryC = 0
  MaxRetryR = 0
  MaxFail = 1000
  MaxDepth = 16
  MaxKids = 16
  Modes = {}
  Kinds = {}
  Outcomes = {}
  BeginReplies = {}
  P2Replies = {}
  AllowCancel = TRUE
  DetReturn = FALSE
CONSTRAINT HighWater
POSTCONDITION Post
CHECK_DEADLOCK FALSE
