INIT GenInit
NEXT GenNext
CONSTANTS
  Plan <- PlanQuick
INVARIANTS Dump
CHECK_DEADLOCK FALSE
