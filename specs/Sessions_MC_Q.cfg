SPECIFICATION Spec
CONSTANTS
  Parts = {"sel", "rc"}
  Ids = {s1, s2, s3}
  Nil = nil
  Addrs <- A3
  Policies <- AllPolicies
  Xids <- XidsAll
  FirstXids <- XidsAll
  InitSess <- InitEmpty
  Macro = FALSE
  DetSelect = FALSE
  MaxSel = 1000000
  MaxSteps = 1000000
  MaxTotal = 1000000
  StepsFirst = TRUE
  Resources = {"at", "tcc"}
  MaxLoss = 2
  MaxAnnFail = 0
  Bystanders = {FALSE, TRUE}
  Shifts = {0}
SYMMETRY Sym
VIEW View
INVARIANTS TypeOK LiveOnly XidAffinity NoCrash ReannounceTM ReannounceRM BeginWorks Phase2Reaches
CHECK_DEADLOCK FALSE
