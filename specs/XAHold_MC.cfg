SPECIFICATION Spec
CONSTANTS
  SplitClose = FALSE
  SplitRelease = FALSE
  WithForce = TRUE
INVARIANTS TypeOK CloseOnce NoLeak HeldStaysOpen NoEarlyClose KeeperAgrees
PROPERTIES Terminates
CHECK_DEADLOCK FALSE
