INIT Init
NEXT Next
CONSTANTS
  EndKinds = {"commit", "rollback"}
  StepKinds <- AllKinds
  MaxSteps <- EnvMaxSteps
  Gtx = {TRUE, FALSE}
  Lits = {TRUE, FALSE}
INVARIANTS Dump
CHECK_DEADLOCK FALSE
