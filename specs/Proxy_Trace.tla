----------------------------- MODULE Proxy_Trace -----------------------------
(* Trace validation for Proxy.tla (C16). *)
EXTENDS Proxy, Json, IOUtils

VARIABLES l, s0

Trace  == ndJsonDeserialize(IOEnv.TRACE_FILE)
Starts == {i \in 1..Len(Trace) : Trace[i].k = 1}
EndOf(s) == s + Trace[s].n - 1
Max(a, b) == IF a > b THEN a ELSE b

tvars == <<vars, l, s0>>

TraceInit ==
  \E s \in Starts :
    /\ s0 = s /\ l = s + 1
    /\ Trace[s].ev = "Start"
    /\ gtx = Trace[s].gtx /\ lit = Trace[s].lit
    /\ intx = FALSE /\ nsteps = 0 /\ done = FALSE /\ prog = <<>>
    /\ TLCSet(Trace[s].t, s + 1)

IsEv(e) == /\ l <= EndOf(s0)
           /\ Trace[l].ev = e
           /\ l' = l + 1 /\ s0' = s0

TBegin  == IsEv("Begin") /\ Trace[l].sameErr = TRUE /\ Begin(Trace[l].opt)
TEndTx  == IsEv("EndTx") /\ Trace[l].sameErr = TRUE /\ EndTx(Trace[l].how)
TStep   == IsEv("Step") /\ Step(Trace[l].kind, Trace[l].sameRes, Trace[l].sameErr)
TFinish == IsEv("Finish") /\ Finish(Trace[l].sameData, Trace[l].sameJournal, Trace[l].appInOrder,
                                     Trace[l].extrasOK, Trace[l].tcreq)

TraceNext == TBegin \/ TEndTx \/ TStep \/ TFinish
TraceSpec == TraceInit /\ [][TraceNext]_tvars

HighWater == TLCSet(Trace[s0].t, Max(TLCGet(Trace[s0].t), l))

Rejected == {s \in Starts : TLCGet(Trace[s].t) # EndOf(s) + 1}
Post ==
  /\ PrintT(<<"TRACES", Cardinality(Starts), "REJECTED", Cardinality(Rejected)>>)
  /\ \A s \in Rejected :
       LET hw == TLCGet(Trace[s].t) IN
       PrintT(<<"REJECT", Trace[s].t, hw - s + 1, IF hw <= EndOf(s) THEN Trace[hw].ev ELSE "?">>)
=============================================================================
