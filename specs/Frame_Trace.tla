---------------------------- MODULE Frame_Trace ----------------------------
(* Trace validation for Frame.tla: every recorded execution of the real      *)
(* RpcPackageHandler.Read under the transcribed getty loop must be a         *)
(* behaviour of Frame.  One initial state per recorded trace (DESIGN App. A) *)
EXTENDS Frame, Json, IOUtils

VARIABLES l,    \* next line of Trace to consume
          s0    \* first line of the trace this behaviour validates

Trace  == ndJsonDeserialize(IOEnv.TRACE_FILE)
Starts == {i \in 1..Len(Trace) : Trace[i].k = 1}
EndOf(s) == s + Trace[s].n - 1
Max(a, b) == IF a > b THEN a ELSE b

tvars == <<vars, l, s0>>

TraceInit ==
  \E s \in Starts :
    /\ s0 = s /\ l = s + 1
    /\ Trace[s].ev = "Start"
    /\ frames = Trace[s].frames
    /\ junk = Trace[s].junk
    /\ avail = 0 /\ consumed = 0 /\ out = 0 /\ mode = "recv"
    /\ last = [res |-> "none", n |-> 0]
    /\ cuts = <<>>
    /\ TLCSet(Trace[s].t, s + 1)

IsEv(e) == /\ l <= EndOf(s0)
           /\ Trace[l].ev = e
           /\ l' = l + 1 /\ s0' = s0

TRecv == IsEv("Recv") /\ Recv(Trace[l].c)

\* a delivered message must also be byte-for-byte the message that was sent (eq computed in Go)
TParse == /\ IsEv("Parse")
          /\ Parse(Trace[l].res, Trace[l].cn)
          /\ Trace[l].eq = TRUE

\* Write/Read round trip of a head map (no state change; eq computed in Go)
TRoundTrip == IsEv("RoundTrip") /\ Trace[l].eq = TRUE /\ UNCHANGED vars

\* the driver's final line: the loop is at rest and everything was delivered exactly once
TEnd == /\ IsEv("End")
        /\ Done /\ out = Len(frames)
        /\ Trace[l].out = out
        /\ UNCHANGED vars

TraceNext == TRecv \/ TParse \/ TRoundTrip \/ TEnd
TraceSpec == TraceInit /\ [][TraceNext]_tvars

\* invariants of Frame evaluated in every state of every recorded behaviour
Invs == [AtBoundary |-> AtBoundary, NoFabrication |-> NoFabrication,
         Progress |-> Progress, CloseOnlyOnJunk |-> CloseOnlyOnJunk]
Failed == {i \in DOMAIN Invs : ~Invs[i]}

HighWater ==
  IF Failed = {} THEN TLCSet(Trace[s0].t, Max(TLCGet(Trace[s0].t), l))
  ELSE PrintT(<<"INVFAIL", Trace[s0].t, l - s0, Failed>>) /\ FALSE

Rejected == {s \in Starts : TLCGet(Trace[s].t) # EndOf(s) + 1}
Post ==
  /\ PrintT(<<"TRACES", Cardinality(Starts), "REJECTED", Cardinality(Rejected)>>)
  /\ \A s \in Rejected :
       LET hw == TLCGet(Trace[s].t) IN
       PrintT(<<"REJECT", Trace[s].t, hw - s + 1, IF hw <= EndOf(s) THEN Trace[hw].ev ELSE "?">>)
=============================================================================
