----------------------------- MODULE WireLayout -----------------------------
(***************************************************************************)
(* C12 - the Seata v1 body layout of the 24 message types the client can   *)
(* send or receive, and what encoding / decoding a message means.          *)
(*                                                                         *)
(* Code: pkg/protocol/codec/*.go (one codec per type, CodecManager),       *)
(*       pkg/protocol/message/*.go (structs, GetTypeCode),                 *)
(*       pkg/util/bytes/buf.go, buf_helper.go (big-endian primitives).     *)
(*                                                                         *)
(* THE TABLE BELOW IS THE SINGLE SOURCE.  TLC exports it as JSON           *)
(* (WireLayout_MC!DumpAll); harness/cmd/wire interprets the exported table *)
(* with an independent ~100-line interpreter and never restates it.        *)
(*                                                                         *)
(* A body is   typeCode:u16  field*   (all integers big-endian).           *)
(* Field kinds                                                             *)
(*   u8            one byte (enums: result code, error code, statuses,     *)
(*                 branch type)                                            *)
(*   bool8/bool16  0/1 in one / two bytes                                  *)
(*   i64           eight bytes, two's complement                           *)
(*   ms32          a duration as a 32-bit count of milliseconds            *)
(*   str8/16/32    length prefix of 1/2/4 bytes, then that many bytes of   *)
(*                 UTF-8 (lengths count bytes, not characters)             *)
(*   bytes16/32    the same for opaque bytes                               *)
(* A descriptor may be conditional: present iff an earlier field has a     *)
(* given value (cf, cv): the error message of a result is on the wire iff  *)
(* resultCode = 0 (Failed).  `trunc` > 0: values longer than `trunc` bytes *)
(* are cut by the encoder (error messages only).                           *)
(*                                                                         *)
(* Byte CONTENT is abstract here: a string is its byte length, a 64-bit id *)
(* or a duration is a class token ("zero","one","max","minus1","rand" /    *)
(* "d0","d1","dmax31","dmax32","drand": TLC integers are 32 bit).  The Go  *)
(* side expands the classes to bytes.                                      *)
(*                                                                         *)
(* Where the table comes from: written field by field from every           *)
(* *_codec.go of the tree and cross-checked against the Seata (Java)       *)
(* io.seata.serializer.seata.protocol codecs as far as I know them:        *)
(* field order, the 16/32-bit prefixes of the requests, the type codes and *)
(* the short 0/1 of GlobalLockQueryResponse agree.  Three places where the *)
(* tree is not consistent with itself:                                     *)
(*  D7  BranchRollbackResponse: the codec cuts the message at 32767 but    *)
(*      writes an 8-bit length.  Intended (= its sibling                   *)
(*      BranchCommitResponse, same AbstractBranchEndResponse): str8 cut at *)
(*      127.  The table states the intended layout.                        *)
(*  D8  GlobalReportRequest: the codec reports type code 18 (the           *)
(*      RESPONSE) and codec.Init does not register it.  The table gives    *)
(*      the message's own code 17 and lists the type under ClientSends.    *)
(*  N1  error-message width: BranchCommitResponse, BranchReportResponse,   *)
(*      GlobalLockQueryResponse (and BranchRollbackResponse) use an 8-bit  *)
(*      prefix cut at 127, the other results a 16-bit prefix cut at 32767. *)
(*      Upstream's AbstractResultMessageCodec writes a 16-bit length for   *)
(*      every result message as far as I remember, which would make the    *)
(*      8-bit ones incompatible with a Java TC for Failed results, but I   *)
(*      cannot confirm the upstream source offline.  THE TABLE FOLLOWS THE *)
(*      TREE here (no alarm); the doubt is recorded in DESIGN.md 7.2 N1.   *)
(***************************************************************************)
EXTENDS Integers, Sequences, FiniteSets, TLC

-----------------------------------------------------------------------------
(* descriptors *)
F(name, kind)    == [f |-> name, k |-> kind, cf |-> "", cv |-> 0, trunc |-> 0]
ErrMsg(kind, lim) == [f |-> "msg", k |-> kind, cf |-> "resultCode", cv |-> 0, trunc |-> lim]

\* AbstractResultMessage + AbstractTransactionResponse: resultCode, [msg], transactionErrorCode
ResultHead(kind, lim) == << F("resultCode", "u8"), ErrMsg(kind, lim), F("transactionErrorCode", "u8") >>
GlobalEndReq   == << F("xid", "str16"), F("extraData", "bytes16") >>
GlobalEndResp  == ResultHead("str16", 32767) \o << F("globalStatus", "u8") >>
BranchEndReq   == << F("xid", "str16"), F("branchId", "i64"), F("branchType", "u8"),
                     F("resourceId", "str16"), F("applicationData", "bytes32") >>
BranchEndResp  == ResultHead("str8", 127) \o          \* N1: 8 bit as in the tree
                  << F("xid", "str16"), F("branchId", "i64"), F("branchStatus", "u8") >>
IdentifyReq    == << F("version", "str16"), F("applicationId", "str16"),
                     F("transactionServiceGroup", "str16"), F("extraData", "bytes16") >>
IdentifyResp   == << F("identified", "bool8"), F("version", "str16") >>
RegisterLike   == << F("xid", "str16"), F("branchType", "u8"), F("resourceId", "str16"),
                     F("lockKey", "str32"), F("applicationData", "bytes32") >>

Layout == [
  GlobalBeginRequest      |-> << F("timeout", "ms32"), F("transactionName", "str16") >>,
  GlobalBeginResponse     |-> ResultHead("str16", 32767) \o << F("xid", "str16"), F("extraData", "bytes16") >>,
  BranchCommitRequest     |-> BranchEndReq,
  BranchCommitResponse    |-> BranchEndResp,
  BranchRollbackRequest   |-> BranchEndReq,
  BranchRollbackResponse  |-> BranchEndResp,                                    \* D7: intended layout
  GlobalCommitRequest     |-> GlobalEndReq,
  GlobalCommitResponse    |-> GlobalEndResp,
  GlobalRollbackRequest   |-> GlobalEndReq,
  GlobalRollbackResponse  |-> GlobalEndResp,
  BranchRegisterRequest   |-> RegisterLike,
  BranchRegisterResponse  |-> ResultHead("str16", 32767) \o << F("branchId", "i64") >>,
  BranchReportRequest     |-> << F("xid", "str16"), F("branchId", "i64"), F("status", "u8"),
                                 F("resourceId", "str16"), F("applicationData", "bytes32"),
                                 F("branchType", "u8") >>,
  BranchReportResponse    |-> ResultHead("str8", 127),                          \* N1
  GlobalStatusRequest     |-> GlobalEndReq,
  GlobalStatusResponse    |-> GlobalEndResp,
  GlobalReportRequest     |-> GlobalEndReq \o << F("globalStatus", "u8") >>,
  GlobalReportResponse    |-> GlobalEndResp,
  GlobalLockQueryRequest  |-> RegisterLike,
  GlobalLockQueryResponse |-> ResultHead("str8", 127) \o << F("lockable", "bool16") >>,   \* N1
  RegisterTMRequest       |-> IdentifyReq,
  RegisterTMResponse      |-> IdentifyResp,
  RegisterRMRequest       |-> IdentifyReq \o << F("resourceIds", "str32") >>,
  RegisterRMResponse      |-> IdentifyResp
]

\* Seata v1 type codes (io.seata.core.protocol.MessageType = message.MessageType* in constant.go)
Code == [
  GlobalBeginRequest |-> 1,      GlobalBeginResponse |-> 2,
  BranchCommitRequest |-> 3,     BranchCommitResponse |-> 4,
  BranchRollbackRequest |-> 5,   BranchRollbackResponse |-> 6,
  GlobalCommitRequest |-> 7,     GlobalCommitResponse |-> 8,
  GlobalRollbackRequest |-> 9,   GlobalRollbackResponse |-> 10,
  BranchRegisterRequest |-> 11,  BranchRegisterResponse |-> 12,
  BranchReportRequest |-> 13,    BranchReportResponse |-> 14,
  GlobalStatusRequest |-> 15,    GlobalStatusResponse |-> 16,
  GlobalReportRequest |-> 17,    GlobalReportResponse |-> 18,             \* D8: the request is 17
  GlobalLockQueryRequest |-> 21, GlobalLockQueryResponse |-> 22,
  RegisterTMRequest |-> 101,     RegisterTMResponse |-> 102,
  RegisterRMRequest |-> 103,     RegisterRMResponse |-> 104
]

Types == DOMAIN Layout

\* request -> its result (v1: the result's code is the request's code + 1)
ResultOf == [
  GlobalBeginRequest |-> "GlobalBeginResponse",       BranchCommitRequest |-> "BranchCommitResponse",
  BranchRollbackRequest |-> "BranchRollbackResponse", GlobalCommitRequest |-> "GlobalCommitResponse",
  GlobalRollbackRequest |-> "GlobalRollbackResponse", BranchRegisterRequest |-> "BranchRegisterResponse",
  BranchReportRequest |-> "BranchReportResponse",     GlobalStatusRequest |-> "GlobalStatusResponse",
  GlobalReportRequest |-> "GlobalReportResponse",     GlobalLockQueryRequest |-> "GlobalLockQueryResponse",
  RegisterTMRequest |-> "RegisterTMResponse",         RegisterRMRequest |-> "RegisterRMResponse"
]

(***************************************************************************)
(* What the client puts on the wire / must understand (derived from the    *)
(* code, non-test files):                                                  *)
(*  sends   RegisterTMRequest   remoting/getty/listener.go:62 (OnOpen)     *)
(*          RegisterRMRequest   rm/rm_remoting.go:119                      *)
(*          GlobalBegin/Commit/RollbackRequest  tm/global_transaction.go   *)
(*          BranchRegister/BranchReport/GlobalLockQueryRequest             *)
(*                              rm/rm_remoting.go:51,72,96                 *)
(*          BranchCommit/BranchRollbackResponse                            *)
(*                              remoting/processor/client/rm_branch_*.go   *)
(*          GlobalStatusRequest, GlobalReportRequest: declared requests    *)
(*          (message/request_message.go; tm.GlobalTransactionManager       *)
(*          declares GlobalReport, tm/constant.go:36) whose results the    *)
(*          client registers processors for (client_on_response_           *)
(*          processor.go:39,41).                                           *)
(*  expects every *Result type with a processor in client_on_response_     *)
(*          processor.go:32-42, and the two coordinator requests with a    *)
(*          processor: BranchCommit, BranchRollback.                       *)
(* Not in the table, on purpose: HeartBeatMessage (120) travels as a frame *)
(* type with an empty body (readwriter.go, C13's business);                *)
(* MergedWarpMessage/MergeResultMessage (59/60): the client never merges   *)
(* (mergeMsgMap is never filled), so no MergeResult can come back although *)
(* a processor is registered; UndoLogDeleteRequest (111) is declared but   *)
(* the client has neither a processor nor a codec for it: it does not      *)
(* "expect" it (a coordinator that sends one gets it dropped by Decode).   *)
(***************************************************************************)
ClientSends == {"RegisterTMRequest", "RegisterRMRequest", "GlobalBeginRequest", "GlobalCommitRequest",
                "GlobalRollbackRequest", "GlobalStatusRequest", "GlobalReportRequest",
                "BranchRegisterRequest", "BranchReportRequest", "GlobalLockQueryRequest",
                "BranchCommitResponse", "BranchRollbackResponse"}
ClientExpects == {"RegisterTMResponse", "RegisterRMResponse", "GlobalBeginResponse", "GlobalCommitResponse",
                  "GlobalRollbackResponse", "GlobalStatusResponse", "GlobalReportResponse",
                  "BranchRegisterResponse", "BranchReportResponse", "GlobalLockQueryResponse",
                  "BranchCommitRequest", "BranchRollbackRequest"}
Client == ClientSends \cup ClientExpects

-----------------------------------------------------------------------------
(* kinds *)
StrKinds   == {"str8", "str16", "str32", "bytes16", "bytes32"}
FixedKinds == {"u8", "bool8", "bool16", "i64", "ms32"}
IsStr(k)   == k \in StrKinds
Width(k)   == CASE k = "str8" -> 1
                [] k \in {"str16", "bytes16"} -> 2
                [] k \in {"str32", "bytes32"} -> 4
\* largest length the prefix can carry (32-bit prefixes: 2^32-1, beyond TLC's integers)
PrefixMax(k) == CASE Width(k) = 1 -> 255 [] Width(k) = 2 -> 65535 [] Width(k) = 4 -> 2147483647
FixedLen(k)  == CASE k \in {"u8", "bool8"} -> 1 [] k \in {"bool16", "u16"} -> 2 [] k = "ms32" -> 4 [] k = "i64" -> 8
Zero(k)      == CASE IsStr(k) -> 0 [] k = "u8" -> 0 [] k \in {"bool8", "bool16"} -> FALSE
                  [] k = "i64" -> "zero" [] k = "ms32" -> "d0"

Names(ty)   == {Layout[ty][i].f : i \in 1..Len(Layout[ty])}
Idx(ty, f)  == CHOOSE i \in 1..Len(Layout[ty]) : Layout[ty][i].f = f
Desc(ty, f) == Layout[ty][Idx(ty, f)]
Min(a, b)   == IF a < b THEN a ELSE b

\* is the field on the wire for message (or partially decoded message) m ?
Present(d, m) == d.cf = "" \/ m[d.cf] = d.cv

(***************************************************************************)
(* Truncation.  A value within the declared limit is written whole.  A     *)
(* longer one ("over-long") is cut; the property demands only that the     *)
(* rest stays decodable, so every cut between the declared limit and what  *)
(* the prefix can carry is allowed (the tree cuts exactly at the limit).   *)
(***************************************************************************)
CutSet(d, n) == IF d.trunc = 0 \/ n <= d.trunc THEN {n} ELSE d.trunc .. Min(n, PrefixMax(d.k))
TruncCut(d, n) == IF d.trunc > 0 /\ n > d.trunc THEN d.trunc ELSE n      \* the canonical cut

\* the truncatable field that is on the wire for m, as a set of descriptors (at most one, see WellFormed)
TruncPresent(ty, m) == {Layout[ty][i] : i \in {j \in 1..Len(Layout[ty]) :
                                               Layout[ty][j].trunc > 0 /\ Present(Layout[ty][j], m)}}
\* allowed cuts of message m; -1: nothing to cut
Cuts(ty, m) == IF TruncPresent(ty, m) = {} THEN {-1}
               ELSE LET d == CHOOSE x \in TruncPresent(ty, m) : TRUE IN CutSet(d, m[d.f])
CanonCut(ty, m) == IF TruncPresent(ty, m) = {} THEN -1
                   ELSE LET d == CHOOSE x \in TruncPresent(ty, m) : TRUE IN TruncCut(d, m[d.f])
\* the cuts the design check tries: the canonical one, one more, and the longest allowed
BoundaryCuts(ty, m) ==
  IF TruncPresent(ty, m) = {} THEN {-1}
  ELSE LET d == CHOOSE x \in TruncPresent(ty, m) : TRUE
           c == TruncCut(d, m[d.f])
       IN {x \in {c, c + 1, Min(m[d.f], PrefixMax(d.k))} : x \in Cuts(ty, m)}

\* what the peer must end up with: absent fields are zero, the over-long message is cut to c
WireNormal(ty, m, c) ==
  [f \in Names(ty) |->
     LET d == Desc(ty, f) IN
     IF ~Present(d, m) THEN Zero(d.k)
     ELSE IF d.trunc > 0 THEN c ELSE m[f]]

-----------------------------------------------------------------------------
(* Encoding: a sequence of segments.  For a string the segment records the  *)
(* number written into the prefix (pre: the length modulo the prefix range) *)
(* and the number of payload bytes that follow (pay).                       *)
Pre(k, n) == IF Width(k) = 4 THEN n ELSE n % (PrefixMax(k) + 1)
Seg(d, v) == IF IsStr(d.k) THEN [kind |-> d.k, pre |-> Pre(d.k, v), pay |-> v, v |-> 0]
                           ELSE [kind |-> d.k, pre |-> 0, pay |-> 0, v |-> v]
TypeSeg(ty) == [kind |-> "u16", pre |-> 0, pay |-> 0, v |-> Code[ty]]

Enc(ty, w) ==
  LET ds == SelectSeq(Layout[ty], LAMBDA d : Present(d, w))
  IN <<TypeSeg(ty)>> \o [i \in 1..Len(ds) |-> Seg(ds[i], w[ds[i].f])]

SegLen(s) == IF IsStr(s.kind) THEN Width(s.kind) + s.pay ELSE FixedLen(s.kind)
RECURSIVE WireLen(_)
WireLen(segs) == IF segs = <<>> THEN 0 ELSE SegLen(Head(segs)) + WireLen(Tail(segs))

(***************************************************************************)
(* Decoding walks the table over the segments.  A string whose prefix does *)
(* not equal its payload length desynchronises the reader: everything      *)
(* after it is garbage (ok = FALSE).  Conditions are evaluated on what has *)
(* been decoded so far.                                                    *)
(***************************************************************************)
ZeroMsg(ty) == [f \in Names(ty) |-> Zero(Desc(ty, f).k)]

RECURSIVE DecFrom(_, _, _, _, _)
DecFrom(ty, segs, i, p, acc) ==
  IF i > Len(Layout[ty]) THEN [val |-> acc, used |-> p - 1, ok |-> TRUE]
  ELSE LET d == Layout[ty][i] IN
       IF ~Present(d, acc) THEN DecFrom(ty, segs, i + 1, p, acc)
       ELSE IF p > Len(segs) \/ segs[p].kind # d.k THEN [val |-> acc, used |-> p - 1, ok |-> FALSE]
       ELSE IF IsStr(d.k) /\ segs[p].pre # segs[p].pay THEN [val |-> acc, used |-> p - 1, ok |-> FALSE]
       ELSE DecFrom(ty, segs, i + 1, p + 1,
                    [acc EXCEPT ![d.f] = IF IsStr(d.k) THEN segs[p].pre ELSE segs[p].v])

Dec(ty, segs) ==
  IF segs = <<>> \/ segs[1] # TypeSeg(ty) THEN [val |-> ZeroMsg(ty), used |-> 0, ok |-> FALSE]
  ELSE DecFrom(ty, segs, 1, 2, ZeroMsg(ty))

-----------------------------------------------------------------------------
(* One message through the codec, as the harness observes it; and the       *)
(* registration round ("*").                                                *)
VARIABLES ty,    \* message type, or "*" for the registration round
          m,     \* the abstract message handed to Encode
          w,     \* its wire-normal form (after Encode)
          st,    \* "start" | "encoded" | "decoded" | "reg" | "done"
          seen   \* registration round: types whose codec was looked up

vars == <<ty, m, w, st, seen>>

\* within the wire limits: strings that are not truncatable fit their prefix
InLimits(t, msg) == \A i \in 1..Len(Layout[t]) :
                      LET d == Layout[t][i] IN (IsStr(d.k) /\ d.trunc = 0) => msg[d.f] <= PrefixMax(d.k)

Encode(c) ==
  /\ st = "start" /\ ty \in Types
  /\ c \in Cuts(ty, m)
  /\ w' = WireNormal(ty, m, c)
  /\ st' = "encoded"
  /\ UNCHANGED <<ty, m, seen>>

\* the peer decodes the bytes: possible only if they are decodable at all
Decode ==
  /\ st = "encoded"
  /\ Dec(ty, Enc(ty, w)).ok
  /\ st' = "decoded"
  /\ UNCHANGED <<ty, m, w, seen>>

Lookup(t) ==
  /\ st = "reg" /\ t \in Client \ seen
  /\ seen' = seen \cup {t}
  /\ UNCHANGED <<ty, m, w, st>>

Finish ==
  /\ st = "reg" /\ seen = Client
  /\ st' = "done"
  /\ UNCHANGED <<ty, m, w, seen>>

-----------------------------------------------------------------------------
(* Invariants (design check) *)

\* the table is well formed: unique names, conditions refer to an earlier unconditional u8, only strings
\* are truncatable, at most one truncatable field per type
WellFormed ==
  \A t \in Types :
    LET L == Layout[t] IN
    /\ Len(L) > 0
    /\ \A i, j \in 1..Len(L) : L[i].f = L[j].f => i = j
    /\ \A i \in 1..Len(L) :
         /\ L[i].k \in StrKinds \cup FixedKinds
         /\ L[i].trunc > 0 => IsStr(L[i].k)
         /\ L[i].cf # "" => \E j \in 1..(i - 1) : L[j].f = L[i].cf /\ L[j].cf = "" /\ L[j].k = "u8"
    /\ Cardinality({i \in 1..Len(L) : L[i].trunc > 0}) <= 1

CodesUnique == \A a, b \in Types : Code[a] = Code[b] => a = b

\* every type the client sends or expects is in the table with a code of its own, and results are paired
Registered ==
  /\ Client \subseteq Types
  /\ DOMAIN Code = Types
  /\ \A r \in DOMAIN ResultOf : r \in Types /\ ResultOf[r] \in Types /\ Code[ResultOf[r]] = Code[r] + 1

\* decoding what was encoded gives the wire-normal message and uses every segment
RoundTrip ==
  st = "encoded" =>
    LET segs == Enc(ty, w) IN Dec(ty, segs) = [val |-> w, used |-> Len(segs), ok |-> TRUE]

\* whatever the length of the error message, every allowed cut leaves the body decodable (prefix = payload),
\* a message within the limit is not cut, and the canonical cut is allowed
TruncKeepsDecodable ==
  st = "start" /\ ty \in Types =>
    /\ CanonCut(ty, m) \in Cuts(ty, m)
    /\ \A d \in TruncPresent(ty, m) : m[d.f] <= d.trunc => Cuts(ty, m) = {m[d.f]}
    /\ \A c \in BoundaryCuts(ty, m) :
         LET segs == Enc(ty, WireNormal(ty, m, c)) IN
         \A i \in 1..Len(segs) : IsStr(segs[i].kind) => segs[i].pre = segs[i].pay
=============================================================================
