SPECIFICATION Spec
CONSTANTS
  SplitClose = FALSE
  SplitRelease = TRUE
  WithForce = FALSE
INVARIANTS NoLeak
CHECK_DEADLOCK FALSE
