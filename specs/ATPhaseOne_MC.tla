--------------------------- MODULE ATPhaseOne_MC ---------------------------
EXTENDS ATPhaseOne, IOUtils

View == <<pc, mode, conn, ndml, changed, registered, undoW, failed, reports, ret, faults>>

=============================================================================
