---------------------------- MODULE TCCBranch_MC ----------------------------
(* Design check and scenario generation for TCCBranch.tla (C05). *)
EXTENDS TCCBranch, IOUtils

A1  == {"a1"}
A12 == {"a1", "a2"}
Unk == {"zz"}
AllReg  == {"ok", "fail", "neterr"}
NilErr  == {"nil", "err"}
AllKinds == {"commit", "rollback"}
AllData == {"captured", "empty", "malformed"}
Captured == {"captured"}
OneShape == {"p"}
One == {1}

\* the design check hides the scenario history
View == <<acts, np, cur, nbid, nd, dlv>>

ScenFile == IOEnv.SCEN_FILE
Dump ==
  Finished =>
    LET r == Serialize(<<[steps |-> env, nact |-> Cardinality(acts)]>>, ScenFile,
                       [format |-> "NDJSON", charset |-> "UTF-8",
                        openOptions |-> <<"WRITE", "CREATE", "APPEND">>])
    IN r = r
=============================================================================
