SPECIFICATION Spec
CONSTANTS
  NKeys = 2
  MaxOps = 4
  WriteKinds = {"upd", "ups", "del"}
  AllowSfu = TRUE
  EndHows = {"commit", "rollback"}
VIEW View
INVARIANTS TypeOK NoDirty
CHECK_DEADLOCK FALSE
