INIT Init
NEXT Next
CONSTANTS
  StepKinds <- DropKinds
  MaxSteps = 3
  Gtx = {TRUE, FALSE}
  Lits = {FALSE}
INVARIANTS Dump
CHECK_DEADLOCK FALSE
