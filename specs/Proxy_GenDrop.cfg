INIT Init
NEXT Next
CONSTANTS
  EndKinds = {"commit", "rollback"}
  StepKinds <- DropKinds
  MaxSteps = 3
  Gtx = {TRUE, FALSE}
  Lits = {FALSE}
INVARIANTS Dump
CHECK_DEADLOCK FALSE
