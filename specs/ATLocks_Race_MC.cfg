SPECIFICATION RSpec
CONSTANTS
  NKeys = 2
  MaxOps = 4
  WriteKinds = {"upd", "ups", "del"}
  AllowSfu = TRUE
  EndHows = {"commit", "rollback"}
  AKinds = {"sfu", "sfux", "upd", "ups", "del", "updx"}
  BKinds = {"sfu", "upd", "ups", "del"}
  KeyPairs <- AllPairs
  StmtPoints = {}
  Inits <- AllInits
  Nested = FALSE
  EndAfterBoth = FALSE
  Strict = TRUE
VIEW View
INVARIANTS RTypeOK NoDirty ValueClean DirtyIsHeld CleanRead NoOverlapWrite
CHECK_DEADLOCK FALSE
