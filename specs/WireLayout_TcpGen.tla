-------------------------- MODULE WireLayout_TcpGen --------------------------
(* Export of the layout table alone (no test vectors): the TCP legs of C13, C14 and  *)
(* C19 need the table for the body codec of the coordinator stand-in harness/tctcp,  *)
(* which interprets it (never the repository's codec).                                *)
EXTENDS WireLayout_MC

TableInit == ty = "*" /\ m = <<>> /\ w = <<>> /\ st = "reg" /\ seen = {}
=============================================================================
