SPECIFICATION Spec
CONSTANTS
  Res <- MCRes
  Xids <- MCXids
  Bids <- MCBids
  ReqRows <- MCReqRows
  ReceiveChanSize <- EnvChan
  BufferLimit <- EnvLimit
  CommitWorkerBufferSize <- EnvFan
  NWorkers <- EnvWorkers
  MaxReq <- EnvMaxReq
  MaxConnFail = 1
  MaxDelFail = 1
  LateRes <- MCLate
  BlockingRequeue = FALSE
  ConnFailAborts = FALSE
  CrossProduct = FALSE
INVARIANTS TypeOK OnlyAccepted AlwaysCommitted NoneLost NoWedge
PROPERTIES EventuallyAnswered EventuallyGone
CHECK_DEADLOCK FALSE
