INIT Init
NEXT Next
CONSTANTS
  Serializers <- AllSer
  CompTypes <- AllComp
  Thresholds = {"below", "above"}
  Cols <- E2ECols
  Stmts <- E2EStmts
  KeyFlags = {TRUE, FALSE}
  Keep <- GenKeepE2E
INVARIANTS Dump
CHECK_DEADLOCK FALSE
