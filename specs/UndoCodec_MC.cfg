SPECIFICATION Spec
CONSTANTS
  Serializers <- MCSer
  CompTypes <- AllComp
  Thresholds = {"below", "above", "aboverep"}
  Cols <- AllCols
  Stmts <- AllStmts
  KeyFlags = {TRUE, FALSE}
  Keep <- MCKeep
INVARIANTS TypeOK CtxSufficient Lossless RefusedStoresNothing
PROPERTIES Terminates
CHECK_DEADLOCK FALSE
