INIT Init
NEXT Next
CONSTANTS
  Shapes <- GenShapes3
  MaxFrames = 3
  JunkLens = {0, 20}
  MaxCuts = 1
INVARIANTS Dump
CHECK_DEADLOCK FALSE
