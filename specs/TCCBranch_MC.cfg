SPECIFICATION Spec
CONSTANTS
  Unknown <- Unk
  Params <- OneShape
  RegReplies <- AllReg
  TryOutcomes <- NilErr
  Kinds <- AllKinds
  UserOutcomes <- NilErr
  Xids <- One
  Bids <- One
  AllowMalformedPanic = TRUE
  Actions <- A12
  DataClasses <- AllData
  MaxPrep = 2
  MaxRegReq = 2
  MaxP2 = 3
  MaxP2NoBranch = 3
  Det = FALSE
VIEW View
INVARIANTS TypeOK RegisterBeforeTry NoTryAfterFailedRegister ExactlyOneBranchPerPrepare OncePerRequest SameIds ContextEquivalent StatusIffNoError UnknownRunsNothing
CHECK_DEADLOCK FALSE
