--------------------------- MODULE ATAsyncCommit ---------------------------
(***************************************************************************)
(* C11 - AT mode, phase-two commit: every branch-commit request the        *)
(* resource manager accepts is answered "committed" and leads, while the   *)
(* process is alive and the database eventually reachable, to the deletion *)
(* of the undo-log rows of exactly that (xid, branch id) on that resource; *)
(* none is lost under batching, queue pressure, transient database errors  *)
(* or a temporarily unknown resource; no other undo log is ever deleted.   *)
(*                                                                         *)
(* Code: AsyncWorker (pkg/datasource/sql/async_worker.go: BranchCommit,    *)
(* run, doBranchCommit, dealWithGroupedContexts), fanout.Fanout            *)
(* (pkg/util/fanout), BaseUndoLogManager.BatchDeleteUndoLog                *)
(* (undo/base/undo.go), ATSourceManager.BranchCommit.                      *)
(*                                                                         *)
(* Two layers in one module.                                               *)
(*  - Property layer: undoRows, accepted, replies, deleted with the        *)
(*    operators AbsRequest / AbsReply / AbsDelete.  The trace              *)
(*    specification uses only this layer, so that any implementation that  *)
(*    keeps the property is accepted whatever its internal pipeline is.    *)
(*  - Design layer: the pipeline of the code - door (callers blocked in    *)
(*    BranchCommit), queue (commitQueue, capacity ReceiveChanSize), buf    *)
(*    (the run loop's batch, flushed at BufferLimit*2/3 or on Tick), hand  *)
(*    (the batch the run loop is passing to the fanout), fan (fanout       *)
(*    channel, capacity CommitWorkerBufferSize), workers.  Three switches  *)
(*    select between the design as it is in the code and the design that   *)
(*    has the property:                                                    *)
(*      BlockingRequeue  a worker puts a failed context back with a        *)
(*                       blocking send on queue (code) / hands it to an    *)
(*                       unbounded retry list the run loop drains on Tick  *)
(*      ConnFailAborts   after a failed connection acquisition the worker  *)
(*                       re-queues the group and then abandons the rest of *)
(*                       the batch (code: nil connection => panic,         *)
(*                       recovered by fanout) / goes on with the next group*)
(*      CrossProduct     one DELETE .. branch_id IN (..) AND xid IN (..)   *)
(*                       per group (what BatchDeleteUndoLog is written     *)
(*                       for) / one delete per (xid, branch id) (what the  *)
(*                       worker calls today)                               *)
(***************************************************************************)
EXTENDS Integers, Sequences, FiniteSets, TLC

CONSTANTS
  Res, Xids, Bids,          \* a row of an undo_log table is <<resource, xid, branch id>>
  ReqRows,                  \* rows the coordinator may send a branch commit for (the others are decoys)
  ReceiveChanSize,          \* capacity of commitQueue                 (>= 1)
  BufferLimit,              \* the batch is flushed at BufferLimit*2/3 (>= 0)
  CommitWorkerBufferSize,   \* capacity of the fanout channel          (>= 1)
  NWorkers,                 \* fanout workers                          (>= 1)
  MaxReq,                   \* requests per behaviour
  MaxConnFail, MaxDelFail,  \* transient failures of connection acquisition / of the delete statement
  LateRes,                  \* resources that may be unknown to the resource manager at first
  BlockingRequeue, ConnFailAborts, CrossProduct

Rows      == Res \X Xids \X Bids
Threshold == (BufferLimit * 2) \div 3
Workers   == 1..NWorkers

VARIABLES
  \* property layer
  undoRows,   \* rows present in the undo_log tables
  accepted,   \* rows for which the resource manager has received a branch commit
  replies,    \* set of <<row, status>> : answers given to the coordinator
  deleted,    \* rows ever deleted (history)
  \* design layer
  door,       \* sequence of rows: callers blocked in BranchCommit because queue is full (FIFO)
  queue, buf, hand, fan,
  wk,         \* worker -> [todo : contexts of its batch not yet handled, rq : contexts it is putting back]
  retry,      \* contexts waiting for the next Tick (design with ~BlockingRequeue)
  known,      \* resources registered with the resource manager
  connLeft, delLeft, nreq

pvars == <<undoRows, accepted, replies, deleted>>
dvars == <<door, queue, buf, hand, fan, wk, retry, known, connLeft, delLeft, nreq>>
vars  == <<pvars, dvars>>

-----------------------------------------------------------------------------
(* Property layer *)

AbsRequest(row) ==
  /\ accepted' = accepted \cup {row}
  /\ UNCHANGED <<undoRows, replies, deleted>>

AbsReply(row, status) ==
  /\ row \in accepted
  /\ replies' = replies \cup {<<row, status>>}
  /\ UNCHANGED <<undoRows, accepted, deleted>>

\* one delete statement removed exactly the rows `keys`
AbsDelete(keys) ==
  /\ keys \subseteq undoRows
  /\ undoRows' = undoRows \ keys
  /\ deleted' = deleted \cup keys
  /\ UNCHANGED <<accepted, replies>>

\* no undo log is deleted unless the commit of exactly that resource, xid and branch id was accepted
OnlyAccepted == deleted \subseteq accepted

\* whatever is answered is "committed"
AlwaysCommitted == \A p \in replies : p[2] = "committed"

Answered(row) == <<row, "committed">> \in replies

-----------------------------------------------------------------------------
(* Design layer *)

Init ==
  /\ undoRows = Rows /\ accepted = {} /\ replies = {} /\ deleted = {}
  /\ door = <<>> /\ queue = <<>> /\ buf = <<>> /\ hand = <<>> /\ fan = <<>> /\ retry = <<>>
  /\ wk = [w \in Workers |-> [todo |-> <<>>, rq |-> <<>>]]
  /\ known \in {Res \ l : l \in SUBSET LateRes}
  /\ connLeft = MaxConnFail /\ delLeft = MaxDelFail /\ nreq = 0

\* the coordinator sends a branch commit: OnMessage -> processor -> BranchCommit, which blocks while queue is full
Submit(row) ==
  /\ nreq < MaxReq /\ row \in ReqRows
  /\ nreq' = nreq + 1
  /\ door' = Append(door, row)
  /\ accepted' = accepted \cup {row}
  /\ UNCHANGED <<undoRows, replies, deleted, queue, buf, hand, fan, wk, retry, known, connLeft, delLeft>>

\* the send on commitQueue succeeds; BranchCommit returns and the processor answers PhaseTwo_Committed
Enter ==
  /\ door # <<>> /\ Len(queue) < ReceiveChanSize
  /\ queue' = Append(queue, Head(door)) /\ door' = Tail(door)
  /\ replies' = replies \cup {<<Head(door), "committed">>}
  /\ UNCHANGED <<undoRows, accepted, deleted, buf, hand, fan, wk, retry, known, connLeft, delLeft, nreq>>

\* run loop: receive one context; flush when the batch reached the threshold
Recv ==
  /\ hand = <<>> /\ queue # <<>>
  /\ LET b == Append(buf, Head(queue)) IN
       IF Len(b) >= Threshold THEN hand' = b /\ buf' = <<>> ELSE buf' = b /\ hand' = hand
  /\ queue' = Tail(queue)
  /\ UNCHANGED <<pvars, door, fan, wk, retry, known, connLeft, delLeft, nreq>>

\* run loop: the ticker fires
Tick ==
  /\ hand = <<>> /\ (buf # <<>> \/ retry # <<>>)
  /\ hand' = buf \o retry /\ buf' = <<>> /\ retry' = <<>>
  /\ UNCHANGED <<pvars, door, queue, fan, wk, known, connLeft, delLeft, nreq>>

\* run loop: fanout.Do, a blocking send on the fanout channel
Hand ==
  /\ hand # <<>> /\ Len(fan) < CommitWorkerBufferSize
  /\ fan' = Append(fan, hand) /\ hand' = <<>>
  /\ UNCHANGED <<pvars, door, queue, buf, wk, retry, known, connLeft, delLeft, nreq>>

Idle(w) == wk[w].todo = <<>> /\ wk[w].rq = <<>>

WTake(w) ==
  /\ Idle(w) /\ fan # <<>>
  /\ wk' = [wk EXCEPT ![w].todo = Head(fan)] /\ fan' = Tail(fan)
  /\ UNCHANGED <<pvars, door, queue, buf, hand, retry, known, connLeft, delLeft, nreq>>

SeqToSet(s) == {s[i] : i \in 1..Len(s)}

\* the worker gives contexts back: blocking sends (code) or the retry list
Back(w, items, rest) ==
  IF BlockingRequeue
  THEN /\ wk' = [wk EXCEPT ![w] = [todo |-> rest, rq |-> items]]
       /\ retry' = retry
  ELSE /\ wk' = [wk EXCEPT ![w] = [todo |-> rest, rq |-> <<>>]]
       /\ retry' = retry \o items

\* the worker handles the contexts of one resource of its batch (dealWithGroupedContexts)
WGroup(w) ==
  /\ wk[w].rq = <<>> /\ wk[w].todo # <<>>
  /\ LET td   == wk[w].todo
         r    == td[1][1]
         IsR(it)  == it[1] = r
         NotR(it) == it[1] # r
         g    == SelectSeq(td, IsR)
         rest == SelectSeq(td, NotR)
     IN \/ \* resource not (yet) registered: put everything back
           /\ r \notin known
           /\ Back(w, g, rest)
           /\ UNCHANGED <<pvars, connLeft, delLeft>>
        \/ \* no connection
           /\ r \in known /\ connLeft > 0
           /\ connLeft' = connLeft - 1
           /\ Back(w, g, IF ConnFailAborts THEN <<>> ELSE rest)
           /\ UNCHANGED <<pvars, delLeft>>
        \/ \* delete; some of the statements may fail
           /\ r \in known
           /\ IF CrossProduct
              THEN \E fail \in BOOLEAN :
                     /\ fail => delLeft > 0
                     /\ delLeft' = IF fail THEN delLeft - 1 ELSE delLeft
                     /\ LET xs == {it[2] : it \in SeqToSet(g)}
                            bs == {it[3] : it \in SeqToSet(g)}
                            hit == {row \in undoRows : row[1] = r /\ row[2] \in xs /\ row[3] \in bs}
                        IN IF fail
                           THEN Back(w, g, rest) /\ UNCHANGED pvars
                           ELSE Back(w, <<>>, rest) /\ AbsDelete(hit)
              ELSE \E f \in SUBSET (1..Len(g)) :
                     /\ Cardinality(f) <= delLeft
                     /\ delLeft' = delLeft - Cardinality(f)
                     /\ LET failed == [j \in 1..Cardinality(f) |->
                                         g[CHOOSE i \in f : Cardinality({k \in f : k < i}) = j - 1]]
                            done   == {g[i] : i \in (1..Len(g)) \ f}
                        IN Back(w, failed, rest) /\ AbsDelete(done \cap undoRows)
           /\ UNCHANGED connLeft
  /\ UNCHANGED <<door, queue, buf, hand, fan, known, nreq>>

\* a blocking send of the worker on commitQueue
WRequeue(w) ==
  /\ wk[w].rq # <<>> /\ Len(queue) < ReceiveChanSize
  /\ queue' = Append(queue, Head(wk[w].rq))
  /\ wk' = [wk EXCEPT ![w].rq = Tail(@)]
  /\ UNCHANGED <<pvars, door, buf, hand, fan, retry, known, connLeft, delLeft, nreq>>

\* the application opens the data source: the resource becomes known
Appear(r) ==
  /\ r \in Res \ known
  /\ known' = known \cup {r}
  /\ UNCHANGED <<pvars, door, queue, buf, hand, fan, wk, retry, connLeft, delLeft, nreq>>

Next ==
  \/ \E row \in ReqRows : Submit(row)
  \/ Enter \/ Recv \/ Tick \/ Hand
  \/ \E w \in Workers : WTake(w) \/ WGroup(w) \/ WRequeue(w)
  \/ \E r \in Res : Appear(r)

\* the process is alive (run loop, ticker and workers are scheduled), failures are transient (budgets)
\* and an unknown resource is only temporarily unknown
Fairness ==
  /\ WF_vars(Enter) /\ WF_vars(Recv) /\ WF_vars(Tick) /\ WF_vars(Hand)
  /\ \A w \in Workers : WF_vars(WTake(w)) /\ WF_vars(WGroup(w)) /\ WF_vars(WRequeue(w))
  /\ \A r \in Res : WF_vars(Appear(r))

Spec == Init /\ [][Next]_vars /\ Fairness

-----------------------------------------------------------------------------
(* Properties of the design *)

TypeOK ==
  /\ undoRows \subseteq Rows /\ accepted \subseteq Rows /\ deleted \subseteq Rows
  /\ Len(queue) <= ReceiveChanSize /\ Len(fan) <= CommitWorkerBufferSize
  /\ connLeft \in 0..MaxConnFail /\ delLeft \in 0..MaxDelFail /\ nreq \in 0..MaxReq

\* liveness: every accepted request is answered, and its undo log disappears
EventuallyAnswered == \A row \in ReqRows : (row \in accepted) ~> Answered(row)
EventuallyGone     == \A row \in ReqRows : (row \in accepted) ~> (row \notin undoRows)

\* the design deadlock: the run loop is blocked on the fanout channel, every worker is blocked putting a
\* context back into the full queue (nobody but the run loop receives from it)
Wedged ==
  /\ hand # <<>> /\ Len(fan) = CommitWorkerBufferSize
  /\ Len(queue) = ReceiveChanSize
  /\ \A w \in Workers : wk[w].rq # <<>>
NoWedge == ~Wedged

\* nothing in flight is ever dropped: an accepted row that still exists is somewhere in the pipeline
InFlight ==
  SeqToSet(door) \cup SeqToSet(queue) \cup SeqToSet(buf) \cup SeqToSet(hand) \cup SeqToSet(retry)
    \cup UNION {SeqToSet(fan[i]) : i \in 1..Len(fan)}
    \cup UNION {SeqToSet(wk[w].todo) \cup SeqToSet(wk[w].rq) : w \in Workers}
NoneLost == \A row \in accepted : row \in undoRows => row \in InFlight
=============================================================================
