----------------------------- MODULE ATPhaseOne -----------------------------
(***************************************************************************)
(* C02, C03 (single transaction), C18 - phase one of an AT branch: one     *)
(* local transaction inside a global transaction.                          *)
(*                                                                         *)
(* Code: ATConn.ExecContext / createNewTxOnExecIfNeed / BeginTx            *)
(* (conn_at.go), ATTx.Commit / commitOnAT / Rollback (tx_at.go),           *)
(* Tx.register / report (tx.go), FlushUndoLog (undo/base/undo.go), the AT  *)
(* executors (exec/at).                                                    *)
(*                                                                         *)
(* Observables, merged into one sequence by a global counter taken at the  *)
(* linearization point of each stand-in: the statement journal of the      *)
(* physical connections (BEGIN, business DML, undo_log INSERT, COMMIT,     *)
(* ROLLBACK), the coordinator's log (BranchRegister, BranchReport), the    *)
(* value returned to the caller, and the committed delta afterwards.       *)
(*                                                                         *)
(* Protocol layer: COMMIT is enabled only after the branch is registered   *)
(* and the undo log was written on the same connection inside this local   *)
(* transaction; Register and the undo-log write may occur in either order; *)
(* image queries and metadata queries are not modelled (stuttering).       *)
(***************************************************************************)
EXTENDS Integers, Sequences, FiniteSets, TLC

CONSTANTS
  Conns,          \* physical connection ids
  MaxDml,         \* business statements per local transaction
  RegReplies,     \* subset of {"ok", "conflict", "fail", "neterr"}
  MaxReportFails, \* transport failures of BranchReport the environment may inject
  ReportBudget,   \* attempts the client makes for one report (5 in the code; any bound >= 1 is accepted)
  Modes,          \* subset of {"auto", "explicit"}
  AllowDbFault    \* BOOLEAN: the database may fail any statement

VARIABLES
  pc,          \* "idle" | "open" | "committed" | "rolledback" | "returned"
  mode,        \* "auto" | "explicit"
  conn,        \* connection the local transaction runs on (0 = none yet)
  ndml,        \* business statements executed successfully
  changed,     \* rows changed by them (0 = the transaction wrote nothing)
  registered,  \* "no" | "asked" | "yes" | "refused"
  undoW,       \* the undo-log row was inserted in this local transaction
  failed,      \* some step failed (statement error, refusal, flush error, commit error)
  reports,     \* sequence of [status, r] report attempts
  ret,         \* "none" | "nil" | "err"
  faults,      \* database faults injected so far
  env          \* history (scenario)

vars == <<pc, mode, conn, ndml, changed, registered, undoW, failed, reports, ret, faults, env>>

Init ==
  /\ pc = "idle" /\ mode \in Modes /\ conn = 0 /\ ndml = 0 /\ changed = 0
  /\ registered = "no" /\ undoW = FALSE /\ failed = FALSE
  /\ reports = <<>> /\ ret = "none" /\ faults = 0 /\ env = <<>>

Begin(c) ==
  /\ pc = "idle" /\ c \in Conns /\ ret = "none"
  /\ pc' = "open" /\ conn' = c
  /\ UNCHANGED <<mode, ndml, changed, registered, undoW, failed, reports, ret, faults, env>>

\* a business statement on the transaction's connection; err: the database (or the proxy) failed it
Dml(c, aff, err) ==
  /\ pc = "open" /\ c = conn /\ ndml < MaxDml /\ ~failed
  /\ aff \in 0..2
  /\ err => AllowDbFault
  /\ IF err THEN failed' = TRUE /\ UNCHANGED <<ndml, changed>>
            ELSE ndml' = ndml + 1 /\ changed' = changed + aff /\ UNCHANGED failed
  /\ faults' = IF err THEN faults + 1 ELSE faults
  /\ UNCHANGED <<pc, mode, conn, registered, undoW, reports, ret, env>>

\* the proxy refused or failed the statement before/around the database (image query failed, unsupported form)
StmtFailed ==
  /\ pc = "open" /\ ~failed
  /\ failed' = TRUE
  /\ UNCHANGED <<pc, mode, conn, ndml, changed, registered, undoW, reports, ret, faults, env>>

RegReq ==
  /\ pc = "open" /\ registered = "no" /\ ~failed
  /\ registered' = "asked"
  /\ UNCHANGED <<pc, mode, conn, ndml, changed, undoW, failed, reports, ret, faults, env>>

RegRep(r) ==
  /\ pc = "open" /\ registered = "asked" /\ r \in RegReplies
  /\ IF r = "ok" THEN registered' = "yes" /\ UNCHANGED failed
                 ELSE registered' = "refused" /\ failed' = TRUE
  /\ env' = Append(env, [op |-> "reg", r |-> r])
  /\ UNCHANGED <<pc, mode, conn, ndml, changed, undoW, reports, ret, faults>>

\* the undo-log row: must travel on the transaction's own connection, inside the transaction
UndoIns(c, err) ==
  /\ pc = "open" /\ c = conn /\ ~undoW /\ ~failed
  /\ err => AllowDbFault
  /\ IF err THEN failed' = TRUE /\ UNCHANGED undoW ELSE undoW' = TRUE /\ UNCHANGED failed
  /\ faults' = IF err THEN faults + 1 ELSE faults
  /\ UNCHANGED <<pc, mode, conn, ndml, changed, registered, reports, ret, env>>

\* the local COMMIT: only after registration and undo-log write (unless nothing was written at all)
CommitOK ==
  /\ ~failed
  /\ changed > 0 => (registered = "yes" /\ undoW)
  /\ registered \in {"no", "yes"}

Commit(c, err) ==
  /\ pc = "open" /\ c = conn
  /\ CommitOK
  /\ err => AllowDbFault
  /\ IF err THEN pc' = "rolledback" /\ failed' = TRUE     \* a failed COMMIT leaves nothing behind
            ELSE pc' = "committed" /\ UNCHANGED failed
  /\ faults' = IF err THEN faults + 1 ELSE faults
  /\ UNCHANGED <<mode, conn, ndml, changed, registered, undoW, reports, ret, env>>

Rollback(c) ==
  /\ pc = "open" /\ c = conn
  /\ pc' = "rolledback"
  /\ UNCHANGED <<mode, conn, ndml, changed, registered, undoW, failed, reports, ret, faults, env>>

\* a phase-one status report: truthful, only for a registered branch, bounded retries
Report(status, r) ==
  /\ registered = "yes" /\ ret = "none"
  /\ status = "done"   => pc = "committed"
  /\ status = "failed" => pc # "committed" /\ failed
  /\ Len(reports) < ReportBudget + MaxReportFails
  /\ r \in {"ok", "neterr"}
  /\ r = "neterr" => Cardinality({i \in 1..Len(reports) : reports[i].r = "neterr"}) < MaxReportFails
  /\ reports # <<>> => reports[Len(reports)].r = "neterr" /\ reports[Len(reports)].status = status
  /\ reports' = Append(reports, [status |-> status, r |-> r])
  /\ env' = Append(env, [op |-> "report", r |-> r])
  /\ UNCHANGED <<pc, mode, conn, ndml, changed, registered, undoW, failed, ret, faults>>

Reported(status) == \E i \in 1..Len(reports) : reports[i].status = status
ReportAcked(status) == \E i \in 1..Len(reports) : reports[i].status = status /\ reports[i].r = "ok"
ReportTried(status) == Cardinality({i \in 1..Len(reports) : reports[i].status = status})

\* the call returns to the application
Return(v) ==
  /\ pc \in {"committed", "rolledback"} \/ (pc = "idle" /\ v = "err")
  /\ ret = "none"
  /\ v = "nil" => (pc = "committed" /\ ~failed)
  /\ failed => v = "err"
  \* an already registered branch whose phase one failed has been reported failed (how long the client
  \* keeps trying when the report itself fails is not prescribed)
  /\ (registered = "yes" /\ pc # "committed") => Reported("failed")
  /\ ret' = v
  /\ UNCHANGED <<pc, mode, conn, ndml, changed, registered, undoW, failed, reports, faults, env>>

Next ==
  \/ \E c \in Conns : Begin(c)
  \/ \E c \in Conns, a \in 0..2, e \in BOOLEAN : Dml(c, a, e)
  \/ StmtFailed
  \/ RegReq
  \/ \E r \in RegReplies : RegRep(r)
  \/ \E c \in Conns, e \in BOOLEAN : UndoIns(c, e)
  \/ \E c \in Conns, e \in BOOLEAN : Commit(c, e)
  \/ \E c \in Conns : Rollback(c)
  \/ \E s \in {"done", "failed"}, r \in {"ok", "neterr"} : Report(s, r)
  \/ \E v \in {"nil", "err"} : Return(v)

Spec == Init /\ [][Next]_vars

-----------------------------------------------------------------------------
(* Properties (C02) *)

\* AllOrNothing: what is durable after the call is either nothing or business writes + undo row
Durable == IF pc = "committed" THEN [biz |-> changed > 0, undo |-> undoW] ELSE [biz |-> FALSE, undo |-> FALSE]
AllOrNothing == (ret # "none") => (Durable.biz => Durable.undo)

\* RegisterBeforeCommit / UndoInSameTx hold by the enabling condition of Commit; as an invariant:
CommitDiscipline == pc = "committed" /\ changed > 0 => registered = "yes" /\ undoW

\* ErrorSurfaces: a failed step means an error for the caller and nothing durable
ErrorSurfaces == (ret # "none" /\ failed) => (ret = "err" /\ pc # "committed")

\* PoolClean: when the call has returned the connection is not inside the transaction any more
PoolClean == ret # "none" => pc \in {"committed", "rolledback", "idle"}

\* FailedIsReported
FailedIsReported == (ret # "none" /\ registered = "yes" /\ pc # "committed") => Reported("failed")

TypeOK == pc \in {"idle", "open", "committed", "rolledback"} /\ ret \in {"none", "nil", "err"}
=============================================================================
