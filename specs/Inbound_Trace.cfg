SPECIFICATION TraceSpec
CONSTANTS
  MaxReq = 0
  BTypes = {}
  Kinds = {}
  Outcomes = {}
  Places = {}
  Rids = {}
CONSTRAINT HighWater
POSTCONDITION Post
CHECK_DEADLOCK FALSE
