SPECIFICATION TraceSpec
CONSTANTS
  NBranches = 3
  MaxDeliver = 0
  MaxFaults = 0
  FailPoints = {}
  MaxRace = 0
  Locking = TRUE
CONSTRAINT HighWater
POSTCONDITION Post
CHECK_DEADLOCK FALSE
