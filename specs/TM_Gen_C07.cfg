INIT Init
NEXT Next
CONSTANTS
  MaxRetryC = 1
  MaxRetryR = 1
  MaxFail = 0
  MaxDepth <- EnvMaxDepth
  MaxKids <- EnvMaxKids
  Modes <- AllModes
  Kinds = {"shared", "fresh"}
  Outcomes = {"nil", "err"}
  BeginReplies = {"ok"}
  P2Replies = {"ok"}
  AllowCancel = FALSE
  DetReturn = TRUE
INVARIANTS Dump
CHECK_DEADLOCK FALSE
