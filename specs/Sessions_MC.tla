---------------------------- MODULE Sessions_MC ----------------------------
(* Model-checking and scenario-generation instances of Sessions.tla (C19). *)
EXTENDS Sessions, IOUtils

AllPolicies == {"XID", "RandomLoadBalance", "RoundRobinLoadBalance", "ConsistentHashLoadBalance",
                "LeastActiveLoadBalance"}
GenPolicy == {"XID"}     \* generation: the scenario does not fix the policy, the driver runs it under each

A3 == {"a1", "a2", "a3"}
A2 == {"a1", "a2"}
Other == "a9"            \* an address no session is ever connected to
X(f, a) == [form |-> f, addr |-> a]
Malformed == {X("two", "a1"), X("four", "a1"), X("empty", NoAddr)}
XidsAll  == {X("wf", a) : a \in A3 \cup {Other}} \cup Malformed
XidsGen  == {X("wf", "a1"), X("wf", Other)} \cup Malformed
XidsHit  == {X("wf", "a1")}
XidsHitE == {X("wf", "a1"), X("empty", NoAddr)}
XidsHitM == {X("wf", "a1"), X("wf", Other)}

\* initial tables: registered sessions, open or closed-but-still-registered, up to renaming of slots
AIdx == [a1 |-> 1, a2 |-> 2, a3 |-> 3]
Kinds(addrs) == {[addr |-> a, open |-> o, reg |-> TRUE] : a \in addrs, o \in BOOLEAN}
Rank(k) == IF k = Absent THEN 99 ELSE 2 * AIdx[k.addr] + (IF k.open THEN 0 ELSE 1)
Tables(addrs, maxn) ==
  {s \in [Ids -> Kinds(addrs) \cup {Absent}] :
     /\ \A i, j \in Ids : i < j => Rank(s[i]) <= Rank(s[j])
     /\ Cardinality({i \in Ids : s[i] # Absent}) <= maxn}
InitEmpty == {[i \in Ids |-> Absent]}
Tables3x4 == Tables(A3, 4)
Tables2x3 == Tables(A2, 3)
Tables2x2 == Tables(A2, 2)
Tables2x1 == Tables(A2, 1)

Sym == Permutations(Ids)
View == <<part, policy, sess, last, bvars>>

ScenFile == IOEnv.SCEN_FILE
Terminal == \/ part = "sel" /\ last.res # "none" /\ nsel = MaxSel
            \/ part = "rc" /\ settled /\ done = {}
Dump ==
  Terminal =>
    LET r == Serialize(<<[part |-> part, steps |-> env]>>, ScenFile,
                       [format |-> "NDJSON", charset |-> "UTF-8",
                        openOptions |-> <<"WRITE", "CREATE", "APPEND">>])
    IN r = r
=============================================================================
