SPECIFICATION Spec
CONSTANTS
  NKeys = 2
  WVals = {0, 1, 2}
  UVals = {0, 1}
  InitRows <- InitRowsA
  StmtW = {1, 2}
  MaxBranches = 2
  MaxStmts = 1
  Kinds <- AllKinds
  OnlyCare <- EnvOnlyCare
  Validate <- EnvValidate
  MaxForeign = 1
  MaxDeliver = 2
  FailPoints = {0, 3}
  AllowEarly = TRUE
  AllowPkUpd = FALSE
VIEW View
INVARIANTS TypeOK Exact Honest
PROPERTIES Idempotent
CHECK_DEADLOCK FALSE
