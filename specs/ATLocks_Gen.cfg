INIT Init
NEXT Next
CONSTANTS
  NKeys = 2
  MaxOps = 2
  WriteKinds = {"upd", "ups"}
  AllowSfu = TRUE
  EndHows = {"commit"}
INVARIANTS Dump
CHECK_DEADLOCK FALSE
