SPECIFICATION TraceSpec
CONSTANTS
  Shapes = {}
  MaxFrames = 0
  JunkLens = {}
  MaxCuts = 100000
CONSTRAINT HighWater
POSTCONDITION Post
CHECK_DEADLOCK FALSE
