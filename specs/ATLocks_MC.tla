----------------------------- MODULE ATLocks_MC -----------------------------
EXTENDS ATLocks, IOUtils
View == <<held, open, began, nops>>
ScenFile == IOEnv.SCEN_FILE
Dump ==
  Finished =>
    LET r == Serialize(<<[steps |-> env]>>, ScenFile, [format |-> "NDJSON", charset |-> "UTF-8",
                                                     openOptions |-> <<"WRITE", "CREATE", "APPEND">>])
    IN r = r
=============================================================================
