----------------------------- MODULE TCCBranch -----------------------------
(***************************************************************************)
(* C05 - TCC branches are registered before try and dispatched faithfully  *)
(* in phase two.                                                           *)
(*                                                                         *)
(* Code: TCCServiceProxy.Prepare / registeBranch / initActionContext       *)
(* (pkg/rm/tcc/tcc_service.go), TCCResourceManager.BranchCommit /          *)
(* BranchRollback / getBusinessActionContext (pkg/rm/tcc/tcc_resource.go), *)
(* TwoPhaseAction (pkg/rm/two_phase.go), RMRemoting.BranchRegister,        *)
(* rmBranchCommitProcessor / rmBranchRollbackProcessor.                    *)
(*                                                                         *)
(* A behaviour is: a set of registered actions, a sequence of prepare      *)
(* calls inside one global transaction (what the coordinator receives, how *)
(* it answers, the instant the user's try starts, what the call returns),  *)
(* followed by a sequence of phase-two requests of the coordinator (what   *)
(* user code runs with which arguments, what is reported back).            *)
(*                                                                         *)
(* Only the prepare in progress and the delivery in progress are kept in   *)
(* the state (the invariants speak about one prepare / one delivery, and   *)
(* hold in every state, hence for every prepare and every delivery).       *)
(* `env` is the history of environment choices (scenario generation).      *)
(*                                                                         *)
(* Abstractions: action names "a1", "a2"; ids are small naturals; the      *)
(* observable "dataok" says that the application data of the register      *)
(* request, read as JSON, carries exactly the tagged parameters; "ctxeq"   *)
(* says that the action context handed to the user's commit/rollback is    *)
(* JSON-equivalent to the action context of the delivered application data.*)
(***************************************************************************)
EXTENDS Integers, Sequences, FiniteSets, TLC

CONSTANTS
  Actions,             \* names of the registered actions (= resource ids)
  Unknown,             \* resource ids under which nothing is registered
  Params,              \* parameter shapes (opaque; the driver's dimension)
  MaxPrep,             \* prepare calls per behaviour
  MaxRegReq,           \* register requests per prepare (a re-send is tolerated only after a transport error)
  RegReplies,          \* subset of {"ok", "fail", "neterr"}
  TryOutcomes,         \* subset of {"nil", "err"}: what the user's try returns
  Kinds,               \* subset of {"commit", "rollback"}
  DataClasses,         \* subset of {"captured", "empty", "malformed"}
  UserOutcomes,        \* subset of {"nil", "err"}: what the user's commit/rollback returns
  MaxP2,               \* phase-two deliveries per behaviour
  MaxP2NoBranch,       \* generation bound: deliveries when no branch was ever granted
  Xids, Bids,          \* ids used by generated deliveries
  AllowMalformedPanic, \* BOOLEAN: a panic of the dispatch on malformed data that is recovered by the
                       \* transport's task pool (no reply, no user code) counts as "no reply"
  Det                  \* BOOLEAN: generation only - close every step with one canonical system reaction

VARIABLES
  acts,   \* the registered actions (configuration: never changes)
  np,     \* prepare calls so far
  cur,    \* the prepare call in progress / last finished
  nbid,   \* branch ids granted so far (abstract ids 1, 2, ...)
  nd,     \* deliveries so far
  dlv,    \* the delivery in progress / last finished
  env     \* history of environment choices

vars == <<acts, np, cur, nbid, nd, dlv, env>>

Init ==
  /\ acts = Actions /\ np = 0 /\ cur = [st |-> "none"] /\ nbid = 0
  /\ nd = 0 /\ dlv = [st |-> "none"] /\ env = <<>>

-----------------------------------------------------------------------------
(* Phase one *)

\* the application calls proxy.Prepare(ctx, params) for action a inside the global transaction
Prepare(a, p) ==
  /\ cur.st \in {"none", "returned"} /\ dlv.st = "none" /\ nd = 0
  /\ np < MaxPrep /\ a \in acts
  /\ np' = np + 1
  /\ cur' = [st |-> "called", a |-> a, p |-> p, regs |-> <<>>, rep |-> "none", grants |-> 0,
             bid |-> 0, tries |-> <<>>, ret |-> "none"]
  /\ env' = Append(env, [op |-> "prepare", a |-> a])
  /\ UNCHANGED <<acts, nbid, nd, dlv>>

\* the coordinator receives a BranchRegisterRequest: resource id, branch type, application data
\* carrying exactly the tagged parameters, the xid of the transaction
RegisterReq(res, bt, dataok, xidok) ==
  /\ cur.st = "called" \/ (~Det /\ cur.st = "regfail" /\ cur.rep = "neterr")
  /\ Len(cur.regs) < MaxRegReq
  /\ res = cur.a /\ bt = "TCC" /\ dataok /\ xidok
  /\ cur' = [cur EXCEPT !.st = "reqw",
                        !.regs = Append(@, [res |-> res, bt |-> bt, dataok |-> dataok, xidok |-> xidok])]
  /\ UNCHANGED <<acts, np, nbid, nd, dlv, env>>

\* the coordinator's answer: grant branch id b | refuse (result code failed) | the write fails
RegisterRep(r, b) ==
  /\ cur.st = "reqw"
  /\ IF r = "ok"
     THEN /\ b = nbid + 1 /\ nbid' = nbid + 1
          /\ cur' = [cur EXCEPT !.st = "regok", !.rep = "ok", !.grants = @ + 1, !.bid = b]
     ELSE /\ r \in {"fail", "neterr"}
          /\ cur' = [cur EXCEPT !.st = "regfail", !.rep = r]
          /\ UNCHANGED nbid
  /\ env' = Append(env, [op |-> "regrep", r |-> r])
  /\ UNCHANGED <<acts, np, nd, dlv>>

\* the user's try of action a starts (and will return o): only after the grant
Try(a, o) ==
  /\ cur.st = "regok" /\ a = cur.a
  /\ cur' = [cur EXCEPT !.st = "tried",
                        !.tries = Append(@, [a |-> a, o |-> o, regd |-> (cur.rep = "ok" /\ cur.grants = 1)])]
  /\ env' = Append(env, [op |-> "try", o |-> o])
  /\ UNCHANGED <<acts, np, nbid, nd, dlv>>

\* proxy.Prepare returns: after try (any value: the property is silent), or an error when the
\* registration failed / the call was refused before anything was sent (try did not run)
Return(v) ==
  /\ v \in {"nil", "err"}
  /\ \/ cur.st = "tried" /\ (Det => v = cur.tries[1].o)
     \/ cur.st = "regfail" /\ v = "err"
     \/ ~Det /\ cur.st = "called" /\ v = "err"
  /\ cur' = [cur EXCEPT !.st = "returned", !.ret = v]
  /\ UNCHANGED <<acts, np, nbid, nd, dlv, env>>

-----------------------------------------------------------------------------
(* Phase two *)

Success(kind) == IF kind = "commit" THEN "committed" ELSE "rollbacked"
Retry(kind)   == IF kind = "commit" THEN "commit_retry" ELSE "rollback_retry"
Failure(kind) == {Retry(kind), IF kind = "commit" THEN "commit_unretry" ELSE "rollback_unretry", "unknown"}

\* the coordinator sends BranchCommit / BranchRollback for (xid x, branch b, resource tg) with
\* application data of class `data`; uo is what the user's method will return if it runs
Deliver(kind, tg, x, b, data, uo) ==
  /\ cur.st = "returned" /\ dlv.st \in {"none", "closed"}
  /\ nd < MaxP2 /\ (nbid = 0 => nd < MaxP2NoBranch)
  /\ tg \in acts \cup Unknown
  /\ (Det /\ tg \notin acts) => uo = "nil"
  /\ nd' = nd + 1
  /\ dlv' = [st |-> "open", kind |-> kind, tg |-> tg, xid |-> x, bid |-> b, data |-> data, uo |-> uo,
             invs |-> <<>>, reply |-> "open"]
  /\ env' = Append(env, [op |-> "deliver", kind |-> kind, target |-> tg, data |-> data, uo |-> uo])
  /\ UNCHANGED <<acts, np, cur, nbid>>

\* user code runs: method `kind` of action a with (x, b, action context equivalent?)
Invoke(kind, a, x, b, ctxeq) ==
  /\ dlv.st = "open" /\ dlv.tg \in acts /\ dlv.invs = <<>>
  /\ kind = dlv.kind /\ a = dlv.tg /\ x = dlv.xid /\ b = dlv.bid
  \* data that cannot be decoded gives no licence to run the user's method on some other context
  /\ dlv.data \in {"captured", "malformed"} => ctxeq
  /\ Det => dlv.data # "malformed"
  /\ dlv' = [dlv EXCEPT !.invs = Append(@, [kind |-> kind, a |-> a, xid |-> x, bid |-> b, ctxeq |-> ctxeq,
                                             out |-> dlv.uo])]
  /\ UNCHANGED <<acts, np, cur, nbid, nd, env>>

Ran(d)   == d.invs # <<>>
OkRun(d) == Ran(d) /\ d.invs[1].out = "nil"

\* what may be reported ("none" = the request is never answered)
AllowedReply(d, s) ==
  CASE d.tg \notin acts       -> s \in {"none"} \cup Failure(d.kind)
    [] d.data = "malformed"   -> IF OkRun(d) THEN s \in {"none", Success(d.kind)} \cup Failure(d.kind)
                                 ELSE IF Ran(d) THEN s \in {"none", Retry(d.kind)}
                                 ELSE s \in {"none"} \cup Failure(d.kind)
    [] OTHER                  -> /\ Ran(d)
                                 /\ IF OkRun(d) THEN s = Success(d.kind) ELSE s \in {"none", Retry(d.kind)}

Canon(d) == IF OkRun(d) THEN Success(d.kind) ELSE IF Ran(d) THEN Retry(d.kind) ELSE "none"

Reply(s) ==
  /\ dlv.st = "open"
  /\ AllowedReply(dlv, s)
  /\ Det => s = Canon(dlv)
  /\ dlv' = [dlv EXCEPT !.st = "closed", !.reply = s]
  /\ UNCHANGED <<acts, np, cur, nbid, nd, env>>

\* the dispatch panics (observable by the process, recovered by the transport's worker): tolerated
\* only for malformed data, before any user code, and it is then the same as "never answered"
Panic ==
  /\ ~Det /\ AllowMalformedPanic
  /\ dlv.st = "open" /\ dlv.data = "malformed" /\ ~Ran(dlv)
  /\ dlv' = [dlv EXCEPT !.st = "closed", !.reply = "panic"]
  /\ UNCHANGED <<acts, np, cur, nbid, nd, env>>

Next ==
  \/ \E a \in Actions, p \in Params : Prepare(a, p)
  \/ (cur.st # "none" /\ RegisterReq(cur.a, "TCC", TRUE, TRUE))
  \/ \E r \in RegReplies : RegisterRep(r, nbid + 1)
  \/ \E o \in TryOutcomes : (cur.st # "none" /\ Try(cur.a, o))
  \/ \E v \in {"nil", "err"} : Return(v)
  \/ \E k \in Kinds, tg \in Actions \cup Unknown, x \in Xids, b \in Bids, d \in DataClasses, uo \in UserOutcomes :
        Deliver(k, tg, x, b, d, uo)
  \/ \E c \in BOOLEAN : (dlv.st = "open" /\ Invoke(dlv.kind, dlv.tg, dlv.xid, dlv.bid, c))
  \/ \E s \in {"none", "committed", "rollbacked", "commit_retry", "rollback_retry", "commit_unretry",
               "rollback_unretry", "unknown"} : Reply(s)
  \/ Panic

Spec == Init /\ [][Next]_vars

Finished == cur.st = "returned" /\ dlv.st \in {"none", "closed"}

-----------------------------------------------------------------------------
(* The property, as invariants over the recorded history of the prepare / delivery in progress *)

InPrep == cur.st # "none"

\* try starts only after the coordinator has received the request and granted the branch
RegisterBeforeTry ==
  InPrep => \A i \in 1..Len(cur.tries) : cur.tries[i].regd /\ cur.regs # <<>>

\* a refused or failed registration: try never runs, and the caller gets an error
NoTryAfterFailedRegister ==
  InPrep => /\ cur.grants = 0 => cur.tries = <<>>
            /\ (cur.st = "returned" /\ cur.grants = 0) => cur.ret = "err"

\* one branch per prepare: resource = action name, type TCC, data = the tagged parameters; try once
ExactlyOneBranchPerPrepare ==
  InPrep => /\ cur.grants <= 1 /\ Len(cur.tries) <= 1
            /\ \A i \in 1..Len(cur.regs) :
                  cur.regs[i].res = cur.a /\ cur.regs[i].bt = "TCC" /\ cur.regs[i].dataok /\ cur.regs[i].xidok
            /\ cur.tries # <<>> => cur.grants = 1
            /\ (cur.st = "returned" /\ cur.grants = 1) => Len(cur.tries) = 1

InDlv == dlv.st # "none"
Closed == dlv.st = "closed"

OncePerRequest ==
  InDlv => /\ Len(dlv.invs) <= 1
           /\ (Closed /\ dlv.tg \in acts /\ dlv.data # "malformed") => Len(dlv.invs) = 1

SameIds ==
  InDlv => \A i \in 1..Len(dlv.invs) :
              /\ dlv.invs[i].kind = dlv.kind /\ dlv.invs[i].a = dlv.tg
              /\ dlv.invs[i].xid = dlv.xid /\ dlv.invs[i].bid = dlv.bid

ContextEquivalent ==
  InDlv => \A i \in 1..Len(dlv.invs) : dlv.data \in {"captured", "malformed"} => dlv.invs[i].ctxeq

IsSuccess(s) == s \in {"committed", "rollbacked"}

\* committed / rollbacked is reported iff the user's method ran and returned no error
\* (for malformed data only "no false success" is demanded)
StatusIffNoError ==
  Closed => /\ IsSuccess(dlv.reply) => (dlv.reply = Success(dlv.kind) /\ OkRun(dlv))
            /\ (OkRun(dlv) /\ dlv.data # "malformed") => dlv.reply = Success(dlv.kind)
            /\ (Ran(dlv) /\ ~OkRun(dlv)) => dlv.reply \in {"none", Retry(dlv.kind)}

UnknownRunsNothing == InDlv => (dlv.tg \notin acts => dlv.invs = <<>>)

TypeOK ==
  /\ np \in Nat /\ nbid \in Nat /\ nd \in Nat /\ nbid <= np
  /\ cur.st \in {"none", "called", "reqw", "regok", "regfail", "tried", "returned"}
  /\ dlv.st \in {"none", "open", "closed"}
=============================================================================
