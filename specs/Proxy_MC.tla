------------------------------ MODULE Proxy_MC ------------------------------
EXTENDS Proxy, IOUtils
AllKinds == {"q", "upd", "ins", "del", "ups", "dup", "ddl", "multi", "prep", "prepx", "prepq", "updw", "qfu"}
\* statements around a failing one (a duplicate-key INSERT that the application handles) inside a transaction
MidKinds == {"dup", "upd", "ins"}
\* "drop" is the environment's step: the server (or the network) closes the connections that sit idle in the
\* pool without the client noticing (wait_timeout, restart, fail-over); the programs around it must fare the same
DropKinds == {"drop", "upd", "q", "prep"}
\* "commitf" ends a local transaction with a COMMIT the database fails (a deadlock found at commit: InnoDB rolls the
\* transaction back); the error must reach the application through the proxy as it does on the bare driver
CommitFKinds == {"upd", "ins", "q"}
EnvMaxSteps == atoi(IOEnv.MAXSTEPS)
ScenFile == IOEnv.SCEN_FILE
Dump ==
  Finished =>
    LET r == Serialize(<<[gtx |-> gtx, lit |-> lit, prog |-> prog]>>, ScenFile,
                       [format |-> "NDJSON", charset |-> "UTF-8", openOptions |-> <<"WRITE", "CREATE", "APPEND">>])
    IN r = r
=============================================================================
