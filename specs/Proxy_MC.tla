------------------------------ MODULE Proxy_MC ------------------------------
EXTENDS Proxy, IOUtils
AllKinds == {"q", "upd", "ins", "del", "ups", "dup", "ddl", "multi", "prep", "prepx", "prepq", "updw", "qfu"}
\* statements around a failing one (a duplicate-key INSERT that the application handles) inside a transaction
MidKinds == {"dup", "upd", "ins"}
EnvMaxSteps == atoi(IOEnv.MAXSTEPS)
ScenFile == IOEnv.SCEN_FILE
Dump ==
  Finished =>
    LET r == Serialize(<<[gtx |-> gtx, lit |-> lit, prog |-> prog]>>, ScenFile,
                       [format |-> "NDJSON", charset |-> "UTF-8", openOptions |-> <<"WRITE", "CREATE", "APPEND">>])
    IN r = r
=============================================================================
