INIT Init
NEXT Next
CONSTANTS
  Shapes <- GenShapes2
  MaxFrames = 2
  JunkLens = {0}
  MaxCuts = 1
INVARIANTS Dump
CHECK_DEADLOCK FALSE
