------------------------------- MODULE Rpc_MC -------------------------------
EXTENDS Rpc, IOUtils

EnvN == atoi(IOEnv.NCALLERS)
BothKinds == {"coordreq", "hb"}

View == <<cst, cid, cret, used, futures, net, emitted, indeliv, matched, lost, colls>>

(***************************************************************************)
(* Generation.  The environment chooses a schedule                          *)
(*   send 1..N (all requests in flight), then any sequence of               *)
(*   reply c   the (first) reply to c's request arrives - late if c has     *)
(*             already timed out                                            *)
(*   dup c     a further copy of c's reply arrives                           *)
(*   coordreq c / hb c   a foreign message reusing c's pending id           *)
(*   loss      the connection is lost                                       *)
(*   wave      the timeout passes for every caller still waiting            *)
(* and the client's own steps (deliveries end, callers return) are taken    *)
(* eagerly in a fixed order, so that one behaviour per schedule remains.    *)
(***************************************************************************)
Min(S) == CHOOSE x \in S : \A y \in S : x <= y
Count(op) == Len(SelectSeq(env, LAMBDA e : e.op = op))
Waiting  == {c \in Callers : cst[c] = "waiting"}
CanOwn   == {c \in Waiting : Done(cid[c])}
InDeliv  == {id \in DOMAIN indeliv : indeliv[id] > 0}
Idle     == {c \in Callers : cst[c] = "idle"}

\* the wave is in progress: it has been chosen and callers are still waiting (all sends precede it)
Waving == Count("wave") = 1 /\ Waiting # {}

Step(e) == env' = Append(env, e)

EnvStep ==
  \/ \E c \in Callers :       \* first reply; late if the caller has given up
       /\ Get(emitted, cid[c]) = 0
       /\ cst[c] = "returned" => Count("late") < MaxLate
       /\ Reply(cid[c])
       /\ Step([op |-> IF cst[c] = "returned" THEN "late" ELSE "reply", c |-> c])
      
  \/ \E c \in Callers :       \* duplicate
       /\ Get(emitted, cid[c]) = 1 /\ Count("dup") < MaxDup
       /\ Reply(cid[c]) /\ Step([op |-> "dup", c |-> c])
  \/ \E k \in CollKinds : \E c \in Waiting :
       /\ colls < MaxColl /\ Pending(cid[c])
       \* a heartbeat id comes from a counter: the driver can make it meet the newest request only, and
       \* only when the older requests of the scenario are no longer waiting
       /\ k = "hb" => (c = N /\ Waiting = {c})
       /\ Foreign(k, cid[c]) /\ Step([op |-> k, c |-> c])
  \/ /\ Waiting # {} /\ Count("wave") = 0
     /\ ConnLost /\ Step([op |-> "loss"])
  \/ /\ Waiting # {} /\ Count("wave") = 0 /\ Cardinality(Waiting) <= MaxDrop
     /\ Step([op |-> "wave"])
     /\ UNCHANGED <<cst, cid, cret, used, futures, net, emitted, indeliv, matched, lost, colls>>

GenNext ==
  IF InDeliv # {} THEN EndDeliver(Min(InDeliv))
  ELSE IF CanOwn # {} THEN Return(Min(CanOwn), "own")
  ELSE IF Waving THEN Return(Min(Waiting), "timeout")
  ELSE IF Idle # {} THEN Send(Min(Idle), NextId)
  ELSE EnvStep

GenDone == AllReturned /\ NoDelivery

ScenFile == IOEnv.SCEN_FILE
Dump ==
  GenDone =>
    LET r == Serialize(<<[cn |-> N, steps |-> env]>>, ScenFile,
                       [format |-> "NDJSON", charset |-> "UTF-8",
                        openOptions |-> <<"WRITE", "CREATE", "APPEND">>])
    IN r = r
=============================================================================
