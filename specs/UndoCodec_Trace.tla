--------------------------- MODULE UndoCodec_Trace ---------------------------
(* Trace validation for UndoCodec.tla (C08).  One trace per vector.  Both legs of the     *)
(* driver record the same observables:                                                    *)
(*   Start(configuration, vector)                                                         *)
(*   Encode(ser, res)        which encoder produced the payload                           *)
(*   Compress(applied, res)  which compressor really wrapped it                           *)
(*   Stored(cser, ccomp)     the context stored beside it                  -> FlushAs     *)
(*   parser level:  Decompress(res), Decode(ser, res), Compare(res)        -> UndoAs      *)
(*   end to end:    E2E(status, restored)                                  -> UndoAs      *)
(* (parser level: pipeline assembled from the exported parts; end to end: the undo_log    *)
(* row phase one wrote through the proxy, then the real branch rollback).  The recorded   *)
(* steps are taken as they happened; the invariants CtxSufficient and Lossless of         *)
(* UndoCodec judge every state they lead to.                                              *)
EXTENDS UndoCodec, Json, IOUtils

VARIABLES l, s0,
          obs    \* what Encode / Compress revealed about the payload: [pser, applied]

Trace  == ndJsonDeserialize(IOEnv.TRACE_FILE)
Starts == {i \in 1..Len(Trace) : Trace[i].k = 1}
EndOf(s) == s + Trace[s].n - 1
Max(a, b) == IF a > b THEN a ELSE b

tvars == <<vars, l, s0, obs>>

TraceKeep(c, v) == TRUE

TraceInit ==
  \E s \in Starts :
    /\ s0 = s /\ l = s + 1
    /\ Trace[s].ev = "Start"
    /\ cfg = [ser |-> Trace[s].ser, comp |-> Trace[s].comp, thr |-> Trace[s].thr]
    /\ vec = [col |-> [jt |-> Trace[s].jt, kind |-> Trace[s].kind], cls |-> Trace[s].cls,
              key |-> Trace[s].key, stmt |-> Trace[s].stmt]
    /\ stored = None /\ dec = None /\ pc = "flush"
    /\ obs = [pser |-> "?", applied |-> "?"]
    /\ TLCSet(Trace[s].t, s + 1)

IsEv(e) == /\ l <= EndOf(s0)
           /\ Trace[l].ev = e
           /\ l' = l + 1 /\ s0' = s0

\* the specification has no behaviour in which a known serializer fails to encode, or panics
TEncode == /\ IsEv("Encode")
           /\ pc = "flush"
           /\ \/ /\ Trace[l].res = "ok"
                 /\ cfg.ser \in KnownSer
                 /\ obs' = [obs EXCEPT !.pser = Trace[l].ser]
                 /\ UNCHANGED vars
              \/ /\ Trace[l].res = "refused"
                 /\ FlushRefused
                 /\ UNCHANGED obs

\* a compressor may refuse (the writer then stores the plain payload); it may not panic
TCompress == /\ IsEv("Compress")
             /\ pc = "flush"
             /\ Trace[l].res \in {"ok", "fallback"}
             /\ Trace[l].res = "fallback" => Trace[l].applied = "None"
             /\ obs' = [obs EXCEPT !.applied = Trace[l].applied]
             /\ UNCHANGED vars

TStored == /\ IsEv("Stored")
           /\ obs.pser # "?" /\ obs.applied # "?"
           /\ FlushAs(Trace[l].cser, Trace[l].ccomp, obs.pser, obs.applied)
           /\ UNCHANGED obs

\* parser level: a step that fails ends the undo without a log; the last one carries the comparison
TDecompress == /\ IsEv("Decompress")
               /\ pc = "undo"
               /\ IF Trace[l].res = "ok" THEN UNCHANGED vars ELSE UndoAs(FALSE, FALSE)
               /\ UNCHANGED obs

TDecode == /\ IsEv("Decode")
           /\ pc = "undo"
           /\ Trace[l].ser = ChosenParser
           /\ IF Trace[l].res = "ok" THEN UNCHANGED vars ELSE UndoAs(FALSE, FALSE)
           /\ UNCHANGED obs

TCompare == /\ IsEv("Compare")
            /\ UndoAs(TRUE, Trace[l].res = "equal")
            /\ Trace[l].res = "equal" <=> (Trace[l].equalRows /\ Trace[l].equalKeys /\ Trace[l].equalValues)
            /\ UNCHANGED obs

\* end to end: the branch rollback answered, and the table is what it was before the statement
TE2E == /\ IsEv("E2E")
        /\ UndoAs(Trace[l].status = "rollbacked", Trace[l].restored)
        /\ UNCHANGED obs

\* end to end: phase one itself failed (image building, statement form): nothing was written, the
\* scenario is abandoned here and reported by the phase-one checks
TAbort == /\ IsEv("Abort")
          /\ pc = "flush" /\ stored = None
          /\ pc' = "done"
          /\ UNCHANGED <<cfg, vec, stored, dec, obs>>

TEnd == /\ IsEv("End")
        /\ UNCHANGED <<vars, obs>>

TraceNext == TEncode \/ TCompress \/ TStored \/ TDecompress \/ TDecode \/ TCompare \/ TE2E \/ TAbort \/ TEnd
TraceSpec == TraceInit /\ [][TraceNext]_tvars

Invs == [CtxSufficient |-> CtxSufficient, Lossless |-> Lossless]
Failed == {i \in DOMAIN Invs : ~Invs[i]}

HighWater ==
  IF Failed = {} THEN TLCSet(Trace[s0].t, Max(TLCGet(Trace[s0].t), l))
  ELSE PrintT(<<"INVFAIL", Trace[s0].t, l - s0, Failed>>) /\ FALSE

Rejected == {s \in Starts : TLCGet(Trace[s].t) # EndOf(s) + 1}
Post ==
  /\ PrintT(<<"TRACES", Cardinality(Starts), "REJECTED", Cardinality(Rejected)>>)
  /\ \A s \in Rejected :
       LET hw == TLCGet(Trace[s].t) IN
       PrintT(<<"REJECT", Trace[s].t, hw - s + 1, IF hw <= EndOf(s) THEN Trace[hw].ev ELSE "?">>)
=============================================================================
