SPECIFICATION Spec
CONSTANTS
  SplitClose = TRUE
  WithForce = FALSE
INVARIANTS NoLeak
CHECK_DEADLOCK FALSE
