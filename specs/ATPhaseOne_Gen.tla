--------------------------- MODULE ATPhaseOne_Gen ---------------------------
(* The environment's choice space for phase one (C02): which statement, how many rows, how the   *)
(* coordinator answers the registration, which client statement the database fails, how often the *)
(* status report fails.  TLC enumerates it; the expected behaviour is ATPhaseOne's, checked on the *)
(* recorded trace of each replay.                                                                  *)
EXTENDS Integers, Sequences, TLC, IOUtils

\* ---- scenario generation: the environment's choice space ----
\* kind: statement kind; rows: rows it touches; reg: coordinator's answer to BranchRegister;
\* failAt: index of the client statement (counted from the start of the call) the database fails, 0 = none;
\* repfails: transport failures of BranchReport before it succeeds
Scen == {s \in [mode : {"auto", "explicit"}, kind : {"ins", "upd", "del", "upsh", "upsm"}, rows : 0..2,
               reg : {"ok", "conflict", "fail", "neterr"}, failAt : 0..9, repfails : {0, 1, 2, 5},
               then : {"none", "upd0", "del0"}, past : {"none", "gauto", "lexp"}] :
           \* past: what the pooled connection was used for before (not part of the trace): an autocommit statement of an
           \* earlier global transaction, or an explicit local transaction outside any global transaction
           /\ s.past # "none" => (s.reg = "ok" /\ s.failAt = 0 /\ s.repfails = 0 /\ s.then = "none" /\ s.rows >= 1)
           \* then: a second statement in the same explicit local transaction that matches no row (its images are empty)
           /\ s.then # "none" => (s.mode = "explicit" /\ s.reg = "ok" /\ s.failAt = 0 /\ s.repfails = 0)
           /\ s.kind \in {"ins", "upsh", "upsm"} => s.rows >= 1
           /\ s.kind \in {"upsh", "upsm"} => s.rows = 1
           /\ s.reg # "ok" => (s.failAt = 0 /\ s.repfails = 0)
           /\ s.repfails > 0 => s.failAt >= 3
           /\ s.rows = 0 => (s.reg = "ok" /\ s.failAt \in {0, 2} /\ s.repfails = 0)}

\* thorough: database faults also in the two-statement transactions, fault positions up to 12
ScenT == {s \in [mode : {"auto", "explicit"}, kind : {"ins", "upd", "del", "upsh", "upsm"}, rows : 0..2,
                reg : {"ok", "conflict", "fail", "neterr"}, failAt : 0..12, repfails : {0, 1, 2, 5},
                then : {"none", "upd0", "del0"}, past : {"none", "gauto", "lexp"}] :
           /\ s.past # "none" => (s.reg = "ok" /\ s.failAt \in {0, 3, 5} /\ s.repfails = 0 /\ s.then = "none" /\ s.rows >= 1)
           /\ s.then # "none" => (s.mode = "explicit" /\ s.reg = "ok" /\ s.repfails = 0)
           /\ s.then = "none" => s.failAt <= 9
           /\ s.kind \in {"ins", "upsh", "upsm"} => s.rows >= 1
           /\ s.kind \in {"upsh", "upsm"} => s.rows = 1
           /\ s.reg # "ok" => (s.failAt = 0 /\ s.repfails = 0)
           /\ s.repfails > 0 => s.failAt >= 3
           /\ s.rows = 0 => (s.reg = "ok" /\ s.failAt \in {0, 2} /\ s.repfails = 0)}

VARIABLE sc
GenInit == sc \in Scen
GenInitT == sc \in ScenT
GenNext == UNCHANGED sc
ScenFile == IOEnv.SCEN_FILE
Dump ==
  LET r == Serialize(<<sc>>, ScenFile, [format |-> "NDJSON", charset |-> "UTF-8",
                                        openOptions |-> <<"WRITE", "CREATE", "APPEND">>])
  IN r = r
=============================================================================
