------------------------- MODULE ATLocks_Race_Trace -------------------------
(* Trace validation for ATLocks_Race.tla (C03, leg "race"): the recorded overlap of two operations *)
(* of two global transactions on the real proxy must be a behaviour of the specification with     *)
(* Strict = FALSE; the clauses a step breaks are reported through the invariants.                 *)
EXTENDS ATLocks_Race, Json, IOUtils

VARIABLES l, s0

Trace  == ndJsonDeserialize(IOEnv.TRACE_FILE)
Starts == {i \in 1..Len(Trace) : Trace[i].k = 1}
EndOf(s) == s + Trace[s].n - 1
Max(a, b) == IF a > b THEN a ELSE b
SeqToSet(q) == {q[i] : i \in 1..Len(q)}
\* a JSON array of values per key -> table
ToTable(q) == [k \in Keys |-> q[k]]
\* returned rows: keys and values in the same order -> function
ToRows(ks, vs) == [k \in SeqToSet(ks) |-> vs[CHOOSE i \in 1..Len(ks) : ks[i] = k]]

tvars == <<rvars, l, s0>>

TraceInit ==
  \E s \in Starts :
    /\ s0 = s /\ l = s + 1
    /\ Trace[s].ev = "Start"
    /\ held = [k \in Keys |-> 0] /\ open = [g \in G |-> TRUE] /\ began = [g \in G |-> TRUE] /\ nops = 0
    /\ tbl = ToTable(Trace[s].init)
    /\ env = <<>>
    /\ pre = [k \in Keys |-> Absent]
    /\ pend = [g \in G |-> None]
    /\ snaps = [g \in G |-> {}]
    /\ done = [g \in G |-> FALSE]
    /\ wrote = [g \in G |-> FALSE]
    /\ dirtyv = FALSE
    /\ viol = {}
    /\ TLCSet(Trace[s].t, s + 1)

IsEv(e) == /\ l <= EndOf(s0)
           /\ Trace[l].ev = e
           /\ l' = l + 1 /\ s0' = s0

TOpStart == IsEv("OpStart") /\ OpStart(Trace[l].g, Trace[l].kind, SeqToSet(Trace[l].keys), "-")
TLin     == IsEv("Lin") /\ Lin(Trace[l].g, SeqToSet(Trace[l].wkeys))
TOpEnd   == IsEv("OpEnd") /\ OpEnd(Trace[l].g, Trace[l].res, ToRows(Trace[l].rkeys, Trace[l].rvals),
                                    SeqToSet(Trace[l].confirmed), Trace[l].locksLeft, ToTable(Trace[l].db))
TEnd     == IsEv("End") /\ Trace[l].err = FALSE /\ REnd(Trace[l].g, Trace[l].how, ToTable(Trace[l].db))
\* afterwards: nothing pending, nothing left locked in the database, the table is the specification's
TFinal   == /\ IsEv("Final") /\ RFinished /\ Trace[l].idle = TRUE /\ ToTable(Trace[l].db) = tbl
            /\ l = EndOf(s0) /\ UNCHANGED rvars
\* the gate position does not exist in this operation (fewer statements; no such coordinator request)
TNA      == IsEv("NA") /\ l = EndOf(s0) /\ UNCHANGED rvars
\* the driver could not establish the interleaving within its bounds: no verdict
TInconclusive == IsEv("Inconclusive") /\ l = EndOf(s0) /\ UNCHANGED rvars

TraceNext == TOpStart \/ TLin \/ TOpEnd \/ TEnd \/ TFinal \/ TNA \/ TInconclusive
TraceSpec == TraceInit /\ [][TraceNext]_tvars

Invs == [NoDirty |-> NoDirty, CleanRead |-> CleanRead, ReadAfterConfirm |-> ReadAfterConfirm,
         ConflictReleases |-> ConflictReleases, NoOverlapWrite |-> NoOverlapWrite,
         FailedOpsChangeNothing |-> FailedOpsChangeNothing, NoSpuriousConflict |-> NoSpuriousConflict,
         TableMatches |-> TableMatches]
Failed == {i \in DOMAIN Invs : ~Invs[i]}

HighWater ==
  IF Failed = {} THEN TLCSet(Trace[s0].t, Max(TLCGet(Trace[s0].t), l))
  ELSE PrintT(<<"INVFAIL", Trace[s0].t, l - s0, Failed>>) /\ FALSE

Rejected == {s \in Starts : TLCGet(Trace[s].t) # EndOf(s) + 1}
Post ==
  /\ PrintT(<<"TRACES", Cardinality(Starts), "REJECTED", Cardinality(Rejected)>>)
  /\ \A s \in Rejected :
       LET hw == TLCGet(Trace[s].t) IN
       PrintT(<<"REJECT", Trace[s].t, hw - s + 1, IF hw <= EndOf(s) THEN Trace[hw].ev ELSE "?">>)
=============================================================================
