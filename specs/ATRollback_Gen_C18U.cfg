INIT Init
NEXT Next
CONSTANTS
  NKeys = 2
  WVals = {0, 1, 2}
  UVals = {0, 1}
  InitRows <- InitRowsC
  StmtW = {1, 2}
  MaxBranches = 1
  MaxStmts = 1
  Kinds <- AllKinds
  OnlyCare <- EnvOnlyCare
  Validate <- EnvValidate
  MaxForeign = 0
  MaxDeliver = 1
  FailPoints = {0}
  AllowEarly = FALSE
  AllowPkUpd = FALSE
INVARIANTS Dump
CHECK_DEADLOCK FALSE
