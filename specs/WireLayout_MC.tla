--------------------------- MODULE WireLayout_MC ---------------------------
(* Design check and test-vector generation for WireLayout.tla (C12).        *)
EXTENDS WireLayout, IOUtils, Json

(***************************************************************************)
(* Boundary classes per field kind.  The first element is the "base" class *)
(* (resultCode: 0 = Failed, so that the conditional message is on the wire *)
(* in the base vector).                                                    *)
(*  - truncatable string, declared limit t, prefix maximum P:              *)
(*      1, 0, t-1, t, t+1, P, P+1, and a large one                         *)
(*  - other 16-bit strings (limit = what the prefix carries, 65535):       *)
(*      1, 0, 300 (beyond one byte), 65534, 65535                          *)
(*  - 32-bit strings (2^32-1 is out of reach): 1, 0, 65535, 65536, 100000  *)
(*    (beyond two bytes)                                                   *)
(*  - enums: 0, 1, 255; ids: 1, 0, 2^63-1, -1; durations: 1 ms, 0,         *)
(*    2^31-1 ms, 2^32-1 ms (the unsigned 32-bit range the codec writes)    *)
(***************************************************************************)
Large(k) == IF Width(k) = 1 THEN 40000 ELSE 70000

ClassSeq(d) ==
  CASE d.k = "u8" -> <<0, 1, 255>>
    [] d.k \in {"bool8", "bool16"} -> <<TRUE, FALSE>>
    [] d.k = "i64" -> <<"one", "zero", "max", "minus1">>
    [] d.k = "ms32" -> <<"d1", "d0", "dmax31", "dmax32">>
    [] IsStr(d.k) /\ d.trunc > 0 ->
         <<1, 0, d.trunc - 1, d.trunc, d.trunc + 1, PrefixMax(d.k), PrefixMax(d.k) + 1, Large(d.k)>>
    [] IsStr(d.k) /\ d.trunc = 0 /\ Width(d.k) = 2 -> <<1, 0, 300, 65534, 65535>>
    [] IsStr(d.k) /\ d.trunc = 0 /\ Width(d.k) = 4 -> <<1, 0, 65535, 65536, 100000>>

ClassSet(d) == {ClassSeq(d)[i] : i \in 1..Len(ClassSeq(d))}

\* the full product of the classes of a type, as messages (functions field name -> class)
RECURSIVE Prod(_)
Prod(ds) == IF ds = <<>> THEN {<<>>}
            ELSE {(Head(ds).f :> v) @@ p : v \in ClassSet(Head(ds)), p \in Prod(Tail(ds))}

RECURSIVE ProdSize(_)
ProdSize(ds) == IF ds = <<>> THEN 1 ELSE Len(ClassSeq(Head(ds))) * ProdSize(Tail(ds))

(***************************************************************************)
(* Pairwise pruning for types with many fields: an orthogonal-array        *)
(* construction over Z_P (P prime, at least the largest class count and    *)
(* the number of fields): vector (a, b) gives field number i the class     *)
(* with index (a + i*b) mod P.  For two fields i # j the map               *)
(* (a,b) -> (a+ib, a+jb) is a bijection of Z_P x Z_P, so every pair of     *)
(* classes of every two fields occurs (checked by TLC: PairwiseCovered).   *)
(* A conditional field is only on the wire for one value of its condition: *)
(* the same vectors are repeated with the condition forced to that value,  *)
(* so pairs involving the message are really exercised.  Plus the base     *)
(* vector and every single deviation from it (easy to read when it fails). *)
(***************************************************************************)
P == 11
Pick(d, j) == ClassSeq(d)[(j % Len(ClassSeq(d))) + 1]
Modular(t) == {[f \in Names(t) |-> Pick(Desc(t, f), (a + (Idx(t, f) - 1) * b) % P)] : a, b \in 0..(P - 1)}
CondFields(t) == {Layout[t][i].cf : i \in {j \in 1..Len(Layout[t]) : Layout[t][j].cf # ""}}
CondVal(t, f) == (CHOOSE d \in {Layout[t][i] : i \in 1..Len(Layout[t])} : d.cf = f).cv
Forced(t, S)  == {[f \in Names(t) |-> IF f \in CondFields(t) THEN CondVal(t, f) ELSE v[f]] : v \in S}
Base(t)       == [f \in Names(t) |-> ClassSeq(Desc(t, f))[1]]
OneDeviation(t) == UNION {{[Base(t) EXCEPT ![g] = v] : v \in ClassSet(Desc(t, g))} : g \in Names(t)}
Pairwise(t)   == Modular(t) \cup Forced(t, Modular(t)) \cup OneDeviation(t)

PruneAbove == atoi(IOEnv.PRUNE_ABOVE)
Vectors(t, above) == IF ProdSize(Layout[t]) <= above THEN Prod(Layout[t]) ELSE Pairwise(t)

\* every pair of classes of every two fields of every type occurs in the pruned set, and - for a pair
\* that involves a conditional field - occurs with the field on the wire
PairwiseCovered ==
  (st = "reg" /\ seen = {}) =>      \* constant-level and expensive: evaluated in one state only
  \A t \in Types :
    LET L == Layout[t] V == Pairwise(t) IN
    \A i, j \in 1..Len(L) : i < j =>
      \A x \in ClassSet(L[i]), y \in ClassSet(L[j]) :
        \E v \in V : /\ v[L[i].f] = x /\ v[L[j].f] = y
                     /\ (L[j].cf # "" /\ L[j].cf # L[i].f) => Present(L[j], v)
                     /\ (L[i].cf # "" /\ L[i].cf # L[j].f) => Present(L[i], v)

-----------------------------------------------------------------------------
(* design check: every class assignment of every type through Encode (with  *)
(* every boundary cut) and Decode; the registration round.                  *)
MCInit ==
  \/ /\ ty \in Types
     /\ m \in Prod(Layout[ty])
     /\ InLimits(ty, m)
     /\ w = ZeroMsg(ty) /\ st = "start" /\ seen = {}
  \/ /\ ty = "*" /\ m = <<>> /\ w = <<>> /\ st = "reg" /\ seen = {}

MCNext ==
  \/ ty \in Types /\ st = "start" /\ \E c \in BoundaryCuts(ty, m) : Encode(c)
  \/ Decode
  \/ st = "reg" /\ seen # Client /\ Lookup(CHOOSE t \in Client \ seen : TRUE)   \* one order is enough (2^24 otherwise)
  \/ Finish

\* every message comes out decoded, the registration round completes
Completes == <>(st \in {"decoded", "done"})
MCSpec == MCInit /\ [][MCNext]_vars /\ WF_vars(MCNext)

TypeOK == /\ st \in {"start", "encoded", "decoded", "reg", "done"}
          /\ (ty \in Types) => InLimits(ty, m)

-----------------------------------------------------------------------------
(* vector generation: one state per vector, dumped once; the table itself  *)
(* is one more line.                                                       *)
GenInit ==
  \/ /\ ty \in Types
     /\ m \in Vectors(ty, PruneAbove)
     /\ w = <<>> /\ st = "start" /\ seen = {}
  \/ /\ ty = "*" /\ m = <<>> /\ w = <<>> /\ st = "reg" /\ seen = {}
GenNext == UNCHANGED vars

SetToSeq(S) == LET RECURSIVE R(_) R(T) == IF T = {} THEN <<>> ELSE LET x == CHOOSE y \in T : TRUE IN <<x>> \o R(T \ {x})
               IN R(S)

TableLine == [table |-> Layout, codes |-> Code, sends |-> SetToSeq(ClientSends), expects |-> SetToSeq(ClientExpects)]
VectorLine == [ty |-> ty, m |-> m]

ScenFile == IOEnv.SCEN_FILE
Dump ==
  LET r == Serialize(<<IF ty = "*" THEN TableLine ELSE VectorLine>>, ScenFile,
                     [format |-> "NDJSON", charset |-> "UTF-8",
                      openOptions |-> <<"WRITE", "CREATE", "APPEND">>])
  IN r = r
=============================================================================
