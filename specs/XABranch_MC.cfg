\* EarlyP2: the coordinator's rollback may overtake phase one (P2Early).  One mode only: no action reads `mode`
\* (it is an attribute of scenarios and traces), two modes only double the state space.
SPECIFICATION Spec
CONSTANTS
  Conns = {1, 2}
  Ids = {"good"}
  RegReplies = {"ok", "fail", "neterr"}
  Modes = {"auto"}
  Strict = TRUE
  MaxFaults = 1
  MaxDml = 1
  EarlyP2 = TRUE
  MaxP2 = 2
  MaxCmds = 8
VIEW View
CONSTRAINT Bounded
INVARIANTS TypeOK LegalSequence AcceptedLegal RegisterBeforeStart OneIdentifier NoCommitAfterFailure ErrorSurfaces
  RolledBackOnFailure PhaseOneComplete PoolClean ExactlyOneOutcome NothingEarly RolledBackStays
CHECK_DEADLOCK FALSE
