SPECIFICATION TraceSpec
CONSTANTS
  EndKinds = {"commit", "rollback", "commitf"}
  StepKinds = {"q", "upd", "ins", "del", "ups", "dup", "ddl", "multi", "prep", "prepx", "prepq", "updw", "qfu", "drop"}
  MaxSteps = 100
  Gtx = {TRUE, FALSE}
  Lits = {TRUE, FALSE}
CONSTRAINT HighWater
POSTCONDITION Post
CHECK_DEADLOCK FALSE
