SPECIFICATION Spec
CONSTANTS
  EndKinds = {"commit", "rollback"}
  StepKinds <- AllKinds
  MaxSteps = 3
  Gtx = {TRUE, FALSE}
  Lits = {TRUE, FALSE}
INVARIANTS TypeOK
CHECK_DEADLOCK FALSE
