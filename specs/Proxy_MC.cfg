SPECIFICATION Spec
CONSTANTS
  StepKinds <- AllKinds
  MaxSteps = 3
  Gtx = {TRUE, FALSE}
  Lits = {TRUE, FALSE}
INVARIANTS TypeOK
CHECK_DEADLOCK FALSE
