SPECIFICATION Spec
CONSTANTS
  Conns = {1, 2}
  Ids = {"good"}
  RegReplies = {"ok", "fail", "neterr"}
  Modes = {"auto", "explicit"}
  Strict = TRUE
  MaxFaults = 2
  MaxDml = 1
  MaxP2 = 2
  MaxCmds = 9
VIEW View
CONSTRAINT Bounded
INVARIANTS TypeOK LegalSequence AcceptedLegal RegisterBeforeStart OneIdentifier NoCommitAfterFailure ErrorSurfaces
  RolledBackOnFailure PhaseOneComplete PoolClean ExactlyOneOutcome NothingEarly
CHECK_DEADLOCK FALSE
