--------------------------- MODULE TCCBranch_Trace ---------------------------
(* Trace validation for TCCBranch.tla (C05): every recorded execution of the real   *)
(* TCCServiceProxy.Prepare and of the real phase-two dispatch against the           *)
(* coordinator stand-in must be a behaviour of TCCBranch.                           *)
EXTENDS TCCBranch, Json, IOUtils

VARIABLES l, s0

Trace  == ndJsonDeserialize(IOEnv.TRACE_FILE)
Starts == {i \in 1..Len(Trace) : Trace[i].k = 1}
EndOf(s) == s + Trace[s].n - 1
Max(a, b) == IF a > b THEN a ELSE b

tvars == <<vars, l, s0>>

TraceInit ==
  \E s \in Starts :
    /\ s0 = s /\ l = s + 1
    /\ Trace[s].ev = "Start"
    /\ acts = {Trace[s].acts[i] : i \in 1..Len(Trace[s].acts)}   \* the action set registered in this execution
    /\ np = 0 /\ cur = [st |-> "none"] /\ nbid = 0
    /\ nd = 0 /\ dlv = [st |-> "none"] /\ env = <<>>
    /\ TLCSet(Trace[s].t, s + 1)

IsEv(e) == /\ l <= EndOf(s0)
           /\ Trace[l].ev = e
           /\ l' = l + 1 /\ s0' = s0

E == Trace[l]

TPrepare     == IsEv("Prepare") /\ Prepare(E.a, E.shape)
TRegisterReq == IsEv("RegisterReq") /\ cur.st # "none" /\ RegisterReq(E.res, E.bt, E.dataok, E.xidok)
TRegisterRep == IsEv("RegisterRep") /\ cur.st # "none" /\ RegisterRep(E.r, E.bid)
TTry         == IsEv("Try") /\ cur.st # "none" /\ Try(E.a, E.o)
TReturn      == IsEv("Return") /\ cur.st # "none" /\ Return(E.v)
TDeliver     == IsEv("Deliver") /\ cur.st # "none" /\ Deliver(E.kind, E.target, E.xid, E.bid, E.data, E.uo)
TInvoke      == IsEv("Invoke") /\ dlv.st = "open" /\ Invoke(E.kind, E.a, E.xid, E.bid, E.ctxeq)
TReply       == IsEv("Reply") /\ Reply(E.s)
TPanic       == IsEv("Panic") /\ Panic
TEnd         == IsEv("End") /\ Finished /\ UNCHANGED vars

TraceNext == TPrepare \/ TRegisterReq \/ TRegisterRep \/ TTry \/ TReturn \/ TDeliver \/ TInvoke \/ TReply
             \/ TPanic \/ TEnd
TraceSpec == TraceInit /\ [][TraceNext]_tvars

Invs == [RegisterBeforeTry |-> RegisterBeforeTry, NoTryAfterFailedRegister |-> NoTryAfterFailedRegister,
         ExactlyOneBranchPerPrepare |-> ExactlyOneBranchPerPrepare, OncePerRequest |-> OncePerRequest,
         SameIds |-> SameIds, ContextEquivalent |-> ContextEquivalent, StatusIffNoError |-> StatusIffNoError,
         UnknownRunsNothing |-> UnknownRunsNothing]
Failed == {i \in DOMAIN Invs : ~Invs[i]}

HighWater ==
  IF Failed = {} THEN TLCSet(Trace[s0].t, Max(TLCGet(Trace[s0].t), l))
  ELSE PrintT(<<"INVFAIL", Trace[s0].t, l - s0, Failed>>) /\ FALSE

Rejected == {s \in Starts : TLCGet(Trace[s].t) # EndOf(s) + 1}
Post ==
  /\ PrintT(<<"TRACES", Cardinality(Starts), "REJECTED", Cardinality(Rejected)>>)
  /\ \A s \in Rejected :
       LET hw == TLCGet(Trace[s].t) IN
       PrintT(<<"REJECT", Trace[s].t, hw - s + 1, IF hw <= EndOf(s) THEN Trace[hw].ev ELSE "?">>)
=============================================================================
