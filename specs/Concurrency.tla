----------------------------- MODULE Concurrency -----------------------------
(***************************************************************************)
(* C20 - concurrent use of one client: resource accounting and termination.*)
(*                                                                         *)
(* N goroutines run global transactions through one initialised client and *)
(* shared database handles while the coordinator delivers phase two.  Every *)
(* transaction borrows pooled connections (phase one, and again for each    *)
(* phase-two delivery), spawns helper goroutines and registers pending      *)
(* request futures.  The specification says what must be true when the      *)
(* system is quiescent again: everything borrowed has been returned, and    *)
(* every transaction has terminated.  Data races are outside what a TLA+    *)
(* model can observe: the Go race detector runs as a monitor on the same    *)
(* workload and each of its reports is an event this specification never    *)
(* allows (DESIGN.md section 9).                                            *)
(***************************************************************************)
EXTENDS Integers, Sequences, FiniteSets, TLC

CONSTANTS NTx,        \* transactions in the batch
          MaxBranch   \* branches per transaction

VARIABLES st,       \* tx -> "new" | "p1" | "decided" | "p2" | "done"
          branches, \* tx -> number of registered branches
          p2left,   \* tx -> phase-two deliveries still to be made
          inUse,    \* pooled connections currently borrowed
          futures,  \* pending request futures
          helpers   \* helper goroutines alive

vars == <<st, branches, p2left, inUse, futures, helpers>>
Tx == 1..NTx

Init == /\ st = [t \in Tx |-> "new"] /\ branches = [t \in Tx |-> 0] /\ p2left = [t \in Tx |-> 0]
        /\ inUse = 0 /\ futures = 0 /\ helpers = 0

Start(t) == /\ st[t] = "new" /\ st' = [st EXCEPT ![t] = "p1"]
            /\ futures' = futures + 1          \* GlobalBegin in flight
            /\ UNCHANGED <<branches, p2left, inUse, helpers>>

\* one branch: borrow a connection, register (a future), commit or roll back locally, return the connection
Branch(t, ok) ==
  /\ st[t] = "p1" /\ branches[t] < MaxBranch /\ futures > 0
  /\ branches' = [branches EXCEPT ![t] = IF ok THEN @ + 1 ELSE @]
  /\ UNCHANGED <<st, p2left, inUse, futures, helpers>>   \* borrow+return and request+reply are balanced inside

Decide(t) == /\ st[t] = "p1" /\ st' = [st EXCEPT ![t] = IF branches[t] = 0 THEN "done" ELSE "p2"]
             /\ p2left' = [p2left EXCEPT ![t] = branches[t]]
             /\ futures' = futures - 1         \* the begin/commit/rollback exchange is over
             /\ UNCHANGED <<branches, inUse, helpers>>

\* one phase-two delivery: a helper goroutine borrows a connection, works, returns it and answers
P2Begin(t) == /\ st[t] = "p2" /\ p2left[t] > 0
              /\ inUse' = inUse + 1 /\ helpers' = helpers + 1
              /\ p2left' = [p2left EXCEPT ![t] = @ - 1]
              /\ UNCHANGED <<st, branches, futures>>
P2End == /\ helpers > 0 /\ inUse > 0
         /\ inUse' = inUse - 1 /\ helpers' = helpers - 1
         /\ UNCHANGED <<st, branches, p2left, futures>>
Finish(t) == /\ st[t] = "p2" /\ p2left[t] = 0 /\ st' = [st EXCEPT ![t] = "done"]
             /\ UNCHANGED <<branches, p2left, inUse, futures, helpers>>

Next == \/ \E t \in Tx : Start(t) \/ Decide(t) \/ P2Begin(t) \/ Finish(t)
        \/ \E t \in Tx, ok \in BOOLEAN : Branch(t, ok)
        \/ P2End

Spec == Init /\ [][Next]_vars /\ WF_vars(Next)

AllDone == \A t \in Tx : st[t] = "done"
Quiescent == AllDone /\ helpers = 0
\* Balanced: at quiescence nothing is borrowed and nothing is pending
Balanced == Quiescent => (inUse = 0 /\ futures = 0)
TypeOK == inUse \in 0..(NTx * MaxBranch) /\ futures \in 0..NTx /\ helpers \in 0..(NTx * MaxBranch)
\* every transaction terminates and the system comes to rest
AllTerminate == <>[](AllDone /\ helpers = 0 /\ inUse = 0)
=============================================================================
