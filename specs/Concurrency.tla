----------------------------- MODULE Concurrency -----------------------------
(***************************************************************************)
(* C20 - concurrent use of one client: resource accounting and termination.*)
(*                                                                         *)
(* N goroutines run global transactions through one initialised client and *)
(* shared database handles while the coordinator delivers phase two and     *)
(* sessions to the coordinator come and go.  A transaction has up to        *)
(* MaxBranch branches of four kinds:                                        *)
(*   at    AT branch: borrows a pooled connection in phase one (returned    *)
(*         inside) and leaves an undo row; phase two borrows a connection   *)
(*         again and removes the undo row                                   *)
(*   xa    XA branch: the resource manager holds the branch's connection    *)
(*         from XA START on and the database holds a prepared branch from   *)
(*         XA PREPARE on; phase two ends both                               *)
(*   tcc   TCC action: try in phase one; exactly one of confirm / cancel    *)
(*         is owed to it in phase two                                       *)
(*   tccf  TCC action behind the fence: additionally every method runs      *)
(*         inside a fence transaction on a pooled connection                *)
(* Every transaction registers pending request futures, phase two spawns    *)
(* helper goroutines.  The specification says what must be true when the    *)
(* system is quiescent again: everything borrowed has been returned, and    *)
(* every transaction has terminated - whatever its outcome (committed,      *)
(* rolled back by the business, failed because of a lock conflict or a      *)
(* request that died with its session).  Data races are outside what a TLA+ *)
(* model can observe: the Go race detector runs as a monitor on the same    *)
(* workload and each of its reports is an event this specification never    *)
(* allows (DESIGN.md section 9).                                            *)
(***************************************************************************)
EXTENDS Integers, Sequences, FiniteSets, TLC

CONSTANTS NTx,        \* transactions in the batch
          MaxBranch,  \* branches per transaction
          MaxSess     \* sessions to the coordinator open at the same time

Kinds == {"at", "xa", "tcc", "tccf"}

VARIABLES st,       \* tx -> "new" | "p1" | "p2" | "done"
          br,       \* tx -> sequence of the kinds of its registered branches
          p2left,   \* tx -> indices of the branches phase two is still to be delivered to
          inUse,    \* pooled connections currently borrowed
          futures,  \* pending request futures
          run,      \* kind -> phase-two helper goroutines alive
          held,     \* XA connections held by the resource manager
          prepared, \* XA branches in PREPARED state in the database
          tccOpen,  \* TCC actions tried and still owed their second phase
          fenceTx,  \* open fence transactions
          undo,     \* undo rows
          sess      \* open sessions

vars == <<st, br, p2left, inUse, futures, run, held, prepared, tccOpen, fenceTx, undo, sess>>
Tx == 1..NTx
Count(k, kk) == IF k \in kk THEN 1 ELSE 0

Init == /\ st = [t \in Tx |-> "new"] /\ br = [t \in Tx |-> <<>>] /\ p2left = [t \in Tx |-> {}]
        /\ inUse = 0 /\ futures = 0 /\ run = [k \in Kinds |-> 0]
        /\ held = 0 /\ prepared = 0 /\ tccOpen = 0 /\ fenceTx = 0 /\ undo = 0 /\ sess = 1

\* sessions come and go underneath the traffic; the client is never left without one (what a client
\* without any session does is C19's business).  A request that dies with its session is a failed step.
OpenSess == sess < MaxSess /\ sess' = sess + 1
            /\ UNCHANGED <<st, br, p2left, inUse, futures, run, held, prepared, tccOpen, fenceTx, undo>>
LoseSess == sess > 1 /\ sess' = sess - 1
            /\ UNCHANGED <<st, br, p2left, inUse, futures, run, held, prepared, tccOpen, fenceTx, undo>>

Start(t) == /\ st[t] = "new" /\ st' = [st EXCEPT ![t] = "p1"]
            /\ futures' = futures + 1          \* GlobalBegin in flight
            /\ UNCHANGED <<br, p2left, inUse, run, held, prepared, tccOpen, fenceTx, undo, sess>>

\* one branch of kind k.  Borrow+return of the phase-one connection, request+reply of the registration
\* and (tccf) begin+commit of the fence transaction are balanced inside the step.  A failed branch
\* (lock conflict, lock wait, refused or lost registration, failed statement) leaves nothing behind:
\* the local transaction is rolled back, the XA branch is ended and rolled back and its hold released.
Branch(t, k, ok) ==
  /\ st[t] = "p1" /\ Len(br[t]) < MaxBranch /\ futures > 0
  /\ IF ok
     THEN /\ br' = [br EXCEPT ![t] = Append(@, k)]
          /\ undo' = undo + Count(k, {"at"})
          /\ held' = held + Count(k, {"xa"})
          /\ prepared' = prepared + Count(k, {"xa"})
          /\ tccOpen' = tccOpen + Count(k, {"tcc", "tccf"})
     ELSE UNCHANGED <<br, undo, held, prepared, tccOpen>>
  /\ UNCHANGED <<st, p2left, inUse, futures, run, fenceTx, sess>>

\* the global decision (commit, rollback, or the coordinator's time-out of a transaction whose owner
\* could not tell its decision): the begin/commit/rollback exchange is over, phase two is owed to
\* every registered branch
Decide(t) == /\ st[t] = "p1"
             /\ st' = [st EXCEPT ![t] = IF br[t] = <<>> THEN "done" ELSE "p2"]
             /\ p2left' = [p2left EXCEPT ![t] = 1..Len(br[t])]
             /\ futures' = futures - 1
             /\ UNCHANGED <<br, inUse, run, held, prepared, tccOpen, fenceTx, undo, sess>>

\* one phase-two delivery: a helper goroutine works on the branch ...
P2Begin(t, i) ==
  /\ st[t] = "p2" /\ i \in p2left[t]
  /\ LET k == br[t][i] IN
     /\ run' = [run EXCEPT ![k] = @ + 1]
     /\ inUse' = inUse + Count(k, {"at", "tccf"})     \* xa works on the held connection, tcc on none
     /\ fenceTx' = fenceTx + Count(k, {"tccf"})
  /\ p2left' = [p2left EXCEPT ![t] = @ \ {i}]
  /\ UNCHANGED <<st, br, futures, held, prepared, tccOpen, undo, sess>>
\* ... and is done with it: everything the branch held is given back
P2End(k) ==
  /\ run[k] > 0 /\ run' = [run EXCEPT ![k] = @ - 1]
  /\ inUse' = inUse - Count(k, {"at", "tccf"})
  /\ fenceTx' = fenceTx - Count(k, {"tccf"})
  /\ undo' = undo - Count(k, {"at"})
  /\ held' = held - Count(k, {"xa"})
  /\ prepared' = prepared - Count(k, {"xa"})
  /\ tccOpen' = tccOpen - Count(k, {"tcc", "tccf"})
  /\ UNCHANGED <<st, br, p2left, futures, sess>>
Finish(t) == /\ st[t] = "p2" /\ p2left[t] = {} /\ st' = [st EXCEPT ![t] = "done"]
             /\ UNCHANGED <<br, p2left, inUse, futures, run, held, prepared, tccOpen, fenceTx, undo, sess>>

Work == \/ \E t \in Tx : Start(t) \/ Decide(t) \/ Finish(t)
        \/ \E t \in Tx, i \in 1..MaxBranch : P2Begin(t, i)
        \/ \E t \in Tx, k \in Kinds, ok \in BOOLEAN : Branch(t, k, ok)
        \/ \E k \in Kinds : P2End(k)
Next == Work \/ OpenSess \/ LoseSess

\* fairness on the work only: sessions may come and go for ever without keeping a transaction from ending
Spec == Init /\ [][Next]_vars /\ WF_vars(Work)

AllDone == \A t \in Tx : st[t] = "done"
NoHelpers == \A k \in Kinds : run[k] = 0
Quiescent == AllDone /\ NoHelpers
\* Balanced: at quiescence nothing is borrowed, nothing is pending and nothing is owed
Balanced == Quiescent => /\ inUse = 0 /\ futures = 0
                         /\ held = 0 /\ prepared = 0
                         /\ tccOpen = 0 /\ fenceTx = 0
                         /\ undo = 0
Cap == NTx * MaxBranch
TypeOK == /\ inUse \in 0..Cap /\ futures \in 0..NTx /\ \A k \in Kinds : run[k] \in 0..Cap
          /\ held \in 0..Cap /\ prepared \in 0..Cap /\ tccOpen \in 0..Cap /\ fenceTx \in 0..Cap /\ undo \in 0..Cap
          /\ sess \in 1..MaxSess
\* every transaction terminates and the system comes to rest
AllTerminate == <>[](AllDone /\ NoHelpers /\ inUse = 0 /\ held = 0)
=============================================================================
