--------------------------- MODULE ATRollback_MC ---------------------------
EXTENDS ATRollback, IOUtils

AllKinds == {"ins", "upd", "del", "ups"}
Row00 == [w |-> 0, u |-> 0]
Row01 == [w |-> 0, u |-> 1]
InitRowsA == {Absent, Row00}
InitRowsB == {Absent, Row00, Row01}
\* rows that differ in the written part (w2 is NULL for w = 0 in the nullable schema): the rows of one image differ
Row10 == [w |-> 1, u |-> 0]
InitRowsC == {Absent, Row00, Row10}
EnvBool(s) == s = "true"
EnvOnlyCare == EnvBool(IOEnv.ONLYCARE)
EnvValidate == EnvBool(IOEnv.VALIDATE)
EnvMaxStmts == atoi(IOEnv.MAXSTMTS)
EnvMaxBranches == atoi(IOEnv.MAXBRANCHES)

View == <<db, snap0, nbr, imgs, undo, rolled, tried, foreign, phase, next>>

Finished == phase = "done"
ScenFile == IOEnv.SCEN_FILE
Dump ==
  Finished =>
    LET r == Serialize(<<[init |-> snap0, steps |-> env]>>, ScenFile,
                       [format |-> "NDJSON", charset |-> "UTF-8",
                        openOptions |-> <<"WRITE", "CREATE", "APPEND">>])
    IN r = r

\* C18: every scenario under every spelling of its statement (WHERE shape x parameter placement)
Shapes == {"eq", "in", "between", "paren", "andtrue", "orderlimit", "not", "cmp"}
PlacesS == {"bound", "literal", "setlit", "wherelit"}
DumpShapes ==
  Finished =>
    \A sh \in Shapes, pl \in PlacesS :
      LET r == Serialize(<<[init |-> snap0, steps |-> env, shape |-> sh, place |-> pl]>>, ScenFile,
                         [format |-> "NDJSON", charset |-> "UTF-8",
                          openOptions |-> <<"WRITE", "CREATE", "APPEND">>])
      IN r = r
=============================================================================
