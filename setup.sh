#!/bin/sh
# Build everything the checks need from files on disk only (offline).
set -e
cd "$(dirname "$0")"
export GOFLAGS=-mod=mod GOPROXY=off GOSUMDB=off GOTOOLCHAIN=local
python3 - <<'PY'
import sys
sys.path.insert(0, '.')
from vlib import core
core.go_sum()
PY
cd harness
mkdir -p bin
for d in cmd/*/; do
  n=$(basename "$d")
  go build -tags verif -o "bin/$n" "./cmd/$n"
done
echo "setup ok"
