"""C11 - phase-two commit deletes exactly the committed branch's undo log, eventually."""

_TB = ["TLC 1.8.0 (tla2tools.jar) incl. CommunityModules Json/IOUtils",
       "the Go toolchain and the harness drivers in /verif/harness",
       "the correspondence between specs/*.tla and the prose property (reviewed by hand)",
       "the in-process coordinator stand-in (harness/tc): a fake getty.Session registered through the "
       "public OnOpen entry point; BranchCommitRequests travel through the real OnMessage, processor table, "
       "ATSourceManager and AsyncWorker; only TCP and the byte codec are bypassed",
       "memsql, the in-memory MySQL stand-in (harness/memsql): its statement journal (rows removed per DELETE), "
       "fault plan (connection attempts, DELETE on undo_log), statement gate (stalled DELETEs) and snapshots",
       "the quiescence bound of harness/cmd/asyncc (see level_note)"]


def _setting(limit, chan, workers, fan, interval="20ms"):
    name = "l%d-q%d-w%d-f%d" % (limit, chan, workers, fan) + ("" if interval == "20ms" else "-i" + interval)
    return name, {"LIMIT": str(limit), "CHAN": str(chan), "WORKERS": str(workers), "FANBUF": str(fan), "INTERVAL": interval}


# (BufferLimit, ReceiveChanSize, CommitWorkerCount, CommitWorkerBufferSize): the tightest pipeline, a small
# one with a real batch threshold and two workers, the shipped defaults (with a short flush interval)
_QUICK = [_setting(1, 1, 1, 1), _setting(3, 2, 2, 1), _setting(10000, 10000, 10, 1000)]
_THOROUGH = _QUICK + [_setting(0, 1, 2, 2), _setting(1, 2, 1, 2), _setting(3, 1, 1, 1), _setting(6, 4, 2, 2),
                      _setting(10000, 1, 1, 1), _setting(3, 2, 2, 1, "50ms")]


def _legs(tier):
    out = []
    for name, env in (_THOROUGH if tier == "thorough" else _QUICK):
        e = dict(env)
        if tier == "thorough":
            e["BOUND_MS"] = "8000"
        out.append({
            "name": "asyncc-" + name, "driver": "asyncc", "env": e,
            "gen_quick": [("ATAsyncCommit_Gen", "ATAsyncCommit_Gen_Quick.cfg")],
            "gen_thorough": [("ATAsyncCommit_Gen", "ATAsyncCommit_Gen_Thorough.cfg")],
            "trace": ("ATAsyncCommit_Trace", "ATAsyncCommit_Trace.cfg"),
            "shards": 12, "gen_timeout": 600, "heap": "4g",
            # with two or more fanout workers what is lost depends on which of them gives its batch back first: a
            # rejection is reproduced by its class showing again in a re-run of the whole leg
            "repro_full": int(env["WORKERS"]) >= 2,
        })
    # the same scenarios under the race detector (one setting with two fanout workers): the run loop, the fanout
    # workers and the request goroutines share the queue, the retry list and the batch buffers; every distinct
    # report is a trace of one event ("Race") that the trace specification has no action for.  The reports
    # aggregate over the whole leg, so a rejection is reproduced by re-running the leg.
    name, env = _setting(3, 2, 2, 1)
    out.append({
        "name": "asyncc-race-" + name, "driver": "asyncc", "race": True, "env": dict(env, C11_RACE="1"),
        "gen_quick": [("ATAsyncCommit_Gen", "ATAsyncCommit_Gen_Quick.cfg")],
        "gen_thorough": [("ATAsyncCommit_Gen", "ATAsyncCommit_Gen_Thorough.cfg")],
        "trace": ("ATAsyncCommit_Trace", "ATAsyncCommit_Trace.cfg"),
        "shards": 12, "gen_timeout": 600, "heap": "4g", "repro_full": True,
    })
    return out


def _mc(chan, limit, fan, workers, maxreq, nrows=3):
    return ("ATAsyncCommit_MC", "ATAsyncCommit_MC.cfg",
            {"workers": 8, "env": {"CHAN": str(chan), "LIMIT": str(limit), "FANBUF": str(fan), "WORKERS": str(workers),
                                   "MAXREQ": str(maxreq), "NROWS": str(nrows)}})


CHECK = {
    "level": "model_checking",
    "level_text": "ATAsyncCommit.tla has two layers. The property layer (undo-log rows keyed by resource, xid and branch "
                  "id; accepted requests; replies; rows ever deleted) states OnlyAccepted (every row ever deleted was "
                  "requested with exactly that resource, xid and branch id), AlwaysCommitted (every answer is "
                  "'committed') and, as liveness under weak fairness of the run loop, ticker, workers and 'failures are "
                  "transient, an unknown resource appears', EventuallyAnswered and EventuallyGone. The design layer is "
                  "the pipeline of the code (callers blocked on the receive channel, batch flushed at 2/3 of the buffer "
                  "limit or on a tick, fanout channel, workers grouping a batch by resource, re-queueing on unknown "
                  "resource / failed connection / failed delete) with three switches between the code as it is and the "
                  "design that has the property. TLC checks safety and liveness of the latter without state constraint "
                  "for the worker settings used below (and finds the wedge, the lost contexts and the cross-product "
                  "deletion when a switch is set to the code's / the batch statement's behaviour: "
                  "ATAsyncCommit_MC_AsIs.cfg). ATAsyncCommit_Gen.tla enumerates the environment: every sequence of <= 3 "
                  "requests over 2 resources x 2 xids x 2 branch ids up to renaming (thorough: <= 4, multisets of 5), with "
                  "pauses, with <= 2 transient failures of connection acquisition / of the DELETE, with resource B "
                  "registered late at every position, with 4..5 requests arriving while A's database is stalled or "
                  "while B is still unknown. Each scenario is replayed on the real OnMessage -> rmBranchCommitProcessor "
                  "-> ATSourceManager.BranchCommit -> AsyncWorker -> BatchDeleteUndoLog path, one OS process per worker "
                  "setting (3 quick, 9 thorough), over memsql tables pre-populated with the requested rows and decoys "
                  "(all other xid/branch combinations, ids that extend a requested id, joined id lists); every request, "
                  "reply, undo_log DELETE with the rows it removed, and the final table contents are validated by TLC "
                  "against the property layer.",
    "level_note": "Trusted: TLC, memsql's journal (which rows a DELETE removed), the coordinator stand-in, the scenario "
                  "interpreter in harness/cmd/asyncc. Liveness on the real code is bounded: after the last step (faults "
                  "fired or disarmed, stall released, resource registered) the harness waits until every requested row of "
                  "a registered resource is gone and every request answered, at most 5 s (thorough 8 s) and gives up "
                  "earlier when neither stand-in saw any activity (statement, connection attempt, reply) for "
                  "max(600 ms, 30 flush intervals) - the worker retries at least once per interval, so silence with work "
                  "outstanding means stuck or lost; a miss is a violation only if it reproduces on a re-run in a fresh "
                  "process. The only trace-level liveness claim is this bounded one. Capacities 0 (unbuffered channels) "
                  "are not modelled; requests with an empty resource id (silently dropped by the worker) are outside the "
                  "request space. The pipeline itself is not observed, so a refactored worker that keeps the property "
                  "is accepted. BatchDeleteUndoLog with more than one id per list fails ('expected 4 arguments, got 2') "
                  "but the worker only ever passes one xid and one branch id: not reachable from this property "
                  "(harness/bin/asyncc -mode probe shows it).",
    "technique": "TLA+ spec (safety + liveness under fairness) checked with TLC; TLC-enumerated request / failure / "
                 "pressure scenarios replayed on the real AsyncWorker over an in-memory MySQL, one process per worker "
                 "setting; TLC trace validation against the property layer",
    "mc_quick": [_mc(1, 1, 1, 1, 4, nrows=2), _mc(2, 3, 1, 2, 3)],
    "mc_thorough": [_mc(1, 1, 1, 1, 4), _mc(2, 3, 1, 2, 4), _mc(10, 100, 10, 2, 3), _mc(1, 0, 2, 2, 3),
                    _mc(2, 1, 2, 1, 3), _mc(1, 3, 1, 1, 4), _mc(1, 100, 1, 1, 4)],
    "legs_fn": _legs,
    "assumptions": ["memsql behaves like MySQL for DELETE FROM undo_log WHERE branch_id IN (?) AND xid IN (?) with a "
                    "string bound to the bigint column",
                    "a transient failure is one failed connection attempt or one failed DELETE (error 1105, no effect); "
                    "a stalled database holds DELETEs on undo_log until released; every scenario releases / registers "
                    "everything before the final wait",
                    "requests are delivered one after the other; a delivery that is not answered within "
                    "4 flush intervals + 100 ms is left pending and the next one is delivered",
                    "the flush interval is configured to 20 ms (50 ms in one thorough setting) instead of the default 1 s"],
    "trusted_base": _TB,
}
