"""Registry of the checks ./check implements.  MANIFEST.json is generated from it
(tools/gen_manifest.py)."""

HOOK_COMMITS = ["cf3ff38", "68dfd22"]

COMMON_TB = ["TLC 1.8.0 (tla2tools.jar) incl. CommunityModules Json/IOUtils",
             "the Go toolchain and the harness drivers in /verif/harness",
             "the correspondence between specs/*.tla and the prose property (reviewed by hand)"]

NOT_APPLICABLE = {}

CHECKS = {}

CHECKS["C13"] = {
    "level": "model_checking",
    "level_text": "Frame.tla states the reader's contract (need-more / message+length / error) under the getty receive "
                  "loop; TLC checks the design exhaustively for 1..2 frames over 12 frame shapes with every chunking, "
                  "generates every chunking with a bounded number of cuts as scenarios, the real RpcPackageHandler.Read "
                  "is driven through them by a transcription of getty's handleTCPPackage, and TLC validates every "
                  "recorded trace against the specification (invariants evaluated in every state). Random long streams "
                  "and junk are added per seed. Bounded model checking plus conformance is the right level: the reader "
                  "is a small sequential state machine whose whole difficulty is the cut positions.",
    "level_note": "Trusted: TLC, the 40-line transcription of dubbo-getty v1.5.0 session.handleTCPPackage, the "
                  "independent frame encoder in harness/cmd/frame (written from the layout comment), the default "
                  "max message length 102400. Bounds: <=3 frames, <=3 cuts for enumerated scenarios; random beyond.",
    "technique": "TLA+ spec + TLC exhaustive design check; TLC-enumerated fragmentation scenarios replayed on the real "
                 "reader; TLC trace validation of every recorded execution",
    "mc": [("Frame_MC", "Frame_MC.cfg", {"workers": 8})],
    "legs": [{
        "name": "frame", "driver": "frame",
        "gen_quick": [("Frame_MC", "Frame_Gen1.cfg"), ("Frame_MC", "Frame_Gen2.cfg"), ("Frame_MC", "Frame_Gen3.cfg")],
        "gen_thorough": [("Frame_MC", "Frame_Gen1T.cfg"), ("Frame_MC", "Frame_Gen2T.cfg"), ("Frame_MC", "Frame_Gen3.cfg")],
        "trace": ("Frame_Trace", "Frame_Trace.cfg"),
    }],
    "assumptions": ["getty drives Read exactly as session.handleTCPPackage of dubbo-getty v1.5.0 does",
                    "frame bytes come from an independent encoder of the Seata v1 frame layout"],
    "trusted_base": COMMON_TB,
}

HOOK_COMMITS = ["cf3ff38", "68dfd22"]

TC_TB = COMMON_TB + ["the in-process coordinator stand-in (harness/tc): a fake getty.Session registered through the "
                     "public OnOpen entry point; requests travel through the real GettyRemotingClient, session "
                     "selection and futures table; only TCP and the byte codec are bypassed"]

_tm_common = {
    "level": "model_checking",
    "legs": None,
    "assumptions": ["the coordinator stand-in answers synchronously inside the client's WritePkg (reply decided at "
                    "the moment the request is observed); a transport error is a WritePkg error",
                    "cancellation is injected between protocol steps, not inside a blocked network call"],
    "trusted_base": TC_TB,
}

CHECKS["C04"] = dict(_tm_common, **{
    "level_text": "TM.tla states what the coordinator may observe from one WithGlobalTx scope and what the scope may "
                  "return (one truthful decision, only by the launcher, retry only after a transport error and within "
                  "the configured budget, nil only when earned, never a panic). TLC checks the design for every retry "
                  "budget 0..3 and enumerates every behaviour of the environment (6 root modes x callback outcome "
                  "nil/err/panic x begin reply ok/fail/transport error x every reply script up to 4 transport errors "
                  "x cancellation at every step); each is replayed on the real tm.WithGlobalTx with real backoff and "
                  "the recorded trace is validated by TLC against TM.tla.",
    "level_note": "Trusted: TLC, the coordinator stand-in, the scenario interpreter in harness/cmd/tm. 'No reply' is "
                  "represented by its observable consequence at this layer (an error from SendSyncRequest); the real "
                  "20 s timeout is C14's. Bounds: one scope, <=4 transport errors per loop, budgets 0..3.",
    "technique": "TLA+ spec + TLC exhaustive design check; TLC-enumerated fault/cancellation scenarios replayed on the "
                 "real WithGlobalTx; TLC trace validation",
    "mc": [("TM_MC", "TM_MC_C04.cfg", {"workers": 4, "env": {"MAXRETRY": str(r)}}) for r in (0, 1, 2, 3)],
    "legs": [{
        "name": "tm", "driver": "tm",
        "gen": [("TM_MC", "TM_Gen_C04.cfg", {"MAXRETRY": str(r)}) for r in (0, 1, 2, 3)],
        "trace": ("TM_Trace", "TM_Trace.cfg"),
    }],
})

CHECKS["C07"] = dict(_tm_common, **{
    "level_text": "TM.tla gives the propagation table (join / begin new / run without / refuse) and requires that the "
                  "callback sees the right xid, that only the scope that began a transaction ends it, and that after a "
                  "child scope returns the enclosing scope still sees its own xid, role and name. TLC checks the design "
                  "for trees of depth 3 with 2 children and enumerates all scope trees (chains to depth 3; two children "
                  "to depth 2) over 6 modes x {shared, fresh} context x {nil, err}; each tree is executed as nested real "
                  "WithGlobalTx calls - fresh contexts are produced by the real gRPC interceptors, gin middleware and "
                  "dubbo filter - and TLC validates the recorded trace.",
    "level_note": "Trusted: TLC, the coordinator stand-in, the scenario interpreter, httptest/gin and hand-carried gRPC "
                  "metadata / dubbo attachments standing for the network hop. Bounds: depth 3, 2 children.",
    "technique": "TLA+ spec + TLC exhaustive design check; TLC-enumerated scope trees replayed as nested real "
                 "WithGlobalTx calls through the real integrations; TLC trace validation",
    "mc": [("TM_MC", "TM_MC_C07.cfg", {"workers": 8})],
    "legs": [{
        "name": "tm", "driver": "tm",
        "gen_quick": [("TM_MC", "TM_Gen_C07.cfg", {"MAXDEPTH": "3", "MAXKIDS": "1"})],
        "gen_thorough": [("TM_MC", "TM_Gen_C07.cfg", {"MAXDEPTH": "3", "MAXKIDS": "1"}),
                         ("TM_MC", "TM_Gen_C07.cfg", {"MAXDEPTH": "2", "MAXKIDS": "2"})],
        "trace": ("TM_Trace", "TM_Trace.cfg"),
    }],
})
