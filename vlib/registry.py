"""Registry of the checks ./check implements.  MANIFEST.json is generated from it
(tools/gen_manifest.py)."""

HOOK_COMMITS = ["cf3ff38", "68dfd22"]

COMMON_TB = ["TLC 1.8.0 (tla2tools.jar) incl. CommunityModules Json/IOUtils",
             "the Go toolchain and the harness drivers in /verif/harness",
             "the correspondence between specs/*.tla and the prose property (reviewed by hand)"]

NOT_APPLICABLE = {}

CHECKS = {}

CHECKS["C13"] = {
    "level": "model_checking",
    "level_text": "Frame.tla states the reader's contract (need-more / message+length / error) under the getty receive "
                  "loop; TLC checks the design exhaustively for 1..2 frames over 12 frame shapes with every chunking, "
                  "generates every chunking with a bounded number of cuts as scenarios, the real RpcPackageHandler.Read "
                  "is driven through them by a transcription of getty's handleTCPPackage, and TLC validates every "
                  "recorded trace against the specification (invariants evaluated in every state). Random long streams "
                  "and junk are added per seed. Bounded model checking plus conformance is the right level: the reader "
                  "is a small sequential state machine whose whole difficulty is the cut positions.",
    "level_note": "Trusted: TLC, the 40-line transcription of dubbo-getty v1.5.0 session.handleTCPPackage, the "
                  "independent frame encoder in harness/cmd/frame (written from the layout comment), the default "
                  "max message length 102400. Bounds: <=3 frames, <=3 cuts for enumerated scenarios; random beyond.",
    "technique": "TLA+ spec + TLC exhaustive design check; TLC-enumerated fragmentation scenarios replayed on the real "
                 "reader; TLC trace validation of every recorded execution",
    "mc": [("Frame_MC", "Frame_MC.cfg", {"workers": 8})],
    "legs": [{
        "name": "frame", "driver": "frame",
        "gen_quick": [("Frame_MC", "Frame_Gen1.cfg"), ("Frame_MC", "Frame_Gen2.cfg"), ("Frame_MC", "Frame_Gen3.cfg")],
        "gen_thorough": [("Frame_MC", "Frame_Gen1T.cfg"), ("Frame_MC", "Frame_Gen2T.cfg"), ("Frame_MC", "Frame_Gen3.cfg")],
        "trace": ("Frame_Trace", "Frame_Trace.cfg"),
    }],
    "assumptions": ["getty drives Read exactly as session.handleTCPPackage of dubbo-getty v1.5.0 does",
                    "frame bytes come from an independent encoder of the Seata v1 frame layout"],
    "trusted_base": COMMON_TB,
}
