"""Registry of the checks ./check implements.  MANIFEST.json is generated from it
(tools/gen_manifest.py)."""

HOOK_COMMITS = ["cf3ff38", "68dfd22", "3f6de41", "7280be0"]

COMMON_TB = ["TLC 1.8.0 (tla2tools.jar) incl. CommunityModules Json/IOUtils",
             "the Go toolchain and the harness drivers in /verif/harness",
             "the correspondence between specs/*.tla and the prose property (reviewed by hand)"]

NOT_APPLICABLE = {}

CHECKS = {}

CHECKS["C13"] = {
    "level": "model_checking",
    "level_text": "Frame.tla states the reader's contract (need-more / message+length / error) under the getty receive "
                  "loop; TLC checks the design exhaustively for 1..2 frames over 12 frame shapes with every chunking, "
                  "generates every chunking with a bounded number of cuts as scenarios, the real RpcPackageHandler.Read "
                  "is driven through them by a transcription of getty's handleTCPPackage, and TLC validates every "
                  "recorded trace against the specification (invariants evaluated in every state). Random long streams "
                  "and junk are added per seed. Bounded model checking plus conformance is the right level: the reader "
                  "is a small sequential state machine whose whole difficulty is the cut positions.",
    "level_note": "Trusted: TLC, the 40-line transcription of dubbo-getty v1.5.0 session.handleTCPPackage, the "
                  "independent frame encoder in harness/cmd/frame (written from the layout comment), the default "
                  "max message length 102400. Bounds: <=3 frames, <=3 cuts for enumerated scenarios; random beyond.",
    "technique": "TLA+ spec + TLC exhaustive design check; TLC-enumerated fragmentation scenarios replayed on the real "
                 "reader; TLC trace validation of every recorded execution",
    "mc": [("Frame_MC", "Frame_MC.cfg", {"workers": 8})],
    "legs": [{
        "name": "frame", "driver": "frame",
        "gen_quick": [("Frame_MC", "Frame_Gen1.cfg"), ("Frame_MC", "Frame_Gen2.cfg"), ("Frame_MC", "Frame_Gen3.cfg")],
        "gen_thorough": [("Frame_MC", "Frame_Gen1T.cfg"), ("Frame_MC", "Frame_Gen2T.cfg"), ("Frame_MC", "Frame_Gen3.cfg")],
        "trace": ("Frame_Trace", "Frame_Trace.cfg"),
    }],
    "assumptions": ["getty drives Read exactly as session.handleTCPPackage of dubbo-getty v1.5.0 does",
                    "frame bytes come from an independent encoder of the Seata v1 frame layout"],
    "trusted_base": COMMON_TB,
}

HOOK_COMMITS = ["cf3ff38", "68dfd22", "3f6de41", "7280be0"]

TC_TB = COMMON_TB + ["the in-process coordinator stand-in (harness/tc): a fake getty.Session registered through the "
                     "public OnOpen entry point; requests travel through the real GettyRemotingClient, session "
                     "selection and futures table; only TCP and the byte codec are bypassed"]

_tm_common = {
    "level": "model_checking",
    "legs": None,
    "assumptions": ["the coordinator stand-in answers synchronously inside the client's WritePkg (reply decided at "
                    "the moment the request is observed); a transport error is a WritePkg error",
                    "cancellation is injected between protocol steps, not inside a blocked network call"],
    "trusted_base": TC_TB,
}

CHECKS["C04"] = dict(_tm_common, **{
    "level_text": "TM.tla states what the coordinator may observe from one WithGlobalTx scope and what the scope may "
                  "return (one truthful decision, only by the launcher, retry only after a transport error and within "
                  "the configured budget, nil only when earned, never a panic). TLC checks the design for every retry "
                  "pair of commit/rollback retry budgets in {(0,2),(2,0),(1,3),(3,1),(2,2),(1,1)} and enumerates every behaviour of the environment (6 root modes x callback outcome "
                  "nil/err/panic x begin reply ok/fail/transport error x every reply script up to 4 transport errors "
                  "x cancellation at every step); each is replayed on the real tm.WithGlobalTx with real backoff and "
                  "the recorded trace is validated by TLC against TM.tla.",
    "level_note": "Trusted: TLC, the coordinator stand-in, the scenario interpreter in harness/cmd/tm. 'No reply' is "
                  "represented by its observable consequence at this layer (an error from SendSyncRequest); the real "
                  "20 s timeout is C14's. Bounds: one scope, <=4 transport errors per loop, budgets 0..3 "
                  "(thorough: all 25 pairs over 0..4).",
    "technique": "TLA+ spec + TLC exhaustive design check; TLC-enumerated fault/cancellation scenarios replayed on the "
                 "real WithGlobalTx; TLC trace validation",
    "mc": [("TM_MC", "TM_MC_C04.cfg", {"workers": 4, "env": {"MAXRETRYC": str(c), "MAXRETRYR": str(r)}})
           for c, r in ((0, 2), (2, 0), (1, 3), (3, 1), (2, 2), (1, 1))],
    "legs": [{
        "name": "tm", "driver": "tm",
        "gen_quick": [("TM_MC", "TM_Gen_C04.cfg", {"MAXRETRYC": str(c), "MAXRETRYR": str(r)})
                      for c, r in ((0, 2), (2, 0), (1, 3), (3, 1), (2, 2), (1, 1))],
        # thorough: every pair of budgets in 0..4 x 0..4
        "gen_thorough": [("TM_MC", "TM_Gen_C04.cfg", {"MAXRETRYC": str(c), "MAXRETRYR": str(r)})
                         for c in range(5) for r in range(5)],
        "trace": ("TM_Trace", "TM_Trace.cfg"),
    }],
})

CHECKS["C07"] = dict(_tm_common, **{
    "level_text": "TM.tla gives the propagation table (join / begin new / run without / refuse) and requires that the "
                  "callback sees the right xid, that only the scope that began a transaction ends it, and that after a "
                  "child scope returns the enclosing scope still sees its own xid, role and name. TLC checks the design "
                  "for trees of depth 3 with 2 children and enumerates all scope trees (chains to depth 3; two children "
                  "to depth 2) over 6 modes x {shared, fresh} context x {nil, err}; each tree is executed as nested real "
                  "WithGlobalTx calls - fresh contexts are produced by the real gRPC interceptors, gin middleware and "
                  "dubbo filter - and TLC validates the recorded trace.",
    "level_note": "Trusted: TLC, the coordinator stand-in, the scenario interpreter, httptest/gin and hand-carried gRPC "
                  "metadata / dubbo attachments standing for the network hop. Bounds: depth 3, 2 children.",
    "technique": "TLA+ spec + TLC exhaustive design check; TLC-enumerated scope trees replayed as nested real "
                 "WithGlobalTx calls through the real integrations; TLC trace validation",
    "mc": [("TM_MC", "TM_MC_C07.cfg", {"workers": 8})],
    "legs": [{
        "name": "tm", "driver": "tm",
        "gen_quick": [("TM_MC", "TM_Gen_C07.cfg", {"MAXDEPTH": "3", "MAXKIDS": "1"})],
        "gen_thorough": [("TM_MC", "TM_Gen_C07.cfg", {"MAXDEPTH": "3", "MAXKIDS": "1"}),
                         ("TM_MC", "TM_Gen_C07.cfg", {"MAXDEPTH": "2", "MAXKIDS": "2"})],
        "trace": ("TM_Trace", "TM_Trace.cfg"),
    }],
})

AT_TB = TC_TB + ["memsql, the in-memory MySQL stand-in (harness/memsql): value kinds, scan types and error numbers "
                 "transcribed from go-sql-driver/mysql v1.6.0; row locks, unique keys, transactions, XA",
                 "the abstract-row projection of concrete tables in harness/atlab"]


def _atrb_legs(gen_quick, gen_thorough, variants_quick, variants_thorough, extra=()):
    """extra: (leg name, schema, generator cfg) triples - legs on schemas that are not in the rotation"""
    def legs(tier):
        out = []
        for name, env in (variants_thorough if tier == "thorough" else variants_quick):
            out.append({
                "name": "atrb-" + name, "driver": "atrb", "env": env,
                "gen": [("ATRollback_MC", g) for g in (gen_thorough if tier == "thorough" else gen_quick)],
                "trace": ("ATRollback_Trace", "ATRollback_Trace.cfg"),
                "shards": 8 if tier == "thorough" else 4, "gen_timeout": 3000,
            })
        # written part = one nullable column (schema t_nullw): statements that change nothing but that column, to
        # and from NULL, with and without a foreign write (StmtW = {0, 1}, initial rows NULL / 'v1')
        for lname, schema, cfg in extra:
            for name, env in (variants_thorough if tier == "thorough" else variants_quick)[:2]:
                out.append({
                    "name": "atrb-%s-%s" % (lname, name), "driver": "atrb", "env": dict(env, SCHEMA=schema),
                    "gen": [("ATRollback_MC", cfg)],
                    "trace": ("ATRollback_Trace", "ATRollback_Trace.cfg"),
                    "shards": 2, "gen_timeout": 3000,
                })
        return out
    return legs


_OC1 = ("oc1-json", {"ONLYCARE": "true", "VALIDATE": "true", "SERIALIZER": "json"})
_OC0 = ("oc0-json", {"ONLYCARE": "false", "VALIDATE": "true", "SERIALIZER": "json"})
_OC1P = ("oc1-protobuf", {"ONLYCARE": "true", "VALIDATE": "true", "SERIALIZER": "protobuf"})
_OC0P = ("oc0-protobuf", {"ONLYCARE": "false", "VALIDATE": "true", "SERIALIZER": "protobuf"})
_NV = ("oc1-novalidate", {"ONLYCARE": "true", "VALIDATE": "false", "SERIALIZER": "json"})

_at_common = {
    "level": "model_checking",
    "assumptions": ["memsql behaves like MySQL for the statements the proxy emits (lenient where MySQL is version "
                    "dependent); the coordinator rolls branches back in reverse order of registration",
                    "scenarios in which phase one itself fails without an injected fault are abandoned here (counted "
                    "as aborted) and reported by the C16/C18 checks"],
    "trusted_base": AT_TB,
    "mc": [("ATRollback_MC", "ATRollback_MC.cfg", {"workers": 8, "env": {"ONLYCARE": "true", "VALIDATE": "true"}}),
           ("ATRollback_MC", "ATRollback_MC.cfg", {"workers": 8, "env": {"ONLYCARE": "false", "VALIDATE": "true"}})],
}

CHECKS["C01"] = dict(_at_common, **{
    "level_text": "ATRollback.tla models the application table abstractly (rows [written part, unwritten part] or "
                  "absent), the statement semantics, the images a branch records and the coordinator's rollback; TLC "
                  "checks Exact/Honest/Idempotent on the design and enumerates every global transaction of <=2 "
                  "branches x 1 statement (thorough: 1 branch x 2 statements, plus a foreign write on other rows) over "
                  "insert/update/delete/upsert x key sets {}, {1}, {2}, {1,2} x 4 initial tables. Each is executed "
                  "through the real AT proxy driver over memsql on a family of concrete schemas and SQL spellings, the "
                  "coordinator stand-in delivers the branch rollbacks, and the complete projected table, the undo-log "
                  "state, the reported status and the idleness of the connections after every step are validated by "
                  "TLC against the specification, under both settings of only-care-update-columns (thorough: both "
                  "serializers, validation off).",
    "level_note": "Trusted: TLC, memsql's MySQL fidelity, the coordinator stand-in, the abstract/concrete row mapping. "
                  "Bounds: 2 keys, 3 written values, <=2 branches, <=2 statements per branch; schema family "
                  "{int, nullable, composite, varchar, auto-increment, many-types}.",
    "technique": "TLA+ spec + TLC design check; TLC-enumerated global transactions replayed through the real AT proxy "
                 "over an in-memory MySQL; full-state trace validation by TLC",
    "legs_fn": _atrb_legs(["ATRollback_Gen_C01.cfg", "ATRollback_Gen_C01S.cfg"], ["ATRollback_Gen_C01.cfg", "ATRollback_Gen_C01T.cfg"],
                          [_OC1, _OC0], [_OC1, _OC0, _OC1P, _OC0P, _NV],
                          extra=[("null", "t_nullw", "ATRollback_Gen_C01N.cfg"),
                                 # composite keys whose values concatenate to the same text
                                 ("compc", "t_compc", "ATRollback_Gen_C01S.cfg"),
                                 # secondary unique index: an upsert reaches the row through it (one statement)
                                 ("uq", "t_uq", "ATRollback_Gen_C18U.cfg")]),
})

CHECKS["C09"] = dict(_at_common, **{
    "level_text": "Same specification; the environment additionally commits one foreign write (any of the 7 abstract "
                  "rows, on either key) between the local commit and the rollback. TLC enumerates 1 branch x 1 "
                  "statement x every foreign write; the trace specification requires: dirty row => nothing changes and "
                  "the status is not 'rollbacked'; row equals the before image => success without writing; row equals "
                  "the after image => restored (a statement with rows of both kinds may also be refused as a whole).",
    "level_note": "As C01. Bounds: 1 branch, 1 statement, 1 foreign write (thorough: also 2 branches over initial rows that differ).",
    "technique": "TLA+ spec + TLC design check; TLC-enumerated (branch, foreign write) scenarios replayed on the real "
                 "rollback path; full-state trace validation by TLC",
    "legs_fn": _atrb_legs(["ATRollback_Gen_C09.cfg"], ["ATRollback_Gen_C09.cfg", "ATRollback_Gen_C09T.cfg"],
                          [_OC1, _OC0], [_OC1, _OC0, _OC1P],
                          # written part = a VARCHAR holding different texts of one number / a nullable column
                          extra=[("num", "t_numw", "ATRollback_Gen_C09.cfg"), ("null", "t_nullw", "ATRollback_Gen_C09.cfg")]),
})

CHECKS["C10"] = dict(_at_common, **{
    "level_text": "Same specification; the coordinator delivers the rollback up to 3 times, the first delivery with a "
                  "database fault at statement index 1..7 of the rollback transaction (or none), and a rollback may "
                  "overtake phase one (delivered inside the BranchRegister reply, before the undo log is flushed). "
                  "The trace specification requires: a failed attempt changes neither table nor undo log and is not "
                  "reported 'rollbacked'; repeats answer 'rollbacked' without touching the table and leave the marker; "
                  "the overtaken phase one fails, commits nothing, marker present.",
    "level_note": "As C01. Bounds: 1 branch, 1 statement, <=3 deliveries, one fault per scenario (thorough: also 2 statements per branch, fault positions 1..10).",
    "technique": "TLA+ spec + TLC design check; TLC-enumerated fault positions and delivery sequences replayed on the "
                 "real rollback path with injected database faults; full-state trace validation by TLC",
    "legs_fn": _atrb_legs(["ATRollback_Gen_C10.cfg"], ["ATRollback_Gen_C10.cfg", "ATRollback_Gen_C10T.cfg"],
                          [_OC1, _OC0], [_OC1, _OC0, _OC1P]),
})

CHECKS["C02"] = {
    "level": "model_checking",
    "level_text": "ATPhaseOne.tla is the protocol of one local transaction inside a global transaction as the database "
                  "connections and the coordinator observe it: COMMIT enabled only after the branch is registered and "
                  "the undo-log row was inserted on the same connection inside the transaction; any failed step => "
                  "nothing durable, error returned, transaction ended before the call returns, registered branch "
                  "reported failed. TLC checks the design (AllOrNothing, CommitDiscipline, ErrorSurfaces, PoolClean, "
                  "FailedIsReported) and enumerates the environment: statement kind x rows touched x autocommit/explicit "
                  "x coordinator answer {grant, lock conflict, error, transport error} x database fault at client "
                  "statement 1..9 x 0/1/2/5 failing reports. Each is replayed through the real AT proxy over memsql; "
                  "the statement journal of the physical connections and the coordinator log, merged by a counter "
                  "shared by both stand-ins, are validated by TLC against the specification together with the durable "
                  "delta and the transaction state of the pooled connections after the call.",
    "level_note": "Trusted: TLC, memsql (a failed COMMIT rolls the transaction back, as InnoDB does), the coordinator "
                  "stand-in, the shared sequence counter (taken under each stand-in's mutex). Bounds: one statement per "
                  "local transaction, one fault per scenario.",
    "technique": "TLA+ spec + TLC design check; TLC-enumerated fault positions replayed on the real proxy driver with "
                 "injected database and coordinator faults; TLC trace validation of the merged journal",
    "mc": [("ATPhaseOne_MC", "ATPhaseOne_MC.cfg", {"workers": 4})],
    "legs": [{
        "name": "atp1", "driver": "atp1",
        "gen_quick": [("ATPhaseOne_Gen", "ATPhaseOne_Gen.cfg")],
        "gen_thorough": [("ATPhaseOne_Gen", "ATPhaseOne_GenT.cfg")],
        "trace": ("ATPhaseOne_Trace", "ATPhaseOne_Trace.cfg"),
        "shards": 12,
    }],
    "assumptions": ["database faults are injected as statement errors without effect (a failed COMMIT leaves nothing "
                    "behind); a transport error is a failed write on the session"],
    "trusted_base": AT_TB,
}


# ---------------------------------------------------------------------------------------------------
# Per-property fragments: vlib/reg_<ID>.py defines CHECK (a dict like the ones above) and optionally
# NOT_APPLICABLE_REASON.  They are merged here so that properties can be developed independently.
import glob as _glob, importlib as _importlib, os as _os

for _f in sorted(_glob.glob(_os.path.join(_os.path.dirname(__file__), "reg_C*.py"))):
    _name = _os.path.basename(_f)[:-3]
    _pid = _name[4:]
    try:
        _m = _importlib.import_module("vlib." + _name)
    except Exception as _e:  # a fragment under construction must not break the other checks
        import sys as _sys
        print("registry: fragment %s skipped: %r" % (_name, _e), file=_sys.stderr)
        continue
    if hasattr(_m, "CHECK"):
        CHECKS[_pid] = _m.CHECK
    if hasattr(_m, "NOT_APPLICABLE_REASON"):
        NOT_APPLICABLE[_pid] = _m.NOT_APPLICABLE_REASON
