from .registry import AT_TB

CHECK = {
    "level": "other",
    "level_text": "Two deciders. (1) The accounting and termination clauses are stated in Concurrency.tla (every "
                  "transaction terminates, whatever its outcome; at quiescence no pooled connection, helper goroutine, "
                  "pending future, held XA connection, prepared XA branch, owed TCC second phase, open fence transaction "
                  "or undo row is outstanding; sessions come and go underneath), checked by TLC on the design incl. the "
                  "liveness property, and validated by TLC on the recorded trace of every stress batch: 8x12 (thorough "
                  "24x40) concurrent global transactions of four kinds - AT (1-2 branches, autocommit and explicit), XA "
                  "(1-2 branches over two databases behind the XA proxy: a server that detaches prepared branches, 8.0.30, "
                  "and an older one, 8.0.28, with database/sql's default pool), TCC (1-2 actions registered through the real "
                  "tcc.NewTCCServiceProxy, half of them behind fence.WithFence over a fence database) and mixed (one branch "
                  "of every kind) - committed and rolled back, with overlapping rows so that lock conflicts and lock waits "
                  "occur, through one client and shared handles, while the coordinator stand-in delivers branch commits and "
                  "rollbacks of all three branch types concurrently (repeating a request until the final status is "
                  "reported) and sessions are lost and opened (3 / 8 times per batch; the client always keeps one); then a "
                  "hot-spot phase in which 12 (24) goroutines loop over the shared read-mostly components (table-meta cache, "
                  "undo-log manager / executor holders / parser cache / keyword table, resource-manager cache and the "
                  "resources' keepers, context and propagation helpers, empty global transactions = id generator + session "
                  "selection + future table, all five load balancers, executor builder and SQL parser) next to three "
                  "goroutines running transactions and one lazy TCC registration; under several GOMAXPROCS settings. After "
                  "each batch the driver measures sql.DB InUse of every pool (handles and the resources' inner pools), "
                  "physical connections no pool owns (per server group), connections left in a transaction / in an XA state, "
                  "prepared XA branches, the resource manager's keeper entries, pending futures, the goroutine count against "
                  "the level before the batch, undo rows, per TCC branch deliveries vs. invocations of the user methods, "
                  "the business-effect counters of the fenced actions and open fence transactions. (2) The data-race clause "
                  "is decided by the Go race detector running as a monitor on that workload (the driver is built with "
                  "-race); each distinct report becomes a trace of its own with a Race event, which the trace specification "
                  "never accepts; a run-time crash of the workload (fatal error, e.g. concurrent map writes) becomes a Crash "
                  "event. A TLA+ model cannot observe memory-model races; this is said in DESIGN.md section 9 rather than "
                  "hidden. (3) The life of one XA connection between its three owners - database/sql's pool, the resource "
                  "manager's keeper and the hold-time checker - is specified with one action per holdMu critical section "
                  "in XAHold.tla (closed at most once, never lost, a held connection stays open, keeper and flag agree; "
                  "TLC, all interleavings, incl. termination; XAHold_Neg_SplitClose.cfg shows that a Close whose check "
                  "and mark are two critical sections violates NoLeak). Every maximal call sequence TLC enumerates is "
                  "stepped through a real XAConn and the abstract state after every call validated by TLC; the pool's "
                  "IsValid+Close racing the keeper's release (then CloseForce) runs 200 000 (3 000 000) times on real "
                  "goroutines and every distinct outcome must be reachable by some interleaving of the specification's "
                  "critical sections.",
    "level_note": "Trusted: the Go race detector (finds only races the executed schedules expose), TLC, memsql, the "
                  "coordinator stand-in. Not in the workload: data sources opened while traffic runs, a client left "
                  "without any session, the XA hold-time checker firing (hold time is set to 'for ever'), load-balancer "
                  "types other than Random as the client's configured type (all five are called directly in the hot phase).",
    "technique": "TLA+ accounting/termination spec checked by TLC + TLC trace validation of stress batches; Go race "
                 "detector as a monitor for the data-race clause",
    "explanation": "Stress batches of concurrent AT, XA, TCC and mixed global transactions with concurrent phase two, "
                   "session churn and a hot-spot phase over the shared components, built with -race; race reports, a crash, "
                   "leaked connections / futures / goroutines / held XA connections / prepared XA branches / undo rows, TCC "
                   "branches without (or with a wrong) second phase, open fence transactions, connections left in a "
                   "transaction and hung calls are events the trace specification (Concurrency_Trace.tla) rejects; outcomes "
                   "committed / rolledback / failed are all legal; the design-level accounting and liveness are "
                   "model-checked in Concurrency.tla.",
    "mc": [("Concurrency", "Concurrency_MC.cfg", {"workers": 4}), ("XAHold", "XAHold_MC.cfg", {"workers": 1})],
    "mc_thorough": [("Concurrency", "Concurrency_MC.cfg", {"workers": 4}), ("Concurrency", "Concurrency_MCT.cfg", {"workers": 4}),
                    ("XAHold", "XAHold_MC.cfg", {"workers": 1})],
    "legs": [{
        "name": "stress", "driver": "stress", "race": True,
        "trace": ("Concurrency_Trace", "Concurrency_Trace.cfg"),
        "deterministic": False, "driver_timeout": 1200,
    }, {
        # the life of one XA connection between the pool, the keeper and the hold-time checker (XAHold.tla), one
        # action per holdMu critical section: TLC's call sequences stepped through a real XAConn, and the pool's
        # IsValid/Close racing the keeper's release 200 000 (thorough 3 000 000) times with the outcome validated as
        # "reachable by some interleaving of the critical sections"; a rejection must come back in a full re-run
        "name": "xahold", "driver": "xahold",
        "gen": [("XAHold_Gen", "XAHold_Gen.cfg")],
        "trace": ("XAHold_Trace", "XAHold_Trace.cfg"),
        "repro_full": True, "driver_timeout": 600,
    }],
    "assumptions": ["a batch is quiescent when all measures are back to the pre-batch level, or nothing has moved for "
                    "2.5 s, or 8 s have passed",
                    "the coordinator stand-in never leaves the client without a session and repeats a phase-two request "
                    "at most five times"],
    "trusted_base": AT_TB + ["the Go race detector"],
}
