from .registry import AT_TB

CHECK = {
    "level": "other",
    "level_text": "Two deciders. (1) The accounting and termination clauses are stated in Concurrency.tla (every "
                  "transaction terminates; at quiescence no pooled connection, helper goroutine or pending future is "
                  "outstanding), checked by TLC on the design incl. the liveness property, and validated by TLC on the "
                  "recorded trace of every stress batch: 8x12 (thorough 24x40) concurrent global transactions (1-2 AT "
                  "branches each, autocommit and explicit, commit and rollback, overlapping rows so that lock conflicts "
                  "occur) through one client and shared handles while the coordinator stand-in delivers branch commits "
                  "and rollbacks concurrently, under several GOMAXPROCS settings; after each batch the driver measures "
                  "sql.DB InUse, physical connections, connections left in a transaction, pending futures and the "
                  "goroutine count against the level before the batch. (2) The data-race clause is decided by the Go race "
                  "detector running as a monitor on that workload (the driver is built with -race); each distinct report "
                  "becomes a Race event, which the trace specification never accepts. A TLA+ model cannot observe "
                  "memory-model races; this is said in DESIGN.md section 9 rather than hidden.",
    "level_note": "Trusted: the Go race detector (finds only races the executed schedules expose), TLC, memsql, the "
                  "coordinator stand-in. TCC and XA branches are not part of the workload yet.",
    "technique": "TLA+ accounting/termination spec checked by TLC + TLC trace validation of stress batches; Go race "
                 "detector as a monitor for the data-race clause",
    "explanation": "Stress batches of concurrent AT global transactions with concurrent phase two, built with -race; "
                   "race reports, leaked connections/futures/goroutines, connections left in a transaction and hung "
                   "transactions are events the trace specification (Concurrency_Trace.tla) rejects; the design-level "
                   "accounting and liveness are model-checked in Concurrency.tla.",
    "mc": [("Concurrency", "Concurrency_MC.cfg", {"workers": 4})],
    "legs": [{
        "name": "stress", "driver": "stress", "race": True,
        "trace": ("Concurrency_Trace", "Concurrency_Trace.cfg"),
        "deterministic": False, "driver_timeout": 1200,
    }],
    "assumptions": ["a batch is quiescent when all measures are back to the pre-batch level or 8 s have passed"],
    "trusted_base": AT_TB + ["the Go race detector"],
}
