"""C15 - every coordinator phase-two request gets one correctly addressed, truthful reply."""

_TB = ["TLC 1.8.0 (tla2tools.jar) incl. CommunityModules Json/IOUtils",
       "the Go toolchain and the harness drivers in /verif/harness",
       "the correspondence between specs/*.tla and the prose property (reviewed by hand)",
       "the in-process coordinator stand-in (harness/tc): a fake getty.Session registered through the public OnOpen "
       "entry point; coordinator requests enter through the real OnMessage dispatch, responses leave through the real "
       "GettyRemotingClient.SendAsyncResponse and are observed in Session.WritePkg; only TCP and the byte codec are "
       "bypassed",
       "the recording stub resource managers (harness/rmstub) registered in rm.GetRmCacheInstance() for AT, TCC and XA"]

CHECK = {
    "level": "model_checking",
    "level_text": "Inbound.tla states the contract of the inbound phase-two path: a request is handed to the manager of "
                  "its branch type with its own xid/branch id/resource id, once; after the manager returned the "
                  "coordinator receives at most one response, of the request's kind, echoing message id, xid and branch "
                  "id, carrying the manager's status verbatim (exactly one such response when the manager returned no "
                  "error) and never a committed/rollbacked status when the manager failed. TLC checks the design "
                  "(RoutedByType, AtMostOneReply, Echo, StatusVerbatim, NoFalseSuccess, Independence) over all "
                  "interleavings of 2 (thorough: 3) concurrent requests and enumerates the environment: every single "
                  "request over {commit, rollback} x {AT, TCC, XA} x all 11 BranchStatus values x {error, no error} x "
                  "{registered, never-registered resource id}; every pair of requests over kind x type x 4 outcome "
                  "classes x {same branch, sibling branch, other transaction} x both completion orders (thorough: every "
                  "triple x all 6 completion orders); plus seeded random streams of 3..5 requests with arbitrary "
                  "interleavings of deliveries and completions. Each stream is delivered concurrently through the real "
                  "OnMessage on one session, stub managers return the scripted outcomes in TLC's order, and TLC "
                  "validates the recorded Req/Invoke/Ret/Resp/End trace against Inbound.tla.",
    "level_note": "Trusted: TLC, the coordinator stand-in, the stub managers (the real managers are C01/C05/C17's "
                  "business), the attribution of a manager call to its request through ApplicationData. Bounds: <=3 "
                  "requests enumerated, <=5 random; one session; branch types AT/TCC/XA (a request of a type without a "
                  "registered manager panics in GetResourceManager - outside the quantifier); manager panics not "
                  "exercised. ResultCode/Msg of the response are recorded but not constrained.",
    "technique": "TLA+ spec + TLC exhaustive design check; TLC-enumerated request streams and completion orders replayed "
                 "through the real listener/processors with stub managers; TLC trace validation",
    "mc": [("Inbound_MC", "Inbound_MC.cfg", {"workers": 8})],
    "mc_thorough": [("Inbound_MC", "Inbound_MC.cfg", {"workers": 8}), ("Inbound_MC", "Inbound_MC3.cfg", {"workers": 8})],
    "legs": [{
        "name": "inbound", "driver": "inbound",
        "gen_quick": [("Inbound_MC", "Inbound_Gen1.cfg"), ("Inbound_MC", "Inbound_Gen2.cfg")],
        "gen_thorough": [("Inbound_MC", "Inbound_Gen1.cfg"), ("Inbound_MC", "Inbound_Gen2.cfg"),
                         ("Inbound_MC", "Inbound_Gen3.cfg")],
        "trace": ("Inbound_Trace", "Inbound_Trace.cfg"),
    }],
    "assumptions": ["the stub managers stand for the real ones: the processors see nothing of a manager but the "
                    "(status, error) it returns",
                    "getty delivers every package on its own goroutine (task pool); the driver does the same with "
                    "`go session.Deliver(..)`",
                    "one session; with several sessions the response's session is chosen by the load balancer, which is "
                    "outside this property's quantifier"],
    "trusted_base": _TB,
}
