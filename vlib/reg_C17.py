"""C17 - XA branches follow the XA protocol; phase two addresses the prepared branch."""

_TB = ["TLC 1.8.0 (tla2tools.jar) incl. CommunityModules Json/IOUtils",
       "the Go toolchain and the harness drivers in /verif/harness",
       "the correspondence between specs/*.tla and the prose property (reviewed by hand)",
       "the in-process coordinator stand-in (harness/tc): a fake getty.Session registered through the public OnOpen "
       "entry point; requests travel through the real GettyRemotingClient, session selection and futures table; only "
       "TCP and the byte codec are bypassed",
       "memsql, the in-memory MySQL stand-in (harness/memsql): MySQL's XA state machine per connection and per xid "
       "(error numbers 1397/1398/1399/1400/1440, gtrid <= 64 bytes, prepared branches attached to their connection "
       "before 8.0.29 and detached from 8.0.29 on, a prepared branch survives the death of its connection)",
       "the shared sequence counter that merges the database journal and the coordinator log (taken under each "
       "stand-in's mutex)"]

CHECK = {
    "level": "model_checking",
    "level_text": "XABranch.tla has the database's XA state machine per branch identifier and connection as environment "
                  "(none/active/idle/prepared/committed/rolledback, attached vs detached prepared branches, death of a "
                  "connection), the coordinator (registration answer, phase-two requests of a transaction manager that "
                  "commits only what returned nil) and the client protocol register -> XA START -> statements -> XA END -> "
                  "XA PREPARE -> return, failure => XA END?/XA ROLLBACK + error, phase two XA COMMIT|ROLLBACK from the "
                  "holding or a fresh connection; the coordinator may also ask for the rollback while phase one is still "
                  "running (action P2Early: between the granted registration and the return of the call), which the client "
                  "may answer 'try again' but never untruthfully. TLC checks the design with the protocol-abiding client (LegalSequence, "
                  "RegisterBeforeStart, OneIdentifier, NoCommitAfterFailure, ErrorSurfaces, RolledBackOnFailure, "
                  "PhaseOneComplete, PoolClean, ExactlyOneOutcome, NothingEarly, RolledBackStays: a branch reported as "
                  "rolled back is never active/idle/prepared again and the database accepts no further command of the "
                  "application for it; identifier function injective on a small "
                  "domain with '-' and digits in the xid) and enumerates the environment: statement kind x autocommit/"
                  "explicit x registration {grant, refusal, transport error} x database fault at client statement 1..8 x "
                  "decision {commit, rollback} x delivery {once, duplicate, faulted then retried, after a simulated "
                  "process restart (server drops all connections, second sql.DB), on another live resource} x server "
                  "version {8.0.28 attached, 8.0.30 detached} x fresh/reused pooled connection; a second set (200 scenarios) "
                  "has the coordinator's rollback arrive while XA START | the business statement | XA END | XA PREPARE of "
                  "the branch is in flight at the database (delivered from memsql's statement gate, reply awaited, then the "
                  "statement proceeds) x mode x version x {write, read} x fault at that or a later statement x retries "
                  "afterwards {once, faulted then retried, after a restart} x fresh/reused connection. Each scenario is replayed "
                  "through the real XA proxy driver over memsql with seeded random xids (incl. '-', long, quote) and "
                  "branch ids up to 2^63-1; the XA journal of the physical connections, the coordinator log, the value "
                  "returned to the caller, the phase-two replies and the prepared/open/durable state after each phase are "
                  "validated by TLC against the specification with an unconstrained client, so every deviation is "
                  "attributed to a named invariant; the answers memsql gave must be the answers of the TLA+ database model "
                  "(two independent witnesses). A pure leg drives XaIdBuild/XaIdBuildWithByte over random xids and the "
                  "whole uint64 range (text = xid '-' decimal, round trip, injectivity), re-assembled by TLC.",
    "level_note": "Trusted: TLC, memsql's XA fidelity (transcribed from the MySQL manual; a failed injected statement has "
                  "no effect), the coordinator stand-in, the shared counter. The resource manager's wall-clock checker that "
                  "force-closes held connections is switched off (xa_two_phase_hold_time = max) for determinism; it is "
                  "reported separately. Bounds: one branch, one business statement, one fault in phase one and one in "
                  "phase two, <= 2 deliveries (<= 3 in the early set: one during phase one, up to two afterwards). The early "
                  "rollback arrives before a statement executes (gate), never between its execution and its reply.",
    "technique": "TLA+ spec + TLC design check; TLC-enumerated fault/delivery scenarios replayed on the real XA proxy "
                 "driver and resource manager over an in-memory MySQL with an XA state machine; TLC trace validation of "
                 "the merged journal with named invariants; seeded random identifier data through the exported builders",
    "mc": [("XABranch_MC", "XABranch_MC.cfg", {"workers": 8})],
    "mc_thorough": [("XABranch_MC", "XABranch_MCT.cfg", {"workers": 8})],
    "legs": [{
        "name": "xab", "driver": "xab",
        "gen": [("XABranch_Gen", "XABranch_Gen.cfg")],
        "trace": ("XABranch_Trace", "XABranch_Trace.cfg"),
        "shards": 8,
    }, {
        "name": "xab-slow", "driver": "xab", "env": {"XAB_SLOW": "1"},
        "gen": [("XABranch_Gen", "XABranch_GenSlow.cfg")],
        "trace": ("XABranch_Trace", "XABranch_Trace.cfg"),
        "shards": 8,
    }, {
        # the coordinator's rollback overtakes phase one (XABranch!P2Early): BranchRollback is delivered from memsql's
        # statement gate while XA START | the business statement | XA END | XA PREPARE of the branch is in flight
        "name": "xab-early", "driver": "xab",
        "gen": [("XABranch_Gen", "XABranch_GenEarly.cfg")],
        "trace": ("XABranch_Trace", "XABranch_Trace.cfg"),
        "shards": 8,
    }, {
        "name": "xab-ids", "driver": "xab", "args": ["-mode", "ids"],
        "trace": ("XABranch_Trace", "XABranch_Trace.cfg"),
    }],
    "assumptions": ["database faults are injected as statement errors without effect (a failed XA END leaves the branch "
                    "ACTIVE, a failed XA PREPARE leaves it IDLE)",
                    "a transport error of BranchRegister is a failed write on the session",
                    "the transaction manager asks for a commit only when the business call returned nil; the coordinator "
                    "never changes its decision",
                    "a process restart is simulated in-process: the server kills every client connection and a second "
                    "sql.DB (a new resource that replaces the old one in the resource manager) serves phase two"],
    "trusted_base": _TB,
}
