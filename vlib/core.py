"""Shared machinery of ./check: TLC runner, Go builder, trace validation, signatures,
known findings, evidence.  Python 3 standard library only."""
import collections, hashlib, json, os, re, shutil, subprocess, sys, time

ROOT = os.path.dirname(os.path.dirname(os.path.abspath(__file__)))
SPECS = os.path.join(ROOT, "specs")
HARNESS = os.path.join(ROOT, "harness")
CACHE = os.path.join(ROOT, ".cache")
EVIDENCE = os.path.join(ROOT, "evidence")
REPLAYS = os.path.join(ROOT, "replays")
KNOWN = os.path.join(ROOT, "known_findings.json")

# The checks registered in MANIFEST.json always build against /repo's working tree.  For trying the checks on a
# scratch copy of the repository without touching /repo (seeded changes, tools/try_mutant_alt.sh) VERIF_REPO names
# another tree: the harness sources are then copied to a private directory under /tmp (its go.mod replaces the
# module by that tree), and evidence and replay files go there as well, so nothing of /verif is overwritten.
REPO = os.path.abspath(os.environ.get("VERIF_REPO", "/repo"))
ALT = REPO != "/repo"
HARNESS_SRC = HARNESS
if ALT:
    _alt = "/tmp/verif-alt-" + hashlib.sha1(REPO.encode()).hexdigest()[:10]
    HARNESS = os.path.join(_alt, "harness")
    EVIDENCE = os.path.join(_alt, "evidence")
    REPLAYS = os.path.join(_alt, "replays")

GOENV = dict(os.environ, GOFLAGS="-mod=mod", GOPROXY="off", GOSUMDB="off", GOTOOLCHAIN="local",
             CGO_ENABLED=os.environ.get("CGO_ENABLED", "0"))


class Inconclusive(Exception):
    """Infrastructure problem: build failure, TLC error, driver crash, timeout.  Exit code 2."""


def log(*a):
    print(*a, file=sys.stderr, flush=True)


def sh(cmd, cwd=None, env=None, timeout=None, check=True):
    p = subprocess.run(cmd, cwd=cwd, env=env, timeout=timeout, stdout=subprocess.PIPE,
                       stderr=subprocess.STDOUT, text=True, errors="replace")
    if check and p.returncode != 0:
        raise Inconclusive("command failed (%d): %s\n%s" % (p.returncode, " ".join(cmd), p.stdout[-4000:]))
    return p


# --------------------------------------------------------------------------- Go

def go_sum():
    """The harness module mirrors /repo's go.mod (same requires, replaces and excludes, so that module
    resolution picks exactly the versions the repository builds with and that are in the module cache)
    and uses /repo's go.sum."""
    if ALT:
        os.makedirs(HARNESS, exist_ok=True)
        sh(["rsync", "-a", "--delete", "--exclude", "bin", "--exclude", "go.mod", "--exclude", "go.sum",
            HARNESS_SRC + "/", HARNESS + "/"])
    src = open(os.path.join(REPO, "go.mod")).read()
    body = re.sub(r"^module .*$", "", src, count=1, flags=re.M)
    body = re.sub(r"^go [0-9.]+$", "", body, count=1, flags=re.M)
    body = re.sub(r"^toolchain .*$", "", body, flags=re.M)
    mod = ("module verif/harness\n\ngo 1.23\n\n" + body.strip() + "\n\n"
           "require (\n\tseata.apache.org/seata-go v0.0.0\n)\n\n"
           "replace seata.apache.org/seata-go => " + REPO + "\n")
    dst = os.path.join(HARNESS, "go.mod")
    if not os.path.exists(dst) or open(dst).read() != mod:
        with open(dst, "w") as f:
            f.write(mod)
    sums = open(os.path.join(REPO, "go.sum")).read()
    dsts = os.path.join(HARNESS, "go.sum")
    have = open(dsts).read() if os.path.exists(dsts) else ""
    if not set(sums.splitlines()) <= set(have.splitlines()):
        with open(dsts, "w") as f:
            f.write(sums)


def go_build(name, race=False):
    """Build harness/cmd/<name> with -tags verif against /repo's current working tree."""
    go_sum()
    out = os.path.join(HARNESS, "bin", name + ("-race" if race else ""))
    env = dict(GOENV)
    cmd = ["go", "build", "-tags", "verif", "-o", out]
    if race:
        env["CGO_ENABLED"] = "1"
        cmd.append("-race")
    cmd.append("./cmd/" + name)
    t = time.time()
    try:
        sh(cmd, cwd=HARNESS, env=env, timeout=900)
    except subprocess.TimeoutExpired:
        raise Inconclusive("go build timed out")
    log("[build] %s %.1fs" % (name, time.time() - t))
    return out


# --------------------------------------------------------------------------- TLC

TLC_JAR = "/opt/veriftools/tla/tla2tools.jar:/opt/veriftools/tla/CommunityModules-deps.jar"


def run_tlc(module, cfg, workdir, workers=1, env=None, timeout=1800, extra=None, heap=None):
    """Run TLC on specs/<module>.tla with specs/<cfg> in a scratch copy.  Returns dict."""
    os.makedirs(workdir, exist_ok=True)
    for f in os.listdir(SPECS):
        if f.endswith(".tla") or f.endswith(".cfg"):
            shutil.copy(os.path.join(SPECS, f), workdir)
    meta = os.path.join(workdir, "meta-" + cfg.replace(".cfg", ""))
    shutil.rmtree(meta, ignore_errors=True)
    cmd = ["java", "-XX:+UseParallelGC"]
    if heap:
        cmd.append("-Xmx" + heap)
    cmd += ["-Xss64m", "-cp", TLC_JAR, "tlc2.TLC", "-workers", str(workers), "-metadir", meta,
            "-config", cfg]
    if extra:
        cmd += extra
    cmd.append(module + ".tla")
    e = dict(os.environ)
    e.pop("JAVA_TOOL_OPTIONS", None)
    if env:
        e.update(env)
    t = time.time()
    try:
        p = subprocess.run(cmd, cwd=workdir, env=e, timeout=timeout, stdout=subprocess.PIPE,
                           stderr=subprocess.STDOUT, text=True, errors="replace")
    except subprocess.TimeoutExpired:
        raise Inconclusive("TLC timed out after %ds: %s %s" % (timeout, module, cfg))
    finally:
        shutil.rmtree(meta, ignore_errors=True)
    out = p.stdout
    res = {"module": module, "cfg": cfg, "wall_s": round(time.time() - t, 2), "out": out,
           "rc": p.returncode, "cmd": " ".join(cmd[cmd.index("tlc2.TLC"):])}
    m = re.search(r"(\d+) states generated, (\d+) distinct states found, (\d+) states left", out)
    if m:
        res["generated"], res["distinct"], res["left"] = int(m.group(1)), int(m.group(2)), int(m.group(3))
    m = re.search(r"depth of the complete state graph search is (\d+)", out)
    if m:
        res["depth"] = int(m.group(1))
    res["ok"] = ("Model checking completed. No error has been found." in out) and p.returncode == 0
    res["violation"] = bool(re.search(r"Error: (Invariant|Action property|Temporal properties|Deadlock)", out))
    return res


def mc(module, cfg, workdir, workers=8, timeout=1800, heap=None, env=None):
    """Exhaustive design check; a TLC counterexample on the design alone is inconclusive for the
    code (DESIGN.md §2 verdict rule) but it means the specification is broken, so it stops the check."""
    r = run_tlc(module, cfg, workdir, workers=workers, timeout=timeout, heap=heap, env=env)
    if not r["ok"]:
        raise Inconclusive("design check %s/%s did not pass:\n%s" % (module, cfg, r["out"][-3000:]))
    log("[mc] %s %s: %d generated, %d distinct, depth %s, %.1fs" % (
        module, cfg, r.get("generated", 0), r.get("distinct", 0), r.get("depth"), r["wall_s"]))
    return r


def gen(module, cfg, workdir, scen_file, timeout=1800, env=None):
    """Scenario generation: TLC with -workers 1 dumps one ndjson line per terminal behaviour."""
    if os.path.exists(scen_file):
        os.remove(scen_file)
    e = {"SCEN_FILE": scen_file}
    if env:
        e.update(env)
    r = run_tlc(module, cfg, workdir, workers=1, env=e, timeout=timeout)
    if not r["ok"]:
        raise Inconclusive("scenario generation %s/%s failed:\n%s" % (module, cfg, r["out"][-3000:]))
    if not os.path.exists(scen_file):
        raise Inconclusive("scenario generation %s/%s wrote nothing" % (module, cfg))
    # de-duplicate, keep order
    seen, lines = set(), []
    for ln in open(scen_file):
        ln = ln.strip()
        if ln and ln not in seen:
            seen.add(ln)
            lines.append(ln)
    with open(scen_file, "w") as f:
        f.write("\n".join(lines) + "\n")
    r["scenarios"] = len(lines)
    log("[gen] %s %s: %d scenarios (%d states), %.1fs" % (module, cfg, len(lines), r.get("distinct", 0), r["wall_s"]))
    return r


def cached_gen(module, cfg, workdir, name, env=None, timeout=1800):
    """Scenario generation cached by the hash of all spec sources (regenerated when a spec changes)."""
    h = hashlib.sha256()
    for f in sorted(os.listdir(SPECS)):
        if f.endswith(".tla") or f == cfg:
            h.update(open(os.path.join(SPECS, f), "rb").read())
    h.update(json.dumps(env or {}, sort_keys=True).encode())
    d = os.path.join(CACHE, "scen")
    os.makedirs(d, exist_ok=True)
    path = os.path.join(d, "%s-%s.ndjson" % (name, h.hexdigest()[:16]))
    metap = path + ".meta.json"
    if os.path.exists(path) and os.path.exists(metap):
        r = json.load(open(metap))
        r["cached"] = True
        log("[gen] %s %s: %d scenarios (cached)" % (module, cfg, r["scenarios"]))
        return path, r
    r = gen(module, cfg, workdir, path, timeout=timeout, env=env)
    r.pop("out", None)
    json.dump(r, open(metap, "w"))
    return path, r


# --------------------------------------------------------------------------- traces

def load_traces(path):
    tr = collections.defaultdict(list)
    for ln in open(path):
        ln = ln.strip()
        if ln:
            e = json.loads(ln)
            tr[e["t"]].append(e)
    return tr


def validate(module, cfg, workdir, trace_file, timeout=3600, heap=None, env=None):
    """TLC trace validation (one initial state per trace).  Returns (n_traces, rejections) where a
    rejection is dict(t, k, ev, inv)."""
    n_lines = sum(1 for _ in open(trace_file))
    if n_lines == 0:
        raise Inconclusive("empty trace file " + trace_file)
    e = {"TRACE_FILE": trace_file}
    if env:
        e.update(env)
    r = run_tlc(module, cfg, workdir, workers=1, env=e, timeout=timeout, heap=heap)
    out = r["out"]
    m = re.search(r'<<"TRACES", (\d+), "REJECTED", (\d+)>>', out)
    if not r["ok"] or not m:
        raise Inconclusive("trace validation %s/%s failed to run:\n%s" % (module, cfg, out[-3000:]))
    ntr, nrej = int(m.group(1)), int(m.group(2))
    invf = {}
    for mm in re.finditer(r'<<"INVFAIL", (\d+), (\d+), \{([^}]*)\}>>', out):
        invf[(int(mm.group(1)), int(mm.group(2)))] = sorted(x.strip().strip('"') for x in mm.group(3).split(","))
    rej = []
    for mm in re.finditer(r'<<"REJECT", (\d+), (\d+), "([^"]*)">>', out):
        rej.append({"t": int(mm.group(1)), "k": int(mm.group(2)), "ev": mm.group(3)})
    if len(rej) != nrej:
        raise Inconclusive("trace validation output inconsistent (%d REJECT lines, %d announced)" % (len(rej), nrej))
    r["traces"] = ntr
    log("[trace] %s %s: %d traces, %d lines, %d rejected, %d states, %.1fs" % (
        module, cfg, ntr, n_lines, nrej, r.get("distinct", 0), r["wall_s"]))
    return r, rej, invf


def run_driver(binary, args, timeout=3600, env=None):
    e = dict(os.environ)
    if env:
        e.update(env)
    t = time.time()
    try:
        p = subprocess.run([binary] + args, stdout=subprocess.PIPE, stderr=subprocess.PIPE, text=True,
                           errors="replace", timeout=timeout, env=e)
    except subprocess.TimeoutExpired:
        raise Inconclusive("driver timed out after %ds: %s %s" % (timeout, binary, " ".join(args)))
    if p.returncode != 0 or "DRIVER-OK" not in p.stdout:
        raise Inconclusive("driver failed (rc %d): %s %s\nstdout: %s\nstderr: %s" % (
            p.returncode, binary, " ".join(args), p.stdout[-2000:], p.stderr[-4000:]))
    log("[driver] %s %s: %s (%.1fs)" % (os.path.basename(binary), " ".join((a if len(a) < 40 else a[:37] + "...") for a in args if not a.startswith("/")),
                                        p.stdout.strip().splitlines()[-1], time.time() - t))
    return p


# --------------------------------------------------------------------------- known findings

def load_known(prop):
    """Known findings: known_findings.json plus the per-property fragments known_findings.d/*.json
    (same format).  Never written at run time."""
    out = []
    files = [KNOWN] if os.path.exists(KNOWN) else []
    d = os.path.join(ROOT, "known_findings.d")
    if os.path.isdir(d):
        files += sorted(os.path.join(d, f) for f in os.listdir(d) if f.endswith(".json"))
    for f in files:
        data = json.load(open(f))
        out += [k for k in data.get("findings", []) if k["property"] == prop]
    return out


def match_known(known, sig):
    for k in known:
        if k.get("status") != "open":
            continue
        if re.fullmatch(k["signature"], sig):
            return k
    return None


def write_evidence(prop, tier, seed, level, coverage, wall_s, violations, assumptions):
    os.makedirs(EVIDENCE, exist_ok=True)
    ev = {"property_id": prop, "tier": tier, "seed": int(seed), "level": level, "coverage": coverage,
          "assumptions": assumptions, "wall_s": round(wall_s, 2), "violations": int(violations)}
    tmp = os.path.join(EVIDENCE, prop + ".json.tmp")
    with open(tmp, "w") as f:
        json.dump(ev, f, indent=1, default=str)
        f.write("\n")
    os.replace(tmp, os.path.join(EVIDENCE, prop + ".json"))
