"""C08 - undo-log encoding is lossless under every serializer and compressor setting."""

_COMMON_TB = ["TLC 1.8.0 (tla2tools.jar) incl. CommunityModules Json/IOUtils",
              "the Go toolchain and the harness drivers in /verif/harness",
              "the correspondence between specs/*.tla and the prose property (reviewed by hand)"]

_TB = _COMMON_TB + [
    "the in-process coordinator stand-in (harness/tc): a fake getty.Session registered through the public OnOpen "
    "entry point; it delivers the branch rollback through the real client dispatch",
    "memsql, the in-memory MySQL stand-in (harness/memsql): value kinds, scan types and implicit conversions "
    "transcribed from go-sql-driver/mysql v1.6.0 and the MySQL manual",
    "the restatement of the undo executors' equality in harness/cmd/undoc (rows keyed by primary-key text, numeric "
    "kinds compared exactly as numbers, times by instant, text/byte strings by content, else reflect.DeepEqual)",
    "the 25-line transcription of FlushUndoLog/Undo's glue (context map, compress, decompress, parser choice) used by "
    "the parser-level leg, whose unexported originals are exercised by the end-to-end leg",
    "the table in UndoCodec_MC.tla of JDBC type codes and Go kinds the image builder emits (read off "
    "exec/at/base_executor.go GetScanSlice/getSqlNullValue and types/const.go MySQLStrToJavaType)",
]

# (serializer, compress type as the environment spells it, threshold class)
_Q = [("json", "None", "below"), ("json", "Gzip", "above"), ("json", "gzip", "below"),
      ("protobuf", "None", "below"), ("protobuf", "Zstd", "above")]
_T = ([(s, c, "below") for s in ("json", "protobuf")
       for c in ("None", "Gzip", "Zip", "Bzip2", "Lz4", "Deflate", "Zstd", "gzip", "EMPTY", "Sevenz", "zstd ", "n/a")]
      + [(s, c, "above") for s in ("json", "protobuf") for c in ("None", "Gzip", "Lz4", "Zstd", "gzip")])


def _legs(tier):
    legs = [{
        "name": "parser", "driver": "undoc", "args": ["-mode", "parser"],
        "gen": [("UndoCodec_MC", "UndoCodec_Gen.cfg")],
        "trace": ("UndoCodec_Trace", "UndoCodec_Trace.cfg"),
        "shards": 8,
    }]
    for ser, comp, thr in (_T if tier == "thorough" else _Q):
        env = {"SERIALIZER": ser, "COMPRESS": comp, "THRCLASS": thr}
        legs.append({
            "name": "e2e-%s-%s-%s" % (ser, (comp.strip() or "blank").replace("/", "_"), thr), "driver": "undoc", "args": ["-mode", "e2e"],
            "env": env,
            "gen": [("UndoCodec_MC", "UndoCodec_GenE2E.cfg")],
            "trace": ("UndoCodec_Trace", "UndoCodec_Trace.cfg"),
            "shards": 2,
        })
    return legs


CHECK = {
    "level": "exploration",
    "level_text": "UndoCodec.tla states the flush/undo protocol of the undo log as a two-step state machine (Flush writes "
                  "[context (serializer, compress type), payload]; Undo chooses parser and decompressor from the "
                  "context alone) with the invariants CtxSufficient (decoder chosen = encoder used, decompressor chosen "
                  "= compressor actually applied) and Lossless. TLC checks the design over every configuration "
                  "(3 serializer names x 12 compress-type spellings incl. unknown ones x 3 threshold classes) and "
                  "enumerates the finite partition of the value dimension: 21 (JDBC type code, Go kind of the scanned "
                  "value) pairs the image builder can emit x 6-10 value classes each (NULL, zero, empty, min, max, "
                  "unsigned max, 2^53-1, 2^53+1, negative, fraction, looks-like-base64/number/JSON, multi-byte, "
                  "escapes, binary with 0x00/0xFF, timestamps with/without sub-second and zone) x key flag x "
                  "statement type x serializer x compress type x threshold class (about 12 000 vectors after "
                  "pruning). Every vector is run on the real code at two levels: (i) parser level - a BranchUndoLog "
                  "built from the Go kinds the row scanner produces goes through parser cache, Encode, the real "
                  "compressor, collection.EncodeMap/DecodeMap, Decompress, Decode and is compared with the original "
                  "under the undo executors' equality; (ii) end to end - one process per client configuration, a "
                  "table with a column of the vector's MySQL type holding the class's values, one INSERT/UPDATE/"
                  "DELETE through the real AT proxy in a global transaction, inspection of the undo_log row "
                  "(context vs. what really produced the payload), then the real branch rollback and a check that "
                  "the table is restored and the status is 'rollbacked'. TLC validates every recorded trace against "
                  "the specification and evaluates both invariants in every state. Level: exhaustive over the "
                  "partition and over the configuration space, sampled inside a class (4-6 seeded concrete values "
                  "per class and run); 'for all 64-bit integers / all strings' is not claimed.",
    "level_note": "Exploration, not proof: the partition was chosen where the representation changes (float64 "
                  "mantissa, integer widths, base64 alphabet, JSON syntax, time zones, NULL vs empty); a lossy value "
                  "that no class separates is not found. Phase-one failures of the proxy for a column type (TIME, "
                  "BIT, YEAR values cannot be scanned) abandon the end-to-end scenario (counted as aborted, reported "
                  "under C16/C18); those types are covered at parser level only. The legacy undo/builder package "
                  "(not on the AT executors' path) is not covered. Quick tier: 5 client configurations end to end, "
                  "thorough: 34.",
    "technique": "TLA+ spec + TLC exhaustive design check of the configuration state machine; TLC-enumerated "
                 "(type, class, key, statement, serializer, compressor, threshold) vectors instantiated with seeded "
                 "values and replayed on the real parsers/compressors and through the real AT proxy + rollback; TLC "
                 "trace validation with invariants",
    "mc": [("UndoCodec_MC", "UndoCodec_MC.cfg", {"workers": 8})],
    "legs_fn": _legs,
    "rule": "one evaluation = one vector of the partition instantiated with 1-6 seeded values of its class, taken "
            "through the real encode/compress/store/decompress/decode/compare pipeline (parser level) or through "
            "phase one + branch rollback (end to end), validated by TLC; distinct_nontrivial = distinct recorded "
            "event sequences with at least three events",
    "assumptions": ["memsql converts the values the undo SQL binds (float64 into DECIMAL, RFC 3339 text into DATETIME, "
                    "text into BLOB) the way MySQL does; where it is stricter or laxer a 'not restored' verdict may "
                    "differ from MySQL's, the parser-level verdict does not depend on it",
                    "the client is configured through client.InitPath with compress.enable=true; the threshold class "
                    "'above' is compress.threshold=1k with logs of more than 1 kB",
                    "column values are valid UTF-8 (utf8mb4 columns)"],
    "trusted_base": _TB,
}
