"""C14 - concurrent requests are answered by their own responses; stragglers do no harm."""

_TB = ["TLC 1.8.0 (tla2tools.jar) incl. CommunityModules Json/IOUtils",
       "the Go toolchain and the harness drivers in /verif/harness",
       "the correspondence between specs/*.tla and the prose property (reviewed by hand)",
       "the in-process coordinator stand-in (harness/tc): a fake getty.Session registered through the public OnOpen "
       "entry point; requests travel through the real GettyRemotingClient.SendSyncRequest, session selection and "
       "futures table to Session.WritePkg; replies, coordinator requests and heartbeat pongs enter through the real "
       "OnMessage dispatch, each on a goroutine of its own (as getty's task pool does); heartbeats are produced by "
       "the real OnCron; connection loss is the real OnClose; only TCP and the byte codec are bypassed",
       "the stub resource managers (harness/rmstub) that answer the colliding coordinator requests",
       "Go's runtime.Stack (goroutines parked in NotifyRpcMessageResponse) and the verif accessor "
       "getty.VerifPendingFutures as run-wide cross-checks of the per-scenario observations"]

_GEN = lambda ns: [("Rpc_MC", "Rpc_Gen.cfg", {"NCALLERS": str(n)}) for n in ns]

CHECK = {
    "level": "model_checking",
    "level_text": "Rpc.tla models callers, the table of pending futures, the coordinator's replies (any order, "
                  "duplicated, never), per-message delivery goroutines, timeouts, connection loss and foreign messages "
                  "that reuse a pending request's id (a coordinator request answered by the client with the same id; the "
                  "listener's heartbeat and its pong). TLC checks the design (OwnReply, TimeoutNotTheft, NoLeak/Exact, "
                  "DeliveryNeverBlocks; every caller returns under weak fairness) for 3 callers (thorough: 4) and "
                  "enumerates every schedule for 1..3 callers (thorough: 1..4): all permutations of the replies x <=1 "
                  "duplicate x <=2 replies that never come in time x <=1 late reply after the timeout x <=1 id collision "
                  "x connection loss while requests are pending. Each schedule is replayed on the real "
                  "SendSyncRequest with N concurrent goroutines and distinguishable payloads of four request kinds; the "
                  "coordinator stand-in holds every request and releases the replies in TLC's order; the value returned "
                  "to every caller (own / other / timeout / error), the return of every delivery (watchdog), the entries "
                  "of the scenario's ids left in the futures table, and the service of a fresh request afterwards are "
                  "recorded and TLC validates every trace against Rpc.tla. Seeded random schedules for 4..8 callers are "
                  "added. All scenarios whose callers must time out (20 s constant) wait together: one wave per run.",
    "level_note": "Trusted: TLC, the coordinator stand-in, the classification of a returned value by the payload name "
                  "echoed in the reply, the per-delivery watchdog (a delivery is reported stuck only if it has not "
                  "returned when the scenario is finally inspected, >= 20 s later for parked scenarios). Bounds: <=3 "
                  "(thorough 4) callers enumerated, <=8 random; duplicates are delivered one after the other (two "
                  "deliveries of the same reply racing inside the processor are not scheduled deterministically and "
                  "therefore not exercised); a heartbeat collision is produced only on the newest request of a scenario "
                  "(the heartbeat counter only grows); id wrap-around (2^32 requests) is not exercised.",
    "technique": "TLA+ spec + TLC exhaustive design check incl. liveness; TLC-enumerated reply schedules replayed on the "
                 "real client with concurrent callers behind a coordinator stand-in; TLC trace validation",
    "mc": [("Rpc_MC", "Rpc_MC.cfg", {"workers": 8}), ("Rpc_MC", "Rpc_MC_Live.cfg", {"workers": 4})],
    "mc_thorough": [("Rpc_MC", "Rpc_MC.cfg", {"workers": 8}), ("Rpc_MC", "Rpc_MC_Live.cfg", {"workers": 4}),
                    ("Rpc_MC", "Rpc_MC4.cfg", {"workers": 8})],
    "legs": [{
        "name": "rpc", "driver": "rpc",
        "gen_quick": _GEN((1, 2, 3)),
        "gen_thorough": _GEN((1, 2, 3, 4)),
        "trace": ("Rpc_Trace", "Rpc_Trace.cfg"),
        "driver_timeout": 900,
        "repro_full": True,
    }],
    "assumptions": ["getty delivers every package on its own goroutine (task pool); the driver does the same with "
                    "`go session.Deliver(..)`",
                    "the coordinator numbers its own requests from its own counter, so a coordinator request may carry "
                    "the id of a pending client request; the coordinator answers a heartbeat ping with a pong of the "
                    "same id",
                    "RpcRequestTimeout is the 20 s constant of the client; a caller that has not returned 35 s after "
                    "its request was sent is reported as hanging"],
    "trusted_base": _TB,
}
