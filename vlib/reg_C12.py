"""C12 - wire codec matches the Seata v1 message layout and round-trips every message."""

_TB = ["TLC 1.8.0 (tla2tools.jar) incl. CommunityModules Json/IOUtils",
       "the Go toolchain and the harness drivers in /verif/harness",
       "the correspondence between specs/*.tla and the prose property (reviewed by hand)",
       "the Seata v1 layout table in specs/WireLayout.tla: written from the tree's codecs field by field and "
       "cross-checked from memory against the Java codecs (no upstream source is available offline); where "
       "the tree disagrees with itself the table states the intended layout (D7, D8), for the 8-bit vs 16-bit "
       "error-message prefix (N1) it follows the tree",
       "the table interpreter (encode/decode, ~150 lines) and the type/field-name mapping goType/goField in "
       "harness/cmd/wire/main.go"]

CHECK = {
    "level": "exploration",
    "level_text": "WireLayout.tla holds the Seata v1 body layout of the 24 message types as a table (field order, kinds "
                  "u8/bool8/bool16/i64/ms32/str8/str16/str32/bytes16/bytes32, the result-code-dependent error message, "
                  "truncation limits, type codes) together with abstract Enc/Dec over segments and the sets of types "
                  "the client sends and expects. TLC checks the table exhaustively over the product of boundary "
                  "classes of every type (RoundTrip, TruncKeepsDecodable, CodesUnique, Registered, well-formedness, "
                  "pairwise coverage of the pruned vector set) and then exports the table itself and the test vectors "
                  "(quick: full class product for types with up to 300 combinations and a TLC-verified pairwise covering "
                  "for the larger ones, 3125 vectors; thorough: the full product of every type, 26998 vectors). The Go "
                  "driver interprets the exported table - it does not restate it -, builds the real message.* struct "
                  "per vector with seeded concrete contents (ASCII, multi-byte UTF-8, arbitrary bytes; lengths 0, 1, "
                  "limit-1, limit, limit+1, prefix maximum, beyond; enum bytes 0/1/255; ids 0, 1, 2^63-1, -1; "
                  "durations 0, 1 ms, 2^31-1 ms, 2^32-1 ms), calls the real CodecManager.Encode/Decode and compares "
                  "byte for byte with the interpreter's output; seeded random vectors (any byte, any id, any length "
                  "bucket) are added per type. Every execution is a trace that TLC validates against WireLayout "
                  "(flags, body length recomputed from the abstract message, admissibility of the cut, type codes, "
                  "completeness of the look-ups). The data dimension (all strings, all 64-bit ids) dominates, so the "
                  "claim is exploration: boundary classes exhaustively or pairwise, contents sampled.",
    "level_note": "Trusted: TLC, the layout table (see trusted_base for its provenance and the N1 width doubt), the "
                  "table interpreter and the struct/field-name mapping in harness/cmd/wire. Not covered: strings of "
                  "2^32-1 bytes (32-bit prefixes are exercised up to 200000 bytes); non-truncatable strings longer "
                  "than their prefix allows (outside the wire limits, the property is silent); durations that are not "
                  "whole milliseconds. 'Consumes the whole body' is observed indirectly: the independent decoder reads "
                  "the real encoder's output to its last byte, the real decoder returns the equal message from the "
                  "independent encoder's bytes and is not influenced by bytes appended after the body. The end-to-end "
                  "leg over TCP of DESIGN.md 5 is not built (the frame layer is C13's).",
    "technique": "TLA+ layout table + TLC-enumerated boundary vectors; real codec compared byte-for-byte with an "
                 "independent table interpreter; TLC trace validation",
    "mc": [("WireLayout_MC", "WireLayout_MC.cfg", {"workers": 8})],
    "legs": [{
        "name": "wire", "driver": "wire",
        "gen_quick": [("WireLayout_MC", "WireLayout_Gen.cfg", {"PRUNE_ABOVE": "300"})],
        "gen_thorough": [("WireLayout_MC", "WireLayout_Gen.cfg", {"PRUNE_ABOVE": "100000"})],
        "trace": ("WireLayout_Trace", "WireLayout_Trace.cfg"),
    }],
    "rule": "one evaluation = one test vector (a message type with one class per field, enumerated by TLC from the "
            "layout table, or a seeded random vector) instantiated with concrete contents, passed through the real "
            "CodecManager.Encode and Decode, compared byte for byte with the table interpreter and validated by TLC "
            "against WireLayout_Trace (plus one evaluation per codec look-up); distinct_nontrivial = number of "
            "distinct recorded event sequences (type, classes and flags) with at least three events",
    "assumptions": ["the table in specs/WireLayout.tla is the Seata v1 layout (provenance and the N1 doubt are stated "
                    "in its header)",
                    "messages are compared as values: a nil and an empty byte slice are the same message; fields of "
                    "the Go structs that are not on the v1 wire (e.g. RegisterRMResponse.ExtraData) are left zero",
                    "an over-long error message may be cut anywhere between the declared limit and what the prefix can "
                    "carry"],
    "trusted_base": _TB,
}
