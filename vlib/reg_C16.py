from .registry import AT_TB


def _legs(tier):
    steps = "3" if tier == "thorough" else "2"
    return [
        {"name": "at", "driver": "proxy", "env": {"FLAVOUR": "at", "MAXSTEPS": steps},
         "gen": [("Proxy_MC", "Proxy_Gen.cfg")], "trace": ("Proxy_Trace", "Proxy_Trace.cfg"), "shards": 4},
        # longer programs over few statement kinds: a failing statement in the middle of a transaction
        {"name": "at-mid", "driver": "proxy", "env": {"FLAVOUR": "at", "MAXSTEPS": "3"},
         "gen": [("Proxy_MC", "Proxy_GenMid.cfg")], "trace": ("Proxy_Trace", "Proxy_Trace.cfg"), "shards": 4},
        {"name": "xa-mid", "driver": "proxy", "env": {"FLAVOUR": "xa", "MAXSTEPS": "3"},
         "gen": [("Proxy_MC", "Proxy_GenMid.cfg")], "trace": ("Proxy_Trace", "Proxy_Trace.cfg"), "shards": 2},
        # the server drops the idle pooled connections between statements
        {"name": "at-drop", "driver": "proxy", "env": {"FLAVOUR": "at", "MAXSTEPS": "3"},
         "gen": [("Proxy_MC", "Proxy_GenDrop.cfg")], "trace": ("Proxy_Trace", "Proxy_Trace.cfg"), "shards": 2},
        {"name": "xa-drop", "driver": "proxy", "env": {"FLAVOUR": "xa", "MAXSTEPS": "3"},
         "gen": [("Proxy_MC", "Proxy_GenDrop.cfg")], "trace": ("Proxy_Trace", "Proxy_Trace.cfg"), "shards": 2},
        # the database fails the COMMIT of an explicit local transaction
        {"name": "at-commitf", "driver": "proxy", "env": {"FLAVOUR": "at", "MAXSTEPS": "3"},
         "gen": [("Proxy_MC", "Proxy_GenCommitF.cfg")], "trace": ("Proxy_Trace", "Proxy_Trace.cfg"), "shards": 2},
        {"name": "xa-commitf", "driver": "proxy", "env": {"FLAVOUR": "xa", "MAXSTEPS": "3"},
         "gen": [("Proxy_MC", "Proxy_GenCommitF.cfg")], "trace": ("Proxy_Trace", "Proxy_Trace.cfg"), "shards": 2},
        {"name": "xa", "driver": "proxy", "env": {"FLAVOUR": "xa", "MAXSTEPS": "2"},
         "gen": [("Proxy_MC", "Proxy_Gen.cfg")], "trace": ("Proxy_Trace", "Proxy_Trace.cfg"), "shards": 2},
    ]


CHECK = {
    "level": "model_checking",
    "level_text": "Proxy.tla is the refinement statement: a program of database/sql calls executed through the proxy "
                  "driver and through the bare driver on identical databases gives, step by step, the same rows / "
                  "affected counts / generated ids / error classes and in the end the same committed data; outside a "
                  "global transaction the proxied database sees exactly the statements (text, arguments, order) the bare "
                  "one sees and the coordinator hears nothing; inside, the application's statements still arrive in "
                  "order and every extra statement is an image query, the undo-log insert, a savepoint, metadata or the "
                  "implicit local transaction. TLC enumerates all well-formed programs of <=2 (thorough: 3) steps over "
                  "12 step kinds (query, update, insert, delete, upsert, duplicate-key insert, DDL, multi-statement, "
                  "prepared exec, prepared query, string comparison in WHERE, SELECT FOR UPDATE) with explicit "
                  "begin/commit/rollback, x literal/bound x inside/outside a global transaction, for the AT flavour, and "
                  "outside a global transaction for the XA flavour. Both runs are real (memsql twice); TLC validates "
                  "the recorded comparison trace.",
    "level_note": "Trusted: TLC, memsql (both sides run on it, so its MySQL fidelity matters less here), the journal "
                  "comparison in harness/cmd/proxy. Bounds: 3 steps, one table.",
    "technique": "TLA+ refinement spec; TLC-enumerated programs executed through proxy and bare driver on identical "
                 "in-memory databases; TLC trace validation of the step-by-step comparison",
    "mc": [("Proxy_MC", "Proxy_MC.cfg", {"workers": 4})],
    "legs_fn": _legs,
    "assumptions": ["error classes are compared as MySQL error numbers (or 'error' for non-MySQL errors)"],
    "trusted_base": AT_TB,
}
