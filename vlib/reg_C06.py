"""C06 - TCC fence: idempotence, anti-suspension and empty rollback (TCCFence.tla)."""

_TB = ["TLC 1.8.0 (tla2tools.jar) incl. CommunityModules Json/IOUtils",
       "the Go toolchain and the harness drivers in /verif/harness",
       "the correspondence between specs/*.tla and the prose property (reviewed by hand)",
       "memsql, the in-memory MySQL stand-in (harness/memsql): value kinds, scan types and error numbers "
       "transcribed from go-sql-driver/mysql v1.6.0; row locks, unique keys, transactions; its fault plan "
       "(the n-th client statement fails), statement gate and snapshots",
       "the scenario interpreter harness/cmd/fence (the business callback is one INSERT .. ON DUPLICATE KEY UPDATE "
       "n = n + 1 on the caller's *sql.Tx)"]


def _legs(tier):
    plain_q = ["TCCFence_Gen1.cfg", "TCCFence_Gen2.cfg", "TCCFence_GenRace.cfg"]
    full = ["TCCFence_Gen1T.cfg", "TCCFence_Gen2T.cfg", "TCCFence_GenRace.cfg"]
    legs = [{
        "name": "fence-plain", "driver": "fence", "args": ["-mode", "plain"],
        "gen": [("TCCFence_MC", g) for g in (full if tier == "thorough" else plain_q)],
        "trace": ("TCCFence_Trace", "TCCFence_Trace.cfg"),
        "shards": 4,
    }]
    # the second documented usage: the fence driver (racing pairs run freely there: thorough only)
    legs.append({
        "name": "fence-driver", "driver": "fence", "args": ["-mode", "driver"],
        "gen": [("TCCFence_MC", g) for g in (full if tier == "thorough" else ["TCCFence_Gen1.cfg", "TCCFence_Gen2.cfg"])],
        "trace": ("TCCFence_Trace", "TCCFence_Trace.cfg"),
        "shards": 4,
    })
    return legs


CHECK = {
    "level": "model_checking",
    "level_text": "TCCFence.tla states the contract of one delivery of prepare / commit / rollback to a fenced TCC branch "
                  "(new fence status, whether the business effect of the phase is applied, error or nil) and a design "
                  "at statement granularity (Begin, Insert(tried) | Query FOR UPDATE, compare-and-set | Insert(suspended), "
                  "Business, Commit / Rollback; any statement may be failed by the database; two deliveries for one "
                  "branch on two connections serialised by the row lock and the unique key). TLC checks on the design "
                  "AtMostOnce, NotBoth, Coupled (record and effects always tell the same story), Together, "
                  "EmptyRollback, AntiSuspension, the duplicate-reply rules, NoCross and that every completed delivery "
                  "is a step of the contract, for all sequences of <= 4 deliveries over one branch and <= 3 over two "
                  "branches with <= 1 injected failure at statement 1..6 and one racing pair with every interleaving. "
                  "TLC then enumerates the environment: all 81 sequences of 4 deliveries x (no fault | fault at statement "
                  "1..6 of one delivery), all 216 sequences of 3 deliveries over two branches, and every statement "
                  "interleaving of every pair of racing deliveries from each of the 5 record states. Each is replayed on "
                  "the real fence.WithFence used the documented way over an in-memory MySQL (the business effect is a "
                  "row written by the callback in the caller's transaction); after every delivery the error, the "
                  "tcc_fence_log rows and the effect counters of all branches are read back and TLC validates them "
                  "against the contract (complete state compared), plus: no connection left inside a transaction. "
                  "The same sequences are replayed through the second usage, the seata-fence-mysql driver "
                  "(fence.FenceDriver over memsql). 300 random longer sequences over 2..3 branches per seed. Thorough: "
                  "faults up to statement 8, faults in the two-branch sequences, 3000 random sequences per seed, racing "
                  "pairs through the fence driver (free-running).",
    "level_note": "Trusted: TLC, memsql's MySQL fidelity (unique key, SELECT .. FOR UPDATE row locks, a failed COMMIT rolls "
                  "back), the scenario interpreter. A trace is validated up to its first rejected delivery only. Racing "
                  "pairs are validated against 'some serial order, the loser of a lock conflict may fail as a whole'; the "
                  "statement order chosen by TLC is enforced through memsql's statement gate (a connection found waiting "
                  "for a lock after 4 ms loses its turn). Bounds: <= 4 deliveries per branch for enumerated scenarios, "
                  "<= 3 branches, one fault per scenario, two racers.",
    "technique": "TLA+ spec + TLC exhaustive design check; TLC-enumerated delivery sequences, fault positions and race "
                 "interleavings replayed on the real fence over an in-memory MySQL; full-state trace validation by TLC",
    "mc": [("TCCFence_MC", "TCCFence_MC.cfg", {"workers": 4}), ("TCCFence_MC", "TCCFence_MC2.cfg", {"workers": 4})],
    "legs_fn": _legs,
    "assumptions": ["memsql behaves like MySQL/InnoDB for the four fence statements and the business upsert "
                    "(duplicate key = error 1062 as *mysql.MySQLError, FOR UPDATE locks an existing row, an injected "
                    "failure is a statement error without effect, a failed COMMIT leaves nothing behind)",
                    "the DSN carries parseTime=true (the DAO scans gmt_create / gmt_modified into time.Time)",
                    "a connection whose ROLLBACK statement was failed by the fault plan is given up by the client and is "
                    "not counted as a leaked transaction"],
    "trusted_base": _TB,
}
