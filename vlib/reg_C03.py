from .registry import AT_TB

CHECK = {
    "level": "model_checking",
    "level_text": "ATLocks.tla keeps the lock table a correct coordinator would have if every written row were named "
                  "in the branch registration: a write or a SELECT..FOR UPDATE on a row another open global transaction "
                  "has written must fail and change nothing, and succeeds once that transaction has ended. The "
                  "coordinator stand-in only knows the lock keys the client really sends, so a row missing from the "
                  "keys (or spelt differently by another statement form) lets the second transaction through and the "
                  "trace is rejected. TLC enumerates all operation sequences of two global transactions (quick: 2 "
                  "operations over update/upsert/locking read x key sets; thorough: 3) with either ending first. A second "
                  "leg replays the C01 scenario set (all statement kinds, schemas and SQL spellings) and requires "
                  "that the registered keys name every row whose content changed across the local commit, and that "
                  "one row is always spelt the same way. A third leg (race, ATLocks_Race.tla) lets the operations of the "
                  "two global transactions overlap in time: an operation has a start, a linearization point (the local "
                  "commit of a write, observed in the database journal) and an end; A's operation (locking read in "
                  "autocommit or explicit use, update, upsert; thorough: delete, explicit update) is parked before its "
                  "k-th database statement (k = 1..8) or before/after the coordinator's answer to its lock query / "
                  "branch registration while B's update/upsert/delete on overlapping rows runs to completion or until "
                  "it blocks on A's row locks. A successful locking read must return the rows of one moment of its "
                  "execution at which none of them was written-and-held by the other open transaction, every returned "
                  "row must have been named in a lock query answered lockable, a failed read must hold no row lock, a "
                  "write must not land on a row the other open transaction wrote, failed operations change nothing and "
                  "the final table is what the successful operations produce.",
    "level_note": "Trusted: TLC, memsql, the coordinator stand-in's lock table, the documented lock-key grammar "
                  "table:pk[_pk2][,..];.. used to parse the keys. Bounds: 2 rows, 2 global transactions operating one "
                  "operation at a time (true statement-level interleaving of two local transactions is not enumerated); "
                  "varchar keys containing the grammar's separators are excluded from the coverage leg.",
    "technique": "TLA+ spec + TLC design check; TLC-enumerated two-transaction operation sequences and statement-level "
                 "overlaps (statement gate / coordinator reply gate) replayed on the real proxy driver against a "
                 "lock-table coordinator; TLC trace validation",
    "mc": [("ATLocks_MC", "ATLocks_MC.cfg", {"workers": 4}), ("ATLocks_Race_MC", "ATLocks_Race_MC.cfg", {"workers": 4})],
    "legs": [
        {"name": "two", "driver": "atlk", "args": ["-mode", "two"],
         "gen_quick": [("ATLocks_MC", "ATLocks_Gen.cfg")], "gen_thorough": [("ATLocks_MC", "ATLocks_GenT.cfg")],
         "trace": ("ATLocks_Trace", "ATLocks_Trace.cfg"), "shards": 4},
        {"name": "cover", "driver": "atlk", "args": ["-mode", "cover"],
         "env": {"ONLYCARE": "true", "VALIDATE": "true"},
         "gen": [("ATRollback_MC", "ATRollback_Gen_C01.cfg")],
         "trace": ("ATLocks_Trace", "ATLocks_Trace.cfg"), "shards": 4, "deterministic": True,
         # the key-text trace ("canon") aggregates over all the scenarios of a shard: reproduce with the whole leg
         "repro_full": True},
        {"name": "race", "driver": "atlk", "args": ["-mode", "race"],
         "gen_quick": [("ATLocks_Race_MC", "ATLocks_Race_Gen.cfg")], "gen_thorough": [("ATLocks_Race_MC", "ATLocks_Race_GenT.cfg")],
         "trace": ("ATLocks_Race_Trace", "ATLocks_Race_Trace.cfg"), "shards": 8, "shards_thorough": 16},
    ],
    "assumptions": ["the coordinator releases a global transaction's locks when it ends; lock conflicts are answered "
                    "with result code Failed + LockKeyConflict"],
    "trusted_base": AT_TB,
}
