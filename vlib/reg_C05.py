"""C05 - TCC branches are registered before try and dispatched faithfully in phase two."""

_TB = ["TLC 1.8.0 (tla2tools.jar) incl. CommunityModules Json/IOUtils",
       "the Go toolchain and the harness drivers in /verif/harness",
       "the correspondence between specs/*.tla and the prose property (reviewed by hand)",
       "the in-process coordinator stand-in (harness/tc): a fake getty.Session registered through the "
       "public OnOpen entry point; requests travel through the real GettyRemotingClient, session "
       "selection and futures table; only TCP and the byte codec are bypassed",
       "the hand-written table of expected tagged parameters per parameter shape (harness/cmd/tccb/shapes.go) "
       "and the JSON normalisation (marshal -> unmarshal into interface{} -> reflect.DeepEqual)"]

CHECK = {
    "level": "model_checking",
    "level_text": "TCCBranch.tla states what the coordinator, the user's try/commit/rollback and the caller of "
                  "TCCServiceProxy.Prepare may observe: one BranchRegisterRequest per prepare (resource = action name, "
                  "type TCC, application data = exactly the tagged parameters) granted before try starts, no try and an "
                  "error after a refused or failed registration; every phase-two request runs the matching method of the "
                  "action registered under its resource id exactly once with the same xid / branch id and an action "
                  "context JSON-equivalent to the delivered one, reports committed/rollbacked iff that method returned "
                  "no error (otherwise the retryable status or nothing), and runs nothing for an unknown resource. TLC "
                  "checks the design (8 invariants) for 2 actions x 2 prepares x 3 deliveries and enumerates the "
                  "environment: action sets of 1..2 actions x prepare {granted, refused, transport error} x try {nil, err} "
                  "x phase-two sequences of length <= 3 over {commit, rollback} x {known, other known, unknown resource} x "
                  "data {as captured, empty, malformed} x user outcome {nil, err}. Each scenario is replayed on the real "
                  "NewTCCServiceProxy / Prepare (inside tm.WithGlobalTx or a bare seata context) and the real OnMessage -> "
                  "processor -> TCCResourceManager dispatch, over recording actions in both declaration styles "
                  "(TwoPhaseInterface; tag-described func-field structs built per action) and a family of 22 parameter "
                  "shapes filled with seeded values; TLC validates every recorded trace against the specification.",
    "level_note": "Trusted: TLC, the coordinator stand-in, the scenario interpreter in harness/cmd/tccb, the expected-"
                  "parameter table. 'Captured' application data are the very bytes the coordinator received in the "
                  "BranchRegisterRequest. Malformed data: only 'no false success, no wrong code' is demanded; a panic of "
                  "the dispatch that the transport's task pool recovers counts as 'no reply' (constant "
                  "AllowMalformedPanic of TCCBranch_Trace.cfg). Bounds: <=2 actions, <=2 prepares, <=3 deliveries "
                  "enumerated (random sequences up to 3 prepares x 8 deliveries per seed); deliveries are sequential and "
                  "follow the prepares; the 20 s reply timeout is C14's.",
    "technique": "TLA+ spec + TLC exhaustive design check; TLC-enumerated prepare / phase-two scenarios replayed on the "
                 "real TCC proxy and phase-two dispatch through the coordinator stand-in; TLC trace validation",
    "mc": [("TCCBranch_MC", "TCCBranch_MC.cfg", {"workers": 8})],
    "legs": [{
        "name": "tccb", "driver": "tccb",
        "gen_quick": [("TCCBranch_MC", "TCCBranch_Gen1.cfg"), ("TCCBranch_MC", "TCCBranch_Gen2.cfg"),
                      ("TCCBranch_MC", "TCCBranch_Gen3.cfg"), ("TCCBranch_MC", "TCCBranch_Gen4.cfg")],
        "gen_thorough": [("TCCBranch_MC", "TCCBranch_Gen1T.cfg"), ("TCCBranch_MC", "TCCBranch_Gen2.cfg"),
                         ("TCCBranch_MC", "TCCBranch_Gen3T.cfg"), ("TCCBranch_MC", "TCCBranch_Gen4T.cfg")],
        "trace": ("TCCBranch_Trace", "TCCBranch_Trace.cfg"),
        "shards_quick": 2, "shards_thorough": 6, "heap": "6g",
    }],
    "assumptions": ["the coordinator stand-in answers synchronously inside the client's WritePkg (reply decided at the "
                    "moment the request is observed); a transport error is a WritePkg error",
                    "phase-two requests are delivered one at a time, after the prepares of the scenario have returned",
                    "a struct field counts as a tagged parameter iff it is exported and carries a non-empty tccParam tag "
                    "other than \"-\" (top level of the parameter struct only)"],
    "trusted_base": _TB,
}
