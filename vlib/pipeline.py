"""The generic check pipeline: design check -> scenario generation -> replay on real code ->
trace validation -> signatures / known findings -> reproduction -> evidence."""
import hashlib, json, os, shutil, sys, time

from . import core
from .core import Inconclusive, log


def _strip(e):
    return {k: v for k, v in e.items() if k not in ("t", "k", "n")}


def trace_shape(evs):
    h = hashlib.sha1()
    for e in evs:
        d = _strip(e)
        h.update(json.dumps(d, sort_keys=True, default=str).encode())
    return h.hexdigest()


def signature(prop, evs, rej, invf):
    """Signature of a rejection: the event that could not be matched (or after which an invariant
    failed) plus the class coordinates the driver attached to that event."""
    k = rej["k"]
    e = evs[k - 1] if 0 < k <= len(evs) else {}
    inv = invf.get((rej["t"], rej["k"]))
    reason = "inv=" + "+".join(inv) if inv else "noaction"
    parts = [rej["ev"], reason]
    for f in ("res", "sig"):
        if f in e:
            parts.append("%s=%s" % (f, e[f]))
    return prop + ":" + ":".join(str(p) for p in parts)


class Leg:
    """One (driver, trace spec) pair of a property."""

    def __init__(self, prop, spec, tier, seed, work):
        self.prop, self.spec, self.tier, self.seed, self.work = prop, spec, tier, seed, work
        self.name = spec["name"]
        self.scen_file = None
        self.gen_results = []

    def generate(self):
        gens = self.spec.get("gen_" + self.tier, self.spec.get("gen", []))
        if not gens:
            return
        paths = []
        for g in gens:
            mod, cfg = g[0], g[1]
            env = dict(self.spec.get("env") or {})
            env.update(g[2] if len(g) > 2 else {})
            p, r = core.cached_gen(mod, cfg, os.path.join(self.work, "gen"), "%s-%s" % (mod, cfg.replace(".cfg", "")), env=env,
                                   timeout=self.spec.get("gen_timeout", 1800))
            paths.append(p)
            self.gen_results.append(r)
        self.scen_file = os.path.join(self.work, self.name + "-scenarios.ndjson")
        seen = set()
        with open(self.scen_file, "w") as out:
            for p in paths:
                for ln in open(p):
                    ln = ln.strip()
                    if ln and ln not in seen:
                        seen.add(ln)
                        out.write(ln + "\n")
        self.n_scen = len(seen)

    def drive(self, binary, only=None, tag="run"):
        out = os.path.join(self.work, "%s-%s.ndjson" % (self.name, tag))
        args = ["-tier", self.tier, "-seed", str(self.seed), "-prop", self.prop]
        if self.scen_file:
            args += ["-scenarios", self.scen_file]
        if only is not None:
            args += ["-only", ",".join(str(i) for i in sorted(only))]
        args += self.spec.get("args", [])
        shards = self.spec.get("shards_" + self.tier, self.spec.get("shards", 1))
        if only is not None and len(only) < 64:
            shards = 1
        if shards <= 1:
            core.run_driver(binary, ["-out", out] + args, timeout=self.spec.get("driver_timeout", 3600), env=self.spec.get("env"))
            return out
        # one OS process per shard (the client keeps its state in package globals); trace ids are disjoint
        import concurrent.futures
        parts = ["%s.part%d" % (out, k) for k in range(shards)]
        def one(k):
            core.run_driver(binary, ["-out", parts[k], "-shard", "%d/%d" % (k, shards)] + args,
                            timeout=self.spec.get("driver_timeout", 3600), env=self.spec.get("env"))
        with concurrent.futures.ThreadPoolExecutor(max_workers=shards) as ex:
            for f in [ex.submit(one, k) for k in range(shards)]:
                f.result()
        # merge, renumbering the traces densely (TLC registers are indexed by trace id)
        infos = []
        nxt = 0
        with open(out, "w") as o:
            for p in parts:
                remap = {}
                with open(p) as f:
                    for ln in f:
                        e = json.loads(ln)
                        if e["t"] not in remap:
                            nxt += 1
                            remap[e["t"]] = nxt
                        e["t"] = remap[e["t"]]
                        o.write(json.dumps(e) + "\n")
                for i in (json.load(open(p + ".idx.json")) or []):
                    if i["t"] in remap:
                        i["t"] = remap[i["t"]]
                        infos.append(i)
                os.remove(p)
                os.remove(p + ".idx.json")
        json.dump(infos, open(out + ".idx.json", "w"))
        return out

    def validate(self, trace_file):
        mod, cfg = self.spec["trace"]
        r, rej, invf = core.validate(mod, cfg, os.path.join(self.work, "tv"), trace_file,
                                     timeout=self.spec.get("trace_timeout", 3600), heap=self.spec.get("heap"),
                                     env=self.spec.get("env"))
        return r, rej, invf


def scenario_index(info):
    sc = info.get("scenario")
    if isinstance(sc, dict) and "i" in sc:
        return sc["i"]
    return None


def run_check(prop, reg, tier, seed, replay=None):
    t0 = time.time()
    work = os.path.join(core.CACHE, "run", "%s-%d" % (prop, os.getpid()))
    shutil.rmtree(work, ignore_errors=True)
    os.makedirs(work)
    known = core.load_known(prop)
    try:
        return _run(prop, reg, tier, seed, work, known, t0, replay)
    finally:
        if not os.environ.get("VERIF_KEEP"):
            shutil.rmtree(work, ignore_errors=True)


def _run(prop, reg, tier, seed, work, known, t0, replay):
    # 1. design checks
    mcs = []
    for m in reg.get("mc_" + tier, reg.get("mc", [])):
        mod, cfg = m[0], m[1]
        opts = m[2] if len(m) > 2 else {}
        if replay:
            break
        mcs.append(core.mc(mod, cfg, os.path.join(work, "mc"), workers=opts.get("workers", 8),
                           timeout=opts.get("timeout", 3000), heap=opts.get("heap"), env=opts.get("env")))
    # 2..4 legs
    total_traces = accepted = 0
    violations = []      # (sig, replay_path)
    known_hits = {}      # finding id -> (entry, count)
    samples = []
    shapes = set()
    evaluations = 0
    tv_states = tv_trans = 0
    gen_scen = 0
    leg_summ = []
    legs = reg["legs_fn"](tier) if "legs_fn" in reg else reg["legs"]
    if tier == "thorough" or (replay and str(replay.get("leg", "")).startswith("tcp-")):      # TCP legs (real transport stack against harness/tctcp), see vlib/tcp_legs.py
        try:
            from .tcp_legs import TCP_LEGS, TCP_TB
            legs = list(legs) + TCP_LEGS.get(prop, [])
            reg = dict(reg, trusted_base=list(reg.get("trusted_base", [])) + (TCP_TB if prop in TCP_LEGS else []))
        except ImportError:
            pass
    for lspec in legs:
        if replay and lspec["name"] != replay["leg"]:
            continue
        if os.environ.get("VERIF_LEG") and lspec["name"] not in os.environ["VERIF_LEG"].split(","):
            continue
        leg = Leg(prop, lspec, tier, replay["seed"] if replay else seed, work)
        leg.generate()
        gen_scen += getattr(leg, "n_scen", 0)
        binary = core.go_build(lspec["driver"], race=lspec.get("race", False))
        only = [replay["scenario_index"]] if replay else None
        if replay and (lspec.get("repro_full") or replay["scenario_index"] is None or replay["scenario_index"] < 0):
            only = None  # the rejected trace aggregates over the leg (or needs its whole workload): replay all of it
        tf = leg.drive(binary, only=only)
        tv, rej, invf = leg.validate(tf)
        traces = core.load_traces(tf)
        infos = {i["t"]: i for i in (json.load(open(tf + ".idx.json")) or [])}
        total_traces += tv["traces"]
        evaluations += tv["traces"]
        tv_states += tv.get("distinct", 0)
        tv_trans += tv.get("generated", 0)
        for t, evs in traces.items():
            if len(evs) >= 3:
                shapes.add(trace_shape(evs))
        for t in sorted(traces)[:: max(1, len(traces) // 3)][:3]:
            samples.append({"leg": leg.name, "class": infos.get(t, {}).get("class"),
                            "scenario": infos.get(t, {}).get("scenario"),
                            "trace": [_strip(e) for e in traces[t][:40]]})
        # classify rejections
        bysig = {}
        for r in rej:
            sig = signature(prop, traces[r["t"]], r, invf)
            bysig.setdefault(sig, []).append(r)
        unknown = {}
        for sig, rs in bysig.items():
            k = core.match_known(known, sig)
            if k:
                ent = known_hits.setdefault(k["id"], [k, 0, sig])
                ent[1] += len(rs)
            else:
                unknown[sig] = rs
        confirmed = {}
        if unknown and not replay:
            # reproduce once: re-run exactly the scenarios whose traces were rejected
            idxs = set()
            for sig, rs in unknown.items():
                for r in rs[:20]:
                    i = scenario_index(infos[r["t"]])
                    if i is not None:
                        idxs.add(i)
            if lspec.get("deterministic", True) and idxs:
                # A rejection counts only when the real code shows it again: re-run the rejected scenarios (up to
                # three times for schedule-dependent behaviour).  Signatures that never come back are reported as
                # notes; the run is inconclusive only if nothing at all could be reproduced.
                pending = dict(unknown)
                for attempt in range(int(lspec.get("repro_attempts", 3))):
                    idxs = set()
                    for sig, rs in pending.items():
                        for r in rs[:20]:
                            i = scenario_index(infos[r["t"]])
                            if i is not None:
                                idxs.add(i)
                    if not idxs:
                        break
                    if lspec.get("repro_full"):
                        # schedule-dependent legs: the behaviour needs the whole concurrent workload, not the one
                        # scenario it happened to show up in; the same class must appear again in a full re-run
                        idxs = None
                    tf2 = leg.drive(binary, only=idxs, tag="repro%d" % attempt)
                    tv2, rej2, invf2 = leg.validate(tf2)
                    traces2 = core.load_traces(tf2)
                    infos2 = {i["t"]: i for i in (json.load(open(tf2 + ".idx.json")) or [])}
                    sigs2 = {}
                    for r in rej2:
                        s2 = signature(prop, traces2[r["t"]], r, invf2)
                        sigs2.setdefault(s2, []).append((r, traces2[r["t"]], infos2[r["t"]]))
                    for sig in list(pending):
                        if sig in sigs2:
                            confirmed[sig] = sigs2[sig][0]
                            del pending[sig]
                    if not pending:
                        break
                for sig in pending:
                    log("[repro] rejection %s did not reproduce" % sig)
                    # keep what was seen, for diagnosis (not evidence: nothing the real code repeated)
                    try:
                        r0 = pending[sig][0]
                        d = os.path.join(core.CACHE, "unreproduced")
                        os.makedirs(d, exist_ok=True)
                        with open(os.path.join(d, "%s-%s-%d.json" % (prop, leg.name, int(time.time()))), "w") as fh:
                            json.dump({"signature": sig, "leg": leg.name, "tier": tier, "seed": seed,
                                       "info": infos.get(r0["t"]), "rejected": r0,
                                       "trace": [_strip(e) for e in traces[r0["t"]]]}, fh, indent=1)
                    except Exception as ex:  # a diagnosis aid must never change the verdict
                        log("[repro] could not keep the unreproduced trace: %s" % ex)
                if pending and not confirmed:
                    raise Inconclusive("unreproduced rejection(s): %s" % sorted(pending))
            else:
                for sig, rs in unknown.items():
                    r = rs[0]
                    confirmed[sig] = (r, traces[r["t"]], infos[r["t"]])
        elif unknown and replay:
            for sig, rs in unknown.items():
                r = rs[0]
                confirmed[sig] = (r, traces[r["t"]], infos[r["t"]])
        _emit_violations(prop, leg, tier, confirmed, violations)
        accepted += tv["traces"] - len(rej)
        leg_summ.append({"leg": leg.name, "traces": tv["traces"], "rejected": len(rej),
                         "scenarios_from_tlc": getattr(leg, "n_scen", 0),
                         "trace_spec": "%s/%s" % tuple(lspec["trace"])})
    for fid, (k, cnt, sig) in sorted(known_hits.items()):
        print("KNOWN-FINDING: property=%s %s [%s; %d traces, e.g. %s]" % (prop, k["what"], fid, cnt, sig))
    if not replay and not os.environ.get("VERIF_LEG"):
        for k in known:
            if k.get("status") == "open" and k["id"] not in known_hits:
                # not an error (some classes are only exercised in the thorough tier), but a listed finding that
                # never fires any more must be looked at: it would hide a regression of its class
                log("note: open known finding %s did not fire in this %s run" % (k["id"], tier))
    for sig, path in violations:
        print("VIOLATION property=%s replay=%s" % (prop, path))
        log("  signature: " + sig)
    # 5. evidence
    states = sum(m.get("distinct", 0) for m in mcs) or tv_states
    trans = sum(m.get("generated", 0) for m in mcs) or tv_trans
    cov = {
        "states": max(1, states), "transitions": max(1, trans),
        "traces_validated_against_impl": accepted,
        "evaluations": max(1, evaluations),
        "distinct_nontrivial": len(shapes),
        "rule": reg.get("rule", "one evaluation = one scenario (TLC-generated environment behaviour, or seeded random "
                                "scenario) executed against the real code and validated by TLC against the trace "
                                "specification; distinct_nontrivial = number of distinct recorded event sequences with "
                                "at least three events"),
        "samples": samples[:6] or [{"note": "no traces"}],
        "design_checks": [{k: m.get(k) for k in ("module", "cfg", "generated", "distinct", "depth", "wall_s")} for m in mcs],
        "scenarios_generated_by_tlc": gen_scen,
        "legs": leg_summ,
        "known_findings_seen": {fid: v[1] for fid, v in known_hits.items()},
        "trace_validation_states": tv_states,
        "checker_cmd": "./check %s --tier %s" % (prop, tier),
        "trusted_base": reg.get("trusted_base", []),
        "exhaustive": False,
    }
    if reg["level"] in ("other",):
        cov["explanation"] = reg.get("explanation", reg["level_text"])
    if not replay:
        core.write_evidence(prop, tier, seed, reg["level"], cov, time.time() - t0, len(violations),
                            reg.get("assumptions", []))
    return 1 if violations else 0


def _emit_violations(prop, leg, tier, confirmed, violations):
    for sig, (r, evs, info) in confirmed.items():
        d = os.path.join(core.REPLAYS, prop)
        os.makedirs(d, exist_ok=True)
        name = hashlib.sha1(sig.encode()).hexdigest()[:12] + ".json"
        path = os.path.join(d, name)
        with open(path, "w") as f:
            json.dump({"property": prop, "signature": sig, "leg": leg.name, "tier": tier, "seed": leg.seed,
                       "scenario_index": scenario_index(info), "scenario": info.get("scenario"),
                       "class": info.get("class"), "rejected_at": r["k"], "rejected_event": r["ev"],
                       "trace": [_strip(e) for e in evs]}, f, indent=1, default=str)
        violations.append((sig, path))
