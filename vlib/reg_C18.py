from .registry import AT_TB

_OC1 = {"ONLYCARE": "true", "VALIDATE": "true", "SERIALIZER": "json"}
_OC0 = {"ONLYCARE": "false", "VALIDATE": "true", "SERIALIZER": "json"}


def _legs(tier):
    out = []
    for name, env in (("oc1", _OC1), ("oc0", _OC0)):
        out.append({"name": "images-" + name, "driver": "atrb", "env": env,
                    "gen": [("ATRollback_MC", "ATRollback_Gen_C18.cfg")] +
                           ([("ATRollback_MC", "ATRollback_Gen_C18T.cfg")] if tier == "thorough" else []),
                    "trace": ("ATRollback_Trace", "ATRollback_Trace.cfg"), "shards": 4})
    # composite primary key whose rows share the leading key column (plain spelling, one statement)
    out.append({"name": "images-comp", "driver": "atrb", "env": dict(_OC1, SCHEMA="t_comp"),
                "gen": [("ATRollback_MC", "ATRollback_Gen_C18P.cfg")],
                "trace": ("ATRollback_Trace", "ATRollback_Trace.cfg"), "shards": 2})
    # the plain spellings of the rollback labs (random Style: multi-statement strings, the key listed late in an
    # INSERT with rows that differ in which values are literals, explicit transactions ...) on the integer key
    out.append({"name": "images-plain", "driver": "atrb", "env": dict(_OC0, SCHEMA="t_int"),
                "gen": [("ATRollback_MC", "ATRollback_Gen_C18P.cfg")],
                "trace": ("ATRollback_Trace", "ATRollback_Trace.cfg"), "shards": 2})
    out.append({"name": "images-pklate", "driver": "atrb", "env": dict(_OC0, SCHEMA="t_int", STYLE_FORCE="pklate,bound"),
                "gen": [("ATRollback_MC", "ATRollback_Gen_C18P.cfg")],
                "trace": ("ATRollback_Trace", "ATRollback_Trace.cfg"), "shards": 2})
    # a table with a secondary UNIQUE index on a nullable column: an upsert reaches an existing row through it
    out.append({"name": "images-uq", "driver": "atrb", "env": dict(_OC1, SCHEMA="t_uq"),
                "gen": [("ATRollback_MC", "ATRollback_Gen_C18U.cfg")],
                "trace": ("ATRollback_Trace", "ATRollback_Trace.cfg"), "shards": 2})
    return out


CHECK = {
    "level": "model_checking",
    "level_text": "ATRollback.tla computes, from the statement semantics, the images a branch must record: for every row "
                  "the statement changed its content just before and just after (only those rows; for UPDATE under "
                  "only-care-update-columns the unwritten part may be missing). TLC enumerates every single-statement "
                  "branch (insert/update/delete/upsert x key sets {}, {1}, {2}, {1,2} x 4 initial tables, plus a "
                  "primary-key update that must be refused) under every spelling: 8 WHERE shapes (=, IN, BETWEEN, "
                  "parentheses, AND, ORDER BY/LIMIT, NOT, range) x 4 placements of bound parameters between SET/VALUES "
                  "and WHERE. Each is executed through the real proxy; the undo-log row the real flush wrote is decoded "
                  "(json serializer) into abstract images and TLC compares them with the specification's, under both "
                  "settings of only-care-update-columns. A refused statement must have recorded nothing.",
    "level_note": "Trusted: TLC, memsql, the decoder of the undo-log JSON in harness/atlab (UndoImages), the abstract/"
                  "concrete row mapping. A statement the proxy refuses although nothing is wrong with it is not a C18 "
                  "violation as long as nothing was recorded (C16 reports it). Bounds: 2 rows, one statement (thorough: also every two-statement branch in plain spelling); int-keyed (one leg: composite key with a shared leading column) "
                  "schemas {plain, nullable column, many column types}.",
    "technique": "TLA+ spec computes the expected images; TLC-enumerated statements x spellings replayed on the real "
                 "proxy; recorded undo-log images validated by TLC against the specification",
    "mc": [("ATRollback_MC", "ATRollback_MC.cfg", {"workers": 8, "env": {"ONLYCARE": "true", "VALIDATE": "true"}})],
    "legs_fn": _legs,
    "assumptions": ["the DSN uses parseTime=true (the proxy scans DATETIME columns into sql.NullTime)"],
    "trusted_base": AT_TB,
}
