"""TCP legs of C12, C13, C14, C15 and C19 (thorough tier only; appended to the property's legs by the hook in
vlib/pipeline.py).

What every other leg bypasses is exercised here: the client is initialised the documented way
(client.InitPath on a yaml whose file registry lists one address) and dials harness/tctcp itself
(getty.NewTCPClient); requests, responses, coordinator requests and heartbeats travel over a real socket
through the real getty session and its receive loop, RpcPackageHandler.Read/Write, the codec, the listener
and the processors.  harness/tctcp listens on 127.0.0.1:0 and speaks the Seata v1 protocol with a frame
codec of its own and a body codec that interprets the layout table TLC exports from WireLayout.tla (never
the repository's codec).  Scenarios are executed by child processes of harness/cmd/tcp (the client's state
is process-global); a child that dies or hangs is a recorded event.

  C13  tcp-frame      Frame_Gen2/Frame_Gen3 (frame sequences x cut positions, with and without junk) plus 300
                      seeded random long streams, written chunk by chunk (TCP_NODELAY, 1-3 ms pauses);
                      validated by Frame_Tcp_Trace.tla (EXTENDS Frame: the reader's steps are silent, the
                      delivery at rest is observed)
  C12  tcp-wire       boundary vectors of WireLayout_Gen (150 per message type, by seed): types the client
                      sends are captured as raw bytes and decoded by the table interpreter, types it expects
                      are encoded by the interpreter and compared at the caller / the resource manager;
                      validated by WireLayout_Tcp_Trace.tla (EXTENDS WireLayout)
  C14  tcp-rpc        Rpc_Gen schedules for 1, 2 and 3 callers (all 1724), replies
                      reordered / duplicated / dropped / late, coordinator requests reusing a pending id,
                      connection loss by RST; validated by the unchanged Rpc_Trace.tla
  C15  tcp-inbound    Inbound_Gen1/Gen2 request streams (all 3720) plus 240 seeded random streams of 3..5 requests, each
                      run as a burst on the one connection: the stream's branch commit / rollback requests and 16..32
                      background requests (distinct ids, xids, branch ids, statuses) written back to back, all stub
                      managers released together behind a barrier (some bursts with a heartbeat at the same moment), so
                      that the replies are encoded and written concurrently on one real session; the replies are what
                      the stand-in's own reader and table interpreter decode from the socket; the stream's events are
                      validated by the unchanged Inbound_Trace.tla, background replies are checked by the driver (a
                      wrong / second / missing / unmatched reply, an undecodable or torn frame is the event "Stray",
                      which the trace specification rejects); reproduction re-runs the whole leg (repro_full)
  C19  tcp-reconnect  Sessions_GenRcT (loss while idle / request in flight / between phase one and two, once
                      and twice; without bystander) under all five load-balance policies, with a real AT
                      resource (proxy over memsql) and a TCC resource; the connection is dropped with RST and
                      getty reconnects by itself; validated by the unchanged Sessions_Trace.tla
"""

TCP_TB = ["the TCP coordinator stand-in harness/tctcp (thorough tier, legs tcp-*): its own frame reader/writer "
          "(written from the v1 frame layout), the interpreter of the layout table exported from WireLayout.tla as "
          "body codec, the name mapping between table fields and the Go message structs (tctcp/model.go), the "
          "reuse of harness/tc's coordinator model for default replies, and the real getty session's own package "
          "counter (session.Stat) as the observation of 'the dispatch of a message has returned'"]

_TABLE = ("WireLayout_TcpGen", "WireLayout_GenTable.cfg")   # the layout table alone (tctcp's body codec)

TCP_LEGS = {
    "C13": [{
        "name": "tcp-frame", "driver": "tcp", "args": ["-mode", "frame"],
        "gen": [("Frame_MC", "Frame_Gen2.cfg"), ("Frame_MC", "Frame_Gen3.cfg"), _TABLE],
        "trace": ("Frame_Tcp_Trace", "Frame_Tcp_Trace.cfg"),
        "driver_timeout": 600,
    }],
    "C12": [{
        "name": "tcp-wire", "driver": "tcp", "args": ["-mode", "wire"],
        "gen": [("WireLayout_MC", "WireLayout_Gen.cfg", {"PRUNE_ABOVE": "300"})],
        "trace": ("WireLayout_Tcp_Trace", "WireLayout_Tcp_Trace.cfg"),
        "driver_timeout": 600,
    }],
    "C14": [{
        "name": "tcp-rpc", "driver": "tcp", "args": ["-mode", "rpc"],
        "gen": [("Rpc_MC", "Rpc_Gen.cfg", {"NCALLERS": "1"}), ("Rpc_MC", "Rpc_Gen.cfg", {"NCALLERS": "2"}),
                ("Rpc_MC", "Rpc_Gen.cfg", {"NCALLERS": "3"}), _TABLE],
        "trace": ("Rpc_Trace", "Rpc_Trace.cfg"),
        "driver_timeout": 600,
    }],
    "C15": [{
        "name": "tcp-inbound", "driver": "tcp", "args": ["-mode", "inbound"],
        "gen": [("Inbound_MC", "Inbound_Gen1.cfg"), ("Inbound_MC", "Inbound_Gen2.cfg"), _TABLE],
        "trace": ("Inbound_Trace", "Inbound_Trace.cfg"),
        "driver_timeout": 600,
        # which replies collide is a matter of the schedule: a rejection is reproduced by running the leg again
        "repro_full": True,
    }],
    "C19": [{
        "name": "tcp-reconnect", "driver": "tcp", "args": ["-mode", "reconnect"],
        "gen": [("Sessions_MC", "Sessions_GenRcT.cfg"), _TABLE],
        "trace": ("Sessions_Trace", "Sessions_Trace.cfg"),
        "driver_timeout": 600,
    }],
}
