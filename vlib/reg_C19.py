"""C19 - only live sessions are chosen; reconnection restores both directions (Sessions.tla)."""

_TB = ["TLC 1.8.0 (tla2tools.jar) incl. CommunityModules Json/IOUtils",
       "the Go toolchain and the harness drivers in /verif/harness",
       "the correspondence between specs/*.tla and the prose property (reviewed by hand)",
       "the in-process coordinator stand-in (harness/tc): fake getty.Sessions registered through the public OnOpen "
       "entry point and lost through the public OnClose; requests travel through the real GettyRemotingClient, "
       "session manager, load balancer and futures table; only TCP and the byte codec are bypassed",
       "memsql, the in-memory MySQL stand-in (harness/memsql) and harness/atlab (AT resource of the reconnect part)"]


def _legs(tier):
    th = tier == "thorough"
    direct = [("Sessions_MC", "Sessions_GenSets.cfg"), ("Sessions_MC", "Sessions_GenHist.cfg")]
    client = [("Sessions_MC", "Sessions_GenCliSets.cfg"), ("Sessions_MC", "Sessions_GenCli.cfg")]
    rc = [("Sessions_MC", "Sessions_GenRc.cfg"), ("Sessions_MC", "Sessions_GenRcBy.cfg"),
          ("Sessions_MC", "Sessions_GenRcF.cfg")]
    if th:
        direct += [("Sessions_MC", "Sessions_GenHistT.cfg"), ("Sessions_MC", "Sessions_GenHist3.cfg")]
        client += [("Sessions_MC", "Sessions_GenCliT.cfg")]
        rc = [("Sessions_MC", "Sessions_GenRcT.cfg"), ("Sessions_MC", "Sessions_GenRcF.cfg")]
    tr = ("Sessions_Trace", "Sessions_Trace.cfg")
    return [
        {"name": "select-direct", "driver": "sessions", "args": ["-mode", "select-direct"], "gen": direct, "trace": tr},
        {"name": "select-client", "driver": "sessions", "args": ["-mode", "select-client"], "gen": client, "trace": tr},
        {"name": "reconnect", "driver": "sessions", "args": ["-mode", "reconnect"], "gen": rc, "trace": tr},
    ]


CHECK = {
    "level": "model_checking",
    "level_text": "Sessions.tla states (a) the client's session table with its history (a connection opens, is "
                  "registered, dies while still registered, is released) and what a selection made in between may "
                  "answer: a registered open session, nil only when there is none, and under the XID policy the open "
                  "session connected to the ip:port of an ip:port:id xid whenever there is one (LiveOnly, XidAffinity); "
                  "(b) loss and re-establishment of the coordinator connection during a workload and what the "
                  "coordinator side then sees: after a grace period the new connection carries the transaction-manager "
                  "announcement and one resource-manager announcement per resource the client holds (ReannounceTM, "
                  "ReannounceRM), a new global transaction begins (BeginWorks) and phase two of earlier branches, routed "
                  "only over a connection that announced the resource, is answered (Phase2Reaches). TLC checks the "
                  "design exhaustively (4 session slots x 3 addresses x 5 policies x all xid shapes, unbounded "
                  "histories; 2 losses with and without a second coordinator) and enumerates scenarios: every table of "
                  "<=4 sessions over 3 addresses with arbitrary open flags x xid {hit, miss, two-part, four-part, "
                  "empty}, and histories of open/close/lose steps between 2-3 selections. Each is replayed at two "
                  "levels under all five policies - loadbalance.Select called directly on a sync.Map of fake sessions, "
                  "and through the real client (sessions registered by the real OnOpen, closed silently or lost through "
                  "the real OnClose, requests sent with SendSyncRequest, the chosen session observed at WritePkg, the "
                  "client's own RegisterTM requests included) - and the reconnect scenarios (loss while idle, with a "
                  "request in flight, between phase one and phase two; once and twice; with a bystander connection to a "
                  "second coordinator) run on the real client with an AT resource over memsql and a TCC resource. Every "
                  "recorded trace is validated by TLC against the specification with the invariants evaluated in every "
                  "state. Process-wide state (consistent-hash ring built once, client configuration) is handled by "
                  "executing such scenarios in a process of their own.",
    "level_note": "Trusted: TLC, the fake getty.Session (IsClosed/RemoteAddr/WritePkg), the coordinator stand-in's routing "
                  "rule (a begin is refused on a session without TM announcement; phase two is sent only over a session "
                  "that announced the resource - what the Java coordinator's ChannelManager does), the grace period "
                  "(400 ms quick / 1.5 s thorough after the new session opened, in-process). Bounds: <=4 sessions, <=3 "
                  "addresses, <=3 history steps, <=3 selections, <=2 losses. Selections with no open session are made "
                  "through the client only while closed sessions are still registered (otherwise the client polls 60 s). "
                  "Quick tier samples the per-scenario processes of the consistent-hash policy by seed.",
    "technique": "TLA+ spec + TLC exhaustive design check; TLC-enumerated session tables, histories and loss points "
                 "replayed on loadbalance.Select and on the real client behind fake sessions; TLC trace validation",
    "mc_quick": [("Sessions_MC", "Sessions_MC_Q.cfg", {"workers": 8})],
    "mc_thorough": [("Sessions_MC", "Sessions_MC.cfg", {"workers": 8})],
    "legs_fn": _legs,
    "assumptions": ["a session that the client released is closed (releaseSession closes it); a fake session reports the "
                    "address of the coordinator it stands for",
                    "announcements are expected within the grace period after the new session has been opened",
                    "with a bystander connection the follow-up traffic (begin, phase two) is not examined: it is spread "
                    "over two coordinators by the policy"],
    "trusted_base": _TB,
}
