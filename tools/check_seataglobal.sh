#!/bin/bash
# Model-check the umbrella specification SeataGlobal.tla: the positive configurations must pass, every
# negative configuration (one client obligation switched off) must violate an invariant.
# Not part of ./check (the umbrella spec has no code binding); ~10 min with 12 workers.
set -u
W=$(mktemp -d /tmp/seataglobal.XXXX); cp "$(dirname "$0")"/../specs/SeataGlobal* "$W"; cd "$W"
JAR=/opt/veriftools/tla/tla2tools.jar:/opt/veriftools/tla/CommunityModules-deps.jar
rc=0
for cfg in SeataGlobal_MC.cfg SeataGlobal_MC_Foreign.cfg SeataGlobal_MC_XA.cfg SeataGlobal_MC_Reads.cfg; do
  out=$(timeout 3000 java -XX:+UseParallelGC -cp $JAR tlc2.TLC -workers ${WORKERS:-12} -metadir $W/m -config $cfg SeataGlobal.tla 2>&1); rm -rf $W/m
  if echo "$out" | grep -q "No error has been found"; then echo "PASS $cfg: $(echo "$out" | grep 'distinct states found' | tail -1)"; else echo "FAIL $cfg"; echo "$out" | tail -20; rc=1; fi
done
for cfg in SeataGlobal_Neg_*.cfg; do
  out=$(timeout 1200 java -XX:+UseParallelGC -cp $JAR tlc2.TLC -workers ${WORKERS:-12} -metadir $W/m -config $cfg SeataGlobal.tla 2>&1); rm -rf $W/m
  v=$(echo "$out" | grep -E "is violated" | head -1)
  if [ -n "$v" ]; then echo "EXPECTED-VIOLATION $cfg: $v"; else echo "UNEXPECTED-PASS $cfg"; rc=1; fi
done
rm -rf "$W"; exit $rc
