#!/usr/bin/env python3
"""tools/save_mutant.py <worktree> <ID-n> <check_result> <check_detail>
Copy a seeded change (SEEDED/patch.diff, SEEDED/demo, SEEDED/meta.json of a sub-agent's scratch worktree) to
/verif/seeded/<ID-n>/ and record what the checks said about it.  Go files of the demo are stored with a .txt
suffix so that nothing under /verif is picked up as a Go package."""
import json, os, shutil, sys

wt, name, result, detail = sys.argv[1:5]
src = os.path.join(wt, "SEEDED")
dst = os.path.join(os.path.dirname(os.path.abspath(__file__)), "..", "seeded", name)
dst = os.path.normpath(dst)
if os.path.isdir(dst):
    shutil.rmtree(dst)
os.makedirs(os.path.join(dst, "demo"))
shutil.copy(os.path.join(src, "patch.diff"), os.path.join(dst, "patch.diff"))
for root, _, files in os.walk(os.path.join(src, "demo")):
    for f in files:
        rel = os.path.relpath(os.path.join(root, f), os.path.join(src, "demo"))
        out = os.path.join(dst, "demo", rel)
        if out.endswith(".go"):
            out += ".txt"
        if os.path.basename(out) in ("go.mod", "go.sum"):
            continue
        os.makedirs(os.path.dirname(out), exist_ok=True)
        shutil.copy(os.path.join(root, f), out)
m = json.load(open(os.path.join(src, "meta.json")))
meta = {
    "property": m.get("property", name.split("-")[0]),
    "breaks": m.get("summary") or m.get("breaks"),
    "needs": m.get("needs"),
    "files": m.get("files"),
    "made_by": "independent sub-agent given only the property text and a scratch worktree of /repo",
    "confirmed": "by the sub-agent (see agent_verification): builds, the repository's test suite passes with the change, "
                 "the demonstration fails with it and passes without it; the patch applies to /repo HEAD "
                 "(tools/try_mutant.sh, git apply --check)",
    "check_result": result,
    "check_detail": detail,
    "agent_verification": m.get("verified"),
}
json.dump(meta, open(os.path.join(dst, "meta.json"), "w"), indent=1)
print("saved", dst)
