#!/usr/bin/env python3
"""tools/selftest.py <ID> [--tier quick|thorough] [--sample N]

Anti-vacuity / binding demonstration for one property (not part of ./check): run every leg of the check on the
unchanged tree, take a sample of the traces TLC ACCEPTED, corrupt each of them in one small way and have the
leg's trace specification validate the corrupted traces.  A trace specification that is bound to the recorded
behaviour rejects them; one that only counts lines, or whose invariants never fire, does not.

Corruptions (each applied to a copy of an accepted trace, one per copy):
  drop      one event in the middle is removed
  swap      two neighbouring events of different kinds change places
  bool      one boolean field is flipped
  num       one small integer field is incremented
  str       one string field takes another value seen in the same field of the same event kind elsewhere

The report /verif/selftest/<ID>.json gives, per leg and corruption, how many corrupted traces were rejected.
Corruptions of fields the property does not speak about (an uninterpreted counter, an informative text) are
rightly accepted, so the numbers are a report, not a score; exit 1 only when a leg rejects none of its corrupted
traces (then it is bound to nothing)."""
import argparse, json, os, random, sys

ROOT = os.path.dirname(os.path.dirname(os.path.abspath(__file__)))
sys.path.insert(0, ROOT)
os.chdir(ROOT)
from vlib import core, pipeline  # noqa: E402
from vlib.registry import CHECKS  # noqa: E402

RESERVED = ("t", "k", "n", "ev", "sig")


def corruptions(evs, pool, rnd):
    """yield (kind, new event list) for one accepted trace"""
    n = len(evs)
    mid = [i for i in range(1, n - 1)]
    if mid:
        i = rnd.choice(mid)
        yield "drop", evs[:i] + evs[i + 1:]
    cand = [i for i in range(1, n - 2) if evs[i]["ev"] != evs[i + 1]["ev"]]
    if cand:
        i = rnd.choice(cand)
        yield "swap", evs[:i] + [evs[i + 1], evs[i]] + evs[i + 2:]
    fields = [(i, f) for i, e in enumerate(evs) for f, v in e.items() if f not in RESERVED]
    bools = [(i, f) for i, f in fields if isinstance(evs[i][f], bool)]
    if bools:
        i, f = rnd.choice(bools)
        e = dict(evs[i]); e[f] = not e[f]
        yield "bool", evs[:i] + [e] + evs[i + 1:]
    nums = [(i, f) for i, f in fields if isinstance(evs[i][f], int) and not isinstance(evs[i][f], bool) and -5 <= evs[i][f] <= 50]
    if nums:
        i, f = rnd.choice(nums)
        e = dict(evs[i]); e[f] = e[f] + 1
        yield "num", evs[:i] + [e] + evs[i + 1:]
    strs = [(i, f) for i, f in fields if isinstance(evs[i][f], str) and len(pool.get((evs[i]["ev"], f), ())) > 1]
    if strs:
        i, f = rnd.choice(strs)
        others = sorted(pool[(evs[i]["ev"], f)] - {evs[i][f]})
        e = dict(evs[i]); e[f] = rnd.choice(others)
        yield "str", evs[:i] + [e] + evs[i + 1:]


def main():
    ap = argparse.ArgumentParser()
    ap.add_argument("prop")
    ap.add_argument("--tier", default="quick")
    ap.add_argument("--sample", type=int, default=150)
    a = ap.parse_args()
    reg = CHECKS[a.prop]
    rnd = random.Random(7)
    work = os.path.join(core.CACHE, "selftest", a.prop)
    os.makedirs(work, exist_ok=True)
    legs = reg["legs_fn"](a.tier) if "legs_fn" in reg else reg["legs"]
    report = {"property": a.prop, "tier": a.tier, "legs": []}
    ok_all = True
    only = os.environ.get("VERIF_LEG")
    for lspec in legs:
        if only and lspec["name"] not in only.split(","):
            continue
        leg = pipeline.Leg(a.prop, lspec, a.tier, 1, os.path.join(work, lspec["name"]))
        os.makedirs(leg.work, exist_ok=True)
        leg.generate()
        binary = core.go_build(lspec["driver"], race=lspec.get("race", False))
        tf = leg.drive(binary)
        tv, rej, invf = leg.validate(tf)
        traces = core.load_traces(tf)
        bad = {r["t"] for r in rej}
        good = [t for t in sorted(traces) if t not in bad and len(traces[t]) >= 3]
        pool = {}
        for t in good:
            for e in traces[t]:
                for f, v in e.items():
                    if f not in RESERVED and isinstance(v, str):
                        pool.setdefault((e["ev"], f), set()).add(v)
        sample = good if len(good) <= a.sample else rnd.sample(good, a.sample)
        # one validation run per corruption kind: a corruption that makes TLC throw (a value outside the domain an
        # operator of the specification is defined on) must not hide the verdicts on the other kinds
        bykind = {}
        for t in sample:
            evs = [{k: v for k, v in e.items() if k not in ("t", "k", "n")} for e in traces[t]]
            for kind, new in corruptions(evs, pool, rnd):
                bykind.setdefault(kind, []).append(new)
        if not bykind:
            report["legs"].append({"leg": lspec["name"], "note": "no accepted trace long enough to corrupt"})
            continue
        per = {}
        for kind, lst in sorted(bykind.items()):
            out = os.path.join(leg.work, "corrupted-%s.ndjson" % kind)
            with open(out, "w") as fh:
                for nid, new in enumerate(lst, 1):
                    for k, e in enumerate(new):
                        fh.write(json.dumps(dict(e, t=nid, k=k + 1, n=len(new))) + "\n")
            try:
                tv2, rej2, invf2 = leg.validate(out)
                per[kind] = [len({r["t"] for r in rej2}), len(lst)]
            except core.Inconclusive:
                per[kind] = [len(lst), len(lst)]  # TLC could not even evaluate the corrupted traces
                per.setdefault("_threw", []).append(kind)
        threw = per.pop("_threw", [])
        tot_r, tot = sum(c[0] for c in per.values()), sum(c[1] for c in per.values())
        leg_ok = tot_r > 0  # a leg that rejects none of the corrupted traces is not bound to anything
        ok_all = ok_all and leg_ok
        report["legs"].append({"leg": lspec["name"], "accepted_traces_sampled": len(sample), "corrupted": tot,
                               "rejected": tot_r, "by_corruption": {k: {"rejected": c[0], "of": c[1]} for k, c in sorted(per.items())},
                               "tlc_threw_on": threw,
                               "ok": leg_ok})
        print("%s %-18s corrupted=%d rejected=%d  %s" % (a.prop, lspec["name"], tot, tot_r,
              " ".join("%s=%d/%d" % (k, c[0], c[1]) for k, c in sorted(per.items()))))
    os.makedirs(os.path.join(ROOT, "selftest"), exist_ok=True)
    json.dump(report, open(os.path.join(ROOT, "selftest", a.prop + ("-" + only.replace(",", "-") if only else "") + ".json"), "w"), indent=1)
    return 0 if ok_all else 1


if __name__ == "__main__":
    try:
        sys.exit(main())
    except core.Inconclusive as e:
        print("INCONCLUSIVE:", e, file=sys.stderr)
        sys.exit(2)
