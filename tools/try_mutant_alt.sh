#!/bin/bash
# tools/try_mutant_alt.sh <worktree> <PROP> [tier]  - run ./check <PROP> against a scratch worktree of the repository
# that carries a seeded change (VERIF_REPO), without touching /repo, /verif/evidence or /verif/replays.
# The worktree is first reset to /repo's HEAD plus SEEDED/patch.diff (nothing else).
set -u
WT=$1; PROP=$2; TIER=${3:-quick}
cd "$WT" || exit 9
S=$(mktemp -d /tmp/seeded.XXXX); cp -r SEEDED "$S/" || exit 9
git checkout -q -f --detach "$(git -C /repo rev-parse HEAD)" || exit 9
git clean -fdqx; cp -r "$S/SEEDED" . ; rm -rf "$S"
git apply SEEDED/patch.diff || { echo "patch does not apply to /repo HEAD"; exit 9; }
cd "${VERIF_ROOT:-/verif}"
VERIF_REPO="$WT" ./check $PROP --tier $TIER > /tmp/try_alt_$PROP.log 2>&1; RC=$?
echo "check-exit=$RC"; grep -E "VIOLATION|KNOWN-FINDING|INCONCLUSIVE" /tmp/try_alt_$PROP.log | cut -c1-220 | head -6; grep -A1 VIOLATION /tmp/try_alt_$PROP.log | grep signature | head -5
