#!/usr/bin/env python3
"""Print the prompt for a mutant-making sub-agent for property <ID> (only the property text is shared)."""
import json, sys
pid = sys.argv[1]
n = sys.argv[2] if len(sys.argv) > 2 else "1"
for l in open('/verif/properties.jsonl'):
    p = json.loads(l)
    if p['id'] == pid:
        break
wt = "/tmp/mut-%s-%s" % (pid, n)
avoid = sys.argv[3] if len(sys.argv) > 3 else ""  # AVOID note
print(f"""You are helping to evaluate a verification tool. Your job: produce ONE realistic, subtle code change ("seeded defect") to the Go repository apache/incubator-seata-go that BREAKS the behavioural property quoted below, while the repository still compiles and its existing test suite still passes. You get only the property text; you must NOT look at anything under /verif (do not read, list or search that directory).

Set-up (no network in this sandbox):
  git -C /repo worktree add {wt} HEAD      # your private scratch copy; work ONLY inside {wt}
  export GOFLAGS=-mod=mod GOPROXY=off GOSUMDB=off GOTOOLCHAIN=local
Never edit /repo itself, never commit anywhere. The module path is seata.apache.org/seata-go (Go 1.23 available as `go`).

The property (id {pid}): {p['title']}
  Statement: {p['statement']}
  It must hold for: {p['quantifier']['text']}
  Relevant code (starting points): {', '.join(p['anchors']['files'])}
  Mechanisms meant to make it hold: {'; '.join((m.get('name') or '') + ' @ ' + (m.get('where') or '') for m in p['anchors']['mechanism'])}

{("An earlier seeded change for this property already did this - choose a DIFFERENT mechanism, in a different function (preferably a different file): " + avoid) if avoid else ""}

Requirements for the change:
  * It must be the kind of mistake a competent developer could make in a refactoring or "optimisation" (off-by-one, wrong variable, dropped/added condition, reordered steps, missing error propagation, lost lock, wrong map key ...), touching few lines; no comments that give it away; no new dependencies.
  * It must need something SPECIFIC to manifest - a particular interleaving, a fault or failure at a particular point, a multi-step sequence of operations, an unusual input or configuration, or two cooperating sites that each look fine alone - NOT something that ordinary single-call use would expose at once.
  * `cd {wt} && go build ./... && go vet ./pkg/... >/dev/null; go test -count=1 ./...` must still pass completely (run it; all packages).
  * Write a DEMONSTRATION: a Go test file (placed in the appropriate package inside {wt}, name it zz_seeded_demo_test.go) or a small program that fails (or prints VIOLATED and exits non-zero) WITH your change and passes WITHOUT it (verify both: use `git stash` / `git diff > /tmp/x; git checkout -- <files>` inside the worktree to toggle). The demonstration may use mocks (go-sqlmock, gomonkey and testify are available in the module cache, see existing tests for usage) or fake implementations of interfaces; it should exercise the real changed code path and show the property statement being violated in observable terms.
Deliver, inside {wt}:
  * `SEEDED/patch.diff`  - `git diff` of the change ONLY (not the demo), applicable with `git apply` to the repository HEAD;
  * `SEEDED/demo/`       - the demonstration file(s) and a `run.sh` that runs it from the repository root (exit 0 = property holds, non-zero = violated);
  * `SEEDED/meta.json`   - {{"property": "{pid}", "summary": "...what the change does...", "needs": "...what is needed for it to manifest...", "files": [...], "verified": "commands you ran and their results"}}.
Leave the worktree in place with the change APPLIED and the demo present (I will inspect and remove it). In your final answer give a 5-line summary. Work autonomously; do not ask questions.""")
