#!/bin/bash
# tools/try_mutant.sh <worktree> <PROP> [tier]  - confirm a seeded change (tests pass, demo fails with / passes without),
# then run ./check <PROP> against it (applied to /repo, reverted straight afterwards).
set -u
WT=$1; PROP=$2; TIER=${3:-quick}
export GOFLAGS=-mod=mod GOPROXY=off GOSUMDB=off GOTOOLCHAIN=local
cd "$WT" || exit 9
echo "== patch"; git -C /repo apply --check "$WT/SEEDED/patch.diff" && echo "applies to /repo HEAD"
if [ "${SKIP_CONFIRM:-}" = "" ]; then
  echo "== demo WITH change"; (bash SEEDED/demo/run.sh >/tmp/try_with.log 2>&1; echo "exit=$?")
  git apply -R SEEDED/patch.diff
  echo "== demo WITHOUT change"; (bash SEEDED/demo/run.sh >/tmp/try_without.log 2>&1; echo "exit=$?")
  git apply SEEDED/patch.diff
  echo "== suite with change (demo moved aside)"
  find . -name 'zz_seeded_demo_test.go' -not -path './SEEDED/*' -exec mv {} {}.aside \;
  go build ./... && go test -count=1 ./... 2>&1 | grep -v "no test files" | grep -v "^ok" | head -5; echo "suite-exit=${PIPESTATUS[0]}"
  find . -name 'zz_seeded_demo_test.go.aside' -exec sh -c 'mv "$1" "${1%.aside}"' _ {} \;
fi
echo "== check $PROP against the change"
cd /verif
cp evidence/$PROP.json /tmp/try_evidence_backup.json 2>/dev/null
git -C /repo apply "$WT/SEEDED/patch.diff"
./check $PROP --tier $TIER > /tmp/try_check.log 2>&1; RC=$?
git -C /repo checkout -- .
cp /tmp/try_evidence_backup.json evidence/$PROP.json 2>/dev/null   # evidence must come from the unchanged tree
echo "check-exit=$RC"; grep -E "VIOLATION|KNOWN-FINDING|INCONCLUSIVE" /tmp/try_check.log | cut -c1-220 | head -8; grep -A1 VIOLATION /tmp/try_check.log | grep signature | head -5
git -C /repo status --short | head -3
