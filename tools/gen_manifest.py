#!/usr/bin/env python3
"""Generate /verif/MANIFEST.json from the check registry in vlib/registry.py.

The manifest is a build product of the registry so that it is always valid and in step
with what ./check really implements.  Run:  python3 tools/gen_manifest.py
"""
import json, os, sys

HERE = os.path.dirname(os.path.dirname(os.path.abspath(__file__)))
sys.path.insert(0, HERE)
from vlib.registry import CHECKS, NOT_APPLICABLE, HOOK_COMMITS  # noqa: E402

ALL = ["C%02d" % i for i in range(1, 21)]


def tracked_only():
    """With --tracked only fragments that are committed (git ls-files) are listed, so that a manifest
    committed while other checks are still under construction stays consistent with the commit."""
    import subprocess
    if "--tracked" not in sys.argv:
        return
    files = subprocess.check_output(["git", "-C", HERE, "ls-files", "vlib"]).decode().split()
    for pid in list(CHECKS):
        frag = "vlib/reg_%s.py" % pid
        if os.path.exists(os.path.join(HERE, frag)) and frag not in files:
            del CHECKS[pid]


def held():
    """vlib/hold.txt: ids whose checks exist but are not published yet (one per line)."""
    f = os.path.join(HERE, "vlib", "hold.txt")
    if os.path.exists(f):
        for pid in open(f).read().split():
            CHECKS.pop(pid, None)


def main():
    tracked_only()
    held()
    checks = []
    for pid in ALL:
        c = CHECKS.get(pid)
        if not c:
            continue
        checks.append({
            "property_id": pid,
            "quick_cmd": "./check %s --tier quick" % pid,
            "thorough_cmd": "./check %s --tier thorough" % pid,
            "evidence_file": "/verif/evidence/%s.json" % pid,
            "replay_cmd_template": "./check %s --replay {path}" % pid,
            "engine": "tlc+go-conformance",
            "level_claimed": {
                "category": c["level"],
                "text": c["level_text"],
                "design_ref": c.get("design_ref", "DESIGN.md §5 " + pid),
            },
            "level_note": c["level_note"],
            "technique": c["technique"],
        })
    na = []
    for pid in ALL:
        if pid in CHECKS:
            continue
        na.append({"property_id": pid,
                   "reason": NOT_APPLICABLE.get(pid, "check not built yet (work in progress; see DESIGN.md §10)")})
    m = {
        "version": 1,
        "setup_cmd": "./setup.sh",
        "hooks": {
            "guard": "verif",
            "enable": "Go build tag: go build/test -tags verif (harness module /verif/harness with replace => /repo)",
            "baseline_off_cmd": "cd /repo && GOFLAGS=-mod=mod GOPROXY=off GOSUMDB=off GOTOOLCHAIN=local go test -json -vet=off -count=1 -timeout 25m ./...",
            "source_commits": HOOK_COMMITS,
            "add_only": True,
        },
        "engines": [
            {"name": "tlc+go-conformance", "path": "/verif/check",
             "serves_properties": sorted(CHECKS.keys()),
             "kind_free_text": "explicit TLA+ specifications (specs/*.tla) model-checked with TLC; TLC-generated environment scenarios replayed against the real Go code through stand-ins (fake coordinator session, in-memory MySQL); recorded traces validated against the specification by TLC"},
        ],
        "checks": checks,
        "not_applicable": na,
        "notes": "See DESIGN.md. Exit codes of ./check: 0 held (KNOWN-FINDING lines possible), 1 VIOLATION, 2 inconclusive (infrastructure problem; never a VIOLATION line).",
    }
    with open(os.path.join(HERE, "MANIFEST.json"), "w") as f:
        json.dump(m, f, indent=1)
        f.write("\n")
    print("MANIFEST.json: %d checks, %d not_applicable" % (len(checks), len(na)))


if __name__ == "__main__":
    main()
