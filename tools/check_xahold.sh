#!/bin/bash
# tools/check_xahold.sh - design-level control for specs/XAHold.tla (not part of ./check):
#   XAHold_MC.cfg            must pass (all interleavings of the holdMu critical sections, incl. termination)
#   XAHold_Neg_SplitClose.cfg must FAIL with "Invariant NoLeak is violated" (Close's check and mark in two critical
#                             sections: the design-level statement of seeded change C20-4)
set -u
W=$(mktemp -d /tmp/xahold.XXXX); trap 'rm -rf "$W"' EXIT
cp "$(dirname "$0")"/../specs/XAHold.tla "$(dirname "$0")"/../specs/XAHold_MC.cfg "$(dirname "$0")"/../specs/XAHold_Neg_SplitClose.cfg "$(dirname "$0")"/../specs/XAHold_Neg_SplitRelease.cfg "$W"/ && cd "$W" || exit 2
timeout 300 tlc -workers 1 -metadir "$W/m1" -config XAHold_MC.cfg XAHold.tla > pos.log 2>&1
grep -q "No error has been found" pos.log || { echo "FAIL: XAHold_MC.cfg"; tail -20 pos.log; exit 1; }
for N in SplitClose SplitRelease; do
timeout 300 tlc -workers 1 -metadir "$W/m2$N" -config XAHold_Neg_$N.cfg XAHold.tla > neg.log 2>&1
grep -q "Invariant NoLeak is violated" neg.log || { echo "FAIL: XAHold_Neg_$N did not violate NoLeak"; tail -20 neg.log; exit 1; }
done
echo "ok: XAHold_MC passes ($(grep -o '[0-9]* distinct states found' pos.log | tail -1)); XAHold_Neg_SplitClose and XAHold_Neg_SplitRelease violate NoLeak as they must"
