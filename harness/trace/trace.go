// Package trace writes the ndjson traces that the X_Trace.tla specifications validate.
//
// Every line carries t (positive trace id), k (1-based index inside the trace) and n (number of
// lines of the trace), so that TLC can validate all traces of a run in one JVM start with one
// initial state per trace (DESIGN.md Appendix A).  A side file <out>.idx.json maps trace ids to
// the scenario each trace came from and to its class coordinates (used for signatures).
package trace

import (
	"bufio"
	"encoding/json"
	"os"
	"sync"
)

type Ev map[string]interface{}

type Info struct {
	T        int         `json:"t"`
	Scenario interface{} `json:"scenario"`
	Class    string      `json:"class"`
	Prop     string      `json:"prop,omitempty"`
}

type Writer struct {
	mu    sync.Mutex
	f     *os.File
	w     *bufio.Writer
	next  int
	Infos []Info
	path  string
}

func NewWriter(path string) (*Writer, error) {
	f, err := os.Create(path)
	if err != nil {
		return nil, err
	}
	return &Writer{f: f, w: bufio.NewWriterSize(f, 1<<20), next: 1, path: path}, nil
}

// T is one trace under construction; it is written out by Close.
type T struct {
	w     *Writer
	evs   []Ev
	info  Info
	mu    sync.Mutex
	ended bool
}

func (w *Writer) Begin(scenario interface{}, class string) *T {
	w.mu.Lock()
	defer w.mu.Unlock()
	t := &T{w: w, info: Info{T: w.next, Scenario: scenario, Class: class}}
	w.next++
	return t
}

func (t *T) ID() int { return t.info.T }

func (t *T) SetClass(c string) { t.info.Class = c }

// Add appends one event (safe for concurrent use; the caller orders events by calling Add at
// the linearization point).
func (t *T) Add(ev string, kv ...interface{}) {
	e := Ev{"ev": ev}
	for i := 0; i+1 < len(kv); i += 2 {
		e[kv[i].(string)] = kv[i+1]
	}
	t.mu.Lock()
	t.evs = append(t.evs, e)
	t.mu.Unlock()
}

func (t *T) Len() int { t.mu.Lock(); defer t.mu.Unlock(); return len(t.evs) }

func (t *T) Events() []Ev { t.mu.Lock(); defer t.mu.Unlock(); return append([]Ev(nil), t.evs...) }

// Close writes the trace.
func (t *T) Close() {
	t.mu.Lock()
	defer t.mu.Unlock()
	if t.ended {
		return
	}
	t.ended = true
	w := t.w
	w.mu.Lock()
	defer w.mu.Unlock()
	n := len(t.evs)
	for i, e := range t.evs {
		e["t"] = t.info.T
		e["k"] = i + 1
		e["n"] = n
		b, err := json.Marshal(e)
		if err != nil {
			panic(err)
		}
		w.w.Write(b)
		w.w.WriteByte('\n')
	}
	w.Infos = append(w.Infos, t.info)
}

func (w *Writer) Close() error {
	w.mu.Lock()
	defer w.mu.Unlock()
	if err := w.w.Flush(); err != nil {
		return err
	}
	if err := w.f.Close(); err != nil {
		return err
	}
	b, _ := json.Marshal(w.Infos)
	return os.WriteFile(w.path+".idx.json", b, 0o644)
}

// SetBase sets the id of the next trace (shards of one run use disjoint id ranges).
func (w *Writer) SetBase(n int) { w.mu.Lock(); w.next = n; w.mu.Unlock() }

func (w *Writer) Count() int { w.mu.Lock(); defer w.mu.Unlock(); return len(w.Infos) }

// ReadScenarios reads an ndjson file of scenarios into raw JSON messages, dropping duplicates.
func ReadScenarios(path string) ([]json.RawMessage, error) {
	f, err := os.Open(path)
	if err != nil {
		return nil, err
	}
	defer f.Close()
	var out []json.RawMessage
	seen := map[string]bool{}
	sc := bufio.NewScanner(f)
	sc.Buffer(make([]byte, 1<<20), 1<<26)
	for sc.Scan() {
		line := sc.Bytes()
		if len(line) == 0 {
			continue
		}
		if seen[string(line)] {
			continue
		}
		seen[string(line)] = true
		out = append(out, append(json.RawMessage(nil), line...))
	}
	return out, sc.Err()
}
