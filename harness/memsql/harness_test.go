package memsql

import (
	"context"
	"database/sql"
	"database/sql/driver"
	"encoding/json"
	"errors"
	"fmt"
	"reflect"
	"sync"
	"sync/atomic"
	"testing"
	"time"

	"github.com/go-sql-driver/mysql"
)

func TestJournal(t *testing.T) {
	s := newTestServer(t)
	var seq int64 = 100
	s.SetSeqSource(func() int64 { return atomic.AddInt64(&seq, 1) })
	s.MustExec(stockDDL) // admin path: not journaled
	s.MustExec("INSERT INTO stock_tbl (commodity_code, count) VALUES ('a', 1), ('b', 2), ('c', 3)")
	if len(s.Journal()) != 0 {
		t.Fatalf("admin statements were journaled: %+v", s.Journal())
	}
	db := openDB(t, s, "")
	db.SetMaxOpenConns(1)
	tx, _ := db.Begin()
	mustExec(t, tx, "UPDATE stock_tbl SET count = count + 1 WHERE id IN (?, ?)", 3, 1)
	queryStrings(t, tx, "SELECT * FROM stock_tbl WHERE id >= 2 FOR UPDATE")
	mustExec(t, tx, "INSERT INTO stock_tbl (commodity_code) VALUES ('d'), ('e')")
	mustExec(t, tx, "DELETE FROM stock_tbl WHERE id = 2")
	queryStrings(t, tx, "SELECT COUNT(*) FROM stock_tbl")
	st, _ := tx.Prepare("UPDATE stock_tbl SET count = ? WHERE id = ?")
	st.Exec(0, 1)
	_, err := tx.Exec("INSERT INTO stock_tbl (id) VALUES (1)")
	wantMySQLErr(t, err, 1062)
	tx.Commit()
	queryStrings(t, db, "SELECT `TABLE_NAME` FROM INFORMATION_SCHEMA.COLUMNS WHERE `TABLE_SCHEMA` = ?", "x")
	mustExec(t, db, "SET NAMES utf8")
	queryStrings(t, db, "SHOW VARIABLES LIKE 'x'")
	mustExec(t, db, "CREATE TABLE j2 (id int primary key)")
	db.Exec("SELEC 1")
	_, err = db.Exec("LOCK TABLES stock_tbl WRITE")
	if !errors.Is(err, ErrUnsupported) {
		t.Fatalf("LOCK TABLES: %v", err)
	}

	j := s.Journal()
	type w struct {
		class, table string
		keys         []string
		affected     int64
		lastID       int64
		errNo        int
		inTx         bool
		prepared     bool
	}
	want := []w{
		{class: "begin"},
		{class: "update", table: "stock_tbl", keys: []string{"1", "3"}, affected: 2, inTx: true},
		{class: "select_for_update", table: "stock_tbl", keys: []string{"2", "3"}, inTx: true},
		{class: "insert", table: "stock_tbl", keys: []string{"4", "5"}, affected: 2, lastID: 4, inTx: true},
		{class: "delete", table: "stock_tbl", keys: []string{"2"}, affected: 1, inTx: true},
		{class: "select", table: "stock_tbl", inTx: true},
		{class: "update", table: "stock_tbl", keys: []string{"1"}, affected: 1, inTx: true, prepared: true},
		{class: "insert", table: "stock_tbl", errNo: 1062, inTx: true},
		{class: "commit", inTx: true},
		{class: "select", table: "information_schema.columns"},
		{class: "set"},
		{class: "show"},
		{class: "ddl", table: "j2"},
		{class: "other", errNo: 1064},
		{class: "other"},
	}
	if len(j) != len(want) {
		for _, e := range j {
			t.Logf("%+v", e)
		}
		t.Fatalf("journal has %d entries, want %d", len(j), len(want))
	}
	for i, e := range j {
		x := want[i]
		if e.Class != x.class || e.Table != x.table || !reflect.DeepEqual(e.Keys, x.keys) || e.Affected != x.affected ||
			e.LastID != x.lastID || e.ErrNo != x.errNo || e.InTx != x.inTx || e.Prepared != x.prepared || e.Conn != 1 {
			t.Errorf("entry %d = %+v\nwant %+v", i, e, x)
		}
		if e.Seq != int64(101+i) {
			t.Errorf("entry %d seq = %d", i, e.Seq)
		}
		if (e.ErrNo != 0) != (e.Err != "") && e.Class != "other" {
			t.Errorf("entry %d: Err %q ErrNo %d", i, e.Err, e.ErrNo)
		}
	}
	if j[1].SQL != "UPDATE stock_tbl SET count = count + 1 WHERE id IN (?, ?)" || len(j[1].Args) != 2 || j[1].Args[0] != int64(3) {
		t.Errorf("entry 1 SQL/Args: %q %v", j[1].SQL, j[1].Args)
	}
	if j[7].Err != "Error 1062: Duplicate entry '1' for key 'PRIMARY'" {
		t.Errorf("error text %q", j[7].Err)
	}
	if j[14].Err == "" {
		t.Errorf("unsupported statement has no error: %+v", j[14])
	}
	s.ClearJournal()
	if len(s.Journal()) != 0 {
		t.Fatal("ClearJournal")
	}
	// composite keys are joined with _
	mustExec(t, db, tccFenceDDL)
	mustExec(t, db, "INSERT INTO tcc_fence_log VALUES ('x-1', 7, 'a', 1, NOW(3), NOW(3))")
	j = s.Journal()
	if got := j[len(j)-1].Keys; len(got) != 1 || got[0] != "x-1_7" {
		t.Fatalf("composite key text: %v", got)
	}
	if j[len(j)-1].Conn != 1 {
		t.Fatalf("conn id: %d", j[len(j)-1].Conn)
	}
}

func TestFaultPlan(t *testing.T) {
	s := newTestServer(t)
	s.MustExec(stockDDL)
	s.MustExec("INSERT INTO stock_tbl (commodity_code, count) VALUES ('a', 1)")
	db := openDB(t, s, "")

	// default error, fires once
	s.AddFault(Fault{Class: "update"})
	_, err := db.Exec("UPDATE stock_tbl SET count = 2 WHERE id = 1")
	me := wantMySQLErr(t, err, 1105)
	if me.Message != "memsql injected fault" {
		t.Fatalf("message %q", me.Message)
	}
	wantRows(t, queryStrings(t, db, "SELECT count FROM stock_tbl"), "1") // no effect
	mustExec(t, db, "UPDATE stock_tbl SET count = 2 WHERE id = 1")
	if s.FaultsFired() != 1 {
		t.Fatalf("FaultsFired = %d", s.FaultsFired())
	}

	// Nth and Times, table filter, custom error
	boom := errors.New("boom")
	s.AddFault(Fault{Class: "select", Table: "stock_tbl", Nth: 2, Times: 2, Err: boom})
	queryStrings(t, db, "SELECT 1")                    // other table: not counted
	queryStrings(t, db, "SELECT count FROM stock_tbl") // 1st: passes
	for i := 0; i < 2; i++ {
		if _, err := db.Query("SELECT count FROM stock_tbl"); !errors.Is(err, boom) {
			t.Fatalf("fault %d: %v", i, err)
		}
	}
	queryStrings(t, db, "SELECT count FROM stock_tbl") // disabled after Times
	if s.FaultsFired() != 3 {
		t.Fatalf("FaultsFired = %d", s.FaultsFired())
	}

	// commit fault: the transaction is rolled back and the connection stays usable
	s.AddFault(Fault{Class: "commit"})
	tx, _ := db.Begin()
	mustExec(t, tx, "UPDATE stock_tbl SET count = 50 WHERE id = 1")
	wantMySQLErr(t, tx.Commit(), 1105)
	wantRows(t, queryStrings(t, db, "SELECT count FROM stock_tbl"), "2")
	if !s.Idle() {
		t.Fatalf("not idle after failed commit: %+v", s.ConnStates())
	}
	// commit fault with After: the commit takes effect, the acknowledgement is lost
	s.AddFault(Fault{Class: "commit", After: true})
	tx, _ = db.Begin()
	mustExec(t, tx, "UPDATE stock_tbl SET count = 60 WHERE id = 1")
	wantMySQLErr(t, tx.Commit(), 1105)
	wantRows(t, queryStrings(t, db, "SELECT count FROM stock_tbl"), "60")
	j := s.Journal()
	last := j[len(j)-2]
	if last.Class != "commit" || last.ErrNo != 1105 {
		t.Fatalf("journal of the faulted commit: %+v", last)
	}

	// connection filter
	c1, _ := db.Conn(context.Background())
	defer c1.Close()
	var id1 int
	c1.Raw(func(dc interface{}) error { id1 = dc.(interface{ ID() int }).ID(); return nil })
	s.AddFault(Fault{Conn: id1 + 1000})
	if _, err := c1.ExecContext(context.Background(), "SELECT 1"); err != nil {
		t.Fatal(err)
	}
	s.ClearFaults()
	s.AddFault(Fault{Conn: id1, Class: "select"})
	if _, err := c1.QueryContext(context.Background(), "SELECT 1"); err == nil {
		t.Fatal("conn-filtered fault did not fire")
	}

	// OnConnect: the 2nd connect fails
	db2 := openDB(t, s, "")
	s.AddFault(Fault{OnConnect: true, Nth: 2, Err: driver.ErrBadConn})
	a, err := db2.Conn(context.Background())
	if err != nil {
		t.Fatal(err)
	}
	defer a.Close()
	// database/sql retries ErrBadConn; the fault is spent after one firing
	b, err := db2.Conn(context.Background())
	if err != nil {
		t.Fatal(err)
	}
	b.Close()
	if s.FaultsFired() != 7 {
		t.Fatalf("FaultsFired = %d, want 7", s.FaultsFired())
	}
	s.AddFault(Fault{OnConnect: true, Err: boom})
	db3 := openDB(t, s, "")
	if err := db3.Ping(); !errors.Is(err, boom) {
		t.Fatalf("connect fault: %v", err)
	}

	// Kill: the connection breaks, its transaction is rolled back
	s.ClearFaults()
	c2, _ := db.Conn(context.Background())
	defer c2.Close()
	c2.ExecContext(context.Background(), "BEGIN")
	c2.ExecContext(context.Background(), "UPDATE stock_tbl SET count = 70 WHERE id = 1")
	s.AddFault(Fault{Class: "update", Kill: true, Err: mysql.ErrInvalidConn})
	if _, err := c2.ExecContext(context.Background(), "UPDATE stock_tbl SET count = 71 WHERE id = 1"); err == nil {
		t.Fatal("kill fault did not fire")
	}
	if _, err := c2.ExecContext(context.Background(), "SELECT 1"); !errors.Is(err, driver.ErrBadConn) {
		t.Fatalf("use after kill: %v", err)
	}
	wantRows(t, queryStrings(t, db, "SELECT count FROM stock_tbl"), "60")
}

func TestGateAndObserver(t *testing.T) {
	s := newTestServer(t)
	s.MustExec(stockDDL)
	db := openDB(t, s, "")
	var mu sync.Mutex
	var gated, observed []string
	release := make(chan struct{})
	s.SetGate(func(e *Entry) error {
		mu.Lock()
		gated = append(gated, e.Class+":"+e.Table)
		mu.Unlock()
		if e.Class == "delete" {
			return errors.New("gate says no")
		}
		if e.Class == "update" {
			<-release
		}
		return nil
	})
	s.SetObserver(func(e Entry) {
		mu.Lock()
		observed = append(observed, fmt.Sprintf("%s:%d:%s", e.Class, e.Affected, e.Err))
		mu.Unlock()
	})
	mustExec(t, db, "INSERT INTO stock_tbl (commodity_code, count) VALUES ('a', 1)")
	s.MustExec("INSERT INTO stock_tbl (commodity_code, count) VALUES ('admin', 1)") // admin path bypasses the gate
	if _, err := db.Exec("DELETE FROM stock_tbl"); err == nil || err.Error() != "gate says no" {
		t.Fatalf("gate error: %v", err)
	}
	wantRows(t, queryStrings(t, db, "SELECT COUNT(*) FROM stock_tbl"), "2")
	done := make(chan error, 1)
	go func() {
		_, err := db.Exec("UPDATE stock_tbl SET count = 5 WHERE id = 1")
		done <- err
	}()
	time.Sleep(30 * time.Millisecond)
	wantRows(t, queryStrings(t, db, "SELECT count FROM stock_tbl WHERE id = 1"), "1") // still held by the gate
	close(release)
	if err := <-done; err != nil {
		t.Fatal(err)
	}
	wantRows(t, queryStrings(t, db, "SELECT count FROM stock_tbl WHERE id = 1"), "5")
	mu.Lock()
	defer mu.Unlock()
	wantGated := []string{"insert:stock_tbl", "delete:stock_tbl", "select:stock_tbl", "update:stock_tbl", "select:stock_tbl", "select:stock_tbl"}
	if !reflect.DeepEqual(gated, wantGated) {
		t.Fatalf("gated = %v", gated)
	}
	wantObserved := []string{"insert:1:", "delete:0:gate says no", "select:0:", "select:0:", "update:1:", "select:0:"}
	if !reflect.DeepEqual(observed, wantObserved) {
		t.Fatalf("observed = %v", observed)
	}
}

func TestSnapshot(t *testing.T) {
	build := func() *Server {
		s := newTestServer(t)
		s.MustExec(allTypesDDL)
		s.MustExec(tccFenceDDL)
		s.MustExec(allTypesInsert, allTypesArgs()...)
		s.MustExec("INSERT INTO all_types (c_tiny) VALUES (3)")
		s.MustExec("INSERT INTO tcc_fence_log VALUES ('b', 2, 'x', 1, '2024-01-01 00:00:00.5', '2024-01-01'), ('a', 10, 'x', 1, '2024-01-01', '2024-01-01'), ('a', 9, 'x', 1, '2024-01-01', '2024-01-01')")
		s.MustExec("UPDATE all_types SET c_timestamp = '2024-01-01 00:00:00' WHERE id = 2")
		return s
	}
	s1, s2 := build(), build()
	if s1.SnapshotHash() != s2.SnapshotHash() {
		t.Fatal("snapshot hash is not deterministic")
	}
	snap := s1.Snapshot()
	if len(snap) != 2 {
		t.Fatalf("tables: %d", len(snap))
	}
	fence := snap["tcc_fence_log"]
	if len(fence) != 3 || fence[0]["branch_id"] != int64(9) || fence[1]["branch_id"] != int64(10) || fence[2]["xid"] != "b" {
		t.Fatalf("rows are not in primary-key order: %v", fence)
	}
	if fence[2]["gmt_create"] != "2024-01-01 00:00:00.500" {
		t.Fatalf("datetime(3) canonical text: %v", fence[2]["gmt_create"])
	}
	row := snap["all_types"][0]
	checks := map[string]interface{}{
		"id": int64(1), "c_tiny": int64(-5), "c_ubig": "18446744073709551615", "c_dec": "1234.57", "c_float": 1.5, "c_double": 2.25,
		"c_varchar": "hello", "c_blob": "0x010203", "c_bit": int64(5), "c_date": "2024-02-29", "c_datetime": "2024-02-29 12:34:56.789",
		"c_time": "12:34:56", "c_json": `{"a": 1}`, "c_year": int64(2024), "c_enum": "b", "c_small": int64(-300),
	}
	for k, v := range checks {
		if !reflect.DeepEqual(row[k], v) {
			t.Errorf("snapshot %s = %#v, want %#v", k, row[k], v)
		}
	}
	if snap["all_types"][1]["c_small"] != nil {
		t.Errorf("NULL in snapshot: %#v", snap["all_types"][1]["c_small"])
	}
	if _, err := json.Marshal(snap); err != nil {
		t.Fatal(err)
	}
	// only committed data; table filter
	db := openDB(t, s1, "")
	tx, _ := db.Begin()
	mustExec(t, tx, "DELETE FROM tcc_fence_log")
	mustExec(t, tx, "INSERT INTO tcc_fence_log VALUES ('z', 1, 'x', 1, NOW(), NOW())")
	if s1.SnapshotHash("tcc_fence_log") != s2.SnapshotHash("TCC_FENCE_LOG") {
		t.Fatal("uncommitted data leaked into the snapshot")
	}
	cols, rows, err := s1.Query("SELECT xid, branch_id FROM tcc_fence_log WHERE xid = ? ORDER BY branch_id DESC", "a")
	if err != nil || len(cols) != 2 || len(rows) != 2 || rows[0][1] != int64(10) {
		t.Fatalf("admin Query: %v %v %v", cols, rows, err)
	}
	tx.Commit()
	if s1.SnapshotHash("tcc_fence_log") == s2.SnapshotHash("tcc_fence_log") {
		t.Fatal("snapshot did not change after commit")
	}
	if len(s1.Snapshot("tcc_fence_log")) != 1 || len(s1.Snapshot("missing")["missing"]) != 0 {
		t.Fatal("table filter")
	}
	// the admin Exec path blocks on row locks like anyone else
	s1.SetLockWaitTimeout(60 * time.Millisecond)
	tx, _ = db.Begin()
	mustExec(t, tx, "UPDATE tcc_fence_log SET status = 2")
	_, err = s1.Exec("UPDATE tcc_fence_log SET status = 3")
	wantMySQLErr(t, err, 1205)
	tx.Rollback()
	if n, err := s1.Exec("UPDATE tcc_fence_log SET status = 3"); err != nil || n != 1 {
		t.Fatalf("admin Exec: %d %v", n, err)
	}
}

func TestResetWithPooledConnections(t *testing.T) {
	s := newTestServer(t)
	s.MustExec(stockDDL)
	db := openDB(t, s, "")
	db.SetMaxIdleConns(4)
	ctx := context.Background()
	c1, _ := db.Conn(ctx)
	c2, _ := db.Conn(ctx)
	c3, _ := db.Conn(ctx)
	cexec(t, c1, "BEGIN")
	cexec(t, c1, "INSERT INTO stock_tbl (commodity_code) VALUES ('a')")
	cexec(t, c2, "XA START 'reset-1'")
	cexec(t, c3, "XA START 'reset-2'")
	cexec(t, c3, "XA END 'reset-2'")
	cexec(t, c3, "XA PREPARE 'reset-2'")
	s.AddFault(Fault{Class: "ddl", Times: 100})
	s.SetGate(func(e *Entry) error { return errors.New("gate") })
	// a statement blocked on a lock while the server is reset
	blocked := make(chan error, 1)
	s.SetGate(nil)
	go func() {
		_, err := db.Exec("INSERT INTO stock_tbl (id, commodity_code) VALUES (1, 'dup')")
		blocked <- err
	}()
	time.Sleep(40 * time.Millisecond)
	if s.OpenConns() != 4 {
		t.Fatalf("OpenConns = %d", s.OpenConns())
	}

	s.Reset()

	wantMySQLErr(t, <-blocked, 1146) // the table is gone
	// the only journal entry is the blocked statement that finished (failed) after the reset
	if j := s.Journal(); len(j) != 1 || j[0].ErrNo != 1146 {
		t.Fatalf("journal after reset: %+v", j)
	}
	s.ClearJournal()
	if len(s.Tables()) != 0 || len(s.Journal()) != 0 || len(s.PreparedXA()) != 0 || s.FaultsFired() != 0 || !s.Idle() {
		t.Fatalf("after reset: tables %v journal %d xa %v idle %v", s.Tables(), len(s.Journal()), s.PreparedXA(), s.Idle())
	}
	if s.OpenConns() != 4 || Lookup(s.Host()) != s {
		t.Fatalf("connections or registration lost: %d", s.OpenConns())
	}
	// the pooled connections keep working against the emptied server, outside any transaction
	cexec(t, c1, stockDDL) // the ddl fault is gone
	cexec(t, c1, "INSERT INTO stock_tbl (commodity_code) VALUES ('a')")
	cexec(t, c2, "XA START 'reset-1'") // neither in XA nor is the xid taken
	cexec(t, c2, "XA END 'reset-1'")
	cexec(t, c2, "XA ROLLBACK 'reset-1'")
	cerr(t, c3, "XA COMMIT 'reset-2'", 1397)
	c1.Close()
	c2.Close()
	c3.Close()
	wantRows(t, queryStrings(t, db, "SELECT id, commodity_code FROM stock_tbl"), "1,a") // c1's insert was autocommitted
	j := s.Journal()
	if len(j) == 0 || j[0].Seq == 0 {
		t.Fatalf("journal after reset: %+v", j)
	}
	// a new server under the same name replaces the registration
	s2 := NewServer(s.Host())
	if Lookup(s.Host()) != s2 {
		t.Fatal("registration not replaced")
	}
}

func TestConcurrentHammer(t *testing.T) {
	s := newTestServer(t)
	s.SetLockWaitTimeout(10 * time.Second)
	s.MustExec("CREATE TABLE acct (id int primary key, balance bigint NOT NULL, touched int NOT NULL DEFAULT 0)")
	const accounts = 6
	for i := 1; i <= accounts; i++ {
		s.MustExec("INSERT INTO acct (id, balance) VALUES (?, 1000)", i)
	}
	s.MustExec("CREATE TABLE ledger (id bigint auto_increment primary key, src int, dst int, amount int, UNIQUE KEY uk (src, dst, amount))")
	db := openDB(t, s, "")
	db.SetMaxOpenConns(8)
	const workers, rounds = 8, 60
	var wg sync.WaitGroup
	var deadlocks, dups int64
	errs := make(chan error, workers)
	for w := 0; w < workers; w++ {
		wg.Add(1)
		go func(w int) {
			defer wg.Done()
			for i := 0; i < rounds; i++ {
				src := (w+i)%accounts + 1
				dst := (w+2*i+1)%accounts + 1
				if src == dst {
					dst = dst%accounts + 1
				}
				amount := i%7 + 1
				err := func() error {
					tx, err := db.Begin()
					if err != nil {
						return err
					}
					defer tx.Rollback()
					var bal int64
					if err := tx.QueryRow("SELECT balance FROM acct WHERE id = ? FOR UPDATE", src).Scan(&bal); err != nil {
						return err
					}
					if _, err := tx.Exec("UPDATE acct SET balance = balance - ?, touched = touched + 1 WHERE id = ?", amount, src); err != nil {
						return err
					}
					if _, err := tx.Exec("UPDATE acct SET balance = balance + ?, touched = touched + 1 WHERE id = ?", amount, dst); err != nil {
						return err
					}
					if _, err := tx.Exec("INSERT INTO ledger (src, dst, amount) VALUES (?, ?, ?) ON DUPLICATE KEY UPDATE amount = amount", src, dst, amount+1000*w+100000*i); err != nil {
						return err
					}
					if i%5 == 0 {
						return nil // rollback
					}
					return tx.Commit()
				}()
				var me *mysql.MySQLError
				if errors.As(err, &me) && me.Number == 1213 {
					atomic.AddInt64(&deadlocks, 1)
					continue
				}
				if errors.As(err, &me) && me.Number == 1062 {
					atomic.AddInt64(&dups, 1)
					continue
				}
				if err != nil {
					errs <- fmt.Errorf("worker %d round %d: %w", w, i, err)
					return
				}
				// unlocked reads in between
				if _, err := db.Exec("SELECT COUNT(*) FROM ledger"); err != nil {
					errs <- err
					return
				}
			}
		}(w)
	}
	wg.Wait()
	close(errs)
	for err := range errs {
		t.Error(err)
	}
	var total int64
	if err := db.QueryRow("SELECT SUM(balance) FROM acct").Scan(&total); err != nil {
		t.Fatal(err)
	}
	if total != accounts*1000 {
		t.Fatalf("money was created or destroyed: total = %d", total)
	}
	if !s.Idle() {
		t.Fatalf("not idle: %+v", s.ConnStates())
	}
	if len(s.LockedRows()) != 0 {
		t.Fatalf("locks leaked: %v", s.LockedRows())
	}
	j := s.Journal()
	for i := 1; i < len(j); i++ {
		if j[i].Seq <= j[i-1].Seq {
			t.Fatalf("journal sequence not increasing at %d", i)
		}
	}
	t.Logf("journal %d entries, %d deadlock victims, %d duplicates", len(j), deadlocks, dups)
}

func TestDriverInterfaces(t *testing.T) {
	s := newTestServer(t)
	// DSN must be a real MySQL DSN
	cfg, err := mysql.ParseDSN(s.DSN("db1"))
	if err != nil || cfg.DBName != "db1" || !cfg.MultiStatements || cfg.Addr != s.Host()+":3306" {
		t.Fatalf("DSN: %+v %v", cfg, err)
	}
	if _, err := (Driver{}).Open("root:pw@tcp(unknown-host:3306)/x"); err == nil {
		t.Fatal("connect to unregistered host succeeded")
	}
	cn, err := Driver{}.OpenConnector(s.DSN("db1"))
	if err != nil {
		t.Fatal(err)
	}
	if _, ok := cn.Driver().(driver.DriverContext); !ok {
		t.Fatal("driver is not a DriverContext")
	}
	db := sql.OpenDB(cn)
	defer db.Close()
	if err := db.Ping(); err != nil {
		t.Fatal(err)
	}
	conn, _ := db.Conn(context.Background())
	defer conn.Close()
	conn.Raw(func(dc interface{}) error {
		if _, ok := dc.(driver.SessionResetter); !ok {
			t.Error("conn is not a SessionResetter")
		}
		if _, ok := dc.(driver.Validator); !ok {
			t.Error("conn is not a Validator")
		}
		// ResetSession must not roll back
		c := dc.(driver.ExecerContext)
		c.ExecContext(context.Background(), "CREATE TABLE r (id int primary key)", nil)
		c.ExecContext(context.Background(), "BEGIN", nil)
		c.ExecContext(context.Background(), "INSERT INTO r VALUES (1)", nil)
		if err := dc.(driver.SessionResetter).ResetSession(context.Background()); err != nil {
			t.Error(err)
		}
		if s.Idle() {
			t.Error("ResetSession rolled the transaction back")
		}
		c.ExecContext(context.Background(), "COMMIT", nil)
		// a '?' without arguments is a syntax error on the text protocol
		if _, err := c.ExecContext(context.Background(), "INSERT INTO r VALUES (?)", nil); err == nil {
			t.Error("unbound marker accepted")
		}
		// rows.Next tolerates a short destination (the repo calls Next(nil))
		st, _ := dc.(driver.Conn).Prepare("SHOW VARIABLES LIKE 'auto_increment_increment'")
		rows, err := st.Query(nil)
		if err != nil {
			t.Error(err)
			return nil
		}
		if len(rows.Columns()) != 2 || rows.Next(nil) != nil {
			t.Error("SHOW VARIABLES through a raw prepared statement")
		}
		rows.Close()
		st.Close()
		return nil
	})
	wantRows(t, queryStrings(t, db, "SELECT id FROM r"), "1")
}

func TestTwoServersSharedStatements(t *testing.T) {
	// cached ASTs are shared between servers: executing the same text concurrently on two servers must be race free
	var wg sync.WaitGroup
	for n := 0; n < 2; n++ {
		s := newTestServer(t)
		s.MustExec(stockDDL)
		db := openDB(t, s, "")
		for w := 0; w < 3; w++ {
			wg.Add(1)
			go func(w int) {
				defer wg.Done()
				for i := 0; i < 50; i++ {
					code := fmt.Sprintf("c%d-%d", w, i)
					if _, err := db.Exec("INSERT INTO stock_tbl (commodity_code, count) VALUES (?, ?) ON DUPLICATE KEY UPDATE count = count + VALUES(count)", code, i); err != nil {
						t.Error(err)
						return
					}
					if _, err := db.Exec("UPDATE stock_tbl SET count = count + 1 WHERE commodity_code = ? ORDER BY id LIMIT 1", code); err != nil {
						t.Error(err)
						return
					}
					rows, err := db.Query("SELECT COUNT(*), MAX(count) FROM stock_tbl WHERE commodity_code LIKE ?", fmt.Sprintf("c%d-%%", w))
					if err != nil {
						t.Error(err)
						return
					}
					rows.Close()
				}
			}(w)
		}
	}
	wg.Wait()
}

func TestClientFoundRowsAndRawJournalArgs(t *testing.T) {
	s := newTestServer(t)
	s.MustExec(stockDDL)
	s.MustExec("INSERT INTO stock_tbl (commodity_code, count) VALUES ('a', 1), ('b', 2)")
	db := openDB(t, s, "clientFoundRows=true&interpolateParams=true")
	r := mustExec(t, db, "UPDATE stock_tbl SET count = 2")
	if affected(t, r) != 2 {
		t.Fatalf("clientFoundRows affected = %d, want 2 (matched)", affected(t, r))
	}
	mustExec(t, db, "CREATE TABLE ev (id int primary key, at datetime(6), ok tinyint)")
	when := time.Date(2024, 1, 2, 3, 4, 5, 6000, time.UTC)
	mustExec(t, db, "INSERT INTO ev VALUES (?, ?, ?)", 1, when, true)
	j := s.Journal()
	e := j[len(j)-1]
	if len(e.Args) != 3 || e.Args[0] != int64(1) || e.Args[1] != when || e.Args[2] != true {
		t.Fatalf("journal args are not the driver values as received: %#v", e.Args)
	}
	wantRows(t, queryStrings(t, db, "SELECT at, ok FROM ev"), "2024-01-02 03:04:05.000006,1")
}
