package memsql

import (
	"fmt"
	"regexp"
	"sort"
	"strconv"
	"strings"
	"sync"

	"github.com/arana-db/parser"
	"github.com/arana-db/parser/ast"
	"github.com/arana-db/parser/test_driver"
)

type xaCmd struct {
	verb     string // start end prepare commit rollback recover
	xid      string // normalised identity
	gtrid    string
	bqual    string
	formatID int64
	opt      string // join resume suspend onephase convertxid ""
}

type parsedStmt struct {
	text    string
	node    ast.StmtNode // nil for statements recognised by prefix
	class   string
	table   string
	nparams int
	markers map[*test_driver.ParamMarkerExpr]int // marker -> index within this statement

	unsupported string                   // construct memsql does not implement (found at parse time)
	aggs        []*ast.AggregateFuncExpr // aggregate calls in the select list

	spName string // savepoint name for savepoint / rollback_to / release_savepoint
	xa     *xaCmd
}

type parsedSQL struct {
	stmts   []*parsedStmt
	nparams int
}

var parserPool = sync.Pool{New: func() interface{} { return parser.New() }}

var (
	parseCacheMu sync.Mutex
	parseCache   = map[string]*parsedSQL{}
)

var (
	reSavepoint  = regexp.MustCompile("(?is)^savepoint\\s+(`[^`]+`|[^\\s;]+)$")
	reRollbackTo = regexp.MustCompile("(?is)^rollback\\s+(?:work\\s+)?to\\s+(?:savepoint\\s+)?(`[^`]+`|[^\\s;]+)$")
	reRelease    = regexp.MustCompile("(?is)^release\\s+savepoint\\s+(`[^`]+`|[^\\s;]+)$")
	reXA         = regexp.MustCompile(`(?is)^xa\s+(start|begin|end|prepare|commit|rollback|recover)\b\s*(.*)$`)
)

func syntaxError(near string) error {
	if len(near) > 80 {
		near = near[:80]
	}
	return myErr(1064, "You have an error in your SQL syntax; check the manual that corresponds to your MySQL server version for the right syntax to use near '%s' at line 1", near)
}

func trimStatement(s string) string {
	s = strings.TrimSpace(s)
	for strings.HasSuffix(s, ";") {
		s = strings.TrimSpace(strings.TrimSuffix(s, ";"))
	}
	return s
}

func unquoteIdent(s string) string {
	if len(s) >= 2 && s[0] == '`' && s[len(s)-1] == '`' {
		return s[1 : len(s)-1]
	}
	return s
}

// parseSQL splits and parses a statement string. Results are cached; the ASTs are only read afterwards.
func parseSQL(sql string) (*parsedSQL, error) {
	parseCacheMu.Lock()
	if p, ok := parseCache[sql]; ok {
		parseCacheMu.Unlock()
		return p, nil
	}
	parseCacheMu.Unlock()

	p, err := parseSQLUncached(sql)
	if err != nil {
		return nil, err
	}
	parseCacheMu.Lock()
	if len(parseCache) > 20000 {
		parseCache = map[string]*parsedSQL{}
	}
	parseCache[sql] = p
	parseCacheMu.Unlock()
	return p, nil
}

func parseSQLUncached(sql string) (*parsedSQL, error) {
	trimmed := trimStatement(sql)
	if trimmed == "" {
		return nil, myErr(1065, "Query was empty")
	}
	if sp, err := parseSpecial(trimmed, sql); sp != nil || err != nil {
		if err != nil {
			return nil, err
		}
		return &parsedSQL{stmts: []*parsedStmt{sp}}, nil
	}
	ps := parserPool.Get().(*parser.Parser)
	res, _, err := ps.Parse(sql, "", "")
	// the parser hands out its internal result buffer: copy before another goroutine reuses the parser
	nodes := append([]ast.StmtNode(nil), res...)
	parserPool.Put(ps)
	if err != nil {
		msg := err.Error()
		if i := strings.Index(msg, "near "); i >= 0 {
			msg = strings.Trim(strings.TrimSpace(msg[i+5:]), "\"")
		}
		return nil, syntaxError(msg)
	}
	if len(nodes) == 0 {
		return nil, myErr(1065, "Query was empty")
	}
	out := &parsedSQL{}
	for _, n := range nodes {
		st := &parsedStmt{text: strings.TrimSpace(n.Text()), node: n}
		if st.text == "" {
			st.text = trimmed
		}
		st.class, st.table = classify(n)
		st.markers = collectMarkers(n)
		// all AST visiting happens here: Accept writes to the nodes it walks, and cached ASTs are shared
		uf := &unsupportedFinder{}
		n.Accept(uf)
		st.unsupported = uf.what
		if sel, ok := n.(*ast.SelectStmt); ok && sel.Fields != nil {
			af := &aggFinder{}
			for _, f := range sel.Fields.Fields {
				if f.Expr != nil {
					f.Expr.Accept(af)
				}
			}
			st.aggs = af.found
		}
		st.nparams = len(st.markers)
		out.nparams += st.nparams
		out.stmts = append(out.stmts, st)
	}
	return out, nil
}

type markerCollector struct {
	found []*test_driver.ParamMarkerExpr
}

func (m *markerCollector) Enter(n ast.Node) (ast.Node, bool) {
	if p, ok := n.(*test_driver.ParamMarkerExpr); ok {
		m.found = append(m.found, p)
	}
	return n, false
}
func (m *markerCollector) Leave(n ast.Node) (ast.Node, bool) { return n, true }

func collectMarkers(n ast.Node) map[*test_driver.ParamMarkerExpr]int {
	mc := &markerCollector{}
	n.Accept(mc)
	sort.SliceStable(mc.found, func(i, j int) bool { return mc.found[i].Offset < mc.found[j].Offset })
	out := make(map[*test_driver.ParamMarkerExpr]int, len(mc.found))
	for i, p := range mc.found {
		out[p] = i
	}
	return out
}

// singleTable returns the one table a FROM / table-refs clause names, or nil.
func singleTable(refs *ast.TableRefsClause) (*ast.TableName, string, bool) {
	if refs == nil || refs.TableRefs == nil {
		return nil, "", true
	}
	j := refs.TableRefs
	if j.Right != nil {
		return nil, "", false
	}
	switch l := j.Left.(type) {
	case *ast.TableSource:
		tn, ok := l.Source.(*ast.TableName)
		if !ok {
			return nil, "", false
		}
		return tn, l.AsName.L, true
	case *ast.TableName:
		return l, "", true
	}
	return nil, "", false
}

func journalTableName(tn *ast.TableName) string {
	if tn == nil {
		return ""
	}
	if tn.Schema.L == "information_schema" {
		return "information_schema." + tn.Name.L
	}
	return tn.Name.L
}

func classify(n ast.StmtNode) (class, table string) {
	switch s := n.(type) {
	case *ast.SelectStmt:
		class = "select"
		if s.LockInfo != nil && s.LockInfo.LockType != ast.SelectLockNone {
			class = "select_for_update"
		}
		if tn, _, ok := singleTable(s.From); ok && tn != nil {
			if tn.Schema.L == "" && tn.Name.L == "dual" {
				return class, ""
			}
			table = journalTableName(tn)
		}
		return class, table
	case *ast.InsertStmt:
		tn, _, _ := singleTable(s.Table)
		return "insert", journalTableName(tn)
	case *ast.UpdateStmt:
		tn, _, _ := singleTable(s.TableRefs)
		return "update", journalTableName(tn)
	case *ast.DeleteStmt:
		tn, _, _ := singleTable(s.TableRefs)
		return "delete", journalTableName(tn)
	case *ast.CreateTableStmt:
		return "ddl", s.Table.Name.L
	case *ast.DropTableStmt:
		if len(s.Tables) == 1 {
			return "ddl", s.Tables[0].Name.L
		}
		return "ddl", ""
	case *ast.TruncateTableStmt:
		return "ddl", s.Table.Name.L
	case *ast.AlterTableStmt, *ast.CreateIndexStmt, *ast.DropIndexStmt, *ast.CreateDatabaseStmt, *ast.DropDatabaseStmt, *ast.RenameTableStmt:
		return "ddl", ""
	case *ast.SetStmt:
		return "set", ""
	case *ast.ShowStmt:
		if s.Table != nil {
			return "show", s.Table.Name.L
		}
		return "show", ""
	case *ast.BeginStmt:
		return "begin", ""
	case *ast.CommitStmt:
		return "commit", ""
	case *ast.RollbackStmt:
		return "rollback", ""
	}
	return "other", ""
}

func parseSpecial(trimmed, original string) (*parsedStmt, error) {
	if m := reSavepoint.FindStringSubmatch(trimmed); m != nil {
		return &parsedStmt{text: original, class: "savepoint", spName: strings.ToLower(unquoteIdent(m[1]))}, nil
	}
	if m := reRollbackTo.FindStringSubmatch(trimmed); m != nil {
		return &parsedStmt{text: original, class: "rollback_to", spName: strings.ToLower(unquoteIdent(m[1]))}, nil
	}
	if m := reRelease.FindStringSubmatch(trimmed); m != nil {
		return &parsedStmt{text: original, class: "release_savepoint", spName: strings.ToLower(unquoteIdent(m[1]))}, nil
	}
	if len(trimmed) >= 3 && strings.EqualFold(trimmed[:2], "xa") && (trimmed[2] == ' ' || trimmed[2] == '\t' || trimmed[2] == '\n') {
		m := reXA.FindStringSubmatch(trimmed)
		if m == nil {
			return nil, syntaxError(trimmed)
		}
		cmd := &xaCmd{verb: strings.ToLower(m[1]), formatID: 1}
		if cmd.verb == "begin" {
			cmd.verb = "start"
		}
		rest := strings.TrimSpace(m[2])
		if cmd.verb == "recover" {
			if rest != "" && !strings.EqualFold(strings.Join(strings.Fields(rest), " "), "convert xid") {
				return nil, syntaxError(rest)
			}
			return &parsedStmt{text: original, class: "xa_recover", xa: cmd}, nil
		}
		rest, err := parseXid(rest, cmd)
		if err != nil {
			return nil, err
		}
		opt := strings.ToLower(strings.Join(strings.Fields(rest), " "))
		switch {
		case opt == "":
		case cmd.verb == "start" && (opt == "join" || opt == "resume"):
			cmd.opt = opt
		case cmd.verb == "end" && (opt == "suspend" || opt == "suspend for migrate"):
			cmd.opt = "suspend"
		case cmd.verb == "commit" && opt == "one phase":
			cmd.opt = "onephase"
		default:
			return nil, syntaxError(rest)
		}
		return &parsedStmt{text: original, class: "xa_" + cmd.verb, xa: cmd}, nil
	}
	return nil, nil
}

// parseXid parses 'gtrid'[,'bqual'[,formatID]] and returns the remaining text.
func parseXid(s string, cmd *xaCmd) (string, error) {
	readStr := func(s string) (val, rest string, ok bool) {
		s = strings.TrimSpace(s)
		if s == "" {
			return "", s, false
		}
		switch {
		case s[0] == '\'' || s[0] == '"':
			q := s[0]
			var sb strings.Builder
			for i := 1; i < len(s); i++ {
				if s[i] == '\\' && i+1 < len(s) {
					i++
					sb.WriteByte(s[i])
					continue
				}
				if s[i] == q {
					if i+1 < len(s) && s[i+1] == q {
						sb.WriteByte(q)
						i++
						continue
					}
					return sb.String(), s[i+1:], true
				}
				sb.WriteByte(s[i])
			}
			return "", s, false
		case len(s) > 2 && (s[0] == 'x' || s[0] == 'X') && s[1] == '\'':
			end := strings.IndexByte(s[2:], '\'')
			if end < 0 {
				return "", s, false
			}
			b, err := hexDecode(s[2 : 2+end])
			if err != nil {
				return "", s, false
			}
			return string(b), s[2+end+1:], true
		case strings.HasPrefix(s, "0x") || strings.HasPrefix(s, "0X"):
			i := 2
			for i < len(s) && isHexDigit(s[i]) {
				i++
			}
			b, err := hexDecode(s[2:i])
			if err != nil {
				return "", s, false
			}
			return string(b), s[i:], true
		}
		return "", s, false
	}
	g, rest, ok := readStr(s)
	if !ok {
		return "", syntaxError(s)
	}
	cmd.gtrid = g
	rest = strings.TrimSpace(rest)
	if strings.HasPrefix(rest, ",") {
		b, r2, ok := readStr(rest[1:])
		if !ok {
			return "", syntaxError(rest)
		}
		cmd.bqual = b
		rest = strings.TrimSpace(r2)
		if strings.HasPrefix(rest, ",") {
			r3 := strings.TrimSpace(rest[1:])
			i := 0
			for i < len(r3) && r3[i] >= '0' && r3[i] <= '9' {
				i++
			}
			if i == 0 {
				return "", syntaxError(rest)
			}
			f, _ := strconv.ParseInt(r3[:i], 10, 64)
			cmd.formatID = f
			rest = r3[i:]
		}
	}
	if len(cmd.gtrid) > 64 || len(cmd.bqual) > 64 {
		return "", myErr(1398, "XAER_INVAL: Invalid arguments (or unsupported command)")
	}
	cmd.xid = xidIdentity(cmd.gtrid, cmd.bqual, cmd.formatID)
	return rest, nil
}

func xidIdentity(gtrid, bqual string, formatID int64) string {
	if bqual == "" && formatID == 1 {
		return gtrid
	}
	if formatID == 1 {
		return gtrid + "," + bqual
	}
	return fmt.Sprintf("%s,%s,%d", gtrid, bqual, formatID)
}

func isHexDigit(c byte) bool {
	return (c >= '0' && c <= '9') || (c >= 'a' && c <= 'f') || (c >= 'A' && c <= 'F')
}

func hexDecode(s string) ([]byte, error) {
	if len(s)%2 == 1 {
		s = "0" + s
	}
	out := make([]byte, len(s)/2)
	for i := 0; i < len(out); i++ {
		v, err := strconv.ParseUint(s[2*i:2*i+2], 16, 8)
		if err != nil {
			return nil, err
		}
		out[i] = byte(v)
	}
	return out, nil
}
