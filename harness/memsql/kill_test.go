package memsql

import (
	"testing"
)

// The death of the client process: active and idle branches are rolled back, a prepared branch
// survives its connection (on both sides of 8.0.29) and another connection can finish it.
func TestKillClientConnsXA(t *testing.T) {
	for _, ver := range []string{"8.0.28", "8.0.30"} {
		s := newTestServer(t)
		s.SetVersion(ver)
		db := openDB(t, s, "")
		mustExec(t, db, stockDDL)
		mustExec(t, db, "INSERT INTO stock_tbl (commodity_code, count) VALUES ('a', 1), ('b', 2)")
		c1, c2 := xaConn(t, db), xaConn(t, db)
		cexec(t, c1, "XA START 'p'")
		cexec(t, c1, "UPDATE stock_tbl SET count = 10 WHERE id = 1")
		cexec(t, c1, "XA END 'p'")
		cexec(t, c1, "XA PREPARE 'p'")
		cexec(t, c2, "XA START 'a'")
		cexec(t, c2, "UPDATE stock_tbl SET count = 20 WHERE id = 2")
		if st := s.XAStates(); st["a"].State != "ACTIVE" || st["p"].State != "PREPARED" || st["p"].Attached != (ver == "8.0.28") {
			t.Fatalf("%s: states before kill: %+v", ver, st)
		}
		if n := s.KillClientConns(); n < 2 {
			t.Fatalf("%s: killed %d connections", ver, n)
		}
		st := s.XAStates()
		if _, ok := st["a"]; ok || st["p"].State != "PREPARED" || st["p"].Attached {
			t.Fatalf("%s: states after kill: %+v", ver, st)
		}
		if got := s.PreparedXA(); len(got) != 1 || got[0] != "p" {
			t.Fatalf("%s: prepared after kill: %v", ver, got)
		}
		db2 := openDB(t, s, "")
		c3 := xaConn(t, db2)
		cexec(t, c3, "XA COMMIT 'p'")
		wantRows(t, queryStrings(t, db2, "SELECT id, count FROM stock_tbl ORDER BY id"), "1,10;2,2")
	}
}
