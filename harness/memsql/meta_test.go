package memsql

import (
	"context"
	"database/sql"
	"database/sql/driver"
	"testing"
	"time"

	seatamysql "seata.apache.org/seata-go/pkg/datasource/sql/datasource/mysql"
	"seata.apache.org/seata-go/pkg/datasource/sql/types"
)

// SQL copied from /repo/pkg/datasource/sql/datasource/mysql/trigger.go
const (
	columnMetaSQL = "SELECT `TABLE_NAME`, `TABLE_SCHEMA`, `COLUMN_NAME`, `DATA_TYPE`, `COLUMN_TYPE`, `COLUMN_KEY`, `IS_NULLABLE`, `COLUMN_DEFAULT`, `EXTRA` FROM INFORMATION_SCHEMA.COLUMNS WHERE `TABLE_SCHEMA` = ? AND `TABLE_NAME` = ?"
	indexMetaSQL  = "SELECT `INDEX_NAME`, `COLUMN_NAME`, `NON_UNIQUE` FROM `INFORMATION_SCHEMA`.`STATISTICS` WHERE `TABLE_SCHEMA` = ? AND `TABLE_NAME` = ?"
)

// DDL from /repo/testdata/sql/undo_log.sql
const undoLogDDL = "CREATE TABLE `undo_log` (" +
	"`id` bigint(20) NOT NULL AUTO_INCREMENT," +
	"`branch_id` bigint(20) NOT NULL," +
	"`xid` varchar(100) NOT NULL," +
	"`context` varchar(128) NOT NULL," +
	"`rollback_info` longblob NOT NULL," +
	"`log_status` int(11) NOT NULL," +
	"`log_created` datetime NOT NULL," +
	"`log_modified` datetime NOT NULL," +
	"`ext` varchar(100) DEFAULT NULL," +
	"PRIMARY KEY (`id`)," +
	"UNIQUE KEY `ux_undo_log` (`xid`,`branch_id`)" +
	") ENGINE=InnoDB DEFAULT CHARSET=utf8"

const tccFenceDDL = "CREATE TABLE IF NOT EXISTS `tcc_fence_log` (" +
	"`xid` VARCHAR(128) NOT NULL COMMENT 'global id'," +
	"`branch_id` BIGINT NOT NULL COMMENT 'branch id'," +
	"`action_name` VARCHAR(64) NOT NULL COMMENT 'action name'," +
	"`status` TINYINT NOT NULL COMMENT 'status(tried:1;committed:2;rollbacked:3;suspended:4)'," +
	"`gmt_create` DATETIME(3) NOT NULL COMMENT 'create time'," +
	"`gmt_modified` DATETIME(3) NOT NULL COMMENT 'update time'," +
	"PRIMARY KEY (`xid`, `branch_id`)," +
	"KEY `idx_gmt_modified` (`gmt_modified`)," +
	"KEY `idx_status` (`status`)" +
	") ENGINE = InnoDB DEFAULT CHARSET = utf8mb4"

func TestInformationSchema(t *testing.T) {
	s := newTestServer(t)
	db := openDB(t, s, "")
	mustExec(t, db, undoLogDDL)
	mustExec(t, db, stockDDL)
	mustExec(t, db, "CREATE TABLE ts (id int unsigned primary key, c timestamp(3) NOT NULL DEFAULT CURRENT_TIMESTAMP(3) ON UPDATE CURRENT_TIMESTAMP(3), d decimal(10,2) DEFAULT '1.5', e enum('x','y') DEFAULT 'x', KEY k_d (d, e))")

	// prepared + args, as the repo issues it; the table name may arrive in any case / back-quoted
	for _, name := range []string{"undo_log", "UNDO_LOG", "`undo_log`"} {
		got := queryStrings(t, db, columnMetaSQL, "testdb", name)
		want := "undo_log,testdb,id,bigint,bigint(20),PRI,NO,NULL,auto_increment;" +
			"undo_log,testdb,branch_id,bigint,bigint(20),,NO,NULL,;" +
			"undo_log,testdb,xid,varchar,varchar(100),MUL,NO,NULL,;" +
			"undo_log,testdb,context,varchar,varchar(128),,NO,NULL,;" +
			"undo_log,testdb,rollback_info,longblob,longblob,,NO,NULL,;" +
			"undo_log,testdb,log_status,int,int(11),,NO,NULL,;" +
			"undo_log,testdb,log_created,datetime,datetime,,NO,NULL,;" +
			"undo_log,testdb,log_modified,datetime,datetime,,NO,NULL,;" +
			"undo_log,testdb,ext,varchar,varchar(100),,YES,NULL,"
		wantRows(t, got, want)
	}
	wantRows(t, queryStrings(t, db, columnMetaSQL, "otherdb", "undo_log"), "")
	wantRows(t, queryStrings(t, db, indexMetaSQL, "testdb", "undo_log"),
		"PRIMARY,id,0;ux_undo_log,xid,0;ux_undo_log,branch_id,0")
	wantRows(t, queryStrings(t, db, indexMetaSQL, "testdb", "stock_tbl"), "PRIMARY,id,0;commodity_code,commodity_code,0")
	wantRows(t, queryStrings(t, db, indexMetaSQL, "testdb", "ts"), "PRIMARY,id,0;k_d,d,1;k_d,e,1")
	wantRows(t, queryStrings(t, db, columnMetaSQL, "testdb", "ts"),
		"ts,testdb,id,int,int unsigned,PRI,NO,NULL,;"+
			"ts,testdb,c,timestamp,timestamp(3),,NO,CURRENT_TIMESTAMP(3),DEFAULT_GENERATED on update CURRENT_TIMESTAMP(3);"+
			"ts,testdb,d,decimal,decimal(10,2),MUL,YES,1.50,;"+
			"ts,testdb,e,enum,enum('x','y'),,YES,x,")
	wantRows(t, queryStrings(t, db, columnMetaSQL, "testdb", "stock_tbl"),
		"stock_tbl,testdb,id,int,int(11),PRI,NO,NULL,auto_increment;"+
			"stock_tbl,testdb,commodity_code,varchar,varchar(255),UNI,YES,NULL,;"+
			"stock_tbl,testdb,count,int,int(11),,YES,0,")

	// value kinds in the binary protocol: strings are []byte, NON_UNIQUE is an integer
	raw := rawQuery(t, db, indexMetaSQL, "testdb", "undo_log")
	if _, ok := raw[0].vals[0].([]byte); !ok {
		t.Errorf("INDEX_NAME kind %T", raw[0].vals[0])
	}
	if v, ok := raw[0].vals[2].(int64); !ok || v != 0 {
		t.Errorf("NON_UNIQUE = %#v", raw[0].vals[2])
	}
	// generic select lists over the views
	wantRows(t, queryStrings(t, db, "SELECT COLUMN_NAME, ORDINAL_POSITION, NUMERIC_PRECISION, CHARACTER_MAXIMUM_LENGTH, DATETIME_PRECISION FROM information_schema.columns WHERE table_name = 'ts' ORDER BY ORDINAL_POSITION DESC LIMIT 2"),
		"e,4,NULL,1,NULL;d,3,10,NULL,NULL")
	wantRows(t, queryStrings(t, db, "SELECT COUNT(*) FROM INFORMATION_SCHEMA.STATISTICS WHERE TABLE_SCHEMA = 'testdb' AND NON_UNIQUE = 0"), "6")
	wantRows(t, queryStrings(t, db, "SELECT TABLE_NAME FROM information_schema.TABLES WHERE TABLE_SCHEMA = ?", "testdb"), "stock_tbl;ts;undo_log")
	got := queryStrings(t, db, "SHOW INDEX FROM undo_log")
	if len(got) != 3 || got[1][2] != "ux_undo_log" || got[1][1] != "0" || got[1][4] != "xid" || got[2][3] != "2" {
		t.Fatalf("SHOW INDEX: %v", got)
	}
	wantRows(t, queryStrings(t, db, "SHOW TABLES"), "stock_tbl;ts;undo_log")
}

// The repo's own metadata loader runs against memsql.
func TestRepoTriggerLoadOne(t *testing.T) {
	s := newTestServer(t)
	db := openDB(t, s, "")
	mustExec(t, db, undoLogDDL)
	mustExec(t, db, tccFenceDDL)
	conn, err := db.Conn(context.Background())
	if err != nil {
		t.Fatal(err)
	}
	defer conn.Close()
	meta, err := seatamysql.NewMysqlTrigger().LoadOne(context.Background(), "testdb", "undo_log", conn)
	if err != nil {
		t.Fatal(err)
	}
	if len(meta.ColumnNames) != 9 || meta.ColumnNames[0] != "id" {
		t.Fatalf("columns: %v", meta.ColumnNames)
	}
	if pk := meta.GetPrimaryKeyOnlyName(); len(pk) != 1 || pk[0] != "id" {
		t.Fatalf("pk: %v", pk)
	}
	if !meta.Columns["id"].Autoincrement || meta.Columns["ext"].IsNullable != 1 || meta.Columns["xid"].DatabaseTypeString != "varchar" {
		t.Fatalf("column meta: %+v", meta.Columns)
	}
	if ix := meta.Indexs["ux_undo_log"]; ix.IType != types.IndexUnique || len(ix.Columns) != 2 {
		t.Fatalf("index meta: %+v", meta.Indexs)
	}
	meta, err = seatamysql.NewMysqlTrigger().LoadOne(context.Background(), "testdb", "`tcc_fence_log`", conn)
	if err != nil {
		t.Fatal(err)
	}
	if pk := meta.GetPrimaryKeyOnlyName(); len(pk) != 2 || pk[0] != "xid" || pk[1] != "branch_id" {
		t.Fatalf("pk: %v", pk)
	}
	if meta.Indexs["idx_status"].IType != types.IndexNormal {
		t.Fatalf("index meta: %+v", meta.Indexs)
	}
	if _, err := seatamysql.NewMysqlTrigger().LoadOne(context.Background(), "testdb", "missing", conn); err == nil {
		t.Fatal("LoadOne of a missing table succeeded")
	}
}

// Statements copied from /repo/pkg/datasource/sql/undo/base/undo.go
func TestUndoLogStatements(t *testing.T) {
	s := newTestServer(t)
	db := openDB(t, s, "")
	mustExec(t, db, undoLogDDL)
	const (
		checkSQL  = "SELECT 1 FROM undo_log LIMIT 1"
		insertSQL = "INSERT INTO undo_log(branch_id,xid,context,rollback_info,log_status,log_created,log_modified) VALUES (?, ?, ?, ?, ?, now(6), now(6))"
		selectSQL = "SELECT `branch_id`,`xid`,`context`,`rollback_info`,`log_status` FROM undo_log WHERE branch_id = ? AND xid = ? FOR UPDATE"
		deleteSQL = "DELETE FROM undo_log WHERE branch_id = ? AND xid = ?"
		batchSQL  = " DELETE FROM undo_log WHERE branch_id IN  (?,?)  AND xid IN  (?,?) "
	)
	wantRows(t, queryStrings(t, db, checkSQL), "")

	// InsertUndoLog: raw driver statement, uint64 branch id, []byte context and rollback info
	conn, _ := db.Conn(context.Background())
	defer conn.Close()
	err := conn.Raw(func(dc interface{}) error {
		st, err := dc.(driver.Conn).Prepare(insertSQL)
		if err != nil {
			return err
		}
		defer st.Close()
		_, err = st.Exec([]driver.Value{uint64(1001), "192.168.0.1:8091:77", []byte("serializer=json&compressorType=NONE"), []byte{0x7b, 0x7d, 0x00, 0xff}, int64(0)})
		return err
	})
	if err != nil {
		t.Fatal(err)
	}
	// InsertUndoLogWithSqlConn
	mustExec(t, db, insertSQL, uint64(1002), "192.168.0.1:8091:77", []byte("ctx"), []byte("info"), int64(0))
	_, err = db.Exec(insertSQL, uint64(1002), "192.168.0.1:8091:77", []byte("ctx"), []byte("info"), int64(0))
	me := wantMySQLErr(t, err, 1062)
	if me.Message != "Duplicate entry '192.168.0.1:8091:77-1002' for key 'ux_undo_log'" {
		t.Fatalf("message = %q", me.Message)
	}
	wantRows(t, queryStrings(t, db, checkSQL), "1")

	tx, _ := db.Begin()
	stmt, err := tx.Prepare(selectSQL)
	if err != nil {
		t.Fatal(err)
	}
	rows, err := stmt.Query(int64(1001), "192.168.0.1:8091:77")
	if err != nil {
		t.Fatal(err)
	}
	var (
		branchID  uint64
		xid       string
		ctxt, inf []byte
		status    int32
	)
	if !rows.Next() {
		t.Fatal("no undo log row")
	}
	if err := rows.Scan(&branchID, &xid, &ctxt, &inf, &status); err != nil {
		t.Fatal(err)
	}
	rows.Close()
	if branchID != 1001 || xid != "192.168.0.1:8091:77" || string(inf) != "\x7b\x7d\x00\xff" || status != 0 {
		t.Fatalf("undo row = %d %s %q %q %d", branchID, xid, ctxt, inf, status)
	}
	if got := s.LockedRows()["undo_log"]; len(got) != 1 || got[0] != "1" {
		t.Fatalf("FOR UPDATE lock: %v", got)
	}
	r := mustExec(t, tx, deleteSQL, int64(1001), "192.168.0.1:8091:77")
	if affected(t, r) != 1 {
		t.Fatalf("affected = %d", affected(t, r))
	}
	tx.Commit()

	// batch delete: 4 markers; the repo passes 2 arguments, which database/sql refuses thanks to NumInput
	if _, err := db.Exec(batchSQL, "1002,1003", "a,b"); err == nil {
		t.Fatal("argument count mismatch not detected")
	}
	r = mustExec(t, db, batchSQL, 1002, 1003, "192.168.0.1:8091:77", "zz")
	if affected(t, r) != 1 {
		t.Fatalf("batch delete affected = %d", affected(t, r))
	}
	// log_created came from now(6) but the column is DATETIME(0)
	mustExec(t, db, insertSQL, 1, "x", "c", "r", 0)
	got := queryStrings(t, db, "SELECT log_created FROM undo_log")
	if len(got) != 1 || len(got[0][0]) != 19 {
		t.Fatalf("log_created = %v", got)
	}
}

// Statements copied from /repo/pkg/rm/tcc/fence/store/db/sql/tcc_fence_store_sql.go
func TestTccFenceLogStatements(t *testing.T) {
	s := newTestServer(t)
	db := openDB(t, s, "parseTime=true&interpolateParams=true")
	mustExec(t, db, tccFenceDDL)
	const (
		insertSQL = "insert into  tcc_fence_log  (xid, branch_id, action_name, status, gmt_create, gmt_modified) values ( ?,?,?,?,?,?)"
		querySQL  = "select xid, branch_id, action_name, status, gmt_create, gmt_modified from  tcc_fence_log  where xid = ? and branch_id = ? for update"
		updateSQL = "update  tcc_fence_log  set status = ?, gmt_modified = ? where xid = ? and  branch_id = ? and status = ? "
		deleteSQL = "delete from  tcc_fence_log  where xid = ? and  branch_id = ? "
		purgeSQL  = "delete from  tcc_fence_log  where gmt_modified < ?  and status in (2 , 3 , 4)"
	)
	now := time.Date(2024, 5, 6, 7, 8, 9, 123456789, time.UTC)
	tx, _ := db.Begin()
	st, err := tx.PrepareContext(context.Background(), insertSQL)
	if err != nil {
		t.Fatal(err)
	}
	r, err := st.Exec("xid-1", int64(11), "action", int8(1), now, now)
	if err != nil {
		t.Fatal(err)
	}
	if affected(t, r) != 1 {
		t.Fatal("insert affected")
	}
	_, err = st.Exec("xid-1", int64(11), "action", int8(1), now, now)
	me := wantMySQLErr(t, err, 1062)
	if me.Message != "Duplicate entry 'xid-1-11' for key 'PRIMARY'" {
		t.Fatalf("message = %q", me.Message)
	}
	qs, _ := tx.PrepareContext(context.Background(), querySQL)
	var (
		xid, action    string
		branch         int64
		status         int8
		created, modif time.Time
	)
	if err := qs.QueryRow("xid-1", int64(11)).Scan(&xid, &branch, &action, &status, &created, &modif); err != nil {
		t.Fatal(err)
	}
	if xid != "xid-1" || branch != 11 || status != 1 || !created.Equal(time.Date(2024, 5, 6, 7, 8, 9, 123000000, time.UTC)) {
		t.Fatalf("fence row %s %d %s %d %v", xid, branch, action, status, created)
	}
	if err := qs.QueryRow("nope", int64(11)).Scan(&xid, &branch, &action, &status, &created, &modif); err != sql.ErrNoRows {
		t.Fatalf("missing row: %v", err)
	}
	us, _ := tx.PrepareContext(context.Background(), updateSQL)
	r, _ = us.Exec(int8(2), now.Add(time.Hour), "xid-1", int64(11), int8(1))
	if affected(t, r) != 1 {
		t.Fatalf("update affected = %d", affected(t, r))
	}
	r, _ = us.Exec(int8(3), now.Add(time.Hour), "xid-1", int64(11), int8(1)) // status no longer 1
	if affected(t, r) != 0 {
		t.Fatalf("update affected = %d", affected(t, r))
	}
	tx.Commit()

	r = mustExec(t, db, purgeSQL, now) // modified one hour later: stays
	if affected(t, r) != 0 {
		t.Fatalf("purge affected = %d", affected(t, r))
	}
	r = mustExec(t, db, purgeSQL, now.Add(2*time.Hour))
	if affected(t, r) != 1 {
		t.Fatalf("purge affected = %d", affected(t, r))
	}
	mustExec(t, db, insertSQL, "xid-2", 1, "a", 1, now, now)
	r = mustExec(t, db, deleteSQL, "xid-2", 1)
	if affected(t, r) != 1 {
		t.Fatalf("delete affected = %d", affected(t, r))
	}
}
