package memsql

import (
	"bytes"
	"encoding/hex"
	"fmt"
	"math"
	"math/big"
	"strconv"
	"strings"
	"time"
)

// Internal value kinds held in rows and produced by the expression evaluator:
//
//	nil      SQL NULL
//	int64    signed integers, YEAR, boolean results
//	uint64   unsigned integers, BIT
//	float64  FLOAT / DOUBLE
//	decVal   DECIMAL (canonical decimal text)
//	string   character data, ENUM, JSON, TIME
//	[]byte   binary data
//	timeVal  DATE / DATETIME / TIMESTAMP, canonical "YYYY-MM-DD HH:MM:SS.ffffff"
type decVal string
type timeVal string

const zeroTimeVal = timeVal("0000-00-00 00:00:00.000000")

func isNumericKind(v interface{}) bool {
	switch v.(type) {
	case int64, uint64, float64, decVal:
		return true
	}
	return false
}

// parseNumberPrefix parses the longest numeric prefix of s the way MySQL does for
// implicit string->number conversion. ok is false when no numeric prefix exists.
func parseNumberPrefix(s string) (f float64, ok bool) {
	s = strings.TrimSpace(s)
	i := 0
	n := len(s)
	if i < n && (s[i] == '+' || s[i] == '-') {
		i++
	}
	digits := 0
	for i < n && s[i] >= '0' && s[i] <= '9' {
		i++
		digits++
	}
	if i < n && s[i] == '.' {
		i++
		for i < n && s[i] >= '0' && s[i] <= '9' {
			i++
			digits++
		}
	}
	if digits == 0 {
		return 0, false
	}
	if i < n && (s[i] == 'e' || s[i] == 'E') {
		j := i + 1
		if j < n && (s[j] == '+' || s[j] == '-') {
			j++
		}
		k := j
		for k < n && s[k] >= '0' && s[k] <= '9' {
			k++
		}
		if k > j {
			i = k
		}
	}
	f, err := strconv.ParseFloat(s[:i], 64)
	if err != nil {
		return 0, false
	}
	return f, true
}

func toFloat(v interface{}) (float64, bool) {
	switch x := v.(type) {
	case int64:
		return float64(x), true
	case uint64:
		return float64(x), true
	case float64:
		return x, true
	case decVal:
		f, _ := strconv.ParseFloat(string(x), 64)
		return f, true
	case string:
		f, ok := parseNumberPrefix(x)
		return f, ok
	case []byte:
		f, ok := parseNumberPrefix(string(x))
		return f, ok
	case timeVal:
		// YYYYMMDDHHMMSS numeric form
		s := string(x)
		d := strings.NewReplacer("-", "", ":", "", " ", "").Replace(s)
		f, _ := strconv.ParseFloat(d, 64)
		return f, true
	}
	return 0, false
}

func toRat(v interface{}) (*big.Rat, bool) {
	switch x := v.(type) {
	case int64:
		return new(big.Rat).SetInt64(x), true
	case uint64:
		return new(big.Rat).SetInt(new(big.Int).SetUint64(x)), true
	case float64:
		if math.IsInf(x, 0) || math.IsNaN(x) {
			return nil, false
		}
		r, ok := new(big.Rat).SetString(strconv.FormatFloat(x, 'f', -1, 64))
		return r, ok
	case decVal:
		r, ok := new(big.Rat).SetString(string(x))
		return r, ok
	case string:
		return strToRat(x)
	case []byte:
		return strToRat(string(x))
	}
	return nil, false
}

func strToRat(s string) (*big.Rat, bool) {
	s = strings.TrimSpace(s)
	if r, ok := new(big.Rat).SetString(s); ok && !strings.Contains(s, "/") {
		return r, true
	}
	f, ok := parseNumberPrefix(s)
	if !ok {
		return nil, false
	}
	r, ok := new(big.Rat).SetString(strconv.FormatFloat(f, 'f', -1, 64))
	return r, ok
}

func decScale(v interface{}) int {
	if d, ok := v.(decVal); ok {
		if i := strings.IndexByte(string(d), '.'); i >= 0 {
			return len(d) - i - 1
		}
	}
	if s, ok := v.(string); ok {
		if i := strings.IndexByte(s, '.'); i >= 0 {
			n := 0
			for _, c := range s[i+1:] {
				if c < '0' || c > '9' {
					break
				}
				n++
			}
			return n
		}
	}
	return 0
}

func ratToDec(r *big.Rat, scale int) decVal {
	if scale < 0 {
		scale = 0
	}
	if scale > 30 {
		scale = 30
	}
	s := r.FloatString(scale)
	if strings.HasPrefix(s, "-") && strings.Trim(s, "-0.") == "" {
		s = s[1:]
	}
	return decVal(s)
}

func formatFloat(f float64, bits int) string {
	if f == 0 {
		return "0"
	}
	a := math.Abs(f)
	if a >= 1e15 || a < 1e-5 {
		s := strconv.FormatFloat(f, 'e', -1, bits)
		s = strings.Replace(s, "e+", "e", 1)
		// MySQL does not zero-pad exponents
		if i := strings.Index(s, "e-0"); i >= 0 {
			s = s[:i+2] + s[i+3:]
		} else if i := strings.Index(s, "e0"); i >= 0 && len(s) > i+2 {
			s = s[:i+1] + s[i+2:]
		}
		return s
	}
	return strconv.FormatFloat(f, 'f', -1, bits)
}

// valueText renders a value as MySQL would render it in a string context.
func valueText(v interface{}) string {
	switch x := v.(type) {
	case nil:
		return "NULL"
	case int64:
		return strconv.FormatInt(x, 10)
	case uint64:
		return strconv.FormatUint(x, 10)
	case float64:
		return formatFloat(x, 64)
	case decVal:
		return string(x)
	case string:
		return x
	case []byte:
		return string(x)
	case timeVal:
		return formatTimeVal(x, fieldTypeDateTime, timeValFsp(x))
	case bool:
		if x {
			return "1"
		}
		return "0"
	}
	return fmt.Sprint(v)
}

func timeValFsp(t timeVal) int {
	s := string(t)
	if len(s) < 26 {
		return 0
	}
	frac := strings.TrimRight(s[20:26], "0")
	return len(frac)
}

// formatTimeVal renders the canonical time value for a column of the given protocol type
// and fractional-seconds precision.
func formatTimeVal(t timeVal, ft byte, fsp int) string {
	s := string(t)
	if len(s) < 26 {
		return s
	}
	if ft == fieldTypeDate || ft == fieldTypeNewDate {
		return s[:10]
	}
	if fsp <= 0 || fsp > 6 {
		if fsp > 6 {
			return s
		}
		return s[:19]
	}
	return s[:20+fsp]
}

// parseTimeVal accepts the spellings the client code and the MySQL driver produce.
func parseTimeVal(s string) (timeVal, bool) {
	s = strings.TrimSpace(s)
	if s == "" {
		return "", false
	}
	if strings.HasPrefix(s, "0000-00-00") {
		return zeroTimeVal, true
	}
	layouts := []string{
		"2006-01-02 15:04:05.999999999",
		"2006-01-02T15:04:05.999999999",
		"2006-01-02 15:04:05.999999999Z07:00",
		time.RFC3339Nano,
		"2006-01-02 15:04",
		"2006-01-02",
		"20060102150405",
		"20060102",
		"2006-1-2 15:4:5.999999999",
		"2006-1-2",
		"2006/01/02 15:04:05.999999999",
		"2006/01/02",
	}
	for _, l := range layouts {
		if t, err := time.Parse(l, s); err == nil {
			return timeToVal(t), true
		}
	}
	return "", false
}

func timeToVal(t time.Time) timeVal {
	// sub-microsecond digits are rounded
	t = t.Round(time.Microsecond)
	return timeVal(fmt.Sprintf("%04d-%02d-%02d %02d:%02d:%02d.%06d",
		t.Year(), int(t.Month()), t.Day(), t.Hour(), t.Minute(), t.Second(), t.Nanosecond()/1000))
}

func valToTime(v timeVal, loc *time.Location) time.Time {
	if v == zeroTimeVal || len(v) < 26 {
		return time.Time{}
	}
	if loc == nil {
		loc = time.UTC
	}
	t, err := time.ParseInLocation("2006-01-02 15:04:05.000000", string(v), loc)
	if err != nil {
		return time.Time{}
	}
	return t
}

// roundTimeVal rounds to fsp fractional digits (MySQL rounds, it does not truncate).
func roundTimeVal(v timeVal, fsp int) timeVal {
	if v == zeroTimeVal || len(v) < 26 || fsp >= 6 {
		return v
	}
	if fsp < 0 {
		fsp = 0
	}
	t, err := time.Parse("2006-01-02 15:04:05.000000", string(v))
	if err != nil {
		return v
	}
	unit := time.Second
	for i := 0; i < fsp; i++ {
		unit /= 10
	}
	return timeToVal(t.Round(unit))
}

// appendDateTimeText mirrors go-sql-driver/mysql appendDateTime: how a time.Time argument
// reaches the server.
func dateTimeArgText(t time.Time, loc *time.Location) string {
	if t.IsZero() {
		return "0000-00-00"
	}
	if loc != nil {
		t = t.In(loc)
	}
	h, m, s := t.Clock()
	ns := t.Nanosecond()
	if h == 0 && m == 0 && s == 0 && ns == 0 {
		return t.Format("2006-01-02")
	}
	if ns == 0 {
		return t.Format("2006-01-02 15:04:05")
	}
	return t.Format("2006-01-02 15:04:05.000000000")[:26]
}

func lowerASCIIFold(s string) string { return strings.ToLower(s) }

// compareValues compares two non-aggregate values with MySQL-like coercion.
// null is true when either operand is NULL.
func compareValues(a, b interface{}) (cmp int, null bool) {
	if a == nil || b == nil {
		return 0, true
	}
	// temporal comparisons
	ta, aIsT := a.(timeVal)
	tb, bIsT := b.(timeVal)
	if aIsT || bIsT {
		if !aIsT {
			if isNumericKind(a) {
				fa, _ := toFloat(a)
				fb, _ := toFloat(b)
				return cmpFloat(fa, fb), false
			}
			if p, ok := parseTimeVal(valueText(a)); ok {
				ta = p
			} else {
				return strings.Compare(valueText(a), string(tb)), false
			}
		}
		if !bIsT {
			if isNumericKind(b) {
				fa, _ := toFloat(a)
				fb, _ := toFloat(b)
				return cmpFloat(fa, fb), false
			}
			if p, ok := parseTimeVal(valueText(b)); ok {
				tb = p
			} else {
				return strings.Compare(string(ta), valueText(b)), false
			}
		}
		return strings.Compare(string(ta), string(tb)), false
	}
	an, bn := isNumericKind(a), isNumericKind(b)
	if an || bn {
		// exact integer comparison where possible
		switch x := a.(type) {
		case int64:
			switch y := b.(type) {
			case int64:
				return cmpInt(x, y), false
			case uint64:
				if x < 0 {
					return -1, false
				}
				return cmpUint(uint64(x), y), false
			}
		case uint64:
			switch y := b.(type) {
			case uint64:
				return cmpUint(x, y), false
			case int64:
				if y < 0 {
					return 1, false
				}
				return cmpUint(x, uint64(y)), false
			}
		}
		_, af := a.(float64)
		_, bf := b.(float64)
		if !af && !bf {
			ra, ok1 := toRat(a)
			rb, ok2 := toRat(b)
			if ok1 && ok2 {
				return ra.Cmp(rb), false
			}
		}
		fa, _ := toFloat(a)
		fb, _ := toFloat(b)
		return cmpFloat(fa, fb), false
	}
	// both character / binary
	ab, aBin := a.([]byte)
	bb, bBin := b.([]byte)
	if aBin || bBin {
		if !aBin {
			ab = []byte(valueText(a))
		}
		if !bBin {
			bb = []byte(valueText(b))
		}
		return bytes.Compare(ab, bb), false
	}
	return strings.Compare(lowerASCIIFold(valueText(a)), lowerASCIIFold(valueText(b))), false
}

func cmpInt(a, b int64) int {
	switch {
	case a < b:
		return -1
	case a > b:
		return 1
	}
	return 0
}
func cmpUint(a, b uint64) int {
	switch {
	case a < b:
		return -1
	case a > b:
		return 1
	}
	return 0
}
func cmpFloat(a, b float64) int {
	switch {
	case a < b:
		return -1
	case a > b:
		return 1
	}
	return 0
}

// orderCompare is the total order used by ORDER BY and primary-key ordering: NULLs first.
func orderCompare(a, b interface{}) int {
	if a == nil && b == nil {
		return 0
	}
	if a == nil {
		return -1
	}
	if b == nil {
		return 1
	}
	c, _ := compareValues(a, b)
	return c
}

// valuesIdentical reports whether storing b over a would be "no change" for affected-row counting.
func valuesIdentical(a, b interface{}) bool {
	if a == nil || b == nil {
		return a == nil && b == nil
	}
	switch x := a.(type) {
	case []byte:
		y, ok := b.([]byte)
		return ok && bytes.Equal(x, y)
	case string:
		y, ok := b.(string)
		return ok && x == y
	}
	return a == b
}

// truth evaluates a value in boolean context.
func truth(v interface{}) (t bool, null bool) {
	if v == nil {
		return false, true
	}
	switch x := v.(type) {
	case int64:
		return x != 0, false
	case uint64:
		return x != 0, false
	case timeVal:
		return x != zeroTimeVal, false
	}
	f, _ := toFloat(v)
	return f != 0, false
}

func boolVal(b bool) interface{} {
	if b {
		return int64(1)
	}
	return int64(0)
}

// canonicalValue is the representation used by Snapshot and the admin Query path.
func canonicalValue(v interface{}, c *column) interface{} {
	switch x := v.(type) {
	case nil:
		return nil
	case int64:
		return x
	case uint64:
		if x <= math.MaxInt64 {
			return int64(x)
		}
		return strconv.FormatUint(x, 10)
	case float64:
		return x
	case decVal:
		return string(x)
	case string:
		return x
	case []byte:
		return "0x" + hex.EncodeToString(x)
	case timeVal:
		if c != nil {
			return formatTimeVal(x, c.fieldType(), c.fsp())
		}
		return formatTimeVal(x, fieldTypeDateTime, timeValFsp(x))
	}
	return fmt.Sprint(v)
}

// keyText is the canonical text of one primary-key component (journal Keys, lock keys).
func keyText(v interface{}) string {
	switch x := v.(type) {
	case []byte:
		return string(x)
	case timeVal:
		return formatTimeVal(x, fieldTypeDateTime, timeValFsp(x))
	}
	return valueText(v)
}

// likeMatch implements LIKE with % and _ and an escape character.
func likeMatch(s, pattern string, escape byte, caseInsensitive bool) bool {
	if caseInsensitive {
		s = strings.ToLower(s)
		pattern = strings.ToLower(pattern)
	}
	sr := []rune(s)
	pr := []rune(pattern)
	type tok struct {
		r   rune
		any bool // %
		one bool // _
	}
	var toks []tok
	for i := 0; i < len(pr); i++ {
		c := pr[i]
		switch {
		case escape != 0 && c == rune(escape) && i+1 < len(pr):
			i++
			toks = append(toks, tok{r: pr[i]})
		case c == '%':
			toks = append(toks, tok{any: true})
		case c == '_':
			toks = append(toks, tok{one: true})
		default:
			toks = append(toks, tok{r: c})
		}
	}
	var match func(si, ti int) bool
	match = func(si, ti int) bool {
		for ti < len(toks) {
			t := toks[ti]
			if t.any {
				for ti < len(toks) && toks[ti].any {
					ti++
				}
				if ti == len(toks) {
					return true
				}
				for k := si; k <= len(sr); k++ {
					if match(k, ti) {
						return true
					}
				}
				return false
			}
			if si >= len(sr) {
				return false
			}
			if !t.one && sr[si] != t.r {
				return false
			}
			si++
			ti++
		}
		return si == len(sr)
	}
	return match(0, 0)
}

// cloneBytes copies b; an empty (non-nil) input yields an empty non-nil slice, like the MySQL driver's
// readLengthEncodedString, so that an empty binary value is never mistaken for NULL.
func cloneBytes(b []byte) []byte {
	out := make([]byte, len(b))
	copy(out, b)
	return out
}
