package memsql

import (
	"encoding/json"
	"fmt"
	"math"
	"math/big"
	"sort"
	"strconv"
	"strings"
	"unicode/utf8"

	"github.com/arana-db/parser/ast"
	pmysql "github.com/arana-db/parser/mysql"
	"github.com/go-sql-driver/mysql"
)

// MySQL protocol field types (const.go of go-sql-driver/mysql).
const (
	fieldTypeDecimal byte = iota
	fieldTypeTiny
	fieldTypeShort
	fieldTypeLong
	fieldTypeFloat
	fieldTypeDouble
	fieldTypeNULL
	fieldTypeTimestamp
	fieldTypeLongLong
	fieldTypeInt24
	fieldTypeDate
	fieldTypeTime
	fieldTypeDateTime
	fieldTypeYear
	fieldTypeNewDate
	fieldTypeVarChar
	fieldTypeBit
)
const (
	fieldTypeJSON byte = iota + 0xf5
	fieldTypeNewDecimal
	fieldTypeEnum
	fieldTypeSet
	fieldTypeTinyBLOB
	fieldTypeMediumBLOB
	fieldTypeLongBLOB
	fieldTypeBLOB
	fieldTypeVarString
	fieldTypeString
	fieldTypeGeometry
)

type fieldFlag uint16

const (
	flagNotNULL fieldFlag = 1 << iota
	flagPriKey
	flagUniqueKey
	flagMultipleKey
	flagBLOB
	flagUnsigned
	flagZeroFill
	flagBinary
	flagEnum
	flagAutoIncrement
	flagTimestamp
	flagSet
)

// colType is the declared SQL type of a column.
type colType int

const (
	tTinyInt colType = iota
	tSmallInt
	tMediumInt
	tInt
	tBigInt
	tFloat
	tDouble
	tDecimal
	tChar
	tVarchar
	tTinyText
	tText
	tMediumText
	tLongText
	tBinary
	tVarbinary
	tTinyBlob
	tBlob
	tMediumBlob
	tLongBlob
	tBit
	tDate
	tDatetime
	tTimestamp
	tTime
	tYear
	tJSON
	tEnum
	tSet
)

var dataTypeNames = map[colType]string{
	tTinyInt: "tinyint", tSmallInt: "smallint", tMediumInt: "mediumint", tInt: "int", tBigInt: "bigint",
	tFloat: "float", tDouble: "double", tDecimal: "decimal", tChar: "char", tVarchar: "varchar",
	tTinyText: "tinytext", tText: "text", tMediumText: "mediumtext", tLongText: "longtext",
	tBinary: "binary", tVarbinary: "varbinary", tTinyBlob: "tinyblob", tBlob: "blob",
	tMediumBlob: "mediumblob", tLongBlob: "longblob", tBit: "bit", tDate: "date", tDatetime: "datetime",
	tTimestamp: "timestamp", tTime: "time", tYear: "year", tJSON: "json", tEnum: "enum", tSet: "set",
}

type column struct {
	name     string
	typ      colType
	unsigned bool
	zerofill bool
	flen     int // display width / char length / precision; -1 unspecified
	dec      int // scale / fsp; -1 unspecified
	elems    []string

	notNull     bool
	hasDefault  bool        // an explicit DEFAULT clause (possibly DEFAULT NULL)
	defaultVal  interface{} // coerced literal default
	defaultNow  bool        // DEFAULT CURRENT_TIMESTAMP
	onUpdateNow bool
	autoInc     bool
	comment     string

	inPK    bool
	keyFlag string // PRI / UNI / MUL / ""
}

type index struct {
	name    string
	cols    []int
	unique  bool
	primary bool
}

type table struct {
	name    string
	lname   string
	cols    []*column
	colIdx  map[string]int
	pk      []int
	indexes []*index
	autoInc int64 // next auto-increment value
	autoCol int   // index of the auto-increment column or -1

	rows      map[string]*row
	nextRowID int64
}

// row is one record with its committed version and (at most one) uncommitted version.
type row struct {
	id        int64
	key       string
	committed []interface{}
	pending   []interface{}
	pendDel   bool
	hasPend   bool
	owner     *txn
}

func (c *column) isInteger() bool { return c.typ <= tBigInt || c.typ == tYear }
func (c *column) isString() bool  { return c.typ >= tChar && c.typ <= tLongText }
func (c *column) isBinary() bool  { return c.typ >= tBinary && c.typ <= tLongBlob }
func (c *column) isTemporal() bool {
	return c.typ == tDate || c.typ == tDatetime || c.typ == tTimestamp
}
func (c *column) fsp() int {
	if c.dec < 0 {
		return 0
	}
	return c.dec
}
func (c *column) scale() int {
	if c.dec < 0 {
		return 0
	}
	return c.dec
}
func (c *column) precision() int {
	if c.flen < 0 {
		return 10
	}
	return c.flen
}

// fieldType is the protocol type the MySQL server sends for the column.
func (c *column) fieldType() byte {
	switch c.typ {
	case tTinyInt:
		return fieldTypeTiny
	case tSmallInt:
		return fieldTypeShort
	case tMediumInt:
		return fieldTypeInt24
	case tInt:
		return fieldTypeLong
	case tBigInt:
		return fieldTypeLongLong
	case tFloat:
		return fieldTypeFloat
	case tDouble:
		return fieldTypeDouble
	case tDecimal:
		return fieldTypeNewDecimal
	case tChar, tBinary, tEnum, tSet:
		return fieldTypeString
	case tVarchar, tVarbinary:
		return fieldTypeVarString
	case tTinyText, tText, tMediumText, tLongText, tTinyBlob, tBlob, tMediumBlob, tLongBlob:
		// the server reports every TEXT/BLOB flavour as MYSQL_TYPE_BLOB
		return fieldTypeBLOB
	case tBit:
		return fieldTypeBit
	case tDate:
		return fieldTypeDate
	case tDatetime:
		return fieldTypeDateTime
	case tTimestamp:
		return fieldTypeTimestamp
	case tTime:
		return fieldTypeTime
	case tYear:
		return fieldTypeYear
	case tJSON:
		return fieldTypeJSON
	}
	return fieldTypeVarString
}

func (c *column) meta(tableName string) colMeta {
	m := colMeta{name: c.name, table: tableName, fieldType: c.fieldType(), col: c}
	if c.notNull {
		m.flags |= flagNotNULL
	}
	if c.unsigned {
		m.flags |= flagUnsigned
	}
	if c.autoInc {
		m.flags |= flagAutoIncrement
	}
	switch c.keyFlag {
	case "PRI":
		m.flags |= flagPriKey
	case "UNI":
		m.flags |= flagUniqueKey
	case "MUL":
		m.flags |= flagMultipleKey
	}
	switch {
	case c.isBinary(), c.typ == tBit:
		m.binary = true
		m.flags |= flagBinary
	case c.typ == tJSON:
		m.binary = true
	case c.isString(), c.typ == tEnum, c.typ == tSet:
		m.binary = false
	default:
		m.binary = true
		m.flags |= flagBinary
	}
	if m.fieldType == fieldTypeBLOB {
		m.flags |= flagBLOB
	}
	switch c.typ {
	case tDecimal:
		m.decimals = byte(c.scale())
		l := c.precision()
		if c.scale() > 0 {
			l++
		}
		if !c.unsigned {
			l++
		}
		m.length = uint32(l)
	case tFloat, tDouble:
		if c.dec < 0 {
			m.decimals = 0x1f
		} else {
			m.decimals = byte(c.dec)
		}
	case tDatetime, tTimestamp, tTime:
		m.decimals = byte(c.fsp())
	case tVarchar, tChar:
		if c.flen > 0 {
			m.length = uint32(c.flen * 4)
		}
	}
	return m
}

// columnTypeText is INFORMATION_SCHEMA.COLUMNS.COLUMN_TYPE.
func (c *column) columnTypeText() string {
	base := dataTypeNames[c.typ]
	s := base
	switch c.typ {
	case tTinyInt, tSmallInt, tMediumInt, tInt, tBigInt:
		if c.flen >= 0 {
			s += "(" + strconv.Itoa(c.flen) + ")"
		}
	case tDecimal:
		s += fmt.Sprintf("(%d,%d)", c.precision(), c.scale())
	case tFloat, tDouble:
		if c.flen >= 0 && c.dec >= 0 {
			s += fmt.Sprintf("(%d,%d)", c.flen, c.dec)
		}
	case tChar, tBinary:
		l := c.flen
		if l < 0 {
			l = 1
		}
		s += "(" + strconv.Itoa(l) + ")"
	case tVarchar, tVarbinary:
		s += "(" + strconv.Itoa(c.flen) + ")"
	case tBit:
		l := c.flen
		if l < 0 {
			l = 1
		}
		s += "(" + strconv.Itoa(l) + ")"
	case tDatetime, tTimestamp, tTime:
		if c.dec > 0 {
			s += "(" + strconv.Itoa(c.dec) + ")"
		}
	case tEnum, tSet:
		q := make([]string, len(c.elems))
		for i, e := range c.elems {
			q[i] = "'" + strings.ReplaceAll(e, "'", "''") + "'"
		}
		s += "(" + strings.Join(q, ",") + ")"
	}
	if c.unsigned {
		s += " unsigned"
	}
	if c.zerofill {
		s += " zerofill"
	}
	return s
}

func (c *column) extraText() string {
	var parts []string
	if c.autoInc {
		parts = append(parts, "auto_increment")
	}
	if c.defaultNow {
		parts = append(parts, "DEFAULT_GENERATED")
	}
	if c.onUpdateNow {
		s := "on update CURRENT_TIMESTAMP"
		if c.dec > 0 {
			s += "(" + strconv.Itoa(c.dec) + ")"
		}
		parts = append(parts, s)
	}
	return strings.Join(parts, " ")
}

func (c *column) defaultText() interface{} {
	if c.defaultNow {
		if c.dec > 0 {
			return "CURRENT_TIMESTAMP(" + strconv.Itoa(c.dec) + ")"
		}
		return "CURRENT_TIMESTAMP"
	}
	if !c.hasDefault || c.defaultVal == nil {
		return nil
	}
	if tv, ok := c.defaultVal.(timeVal); ok {
		return formatTimeVal(tv, c.fieldType(), c.fsp())
	}
	if c.typ == tBit {
		if u, ok := c.defaultVal.(uint64); ok {
			return "b'" + strconv.FormatUint(u, 2) + "'"
		}
	}
	return valueText(c.defaultVal)
}

func myErr(num uint16, format string, a ...interface{}) *mysql.MySQLError {
	return &mysql.MySQLError{Number: num, Message: fmt.Sprintf(format, a...)}
}

// buildTable interprets a CREATE TABLE statement.
func buildTable(st *ast.CreateTableStmt) (*table, error) {
	if st.ReferTable != nil || st.Select != nil {
		return nil, fmt.Errorf("%w: CREATE TABLE ... LIKE/SELECT", ErrUnsupported)
	}
	t := &table{
		name:    st.Table.Name.O,
		lname:   st.Table.Name.L,
		colIdx:  map[string]int{},
		rows:    map[string]*row{},
		autoInc: 1,
		autoCol: -1,
	}
	type pendingIdx struct {
		name    string
		cols    []string
		unique  bool
		primary bool
	}
	var pidx []pendingIdx
	for i, cd := range st.Cols {
		c, err := buildColumn(cd)
		if err != nil {
			return nil, err
		}
		if _, dup := t.colIdx[strings.ToLower(c.name)]; dup {
			return nil, myErr(1060, "Duplicate column name '%s'", c.name)
		}
		t.colIdx[strings.ToLower(c.name)] = i
		t.cols = append(t.cols, c)
		for _, o := range cd.Options {
			switch o.Tp {
			case ast.ColumnOptionPrimaryKey:
				pidx = append(pidx, pendingIdx{name: "PRIMARY", cols: []string{c.name}, unique: true, primary: true})
			case ast.ColumnOptionUniqKey:
				pidx = append(pidx, pendingIdx{name: "", cols: []string{c.name}, unique: true})
			}
		}
		if c.autoInc {
			t.autoCol = i
		}
	}
	for _, cn := range st.Constraints {
		var cols []string
		for _, k := range cn.Keys {
			if k.Column == nil {
				return nil, fmt.Errorf("%w: expression index", ErrUnsupported)
			}
			cols = append(cols, k.Column.Name.O)
		}
		switch cn.Tp {
		case ast.ConstraintPrimaryKey:
			pidx = append(pidx, pendingIdx{name: "PRIMARY", cols: cols, unique: true, primary: true})
		case ast.ConstraintUniq, ast.ConstraintUniqKey, ast.ConstraintUniqIndex:
			pidx = append(pidx, pendingIdx{name: cn.Name, cols: cols, unique: true})
		case ast.ConstraintKey, ast.ConstraintIndex, ast.ConstraintFulltext:
			pidx = append(pidx, pendingIdx{name: cn.Name, cols: cols})
		case ast.ConstraintForeignKey:
			// accepted and ignored, but MySQL creates an index for it
			pidx = append(pidx, pendingIdx{name: cn.Name, cols: cols})
		case ast.ConstraintCheck:
			// accepted and ignored
		}
	}
	// primary key first, then the others in declaration order
	sort.SliceStable(pidx, func(i, j int) bool { return pidx[i].primary && !pidx[j].primary })
	names := map[string]bool{}
	for _, p := range pidx {
		ix := &index{name: p.name, unique: p.unique, primary: p.primary}
		for _, cn := range p.cols {
			ci, ok := t.colIdx[strings.ToLower(cn)]
			if !ok {
				return nil, myErr(1072, "Key column '%s' doesn't exist in table", cn)
			}
			ix.cols = append(ix.cols, ci)
		}
		if ix.primary {
			if t.pk != nil {
				return nil, myErr(1068, "Multiple primary key defined")
			}
			t.pk = ix.cols
			for _, ci := range ix.cols {
				t.cols[ci].notNull = true
				t.cols[ci].inPK = true
			}
		}
		if ix.name == "" {
			base := t.cols[ix.cols[0]].name
			ix.name = base
			for n := 2; names[strings.ToLower(ix.name)]; n++ {
				ix.name = fmt.Sprintf("%s_%d", base, n)
			}
		}
		if names[strings.ToLower(ix.name)] {
			return nil, myErr(1061, "Duplicate key name '%s'", ix.name)
		}
		names[strings.ToLower(ix.name)] = true
		t.indexes = append(t.indexes, ix)
	}
	// COLUMN_KEY flags
	for _, ix := range t.indexes {
		first := t.cols[ix.cols[0]]
		switch {
		case ix.primary:
			for _, ci := range ix.cols {
				t.cols[ci].keyFlag = "PRI"
			}
		case ix.unique && len(ix.cols) == 1:
			if first.keyFlag == "" || first.keyFlag == "MUL" {
				first.keyFlag = "UNI"
			}
		default:
			if first.keyFlag == "" {
				first.keyFlag = "MUL"
			}
		}
	}
	if t.autoCol >= 0 && t.cols[t.autoCol].keyFlag == "" {
		return nil, myErr(1075, "Incorrect table definition; there can be only one auto column and it must be defined as a key")
	}
	for _, o := range st.Options {
		if o.Tp == ast.TableOptionAutoIncrement && o.UintValue > 0 {
			t.autoInc = int64(o.UintValue)
		}
	}
	return t, nil
}

func buildColumn(cd *ast.ColumnDef) (*column, error) {
	c := &column{name: cd.Name.Name.O, flen: cd.Tp.Flen, dec: cd.Tp.Decimal}
	if c.flen < 0 {
		c.flen = -1
	}
	if c.dec < 0 {
		c.dec = -1
	}
	c.unsigned = pmysql.HasUnsignedFlag(cd.Tp.Flag)
	c.zerofill = pmysql.HasZerofillFlag(cd.Tp.Flag)
	bin := cd.Tp.Charset == "binary"
	switch cd.Tp.Tp {
	case pmysql.TypeTiny:
		c.typ = tTinyInt
	case pmysql.TypeShort:
		c.typ = tSmallInt
	case pmysql.TypeInt24:
		c.typ = tMediumInt
	case pmysql.TypeLong:
		c.typ = tInt
	case pmysql.TypeLonglong:
		c.typ = tBigInt
	case pmysql.TypeFloat:
		c.typ = tFloat
	case pmysql.TypeDouble:
		c.typ = tDouble
	case pmysql.TypeNewDecimal:
		c.typ = tDecimal
		if c.flen < 0 {
			c.flen = 10
		}
		if c.dec < 0 {
			c.dec = 0
		}
	case pmysql.TypeString:
		c.typ = tChar
		if bin {
			c.typ = tBinary
		}
	case pmysql.TypeVarchar, pmysql.TypeVarString:
		c.typ = tVarchar
		if bin {
			c.typ = tVarbinary
		}
	case pmysql.TypeTinyBlob:
		c.typ = tTinyText
		if bin {
			c.typ = tTinyBlob
		}
	case pmysql.TypeBlob:
		c.typ = tText
		if bin {
			c.typ = tBlob
		}
	case pmysql.TypeMediumBlob:
		c.typ = tMediumText
		if bin {
			c.typ = tMediumBlob
		}
	case pmysql.TypeLongBlob:
		c.typ = tLongText
		if bin {
			c.typ = tLongBlob
		}
	case pmysql.TypeBit:
		c.typ = tBit
		if c.flen < 0 {
			c.flen = 1
		}
	case pmysql.TypeDate, pmysql.TypeNewDate:
		c.typ = tDate
	case pmysql.TypeDatetime:
		c.typ = tDatetime
	case pmysql.TypeTimestamp:
		c.typ = tTimestamp
	case pmysql.TypeDuration:
		c.typ = tTime
	case pmysql.TypeYear:
		c.typ = tYear
		c.flen = -1
	case pmysql.TypeJSON:
		c.typ = tJSON
	case pmysql.TypeEnum:
		c.typ = tEnum
		c.elems = cd.Tp.Elems
	case pmysql.TypeSet:
		c.typ = tSet
		c.elems = cd.Tp.Elems
	default:
		return nil, fmt.Errorf("%w: column type %d of column %s", ErrUnsupported, cd.Tp.Tp, c.name)
	}
	if c.typ == tBinary || c.typ == tVarbinary || c.isBinary() {
		// length of binary types is in bytes, nothing else to do
	}
	if (c.typ == tBlob || c.typ == tText) && c.flen > 0 {
		c.flen = -1
	}
	var defExpr ast.ExprNode
	for _, o := range cd.Options {
		switch o.Tp {
		case ast.ColumnOptionNotNull:
			c.notNull = true
		case ast.ColumnOptionNull:
			c.notNull = false
		case ast.ColumnOptionAutoIncrement:
			c.autoInc = true
			c.notNull = true
		case ast.ColumnOptionPrimaryKey:
			c.notNull = true
		case ast.ColumnOptionDefaultValue:
			c.hasDefault = true
			defExpr = o.Expr
		case ast.ColumnOptionOnUpdate:
			c.onUpdateNow = true
		case ast.ColumnOptionComment:
			if v, ok := o.Expr.(ast.ValueExpr); ok {
				c.comment = valueText(datumValue(v))
			}
		case ast.ColumnOptionGenerated:
			return nil, fmt.Errorf("%w: generated column %s", ErrUnsupported, c.name)
		}
	}
	if defExpr != nil {
		switch e := defExpr.(type) {
		case *ast.FuncCallExpr:
			switch e.FnName.L {
			case "current_timestamp", "now", "localtime", "localtimestamp":
				c.defaultNow = true
			default:
				return nil, fmt.Errorf("%w: DEFAULT %s() on column %s", ErrUnsupported, e.FnName.O, c.name)
			}
		default:
			ev := &evaluator{}
			v, err := ev.eval(defExpr)
			if err != nil {
				return nil, err
			}
			if v != nil {
				cv, merr := coerce(c, v)
				if merr != nil {
					return nil, myErr(1067, "Invalid default value for '%s'", c.name)
				}
				v = cv
			}
			c.defaultVal = v
		}
	}
	return c, nil
}

func intRange(c *column) (min int64, max uint64) {
	var bits uint
	switch c.typ {
	case tTinyInt:
		bits = 8
	case tSmallInt:
		bits = 16
	case tMediumInt:
		bits = 24
	case tInt:
		bits = 32
	case tYear:
		return 0, 2155
	default:
		bits = 64
	}
	if c.unsigned {
		if bits == 64 {
			return 0, math.MaxUint64
		}
		return 0, (uint64(1) << bits) - 1
	}
	return -(int64(1) << (bits - 1)), (uint64(1) << (bits - 1)) - 1
}

func outOfRange(c *column) *mysql.MySQLError {
	return myErr(1264, "Out of range value for column '%s' at row 1", c.name)
}

// coerce converts an evaluated value to the storage representation of column c
// (strict SQL mode: bad values are errors).
func coerce(c *column, v interface{}) (interface{}, *mysql.MySQLError) {
	if v == nil {
		return nil, nil
	}
	if b, ok := v.(bool); ok {
		v = boolVal(b)
	}
	switch {
	case c.isInteger():
		min, max := intRange(c)
		switch x := v.(type) {
		case int64:
			if x < min || (x > 0 && uint64(x) > max) {
				return nil, outOfRange(c)
			}
			if c.unsigned {
				return uint64(x), nil
			}
			return x, nil
		case uint64:
			if x > max {
				return nil, outOfRange(c)
			}
			if c.unsigned {
				return x, nil
			}
			return int64(x), nil
		case timeVal:
			return nil, myErr(1366, "Incorrect integer value: '%s' for column '%s' at row 1", valueText(v), c.name)
		}
		if s, ok := v.(string); ok {
			if _, ok := parseNumberPrefix(s); !ok || strings.TrimSpace(s) == "" {
				return nil, myErr(1366, "Incorrect integer value: '%s' for column '%s' at row 1", s, c.name)
			}
		}
		if s, ok := v.([]byte); ok {
			if _, ok := parseNumberPrefix(string(s)); !ok {
				return nil, myErr(1366, "Incorrect integer value: '%s' for column '%s' at row 1", string(s), c.name)
			}
		}
		r, ok := toRat(v)
		if !ok {
			return nil, myErr(1366, "Incorrect integer value: '%s' for column '%s' at row 1", valueText(v), c.name)
		}
		// round half away from zero
		ip := roundRat(r)
		if ip.Sign() < 0 {
			if !ip.IsInt64() || ip.Int64() < min {
				return nil, outOfRange(c)
			}
			return ip.Int64(), nil
		}
		if !ip.IsUint64() || ip.Uint64() > max {
			return nil, outOfRange(c)
		}
		if c.unsigned {
			return ip.Uint64(), nil
		}
		return int64(ip.Uint64()), nil
	case c.typ == tFloat, c.typ == tDouble:
		f, ok := toFloat(v)
		if !ok {
			return nil, myErr(1265, "Data truncated for column '%s' at row 1", c.name)
		}
		if c.unsigned && f < 0 {
			return nil, outOfRange(c)
		}
		if c.typ == tFloat {
			if math.Abs(f) > math.MaxFloat32 {
				return nil, outOfRange(c)
			}
			return float64(float32(f)), nil
		}
		return f, nil
	case c.typ == tDecimal:
		if s, ok := v.(string); ok {
			if _, ok := parseNumberPrefix(s); !ok {
				return nil, myErr(1366, "Incorrect decimal value: '%s' for column '%s' at row 1", s, c.name)
			}
		}
		r, ok := toRat(v)
		if !ok {
			return nil, myErr(1366, "Incorrect decimal value: '%s' for column '%s' at row 1", valueText(v), c.name)
		}
		d := ratToDec(r, c.scale())
		intDigits := len(strings.TrimLeft(strings.SplitN(strings.TrimPrefix(string(d), "-"), ".", 2)[0], "0"))
		if intDigits > c.precision()-c.scale() {
			return nil, outOfRange(c)
		}
		if c.unsigned && strings.HasPrefix(string(d), "-") {
			return nil, outOfRange(c)
		}
		return d, nil
	case c.isString(), c.typ == tJSON:
		s := valueText(v)
		if tv, ok := v.(timeVal); ok {
			s = formatTimeVal(tv, fieldTypeDateTime, timeValFsp(tv))
		}
		if c.typ == tJSON {
			if !json.Valid([]byte(s)) {
				return nil, myErr(3140, "Invalid JSON text: \"Invalid value.\" at position 0 in value for column '%s.%s'.", "", c.name)
			}
			return s, nil
		}
		limit := c.flen
		switch c.typ {
		case tChar:
			if limit < 0 {
				limit = 1
			}
		case tTinyText:
			limit = 255
		case tText, tMediumText, tLongText:
			limit = -1
		}
		if limit >= 0 && utf8.RuneCountInString(s) > limit {
			return nil, myErr(1406, "Data too long for column '%s' at row 1", c.name)
		}
		return s, nil
	case c.isBinary():
		var b []byte
		switch x := v.(type) {
		case []byte:
			b = cloneBytes(x)
		default:
			b = []byte(valueText(v))
		}
		limit := c.flen
		if c.typ == tTinyBlob {
			limit = 255
		} else if c.typ != tBinary && c.typ != tVarbinary {
			limit = -1
		}
		if c.typ == tBinary && limit < 0 {
			limit = 1
		}
		if limit >= 0 && len(b) > limit {
			return nil, myErr(1406, "Data too long for column '%s' at row 1", c.name)
		}
		if c.typ == tBinary {
			for len(b) < limit {
				b = append(b, 0)
			}
		}
		return b, nil
	case c.typ == tBit:
		var u uint64
		switch x := v.(type) {
		case int64:
			if x < 0 {
				return nil, outOfRange(c)
			}
			u = uint64(x)
		case uint64:
			u = x
		case float64, decVal:
			f, _ := toFloat(x)
			u = uint64(f)
		case []byte:
			if len(x) > 8 {
				return nil, myErr(1406, "Data too long for column '%s' at row 1", c.name)
			}
			for _, b := range x {
				u = u<<8 | uint64(b)
			}
		case string:
			if len(x) > 8 {
				return nil, myErr(1406, "Data too long for column '%s' at row 1", c.name)
			}
			for _, b := range []byte(x) {
				u = u<<8 | uint64(b)
			}
		}
		if c.flen < 64 && u >= (uint64(1)<<uint(c.flen)) {
			return nil, myErr(1406, "Data too long for column '%s' at row 1", c.name)
		}
		return u, nil
	case c.isTemporal():
		var tv timeVal
		switch x := v.(type) {
		case timeVal:
			tv = x
		case string, []byte:
			p, ok := parseTimeVal(valueText(x))
			if !ok {
				return nil, myErr(1292, "Incorrect %s value: '%s' for column '%s' at row 1", dataTypeNames[c.typ], valueText(x), c.name)
			}
			tv = p
		default:
			p, ok := parseTimeVal(valueText(x))
			if !ok {
				return nil, myErr(1292, "Incorrect %s value: '%s' for column '%s' at row 1", dataTypeNames[c.typ], valueText(x), c.name)
			}
			tv = p
		}
		if c.typ == tDate {
			if len(tv) >= 10 {
				tv = timeVal(string(tv[:10]) + " 00:00:00.000000")
			}
			return tv, nil
		}
		return roundTimeVal(tv, c.fsp()), nil
	case c.typ == tTime:
		s := valueText(v)
		if tv, ok := v.(timeVal); ok && len(tv) >= 26 {
			s = string(tv[11:])
		}
		return normalizeTimeOfDay(s, c.fsp()), nil
	case c.typ == tEnum:
		switch x := v.(type) {
		case int64, uint64:
			f, _ := toFloat(x)
			i := int(f)
			if i == 0 {
				return "", nil
			}
			if i < 0 || i > len(c.elems) {
				return nil, myErr(1265, "Data truncated for column '%s' at row 1", c.name)
			}
			return c.elems[i-1], nil
		}
		s := valueText(v)
		for _, e := range c.elems {
			if strings.EqualFold(e, s) {
				return e, nil
			}
		}
		return nil, myErr(1265, "Data truncated for column '%s' at row 1", c.name)
	case c.typ == tSet:
		return valueText(v), nil
	}
	return v, nil
}

func roundRat(r *big.Rat) *big.Int {
	s := r.FloatString(0)
	i, _ := new(big.Int).SetString(s, 10)
	return i
}

// normalizeTimeOfDay canonicalises a TIME value to [-]HH:MM:SS[.fff].
func normalizeTimeOfDay(s string, fsp int) string {
	s = strings.TrimSpace(s)
	neg := strings.HasPrefix(s, "-")
	s = strings.TrimPrefix(s, "-")
	frac := ""
	if i := strings.IndexByte(s, '.'); i >= 0 {
		frac = s[i+1:]
		s = s[:i]
	}
	parts := strings.Split(s, ":")
	var h, m, sec int
	switch len(parts) {
	case 3:
		h, _ = strconv.Atoi(parts[0])
		m, _ = strconv.Atoi(parts[1])
		sec, _ = strconv.Atoi(parts[2])
	case 2:
		h, _ = strconv.Atoi(parts[0])
		m, _ = strconv.Atoi(parts[1])
	case 1:
		n, _ := strconv.Atoi(parts[0])
		h, m, sec = n/10000, (n/100)%100, n%100
	}
	out := fmt.Sprintf("%02d:%02d:%02d", h, m, sec)
	if fsp > 0 {
		for len(frac) < fsp {
			frac += "0"
		}
		out += "." + frac[:fsp]
	}
	if neg {
		out = "-" + out
	}
	return out
}

// pkKey computes the index key of a row version and the canonical journal key text.
func (t *table) pkKey(vals []interface{}) (key string, text string) {
	if t.pk == nil {
		return "", ""
	}
	kp := make([]string, len(t.pk))
	tp := make([]string, len(t.pk))
	for i, ci := range t.pk {
		tp[i] = keyText(vals[ci])
		kp[i] = indexKeyPart(t.cols[ci], vals[ci])
	}
	return strings.Join(kp, "\x00"), strings.Join(tp, "_")
}

// indexKeyPart folds a value for uniqueness comparison under the default (case-insensitive) collation.
func indexKeyPart(c *column, v interface{}) string {
	if v == nil {
		return "\x01NULL"
	}
	if c.isString() || c.typ == tEnum {
		return strings.ToLower(valueText(v))
	}
	return keyText(v)
}

func (t *table) column(name string) (int, bool) {
	i, ok := t.colIdx[strings.ToLower(name)]
	return i, ok
}
