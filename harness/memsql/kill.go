package memsql

// KillClientConns breaks every open client connection, the way the server sees the death of the
// client process: what is attached to a connection is rolled back, except a PREPARED XA branch,
// which survives its connection and becomes committable from any other connection (MySQL >= 5.7.7).
// Later use of a killed connection returns driver.ErrBadConn. It returns the number of connections
// killed. The admin path is not affected.
func (s *Server) KillClientConns() int {
	s.mu.Lock()
	defer s.mu.Unlock()
	n := 0
	for _, c := range s.conns {
		if c.closed || c.admin {
			continue
		}
		c.killLocked()
		n++
	}
	return n
}

// DropIdleSilently is the server (or the network in between) closing the client connections that are idle - not
// inside a transaction - without the client noticing: wait_timeout, a restart, a fail-over.  The next use of such
// a connection fails with mysql.ErrInvalidConn ("invalid connection"), which database/sql hands to the application;
// only the driver's connection check in ResetSession sees it in time (driver.ErrBadConn -> another connection is
// taken).  IsValid stays true until then.  It returns the number of connections dropped.
func (s *Server) DropIdleSilently() int {
	s.mu.Lock()
	defer s.mu.Unlock()
	n := 0
	for _, c := range s.conns {
		if c.closed || c.admin || c.tx != nil {
			continue
		}
		c.killLocked()
		c.silent = true
		n++
	}
	return n
}

// XAStates returns the state ("active" | "idle" | "prepared") of every XA branch the server knows,
// keyed by xid text, and for each whether it is still attached to a live connection.
func (s *Server) XAStates() map[string]XAState {
	s.mu.Lock()
	defer s.mu.Unlock()
	out := map[string]XAState{}
	for id, t := range s.xa {
		st := XAState{State: t.xaState.name(), Attached: t.conn != nil}
		if t.conn != nil {
			st.Conn = t.conn.id
		}
		out[id] = st
	}
	return out
}

// XAState describes one XA branch known to the server.
type XAState struct {
	State    string
	Attached bool
	Conn     int
}
