package memsql

import (
	"context"
	"database/sql"
	"errors"
	"testing"
	"time"
)

func TestTransactionIsolationAndRollback(t *testing.T) {
	s := newTestServer(t)
	db := openDB(t, s, "")
	mustExec(t, db, stockDDL)
	mustExec(t, db, "INSERT INTO stock_tbl (commodity_code, count) VALUES ('a', 1), ('b', 2)")

	tx, err := db.BeginTx(context.Background(), &sql.TxOptions{Isolation: sql.LevelReadCommitted})
	if err != nil {
		t.Fatal(err)
	}
	mustExec(t, tx, "UPDATE stock_tbl SET count = 10 WHERE id = 1")
	mustExec(t, tx, "INSERT INTO stock_tbl (commodity_code, count) VALUES ('c', 3)")
	mustExec(t, tx, "DELETE FROM stock_tbl WHERE id = 2")
	// own writes are visible inside
	wantRows(t, queryStrings(t, tx, "SELECT id, count FROM stock_tbl"), "1,10;3,3")
	// not outside (plain SELECT never blocks)
	wantRows(t, queryStrings(t, db, "SELECT id, count FROM stock_tbl"), "1,1;2,2")
	if s.Idle() {
		t.Fatal("server reports idle with an open transaction")
	}
	if err := tx.Rollback(); err != nil {
		t.Fatal(err)
	}
	wantRows(t, queryStrings(t, db, "SELECT id, count FROM stock_tbl"), "1,1;2,2")
	if !s.Idle() {
		t.Fatalf("not idle after rollback: %+v", s.ConnStates())
	}

	tx, _ = db.Begin()
	mustExec(t, tx, "UPDATE stock_tbl SET count = 10 WHERE id = 1")
	mustExec(t, tx, "DELETE FROM stock_tbl WHERE id = 2")
	if err := tx.Commit(); err != nil {
		t.Fatal(err)
	}
	wantRows(t, queryStrings(t, db, "SELECT id, count FROM stock_tbl"), "1,10")
	// auto-increment values are not given back by a rollback
	r := mustExec(t, db, "INSERT INTO stock_tbl (commodity_code) VALUES ('d')")
	if lastID(t, r) != 4 {
		t.Fatalf("lastID = %d, want 4", lastID(t, r))
	}

	// textual transaction control on one connection
	conn, _ := db.Conn(context.Background())
	defer conn.Close()
	ctx := context.Background()
	for _, q := range []string{"BEGIN", "UPDATE stock_tbl SET count = 0", "ROLLBACK", "START TRANSACTION", "UPDATE stock_tbl SET count = 5 WHERE id = 1", "COMMIT",
		"SET autocommit=0", "UPDATE stock_tbl SET count = 6 WHERE id = 1"} {
		if _, err := conn.ExecContext(ctx, q); err != nil {
			t.Fatalf("%s: %v", q, err)
		}
	}
	wantRows(t, queryStrings(t, db, "SELECT count FROM stock_tbl WHERE id = 1"), "5")
	if _, err := conn.ExecContext(ctx, "SET autocommit = 1"); err != nil { // commits
		t.Fatal(err)
	}
	wantRows(t, queryStrings(t, db, "SELECT count FROM stock_tbl WHERE id = 1"), "6")

	// closing a connection inside a transaction rolls back
	conn2, _ := db.Conn(ctx)
	conn2.ExecContext(ctx, "BEGIN")
	conn2.ExecContext(ctx, "UPDATE stock_tbl SET count = 1000 WHERE id = 1")
	conn2.Raw(func(dc interface{}) error { return dc.(interface{ Close() error }).Close() })
	conn2.Close()
	wantRows(t, queryStrings(t, db, "SELECT count FROM stock_tbl WHERE id = 1"), "6")
}

func TestSavepoints(t *testing.T) {
	s := newTestServer(t)
	db := openDB(t, s, "")
	mustExec(t, db, stockDDL)
	mustExec(t, db, "INSERT INTO stock_tbl (commodity_code, count) VALUES ('a', 1), ('b', 2)")
	tx, _ := db.Begin()
	mustExec(t, tx, "UPDATE stock_tbl SET count = 10 WHERE id = 1")
	mustExec(t, tx, "savepoint seatago123point;;") // the proxy's spelling
	mustExec(t, tx, "UPDATE stock_tbl SET count = 20 WHERE id = 2")
	mustExec(t, tx, "INSERT INTO stock_tbl (commodity_code) VALUES ('c')")
	mustExec(t, tx, "SAVEPOINT `sp2`")
	mustExec(t, tx, "DELETE FROM stock_tbl WHERE id = 1")
	wantRows(t, queryStrings(t, tx, "SELECT id, count FROM stock_tbl"), "2,20;3,0")
	mustExec(t, tx, "ROLLBACK TO SAVEPOINT sp2")
	wantRows(t, queryStrings(t, tx, "SELECT id, count FROM stock_tbl"), "1,10;2,20;3,0")
	mustExec(t, tx, "rollback to seatago123point;;")
	wantRows(t, queryStrings(t, tx, "SELECT id, count FROM stock_tbl"), "1,10;2,2")
	// sp2 is gone, the first savepoint remains
	_, err := tx.Exec("ROLLBACK TO sp2")
	wantMySQLErr(t, err, 1305)
	// row 2's lock (taken after the savepoint) has been released: another connection can update it
	ctx, cancel := context.WithTimeout(context.Background(), time.Second)
	defer cancel()
	if _, err := db.ExecContext(ctx, "UPDATE stock_tbl SET count = 3 WHERE id = 2"); err != nil {
		t.Fatalf("row lock not released by ROLLBACK TO: %v", err)
	}
	mustExec(t, tx, "RELEASE SAVEPOINT seatago123point")
	_, err = tx.Exec("RELEASE SAVEPOINT seatago123point")
	wantMySQLErr(t, err, 1305)
	if err := tx.Commit(); err != nil {
		t.Fatal(err)
	}
	wantRows(t, queryStrings(t, db, "SELECT id, count FROM stock_tbl"), "1,10;2,3")
	classes := map[string]int{}
	for _, e := range s.Journal() {
		classes[e.Class]++
	}
	if classes["savepoint"] != 2 || classes["rollback_to"] != 3 || classes["release_savepoint"] != 2 {
		t.Fatalf("journal classes: %v", classes)
	}
}

func TestRowLocksBlock(t *testing.T) {
	s := newTestServer(t)
	s.SetLockWaitTimeout(150 * time.Millisecond)
	db := openDB(t, s, "")
	mustExec(t, db, stockDDL)
	mustExec(t, db, "INSERT INTO stock_tbl (commodity_code, count) VALUES ('a', 1), ('b', 2), ('c', 3)")

	tx1, _ := db.Begin()
	mustExec(t, tx1, "UPDATE stock_tbl SET count = 10 WHERE id = 1")
	wantRows(t, queryStrings(t, tx1, "SELECT id FROM stock_tbl WHERE id = 2 FOR UPDATE"), "2")
	if got := s.LockedRows()["stock_tbl"]; len(got) != 2 {
		t.Fatalf("locked rows: %v", got)
	}

	// another connection: writes and FOR UPDATE on the locked rows time out, other rows are free
	start := time.Now()
	_, err := db.Exec("UPDATE stock_tbl SET count = 11 WHERE id = 1")
	wantMySQLErr(t, err, 1205)
	if time.Since(start) < 100*time.Millisecond {
		t.Fatal("lock wait returned too early")
	}
	_, err = db.Query("SELECT * FROM stock_tbl WHERE id = 2 FOR UPDATE")
	wantMySQLErr(t, err, 1205)
	_, err = db.Exec("DELETE FROM stock_tbl WHERE count < 100")
	wantMySQLErr(t, err, 1205)
	mustExec(t, db, "UPDATE stock_tbl SET count = 33 WHERE id = 3")
	wantRows(t, queryStrings(t, db, "SELECT id, count FROM stock_tbl"), "1,1;2,2;3,33") // plain reads never block

	// a blocked statement proceeds once the holder commits
	s.SetLockWaitTimeout(5 * time.Second)
	done := make(chan error, 1)
	go func() {
		_, err := db.Exec("UPDATE stock_tbl SET count = count + 1 WHERE id = 1")
		done <- err
	}()
	time.Sleep(50 * time.Millisecond)
	select {
	case err := <-done:
		t.Fatalf("update did not block: %v", err)
	default:
	}
	if err := tx1.Commit(); err != nil {
		t.Fatal(err)
	}
	if err := <-done; err != nil {
		t.Fatal(err)
	}
	wantRows(t, queryStrings(t, db, "SELECT count FROM stock_tbl WHERE id = 1"), "11") // saw the committed 10

	// insert of a key another open transaction inserted: blocks, then 1062 after commit / success after rollback
	for _, commit := range []bool{true, false} {
		tx, _ := db.Begin()
		mustExec(t, tx, "INSERT INTO stock_tbl (id, commodity_code) VALUES (100, 'k100')")
		go func() {
			_, err := db.Exec("INSERT INTO stock_tbl (id, commodity_code) VALUES (100, 'other')")
			done <- err
		}()
		time.Sleep(50 * time.Millisecond)
		select {
		case err := <-done:
			t.Fatalf("insert did not block: %v", err)
		default:
		}
		if commit {
			tx.Commit()
			wantMySQLErr(t, <-done, 1062)
		} else {
			tx.Rollback()
			if err := <-done; err != nil {
				t.Fatal(err)
			}
		}
		mustExec(t, db, "DELETE FROM stock_tbl WHERE id = 100")
	}
	// same for a unique key
	tx, _ := db.Begin()
	mustExec(t, tx, "INSERT INTO stock_tbl (commodity_code) VALUES ('uniq')")
	go func() {
		_, err := db.Exec("INSERT INTO stock_tbl (commodity_code) VALUES ('UNIQ')")
		done <- err
	}()
	time.Sleep(50 * time.Millisecond)
	tx.Commit()
	wantMySQLErr(t, <-done, 1062)

	// context cancellation while blocked
	tx, _ = db.Begin()
	mustExec(t, tx, "UPDATE stock_tbl SET count = 0 WHERE id = 3")
	ctx, cancel := context.WithTimeout(context.Background(), 80*time.Millisecond)
	defer cancel()
	_, err = db.ExecContext(ctx, "UPDATE stock_tbl SET count = 1 WHERE id = 3")
	if !errors.Is(err, context.DeadlineExceeded) {
		t.Fatalf("blocked statement with cancelled context: %v", err)
	}
	tx.Rollback()
	if !s.Idle() {
		t.Fatalf("not idle: %+v", s.ConnStates())
	}
}

func TestDeadlock(t *testing.T) {
	s := newTestServer(t)
	s.SetLockWaitTimeout(3 * time.Second)
	db := openDB(t, s, "")
	mustExec(t, db, stockDDL)
	mustExec(t, db, "INSERT INTO stock_tbl (commodity_code, count) VALUES ('a', 1), ('b', 2)")
	tx1, _ := db.Begin()
	tx2, _ := db.Begin()
	mustExec(t, tx1, "UPDATE stock_tbl SET count = 10 WHERE id = 1")
	mustExec(t, tx2, "UPDATE stock_tbl SET count = 20 WHERE id = 2")
	done := make(chan error, 1)
	go func() {
		_, err := tx1.Exec("UPDATE stock_tbl SET count = 11 WHERE id = 2")
		done <- err
	}()
	time.Sleep(50 * time.Millisecond)
	_, err := tx2.Exec("UPDATE stock_tbl SET count = 21 WHERE id = 1")
	wantMySQLErr(t, err, 1213) // the victim's whole transaction is rolled back
	if err := <-done; err != nil {
		t.Fatal(err)
	}
	tx1.Commit()
	tx2.Rollback()
	wantRows(t, queryStrings(t, db, "SELECT id, count FROM stock_tbl"), "1,10;2,11")
}

func TestPKLessTable(t *testing.T) {
	s := newTestServer(t)
	db := openDB(t, s, "")
	mustExec(t, db, "CREATE TABLE nopk (a int, b varchar(8), KEY idx_a (a))")
	mustExec(t, db, "INSERT INTO nopk VALUES (2, 'x'), (1, 'y'), (2, 'x')")
	wantRows(t, queryStrings(t, db, "SELECT a, b FROM nopk"), "2,x;1,y;2,x") // insertion order
	r := mustExec(t, db, "UPDATE nopk SET b = 'z' WHERE a = 2")
	if affected(t, r) != 2 {
		t.Fatalf("affected = %d", affected(t, r))
	}
	r = mustExec(t, db, "DELETE FROM nopk WHERE a = 2 LIMIT 1")
	if affected(t, r) != 1 {
		t.Fatalf("affected = %d", affected(t, r))
	}
	wantRows(t, queryStrings(t, db, "SELECT a, b FROM nopk"), "1,y;2,z")
}
