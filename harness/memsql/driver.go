package memsql

import (
	"context"
	"database/sql"
	"database/sql/driver"
	"encoding/json"
	"errors"
	"fmt"
	"io"
	"math"
	"net"
	"reflect"
	"strconv"
	"strings"
	"time"

	"github.com/go-sql-driver/mysql"
)

func init() {
	sql.Register("memsql", Driver{})
}

// Driver implements driver.Driver and driver.DriverContext on top of the registered Servers.
type Driver struct{}

// Open parses a MySQL DSN and connects to the Server registered for its host.
func (d Driver) Open(dsn string) (driver.Conn, error) {
	c, err := d.OpenConnector(dsn)
	if err != nil {
		return nil, err
	}
	return c.Connect(context.Background())
}

// OpenConnector implements driver.DriverContext.
func (d Driver) OpenConnector(dsn string) (driver.Connector, error) {
	cfg, err := mysql.ParseDSN(dsn)
	if err != nil {
		return nil, err
	}
	return &connector{cfg: cfg}, nil
}

// NewConnector returns a connector for an already parsed configuration.
func NewConnector(cfg *mysql.Config) driver.Connector { return &connector{cfg: cfg} }

type connector struct {
	cfg *mysql.Config
}

func (cn *connector) Driver() driver.Driver { return Driver{} }

func (cn *connector) Connect(ctx context.Context) (driver.Conn, error) {
	host := cn.cfg.Addr
	if h, _, err := net.SplitHostPort(cn.cfg.Addr); err == nil {
		host = h
	}
	s := Lookup(host)
	if s == nil {
		return nil, fmt.Errorf("memsql: dial tcp %s: no server registered for host %q", cn.cfg.Addr, host)
	}
	if err := ctx.Err(); err != nil {
		return nil, err
	}
	s.mu.Lock()
	defer s.mu.Unlock()
	if f := s.matchFault(true, nil); f != nil {
		return nil, f.Err
	}
	s.nextConn++
	c := &conn{
		srv:         s,
		id:          s.nextConn,
		cfg:         cn.cfg,
		autocommit:  true,
		db:          cn.cfg.DBName,
		loc:         cn.cfg.Loc,
		parseTime:   cn.cfg.ParseTime,
		interpolate: cn.cfg.InterpolateParams,
		foundRows:   cn.cfg.ClientFoundRows,
	}
	if c.loc == nil {
		c.loc = time.UTC
	}
	s.conns[c.id] = c
	return c, nil
}

// conn mirrors mysqlConn: driver.Conn, ConnBeginTx, ConnPrepareContext, ExecerContext, QueryerContext,
// Execer, Queryer, Pinger, SessionResetter, Validator, NamedValueChecker.
type conn struct {
	srv         *Server
	id          int
	cfg         *mysql.Config
	admin       bool
	noLock      bool
	db          string
	loc         *time.Location
	parseTime   bool
	interpolate bool
	foundRows   bool // DSN clientFoundRows=true: affected rows count matched rows

	// guarded by srv.mu
	closed       bool
	silent       bool // dropped by the server while idle, and the driver has not noticed yet (DropIdleSilently)
	tx           *txn
	autocommit   bool
	lastInsertID int64
	rowCount     int64
}

var (
	_ driver.Conn               = (*conn)(nil)
	_ driver.ConnBeginTx        = (*conn)(nil)
	_ driver.ConnPrepareContext = (*conn)(nil)
	_ driver.ExecerContext      = (*conn)(nil)
	_ driver.QueryerContext     = (*conn)(nil)
	_ driver.Execer             = (*conn)(nil)
	_ driver.Queryer            = (*conn)(nil)
	_ driver.Pinger             = (*conn)(nil)
	_ driver.SessionResetter    = (*conn)(nil)
	_ driver.Validator          = (*conn)(nil)
	_ driver.NamedValueChecker  = (*conn)(nil)

	_ driver.Stmt              = (*stmt)(nil)
	_ driver.StmtExecContext   = (*stmt)(nil)
	_ driver.StmtQueryContext  = (*stmt)(nil)
	_ driver.NamedValueChecker = (*stmt)(nil)
	_ driver.ColumnConverter   = (*stmt)(nil)

	_ driver.Rows                           = (*rows)(nil)
	_ driver.RowsNextResultSet              = (*rows)(nil)
	_ driver.RowsColumnTypeScanType         = (*rows)(nil)
	_ driver.RowsColumnTypeDatabaseTypeName = (*rows)(nil)
	_ driver.RowsColumnTypeNullable         = (*rows)(nil)
	_ driver.RowsColumnTypePrecisionScale   = (*rows)(nil)
)

// ID returns the physical connection id used in the journal.
func (c *conn) ID() int { return c.id }

func (c *conn) isClosed() bool {
	c.srv.mu.Lock()
	defer c.srv.mu.Unlock()
	return c.closed
}

// deadErr: nil for a live connection.  A connection the server dropped silently fails its next use the way
// go-sql-driver/mysql does (the request is written, the answer is EOF): mysql.ErrInvalidConn, which database/sql
// does not retry; after that, and for connections broken otherwise, driver.ErrBadConn.
func (c *conn) deadErr() error {
	c.srv.mu.Lock()
	defer c.srv.mu.Unlock()
	return c.deadErrLocked()
}

func (c *conn) deadErrLocked() error {
	if !c.closed {
		return nil
	}
	if c.silent {
		c.silent = false
		return mysql.ErrInvalidConn
	}
	return driver.ErrBadConn
}

// killLocked breaks the connection (s.mu held): the server side rolls back what is attached to it.
func (c *conn) killLocked() {
	if c.closed {
		return
	}
	c.closed = true
	if c.tx != nil {
		if c.tx.xaState == xaPrepared {
			c.tx.conn = nil // a prepared branch survives its connection
			c.tx = nil
		} else {
			c.srv.rollbackTxn(c.tx)
		}
	}
	c.srv.cond.Broadcast()
}

func (c *conn) adminClose() {
	c.srv.mu.Lock()
	c.killLocked()
	c.srv.mu.Unlock()
}

func (c *conn) Close() error {
	c.srv.mu.Lock()
	c.killLocked()
	c.srv.mu.Unlock()
	return nil
}

func (c *conn) Ping(ctx context.Context) error {
	if c.isClosed() {
		return driver.ErrBadConn
	}
	return ctx.Err()
}

// ResetSession is where a network driver notices that the server dropped an idle connection (go-sql-driver/mysql's
// connection check): driver.ErrBadConn, and database/sql takes another connection.
func (c *conn) ResetSession(ctx context.Context) error {
	c.srv.mu.Lock()
	defer c.srv.mu.Unlock()
	if c.closed {
		c.silent = false
		return driver.ErrBadConn
	}
	return nil
}

// IsValid: like go-sql-driver/mysql, true until the driver itself has seen the connection fail
func (c *conn) IsValid() bool {
	c.srv.mu.Lock()
	defer c.srv.mu.Unlock()
	return !c.closed || c.silent
}

func (c *conn) CheckNamedValue(nv *driver.NamedValue) (err error) {
	nv.Value, err = converter{}.ConvertValue(nv.Value)
	return
}

func (c *conn) Begin() (driver.Tx, error) { return c.begin(context.Background(), false) }

func (c *conn) begin(ctx context.Context, readOnly bool) (driver.Tx, error) {
	if err := c.deadErr(); err != nil {
		return nil, err
	}
	q := "START TRANSACTION"
	if readOnly {
		q = "START TRANSACTION READ ONLY"
	}
	if _, err := c.run(ctx, q, nil, nil, false); err != nil {
		return nil, err
	}
	return &memTx{c: c}, nil
}

func (c *conn) BeginTx(ctx context.Context, opts driver.TxOptions) (driver.Tx, error) {
	if err := c.deadErr(); err != nil {
		return nil, err
	}
	if err := ctx.Err(); err != nil {
		return nil, err
	}
	if sql.IsolationLevel(opts.Isolation) != sql.LevelDefault {
		var level string
		switch sql.IsolationLevel(opts.Isolation) {
		case sql.LevelRepeatableRead:
			level = "REPEATABLE READ"
		case sql.LevelReadCommitted:
			level = "READ COMMITTED"
		case sql.LevelReadUncommitted:
			level = "READ UNCOMMITTED"
		case sql.LevelSerializable:
			level = "SERIALIZABLE"
		default:
			return nil, fmt.Errorf("mysql: unsupported isolation level: %v", opts.Isolation)
		}
		if _, err := c.run(ctx, "SET TRANSACTION ISOLATION LEVEL "+level, nil, nil, false); err != nil {
			return nil, err
		}
	}
	return c.begin(ctx, opts.ReadOnly)
}

type memTx struct{ c *conn }

func (t *memTx) Commit() error {
	if t.c == nil || t.c.isClosed() {
		return mysql.ErrInvalidConn
	}
	_, err := t.c.run(context.Background(), "COMMIT", nil, nil, false)
	t.c = nil
	return err
}

func (t *memTx) Rollback() error {
	if t.c == nil || t.c.isClosed() {
		return mysql.ErrInvalidConn
	}
	_, err := t.c.run(context.Background(), "ROLLBACK", nil, nil, false)
	t.c = nil
	return err
}

// interpolatable mirrors which argument kinds mysqlConn.interpolateParams accepts.
func interpolatable(args []driver.Value) bool {
	for _, a := range args {
		switch a.(type) {
		case nil, int64, uint64, float64, bool, time.Time, json.RawMessage, []byte, string:
		default:
			return false
		}
	}
	return true
}

// normalizeArg turns an argument as the MySQL packet writer accepts it into an internal value.
func normalizeArg(v interface{}, loc *time.Location) (interface{}, error) {
	switch x := v.(type) {
	case nil:
		return nil, nil
	case int64:
		return x, nil
	case uint64:
		return x, nil
	case float64:
		return x, nil
	case bool:
		if x {
			return int64(1), nil
		}
		return int64(0), nil
	case json.RawMessage:
		return cloneBytes(x), nil
	case []byte:
		if x == nil {
			return nil, nil
		}
		return cloneBytes(x), nil
	case string:
		return x, nil
	case time.Time:
		if !x.IsZero() && (x.In(loc).Year() < 1 || x.In(loc).Year() > 9999) {
			return nil, errors.New("year is not in the range [1, 9999]: " + strconv.Itoa(x.In(loc).Year()))
		}
		return dateTimeArgText(x, loc), nil
	}
	return nil, fmt.Errorf("cannot convert type: %T", v)
}

func (c *conn) normalizeArgs(args []driver.Value) ([]interface{}, error) {
	out := make([]interface{}, len(args))
	for i, a := range args {
		v, err := normalizeArg(a, c.loc)
		if err != nil {
			return nil, err
		}
		out[i] = v
	}
	return out, nil
}

func namedValueToValue(named []driver.NamedValue) ([]driver.Value, error) {
	dargs := make([]driver.Value, len(named))
	for n, param := range named {
		if len(param.Name) > 0 {
			return nil, errors.New("mysql: driver does not support the use of Named Parameters")
		}
		dargs[n] = param.Value
	}
	return dargs, nil
}

// textExec is the COM_QUERY path: without arguments, or with arguments interpolated client side.
func (c *conn) textExec(ctx context.Context, query string, args []driver.Value) (*runOut, error) {
	if err := c.deadErr(); err != nil {
		return nil, err
	}
	var nargs []interface{}
	if len(args) != 0 {
		if !c.interpolate {
			return nil, driver.ErrSkip
		}
		if !interpolatable(args) {
			return nil, driver.ErrSkip
		}
		p, err := parseSQL(query)
		if err == nil && p.nparams != len(args) {
			return nil, driver.ErrSkip
		}
		nargs, err = c.normalizeArgs(args)
		if err != nil {
			return nil, err
		}
	} else if p, err := parseSQL(query); err == nil && p.nparams != 0 {
		// a literal '?' reaches the server un-interpolated: syntax error
		err := syntaxError("?")
		c.journalParseError(query, nil, false, err)
		return nil, err
	}
	return c.run(ctx, query, nargs, args, false)
}

func (c *conn) Exec(query string, args []driver.Value) (driver.Result, error) {
	out, err := c.textExec(context.Background(), query, args)
	if err != nil {
		return nil, err
	}
	return &result{affected: out.affected, lastID: out.lastID}, nil
}

func (c *conn) Query(query string, args []driver.Value) (driver.Rows, error) {
	out, err := c.textExec(context.Background(), query, args)
	if err != nil {
		return nil, err
	}
	return c.newRows(out, false), nil
}

func (c *conn) ExecContext(ctx context.Context, query string, args []driver.NamedValue) (driver.Result, error) {
	dargs, err := namedValueToValue(args)
	if err != nil {
		return nil, err
	}
	if err := ctx.Err(); err != nil {
		return nil, err
	}
	out, err := c.textExec(ctx, query, dargs)
	if err != nil {
		return nil, err
	}
	return &result{affected: out.affected, lastID: out.lastID}, nil
}

func (c *conn) QueryContext(ctx context.Context, query string, args []driver.NamedValue) (driver.Rows, error) {
	dargs, err := namedValueToValue(args)
	if err != nil {
		return nil, err
	}
	if err := ctx.Err(); err != nil {
		return nil, err
	}
	out, err := c.textExec(ctx, query, dargs)
	if err != nil {
		return nil, err
	}
	return c.newRows(out, false), nil
}

func (c *conn) Prepare(query string) (driver.Stmt, error) {
	if err := c.deadErr(); err != nil {
		return nil, err
	}
	p, err := parseSQL(query)
	if err != nil {
		c.journalParseError(query, nil, true, err)
		return nil, err
	}
	return &stmt{c: c, query: query, parsed: p}, nil
}

func (c *conn) PrepareContext(ctx context.Context, query string) (driver.Stmt, error) {
	if err := ctx.Err(); err != nil {
		return nil, err
	}
	st, err := c.Prepare(query)
	if err != nil {
		return nil, err
	}
	select {
	default:
	case <-ctx.Done():
		st.Close()
		return nil, ctx.Err()
	}
	return st, nil
}

// stmt mirrors mysqlStmt (binary protocol).
type stmt struct {
	c      *conn
	query  string
	parsed *parsedSQL
}

func (st *stmt) Close() error {
	if st.c == nil || st.c.isClosed() {
		return driver.ErrBadConn
	}
	st.c = nil
	return nil
}

func (st *stmt) NumInput() int { return st.parsed.nparams }

func (st *stmt) ColumnConverter(idx int) driver.ValueConverter { return converter{} }

func (st *stmt) CheckNamedValue(nv *driver.NamedValue) (err error) {
	nv.Value, err = converter{}.ConvertValue(nv.Value)
	return
}

func (st *stmt) exec(ctx context.Context, args []driver.Value) (*runOut, error) {
	if st.c == nil || st.c.isClosed() {
		return nil, driver.ErrBadConn
	}
	if len(args) != st.parsed.nparams {
		return nil, fmt.Errorf("argument count mismatch (got: %d; has: %d)", len(args), st.parsed.nparams)
	}
	nargs, err := st.c.normalizeArgs(args)
	if err != nil {
		return nil, err
	}
	return st.c.runParsed(ctx, st.parsed, nargs, args, true)
}

func (st *stmt) Exec(args []driver.Value) (driver.Result, error) {
	out, err := st.exec(context.Background(), args)
	if err != nil {
		return nil, err
	}
	return &result{affected: out.affected, lastID: out.lastID}, nil
}

func (st *stmt) Query(args []driver.Value) (driver.Rows, error) {
	out, err := st.exec(context.Background(), args)
	if err != nil {
		return nil, err
	}
	return st.c.newRows(out, true), nil
}

func (st *stmt) ExecContext(ctx context.Context, args []driver.NamedValue) (driver.Result, error) {
	dargs, err := namedValueToValue(args)
	if err != nil {
		return nil, err
	}
	if err := ctx.Err(); err != nil {
		return nil, err
	}
	out, err := st.exec(ctx, dargs)
	if err != nil {
		return nil, err
	}
	return &result{affected: out.affected, lastID: out.lastID}, nil
}

func (st *stmt) QueryContext(ctx context.Context, args []driver.NamedValue) (driver.Rows, error) {
	dargs, err := namedValueToValue(args)
	if err != nil {
		return nil, err
	}
	if err := ctx.Err(); err != nil {
		return nil, err
	}
	out, err := st.exec(ctx, dargs)
	if err != nil {
		return nil, err
	}
	return st.c.newRows(out, true), nil
}

type result struct {
	affected int64
	lastID   int64
}

func (r *result) LastInsertId() (int64, error) { return r.lastID, nil }
func (r *result) RowsAffected() (int64, error) { return r.affected, nil }

// rows mirrors textRows / binaryRows.
type rows struct {
	sets      []*resultSet
	cur       int
	pos       int
	binary    bool
	parseTime bool
	loc       *time.Location
	withAlias bool
	names     []string
}

func (c *conn) newRows(out *runOut, binary bool) *rows {
	r := &rows{sets: out.sets, binary: binary, parseTime: c.parseTime, loc: c.loc}
	if c.cfg != nil {
		r.withAlias = c.cfg.ColumnsWithAlias
	}
	if len(r.sets) == 0 {
		r.sets = []*resultSet{{}}
	}
	return r
}

func (r *rows) set() *resultSet { return r.sets[r.cur] }

func (r *rows) Columns() []string {
	if r.names != nil {
		return r.names
	}
	rs := r.set()
	names := make([]string, len(rs.cols))
	for i, m := range rs.cols {
		if r.withAlias && m.table != "" {
			names[i] = m.table + "." + m.name
		} else {
			names[i] = m.name
		}
	}
	r.names = names
	return names
}

func (r *rows) Close() error {
	r.cur = len(r.sets) - 1
	r.pos = len(r.set().rows)
	return nil
}

func (r *rows) HasNextResultSet() bool { return r.cur+1 < len(r.sets) }

func (r *rows) NextResultSet() error {
	if !r.HasNextResultSet() {
		return io.EOF
	}
	r.cur++
	r.pos = 0
	r.names = nil
	return nil
}

func (r *rows) Next(dest []driver.Value) error {
	rs := r.set()
	if r.pos >= len(rs.rows) {
		return io.EOF
	}
	row := rs.rows[r.pos]
	r.pos++
	for i := range dest {
		if i >= len(row) {
			break
		}
		v, err := r.wireValue(row[i], &rs.cols[i])
		if err != nil {
			return err
		}
		dest[i] = v
	}
	return nil
}

func bitBytes(u uint64, bits int) []byte {
	n := (bits + 7) / 8
	if n < 1 {
		n = 1
	}
	if n > 8 {
		n = 8
	}
	b := make([]byte, n)
	for i := n - 1; i >= 0; i-- {
		b[i] = byte(u)
		u >>= 8
	}
	return b
}

func textBytes(v interface{}, m *colMeta) []byte {
	switch x := v.(type) {
	case []byte:
		return cloneBytes(x)
	case timeVal:
		return []byte(formatTimeVal(x, m.fieldType, int(m.decimals)))
	case float64:
		if m.fieldType == fieldTypeFloat {
			return []byte(formatFloat(x, 32))
		}
		return []byte(formatFloat(x, 64))
	case uint64:
		if m.fieldType == fieldTypeBit {
			bits := 64
			if m.col != nil {
				bits = m.col.flen
			}
			return bitBytes(x, bits)
		}
	case int64:
		if m.fieldType == fieldTypeYear {
			return []byte(fmt.Sprintf("%04d", x))
		}
	}
	if b := []byte(valueText(v)); b != nil {
		return b
	}
	return []byte{}
}

// wireValue converts an internal value to what go-sql-driver/mysql v1.6.0 hands to database/sql:
// text protocol -> []byte (time.Time for temporal columns with parseTime), binary protocol -> typed values.
func (r *rows) wireValue(v interface{}, m *colMeta) (driver.Value, error) {
	if v == nil {
		return nil, nil
	}
	temporal := m.fieldType == fieldTypeDate || m.fieldType == fieldTypeNewDate ||
		m.fieldType == fieldTypeDateTime || m.fieldType == fieldTypeTimestamp
	if temporal && r.parseTime {
		if tv, ok := v.(timeVal); ok {
			if m.fieldType == fieldTypeDate && len(tv) >= 10 {
				tv = timeVal(string(tv[:10]) + " 00:00:00.000000")
			}
			return valToTime(tv, r.loc), nil
		}
		if p, ok := parseTimeVal(valueText(v)); ok {
			return valToTime(p, r.loc), nil
		}
		return nil, fmt.Errorf("invalid time bytes: %s", valueText(v))
	}
	if !r.binary {
		return textBytes(v, m), nil
	}
	switch m.fieldType {
	case fieldTypeNULL:
		return nil, nil
	case fieldTypeTiny, fieldTypeShort, fieldTypeYear, fieldTypeInt24, fieldTypeLong:
		switch x := v.(type) {
		case int64:
			return x, nil
		case uint64:
			return int64(x), nil
		}
	case fieldTypeLongLong:
		switch x := v.(type) {
		case int64:
			return x, nil
		case uint64:
			if x > math.MaxInt64 {
				return []byte(strconv.FormatUint(x, 10)), nil
			}
			return int64(x), nil
		}
	case fieldTypeFloat:
		if f, ok := v.(float64); ok {
			return float32(f), nil
		}
	case fieldTypeDouble:
		if f, ok := v.(float64); ok {
			return f, nil
		}
	}
	if f, ok := toFloat(v); ok {
		switch m.fieldType {
		case fieldTypeTiny, fieldTypeShort, fieldTypeYear, fieldTypeInt24, fieldTypeLong, fieldTypeLongLong:
			return int64(f), nil
		case fieldTypeFloat:
			return float32(f), nil
		case fieldTypeDouble:
			return f, nil
		}
	}
	return textBytes(v, m), nil
}

// ---- column type information: a transcription of fields.go / rows.go of go-sql-driver/mysql v1.6.0 ----

func (m *colMeta) typeDatabaseName() string {
	switch m.fieldType {
	case fieldTypeBit:
		return "BIT"
	case fieldTypeBLOB:
		if !m.binary {
			return "TEXT"
		}
		return "BLOB"
	case fieldTypeDate:
		return "DATE"
	case fieldTypeDateTime:
		return "DATETIME"
	case fieldTypeDecimal:
		return "DECIMAL"
	case fieldTypeDouble:
		return "DOUBLE"
	case fieldTypeEnum:
		return "ENUM"
	case fieldTypeFloat:
		return "FLOAT"
	case fieldTypeGeometry:
		return "GEOMETRY"
	case fieldTypeInt24:
		return "MEDIUMINT"
	case fieldTypeJSON:
		return "JSON"
	case fieldTypeLong:
		return "INT"
	case fieldTypeLongBLOB:
		if !m.binary {
			return "LONGTEXT"
		}
		return "LONGBLOB"
	case fieldTypeLongLong:
		return "BIGINT"
	case fieldTypeMediumBLOB:
		if !m.binary {
			return "MEDIUMTEXT"
		}
		return "MEDIUMBLOB"
	case fieldTypeNewDate:
		return "DATE"
	case fieldTypeNewDecimal:
		return "DECIMAL"
	case fieldTypeNULL:
		return "NULL"
	case fieldTypeSet:
		return "SET"
	case fieldTypeShort:
		return "SMALLINT"
	case fieldTypeString:
		if m.binary {
			return "BINARY"
		}
		return "CHAR"
	case fieldTypeTime:
		return "TIME"
	case fieldTypeTimestamp:
		return "TIMESTAMP"
	case fieldTypeTiny:
		return "TINYINT"
	case fieldTypeTinyBLOB:
		if !m.binary {
			return "TINYTEXT"
		}
		return "TINYBLOB"
	case fieldTypeVarChar:
		if m.binary {
			return "VARBINARY"
		}
		return "VARCHAR"
	case fieldTypeVarString:
		if m.binary {
			return "VARBINARY"
		}
		return "VARCHAR"
	case fieldTypeYear:
		return "YEAR"
	default:
		return ""
	}
}

var (
	scanTypeFloat32   = reflect.TypeOf(float32(0))
	scanTypeFloat64   = reflect.TypeOf(float64(0))
	scanTypeInt8      = reflect.TypeOf(int8(0))
	scanTypeInt16     = reflect.TypeOf(int16(0))
	scanTypeInt32     = reflect.TypeOf(int32(0))
	scanTypeInt64     = reflect.TypeOf(int64(0))
	scanTypeNullFloat = reflect.TypeOf(sql.NullFloat64{})
	scanTypeNullInt   = reflect.TypeOf(sql.NullInt64{})
	scanTypeNullTime  = reflect.TypeOf(sql.NullTime{})
	scanTypeUint8     = reflect.TypeOf(uint8(0))
	scanTypeUint16    = reflect.TypeOf(uint16(0))
	scanTypeUint32    = reflect.TypeOf(uint32(0))
	scanTypeUint64    = reflect.TypeOf(uint64(0))
	scanTypeRawBytes  = reflect.TypeOf(sql.RawBytes{})
	scanTypeUnknown   = reflect.TypeOf(new(interface{}))
)

func (m *colMeta) scanType() reflect.Type {
	switch m.fieldType {
	case fieldTypeTiny:
		if m.flags&flagNotNULL != 0 {
			if m.flags&flagUnsigned != 0 {
				return scanTypeUint8
			}
			return scanTypeInt8
		}
		return scanTypeNullInt
	case fieldTypeShort, fieldTypeYear:
		if m.flags&flagNotNULL != 0 {
			if m.flags&flagUnsigned != 0 {
				return scanTypeUint16
			}
			return scanTypeInt16
		}
		return scanTypeNullInt
	case fieldTypeInt24, fieldTypeLong:
		if m.flags&flagNotNULL != 0 {
			if m.flags&flagUnsigned != 0 {
				return scanTypeUint32
			}
			return scanTypeInt32
		}
		return scanTypeNullInt
	case fieldTypeLongLong:
		if m.flags&flagNotNULL != 0 {
			if m.flags&flagUnsigned != 0 {
				return scanTypeUint64
			}
			return scanTypeInt64
		}
		return scanTypeNullInt
	case fieldTypeFloat:
		if m.flags&flagNotNULL != 0 {
			return scanTypeFloat32
		}
		return scanTypeNullFloat
	case fieldTypeDouble:
		if m.flags&flagNotNULL != 0 {
			return scanTypeFloat64
		}
		return scanTypeNullFloat
	case fieldTypeDecimal, fieldTypeNewDecimal, fieldTypeVarChar,
		fieldTypeBit, fieldTypeEnum, fieldTypeSet, fieldTypeTinyBLOB,
		fieldTypeMediumBLOB, fieldTypeLongBLOB, fieldTypeBLOB,
		fieldTypeVarString, fieldTypeString, fieldTypeGeometry, fieldTypeJSON,
		fieldTypeTime:
		return scanTypeRawBytes
	case fieldTypeDate, fieldTypeNewDate,
		fieldTypeTimestamp, fieldTypeDateTime:
		return scanTypeNullTime
	default:
		return scanTypeUnknown
	}
}

func (r *rows) ColumnTypeDatabaseTypeName(i int) string { return r.set().cols[i].typeDatabaseName() }

func (r *rows) ColumnTypeNullable(i int) (nullable, ok bool) {
	return r.set().cols[i].flags&flagNotNULL == 0, true
}

func (r *rows) ColumnTypePrecisionScale(i int) (int64, int64, bool) {
	column := r.set().cols[i]
	decimals := int64(column.decimals)
	switch column.fieldType {
	case fieldTypeDecimal, fieldTypeNewDecimal:
		if decimals > 0 {
			return int64(column.length) - 2, decimals, true
		}
		return int64(column.length) - 1, decimals, true
	case fieldTypeTimestamp, fieldTypeDateTime, fieldTypeTime:
		return decimals, decimals, true
	case fieldTypeFloat, fieldTypeDouble:
		if decimals == 0x1f {
			return math.MaxInt64, math.MaxInt64, true
		}
		return math.MaxInt64, decimals, true
	}
	return 0, 0, false
}

func (r *rows) ColumnTypeScanType(i int) reflect.Type { return r.set().cols[i].scanType() }

// ---- converter: transcription of statement.go converter ----

var jsonType = reflect.TypeOf(json.RawMessage{})

type converter struct{}

func (c converter) ConvertValue(v interface{}) (driver.Value, error) {
	if driver.IsValue(v) {
		return v, nil
	}
	if vr, ok := v.(driver.Valuer); ok {
		sv, err := callValuerValue(vr)
		if err != nil {
			return nil, err
		}
		if driver.IsValue(sv) {
			return sv, nil
		}
		if u, ok := sv.(uint64); ok {
			return u, nil
		}
		return nil, fmt.Errorf("non-Value type %T returned from Value", sv)
	}
	rv := reflect.ValueOf(v)
	switch rv.Kind() {
	case reflect.Ptr:
		if rv.IsNil() {
			return nil, nil
		}
		return c.ConvertValue(rv.Elem().Interface())
	case reflect.Int, reflect.Int8, reflect.Int16, reflect.Int32, reflect.Int64:
		return rv.Int(), nil
	case reflect.Uint, reflect.Uint8, reflect.Uint16, reflect.Uint32, reflect.Uint64:
		return rv.Uint(), nil
	case reflect.Float32, reflect.Float64:
		return rv.Float(), nil
	case reflect.Bool:
		return rv.Bool(), nil
	case reflect.Slice:
		switch t := rv.Type(); {
		case t == jsonType:
			return v, nil
		case t.Elem().Kind() == reflect.Uint8:
			return rv.Bytes(), nil
		default:
			return nil, fmt.Errorf("unsupported type %T, a slice of %s", v, t.Elem().Kind())
		}
	case reflect.String:
		return rv.String(), nil
	}
	return nil, fmt.Errorf("unsupported type %T, a %s", v, rv.Kind())
}

var valuerReflectType = reflect.TypeOf((*driver.Valuer)(nil)).Elem()

func callValuerValue(vr driver.Valuer) (v driver.Value, err error) {
	if rv := reflect.ValueOf(vr); rv.Kind() == reflect.Ptr &&
		rv.IsNil() &&
		rv.Type().Elem().Implements(valuerReflectType) {
		return nil, nil
	}
	return vr.Value()
}

var _ = strings.ToLower
