package memsql

import (
	"context"
	"errors"
	"sort"
	"strconv"
	"time"
)

type xaState int

const (
	xaNone xaState = iota
	xaActive
	xaIdle
	xaPrepared
)

func (x xaState) name() string {
	switch x {
	case xaActive:
		return "ACTIVE"
	case xaIdle:
		return "IDLE"
	case xaPrepared:
		return "PREPARED"
	}
	return "NON-EXISTING"
}

// txn is a transaction: the owner of row locks and uncommitted row versions. It is attached to
// a connection except for a detached prepared XA branch.
type txn struct {
	id         int64
	conn       *conn
	locks      map[*row]*table
	undo       []undoRec
	savepoints []savepoint
	xid        string
	xaCmd      *xaCmd
	xaState    xaState
	waitingRow *row // the row this transaction is blocked on, if any
}

type undoRec struct {
	t          *table
	r          *row
	hadPend    bool
	pending    []interface{}
	pendDel    bool
	lockedHere bool
}

type savepoint struct {
	name    string
	undoLen int
}

// errRetry makes the statement start over (the server was reset while it was waiting).
var errRetry = errors.New("memsql: retry statement")

// errWaited signals that a lock wait happened and the statement's row evaluation must restart.
var errWaited = errors.New("memsql: waited for lock")

func (s *Server) newTxn(c *conn) *txn {
	s.nextTxn++
	return &txn{id: s.nextTxn, conn: c, locks: map[*row]*table{}}
}

// rowVersion is a row as seen by some transaction.
type rowVersion struct {
	r    *row
	vals []interface{}
}

// visible returns the version of r that tx sees (nil if the row does not exist for it).
func (r *row) visible(tx *txn) []interface{} {
	if tx != nil && r.owner == tx && r.hasPend {
		if r.pendDel {
			return nil
		}
		return r.pending
	}
	return r.committed
}

func (t *table) visibleRows(tx *txn) []rowVersion {
	out := make([]rowVersion, 0, len(t.rows))
	for _, r := range t.rows {
		if v := r.visible(tx); v != nil {
			out = append(out, rowVersion{r: r, vals: v})
		}
	}
	return out
}

// sortRows orders by primary key (InnoDB clustered order) or by insertion order without one.
func (t *table) sortRows(rows []rowVersion) {
	sort.Slice(rows, func(i, j int) bool {
		if t.pk == nil {
			return rows[i].r.id < rows[j].r.id
		}
		for _, ci := range t.pk {
			c := orderCompare(rows[i].vals[ci], rows[j].vals[ci])
			if c != 0 {
				return c < 0
			}
		}
		return rows[i].r.id < rows[j].r.id
	})
}

func (t *table) rowKeyText(r *row) string {
	if t.pk == nil {
		return "#" + strconv.FormatInt(r.id, 10)
	}
	v := r.committed
	if r.hasPend && !r.pendDel {
		v = r.pending
	}
	if v == nil {
		v = r.pending
	}
	if v == nil {
		return r.key
	}
	_, text := t.pkKey(v)
	return text
}

func (t *table) gc(r *row) {
	if r.owner == nil && r.committed == nil && !r.hasPend {
		if cur, ok := t.rows[r.key]; ok && cur == r {
			delete(t.rows, r.key)
		}
	}
}

// lock makes tx the owner of r; the caller has checked that r is free or already owned by tx.
func (tx *txn) lock(t *table, r *row) {
	if r.owner == tx {
		return
	}
	r.owner = tx
	tx.locks[r] = t
	tx.undo = append(tx.undo, undoRec{t: t, r: r, hadPend: r.hasPend, pending: r.pending, pendDel: r.pendDel, lockedHere: true})
}

// write records a new uncommitted version of r (vals == nil deletes). tx must own r.
func (tx *txn) write(t *table, r *row, vals []interface{}) {
	tx.undo = append(tx.undo, undoRec{t: t, r: r, hadPend: r.hasPend, pending: r.pending, pendDel: r.pendDel})
	r.hasPend = true
	r.pending = vals
	r.pendDel = vals == nil
}

// rollbackTo undoes everything recorded after undo position n, releasing locks taken after it.
func (s *Server) rollbackTo(tx *txn, n int) {
	for i := len(tx.undo) - 1; i >= n; i-- {
		u := tx.undo[i]
		u.r.hasPend, u.r.pending, u.r.pendDel = u.hadPend, u.pending, u.pendDel
		if u.lockedHere && u.r.owner == tx {
			u.r.owner = nil
			delete(tx.locks, u.r)
			u.t.gc(u.r)
		}
	}
	tx.undo = tx.undo[:n]
	s.cond.Broadcast()
}

func (s *Server) commitTxn(tx *txn) {
	for r, t := range tx.locks {
		if r.hasPend {
			if r.pendDel {
				r.committed = nil
			} else {
				r.committed = r.pending
			}
			r.hasPend, r.pending, r.pendDel = false, nil, false
		}
		r.owner = nil
		t.gc(r)
	}
	s.finishTxn(tx)
}

func (s *Server) rollbackTxn(tx *txn) {
	for r, t := range tx.locks {
		r.hasPend, r.pending, r.pendDel = false, nil, false
		r.owner = nil
		t.gc(r)
	}
	s.finishTxn(tx)
}

func (s *Server) finishTxn(tx *txn) {
	tx.locks = map[*row]*table{}
	tx.undo = nil
	tx.savepoints = nil
	if tx.xid != "" {
		if s.xa[tx.xid] == tx {
			delete(s.xa, tx.xid)
		}
	}
	tx.xaState = xaNone
	if tx.conn != nil && tx.conn.tx == tx {
		tx.conn.tx = nil
	}
	tx.conn = nil
	s.cond.Broadcast()
}

// waitFor blocks (releasing s.mu) until r is no longer owned by another transaction, the lock-wait
// timeout expires (1205), a deadlock is detected (1213) or ctx is cancelled. It returns errWaited after
// a successful wait so that the caller re-evaluates its row set.
func (s *Server) waitFor(ctx context.Context, tx *txn, r *row) error {
	if r.owner == nil || r.owner == tx {
		return nil
	}
	if deadlocked(tx, r) {
		return errDeadlock
	}
	epoch := s.epoch
	timeout := s.lockWait
	deadline := time.Now().Add(timeout)
	stop := make(chan struct{})
	var done <-chan struct{}
	if ctx != nil {
		done = ctx.Done()
	}
	go func() {
		timer := time.NewTimer(timeout)
		defer timer.Stop()
		select {
		case <-stop:
			return
		case <-done:
		case <-timer.C:
		}
		s.mu.Lock()
		s.cond.Broadcast()
		s.mu.Unlock()
	}()
	defer close(stop)
	tx.waitingRow = r
	defer func() { tx.waitingRow = nil }()
	for {
		if s.epoch != epoch {
			return errRetry
		}
		if r.owner == nil || r.owner == tx {
			return errWaited
		}
		if deadlocked(tx, r) {
			return errDeadlock
		}
		if ctx != nil && ctx.Err() != nil {
			return ctx.Err()
		}
		if !time.Now().Before(deadline) {
			return myErr(1205, "Lock wait timeout exceeded; try restarting transaction")
		}
		s.cond.Wait()
	}
}

// deadlocked follows the wait-for chain starting at the owner of r (edges are derived from the rows
// transactions are blocked on, so they are always current).
func deadlocked(tx *txn, r *row) bool {
	o := r.owner
	for hops := 0; o != nil && hops < 10000; hops++ {
		if o == tx {
			return true
		}
		if o.waitingRow == nil {
			return false
		}
		o = o.waitingRow.owner
	}
	return false
}

var errDeadlock = myErr(1213, "Deadlock found when trying to get lock; try restarting transaction")
