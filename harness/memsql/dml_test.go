package memsql

import (
	"errors"
	"testing"
)

const stockDDL = "CREATE TABLE `stock_tbl` (" +
	"`id` int(11) NOT NULL AUTO_INCREMENT," +
	"`commodity_code` varchar(255) DEFAULT NULL," +
	"`count` int(11) DEFAULT 0," +
	"PRIMARY KEY (`id`)," +
	"UNIQUE KEY (`commodity_code`)" +
	") ENGINE=InnoDB DEFAULT CHARSET=utf8"

func TestDDL(t *testing.T) {
	s := newTestServer(t)
	db := openDB(t, s, "")
	mustExec(t, db, stockDDL)
	_, err := db.Exec(stockDDL)
	wantMySQLErr(t, err, 1050)
	mustExec(t, db, "CREATE TABLE IF NOT EXISTS stock_tbl (id int primary key)")
	mustExec(t, db, "INSERT INTO testdb.stock_tbl (commodity_code) VALUES ('a')")
	mustExec(t, db, "INSERT INTO `STOCK_TBL` (`Commodity_Code`) VALUES ('b')")
	wantRows(t, queryStrings(t, db, "SELECT ID, commodity_code FROM Stock_Tbl"), "1,a;2,b")
	mustExec(t, db, "TRUNCATE TABLE stock_tbl")
	wantRows(t, queryStrings(t, db, "SELECT COUNT(*) FROM stock_tbl"), "0")
	r := mustExec(t, db, "INSERT INTO stock_tbl (commodity_code) VALUES ('a')")
	if lastID(t, r) != 1 {
		t.Fatalf("auto increment not reset by TRUNCATE: %d", lastID(t, r))
	}
	mustExec(t, db, "DROP TABLE stock_tbl")
	_, err = db.Exec("DROP TABLE stock_tbl")
	wantMySQLErr(t, err, 1051)
	mustExec(t, db, "DROP TABLE IF EXISTS stock_tbl")
	_, err = db.Query("SELECT * FROM stock_tbl")
	wantMySQLErr(t, err, 1146)
	_, err = db.Exec("CREATE TABLE bad (id int auto_increment)")
	wantMySQLErr(t, err, 1075)
	_, err = db.Exec("CREAT TABLE bad (id int)")
	wantMySQLErr(t, err, 1064)
	_, err = db.Exec("ALTER TABLE x ADD COLUMN y int")
	if !errors.Is(err, ErrUnsupported) {
		t.Fatalf("ALTER TABLE: %v, want ErrUnsupported", err)
	}
	// multi-statement DDL via the admin path, with comments
	s.MustExec("DROP TABLE IF EXISTS a; CREATE TABLE a (id int primary key); CREATE TABLE b (id int primary key, KEY idx_b (id));")
	if got := s.Tables(); len(got) != 2 {
		t.Fatalf("tables = %v", got)
	}
}

func TestInsertForms(t *testing.T) {
	s := newTestServer(t)
	db := openDB(t, s, "")
	mustExec(t, db, stockDDL)

	r := mustExec(t, db, "INSERT INTO stock_tbl (commodity_code, count) VALUES ('a', 1), ('b', ?), (?, DEFAULT)", 2, "c")
	if affected(t, r) != 3 || lastID(t, r) != 1 {
		t.Fatalf("multi-row insert affected/lastID = %d/%d, want 3/1", affected(t, r), lastID(t, r))
	}
	wantRows(t, queryStrings(t, db, "SELECT * FROM stock_tbl"), "1,a,1;2,b,2;3,c,0")

	// explicit id larger than the counter bumps it; LastInsertId is the explicit value
	r = mustExec(t, db, "INSERT INTO stock_tbl VALUES (10, 'd', NULL)")
	if affected(t, r) != 1 || lastID(t, r) != 10 {
		t.Fatalf("explicit id affected/lastID = %d/%d", affected(t, r), lastID(t, r))
	}
	r = mustExec(t, db, "INSERT INTO stock_tbl (id, commodity_code) VALUES (NULL, 'e')")
	if lastID(t, r) != 11 {
		t.Fatalf("lastID after bump = %d, want 11", lastID(t, r))
	}
	wantRows(t, queryStrings(t, db, "SELECT LAST_INSERT_ID()"), "11")
	// 0 also generates
	r = mustExec(t, db, "INSERT INTO stock_tbl (id, commodity_code) VALUES (0, 'f')")
	if lastID(t, r) != 12 {
		t.Fatalf("lastID = %d, want 12", lastID(t, r))
	}
	// INSERT ... SET
	r = mustExec(t, db, "INSERT INTO stock_tbl SET commodity_code = 'g', count = 1 + 2 * 3")
	if lastID(t, r) != 13 {
		t.Fatalf("lastID = %d", lastID(t, r))
	}
	wantRows(t, queryStrings(t, db, "SELECT count FROM stock_tbl WHERE id = 13"), "7")

	// duplicate primary key and unique key
	_, err := db.Exec("INSERT INTO stock_tbl (id, commodity_code) VALUES (1, 'zz')")
	me := wantMySQLErr(t, err, 1062)
	if me.Message != "Duplicate entry '1' for key 'PRIMARY'" {
		t.Fatalf("message = %q", me.Message)
	}
	_, err = db.Exec("INSERT INTO stock_tbl (commodity_code) VALUES ('A')") // case-insensitive collation
	me = wantMySQLErr(t, err, 1062)
	if me.Message != "Duplicate entry 'A' for key 'commodity_code'" {
		t.Fatalf("message = %q", me.Message)
	}
	// a failing multi-row insert has no effect at all
	_, err = db.Exec("INSERT INTO stock_tbl (commodity_code) VALUES ('x1'), ('x2'), ('a')")
	wantMySQLErr(t, err, 1062)
	wantRows(t, queryStrings(t, db, "SELECT COUNT(*) FROM stock_tbl WHERE commodity_code LIKE 'x%'"), "0")
	// NULLs never collide on a unique key
	mustExec(t, db, "INSERT INTO stock_tbl (commodity_code) VALUES (NULL), (NULL)")

	// INSERT IGNORE
	r = mustExec(t, db, "INSERT IGNORE INTO stock_tbl (commodity_code) VALUES ('a'), ('new')")
	if affected(t, r) != 1 {
		t.Fatalf("INSERT IGNORE affected = %d", affected(t, r))
	}
	// REPLACE
	r = mustExec(t, db, "REPLACE INTO stock_tbl (id, commodity_code, count) VALUES (1, 'a', 99)")
	if affected(t, r) != 2 {
		t.Fatalf("REPLACE affected = %d, want 2", affected(t, r))
	}
	wantRows(t, queryStrings(t, db, "SELECT count FROM stock_tbl WHERE id = 1"), "99")

	// errors
	_, err = db.Exec("INSERT INTO stock_tbl (nope) VALUES (1)")
	wantMySQLErr(t, err, 1054)
	_, err = db.Exec("INSERT INTO stock_tbl (commodity_code, count) VALUES ('q')")
	wantMySQLErr(t, err, 1136)
	_, err = db.Exec("INSERT INTO nope (a) VALUES (1)")
	wantMySQLErr(t, err, 1146)
	mustExec(t, db, "CREATE TABLE nn (id int primary key, v varchar(4) NOT NULL, w int NOT NULL)")
	_, err = db.Exec("INSERT INTO nn (id, v, w) VALUES (1, NULL, 1)")
	wantMySQLErr(t, err, 1048)
	_, err = db.Exec("INSERT INTO nn (id, v) VALUES (1, 'a')")
	wantMySQLErr(t, err, 1364)
	_, err = db.Exec("INSERT INTO nn (id, v, w) VALUES (1, 'too long', 1)")
	wantMySQLErr(t, err, 1406)
	_, err = db.Exec("INSERT INTO nn (id, v, w) VALUES (1, 'a', 'abc')")
	wantMySQLErr(t, err, 1366)
	_, err = db.Exec("INSERT INTO nn (id, v, w) VALUES (1, 'a', 99999999999)")
	wantMySQLErr(t, err, 1264)
}

func TestOnDuplicateKeyUpdate(t *testing.T) {
	s := newTestServer(t)
	db := openDB(t, s, "")
	mustExec(t, db, stockDDL)
	mustExec(t, db, "INSERT INTO stock_tbl (commodity_code, count) VALUES ('a', 1), ('b', 2)")

	// miss: plain insert
	r := mustExec(t, db, "INSERT INTO stock_tbl (commodity_code, count) VALUES ('c', 3) ON DUPLICATE KEY UPDATE count = VALUES(count)")
	if affected(t, r) != 1 || lastID(t, r) != 3 {
		t.Fatalf("miss: affected/lastID = %d/%d", affected(t, r), lastID(t, r))
	}
	// hit on the unique key: update counts 2
	r = mustExec(t, db, "INSERT INTO stock_tbl (commodity_code, count) VALUES ('a', 10) ON DUPLICATE KEY UPDATE count = count + VALUES(count)")
	if affected(t, r) != 2 {
		t.Fatalf("hit: affected = %d, want 2", affected(t, r))
	}
	wantRows(t, queryStrings(t, db, "SELECT count FROM stock_tbl WHERE commodity_code = 'a'"), "11")
	// hit without change: 0
	r = mustExec(t, db, "INSERT INTO stock_tbl (commodity_code, count) VALUES ('a', 11) ON DUPLICATE KEY UPDATE count = VALUES(count)")
	if affected(t, r) != 0 {
		t.Fatalf("unchanged: affected = %d, want 0", affected(t, r))
	}
	// hit on the primary key with a parameter
	r = mustExec(t, db, "INSERT INTO stock_tbl (id, commodity_code, count) VALUES (?, ?, ?) ON DUPLICATE KEY UPDATE count = ?", 2, "zzz", 0, 77)
	if affected(t, r) != 2 {
		t.Fatalf("pk hit: affected = %d", affected(t, r))
	}
	wantRows(t, queryStrings(t, db, "SELECT commodity_code, count FROM stock_tbl WHERE id = 2"), "b,77")
	// mixed: one insert (1) + one update (2) + one unchanged (0)
	r = mustExec(t, db, "INSERT INTO stock_tbl (commodity_code, count) VALUES ('new', 5), ('b', 78), ('c', 3) ON DUPLICATE KEY UPDATE count = VALUES(count)")
	if affected(t, r) != 3 {
		t.Fatalf("mixed: affected = %d, want 3", affected(t, r))
	}
	wantRows(t, queryStrings(t, db, "SELECT commodity_code, count FROM stock_tbl ORDER BY commodity_code"), "a,11;b,78;c,3;new,5")
}

func TestUpdateDelete(t *testing.T) {
	s := newTestServer(t)
	db := openDB(t, s, "")
	mustExec(t, db, stockDDL)
	mustExec(t, db, "INSERT INTO stock_tbl (commodity_code, count) VALUES ('a', 1), ('b', 2), ('c', 3), ('d', 4), ('e', 5)")

	r := mustExec(t, db, "UPDATE stock_tbl SET count = count + 1 WHERE id IN (1, 2)")
	if affected(t, r) != 2 {
		t.Fatalf("affected = %d", affected(t, r))
	}
	// rows matched but not changed do not count
	r = mustExec(t, db, "UPDATE stock_tbl SET count = 2 WHERE id IN (1, 2)")
	if affected(t, r) != 1 {
		t.Fatalf("affected = %d, want 1 (only id 2 changes)", affected(t, r))
	}
	r = mustExec(t, db, "UPDATE stock_tbl SET count = 100 ORDER BY id DESC LIMIT 2")
	if affected(t, r) != 2 {
		t.Fatalf("affected = %d", affected(t, r))
	}
	wantRows(t, queryStrings(t, db, "SELECT id, count FROM stock_tbl"), "1,2;2,2;3,3;4,100;5,100")
	// later assignments see earlier ones; DEFAULT keyword and DEFAULT(col)
	mustExec(t, db, "UPDATE stock_tbl SET count = 9, commodity_code = CONCAT('x', count) WHERE id = 3")
	wantRows(t, queryStrings(t, db, "SELECT commodity_code, count FROM stock_tbl WHERE id = 3"), "x9,9")
	mustExec(t, db, "UPDATE stock_tbl SET count = DEFAULT WHERE id = 3")
	wantRows(t, queryStrings(t, db, "SELECT count FROM stock_tbl WHERE id = 3"), "0")
	mustExec(t, db, "UPDATE stock_tbl SET count = 5 WHERE id = 3")
	mustExec(t, db, "UPDATE stock_tbl SET count = DEFAULT(count) WHERE id = 3")
	wantRows(t, queryStrings(t, db, "SELECT count FROM stock_tbl WHERE count = DEFAULT(count)"), "0")
	mustExec(t, db, "UPDATE stock_tbl t SET t.count = ? WHERE t.id = ?", 42, 3)
	wantRows(t, queryStrings(t, db, "SELECT count FROM stock_tbl WHERE id = 3"), "42")

	// unique violation by update
	_, err := db.Exec("UPDATE stock_tbl SET commodity_code = 'a' WHERE id = 2")
	wantMySQLErr(t, err, 1062)
	// primary key update moves the row
	r = mustExec(t, db, "UPDATE stock_tbl SET id = 50 WHERE id = 5")
	if affected(t, r) != 1 {
		t.Fatalf("affected = %d", affected(t, r))
	}
	wantRows(t, queryStrings(t, db, "SELECT id FROM stock_tbl WHERE commodity_code = 'e'"), "50")
	_, err = db.Exec("UPDATE stock_tbl SET id = 1 WHERE id = 50")
	wantMySQLErr(t, err, 1062)
	_, err = db.Exec("UPDATE stock_tbl SET nope = 1")
	wantMySQLErr(t, err, 1054)
	_, err = db.Exec("UPDATE stock_tbl SET count = 1 WHERE nope = 1")
	wantMySQLErr(t, err, 1054)
	_, err = db.Exec("UPDATE stock_tbl SET id = NULL WHERE id = 1")
	wantMySQLErr(t, err, 1048)

	r = mustExec(t, db, "DELETE FROM stock_tbl WHERE count >= ? ORDER BY id LIMIT 1", 100)
	if affected(t, r) != 1 {
		t.Fatalf("affected = %d", affected(t, r))
	}
	wantRows(t, queryStrings(t, db, "SELECT id FROM stock_tbl"), "1;2;3;50")
	r = mustExec(t, db, "DELETE FROM stock_tbl WHERE id = 999")
	if affected(t, r) != 0 {
		t.Fatalf("affected = %d", affected(t, r))
	}
	r = mustExec(t, db, "DELETE FROM stock_tbl")
	if affected(t, r) != 4 {
		t.Fatalf("affected = %d", affected(t, r))
	}
	// the key of a deleted row can be reused
	mustExec(t, db, "INSERT INTO stock_tbl (id, commodity_code) VALUES (1, 'a')")
}

func TestWhereOperators(t *testing.T) {
	s := newTestServer(t)
	db := openDB(t, s, "")
	mustExec(t, db, "CREATE TABLE w (id int primary key, name varchar(16), n int, d decimal(8,2), ts datetime)")
	mustExec(t, db, "INSERT INTO w VALUES (1,'Alpha',10,1.50,'2024-01-01 00:00:00'),(2,'beta',20,2.50,'2024-01-02 00:00:00'),(3,'Gamma',NULL,NULL,NULL),(4,'al_ha',40,10.00,'2024-01-04 12:00:00')")
	cases := []struct {
		where string
		args  []interface{}
		want  string
	}{
		{"n = 10", nil, "1"},
		{"n <> 10", nil, "2;4"},
		{"n != 10", nil, "2;4"},
		{"n < 20", nil, "1"},
		{"n <= 20", nil, "1;2"},
		{"n > 10", nil, "2;4"},
		{"n >= 20", nil, "2;4"},
		{"n <=> NULL", nil, "3"},
		{"n <=> 10", nil, "1"},
		{"n = 10 AND name = 'alpha'", nil, "1"}, // case-insensitive collation
		{"n = 10 OR n = 20", nil, "1;2"},
		{"NOT n = 10", nil, "2;4"},
		{"NOT (n = 10 OR n = 20)", nil, "4"},
		{"n = 10 XOR id = 1", nil, ""},
		{"n IN (10, 40, NULL)", nil, "1;4"},
		{"n NOT IN (10, 40)", nil, "2"},
		{"n BETWEEN 10 AND 20", nil, "1;2"},
		{"n NOT BETWEEN 10 AND 20", nil, "4"},
		{"n IS NULL", nil, "3"},
		{"n IS NOT NULL", nil, "1;2;4"},
		{"name LIKE 'al%'", nil, "1;4"},
		{"name LIKE 'al_ha'", nil, "1;4"},
		{"name LIKE 'al\\_ha'", nil, "4"},
		{"name NOT LIKE '%a'", nil, ""},
		{"name LIKE ?", []interface{}{"%ET%"}, "2"},
		{"(id, n) IN ((1, 10), (2, 99), (4, 40))", nil, "1;4"},
		{"(`id`,`n`) IN ((?,?),(?,?))", []interface{}{1, 10, 2, 20}, "1;2"},
		{"(id, name) IN ((?, ?))", []interface{}{2, "BETA"}, "2"},
		{"id = ?", []interface{}{"2"}, "2"},   // numeric column vs numeric-looking string
		{"id = '3'", nil, "3"},                // same, literal
		{"d = 1.5", nil, "1"},                 // decimal vs literal
		{"d > ?", []interface{}{2.0}, "2;4"},  // decimal vs float arg, numeric not lexicographic
		{"d = ?", []interface{}{"2.50"}, "2"}, // decimal vs string arg
		{"n + 5 = 15", nil, "1"},              // arithmetic
		{"n * 2 - 1 = 39", nil, "2"},          //
		{"n / 4 = 2.5", nil, "1"},             //
		{"ts > '2024-01-01 12:00:00'", nil, "2;4"},
		{"ts = ?", []interface{}{"2024-01-02"}, "2"},
		{"ts BETWEEN ? AND ?", []interface{}{"2024-01-01", "2024-01-03"}, "1;2"},
		{"w.id = 1", nil, "1"},
		{"TRUE", nil, "1;2;3;4"},
		{"FALSE", nil, ""},
		{"n = NULL", nil, ""},
		{"IFNULL(n, 0) = 0", nil, "3"},
		{"name = CONCAT('be', 'ta')", nil, "2"},
	}
	for _, c := range cases {
		got := flat(queryStrings(t, db, "SELECT id FROM w WHERE "+c.where, c.args...))
		if got != c.want {
			t.Errorf("WHERE %s %v: got %q want %q", c.where, c.args, got, c.want)
		}
	}
	_, err := db.Query("SELECT id FROM w WHERE (id, n) IN ((1, 2, 3))")
	wantMySQLErr(t, err, 1241)
	_, err = db.Query("SELECT id FROM w WHERE nope = 1")
	wantMySQLErr(t, err, 1054)
	_, err = db.Query("SELECT id FROM w WHERE x.id = 1")
	wantMySQLErr(t, err, 1054)
	_, err = db.Query("SELECT id FROM w WHERE id IN (SELECT id FROM w)")
	if !errors.Is(err, ErrUnsupported) {
		t.Fatalf("subquery: %v", err)
	}
	_, err = db.Query("SELECT a.id FROM w a JOIN w b ON a.id = b.id")
	if !errors.Is(err, ErrUnsupported) {
		t.Fatalf("join: %v", err)
	}
}

func TestSelectShapes(t *testing.T) {
	s := newTestServer(t)
	db := openDB(t, s, "")
	mustExec(t, db, "CREATE TABLE p (k varchar(8) NOT NULL, seq int NOT NULL, v int, PRIMARY KEY (k, seq))")
	mustExec(t, db, "INSERT INTO p VALUES ('b', 2, 1), ('a', 2, 2), ('b', 1, 3), ('a', 1, NULL)")
	// default order is primary-key order
	wantRows(t, queryStrings(t, db, "SELECT k, seq FROM p"), "a,1;a,2;b,1;b,2")
	wantRows(t, queryStrings(t, db, "SELECT k, seq FROM p ORDER BY seq DESC, k ASC"), "a,2;b,2;a,1;b,1")
	wantRows(t, queryStrings(t, db, "SELECT k, seq, v FROM p ORDER BY v"), "a,1,NULL;b,2,1;a,2,2;b,1,3")
	wantRows(t, queryStrings(t, db, "SELECT k, seq FROM p ORDER BY k, seq LIMIT 2"), "a,1;a,2")
	wantRows(t, queryStrings(t, db, "SELECT k, seq FROM p ORDER BY k, seq LIMIT ?", 3), "a,1;a,2;b,1")
	wantRows(t, queryStrings(t, db, "SELECT k, seq FROM p ORDER BY k, seq LIMIT 1, 2"), "a,2;b,1")
	wantRows(t, queryStrings(t, db, "SELECT k, seq FROM p ORDER BY k, seq LIMIT 2 OFFSET 3"), "b,2")
	wantRows(t, queryStrings(t, db, "SELECT seq AS s, k FROM p ORDER BY s, 2 LIMIT 1"), "1,a")
	wantRows(t, queryStrings(t, db, "SELECT SQL_NO_CACHE t.k, t.seq + 1 AS nxt, 'lit', 1.5, NULL FROM testdb.p AS t WHERE t.k = 'a' AND t.seq = 1"), "a,2,lit,1.5,NULL")
	wantRows(t, queryStrings(t, db, "SELECT COUNT(*), COUNT(1), COUNT(v), MAX(v), MIN(seq), SUM(v) FROM p"), "4,4,3,3,1,6")
	wantRows(t, queryStrings(t, db, "SELECT COUNT(*) FROM p WHERE k = 'zz'"), "0")
	wantRows(t, queryStrings(t, db, "SELECT 1"), "1")
	wantRows(t, queryStrings(t, db, "SELECT 1 FROM p LIMIT 1"), "1")
	wantRows(t, queryStrings(t, db, "SELECT 1 + 1, 'a' FROM DUAL"), "2,a")
	wantRows(t, queryStrings(t, db, "SELECT VERSION()"), "8.0.30")
	s.SetVersion("5.7.40")
	wantRows(t, queryStrings(t, db, "SELECT VERSION()"), "5.7.40")
	if got := queryStrings(t, db, "SELECT NOW(6), NOW(), CURRENT_TIMESTAMP"); len(got[0][0]) != 26 || len(got[0][1]) != 19 || len(got[0][2]) != 19 {
		t.Fatalf("now: %v", got)
	}
	wantRows(t, queryStrings(t, db, "SHOW VARIABLES LIKE 'auto_increment_increment'"), "auto_increment_increment,1")
	wantRows(t, queryStrings(t, db, "SHOW VARIABLES LIKE 'nope'"), "")
	mustExec(t, db, "SET NAMES utf8mb4")
	mustExec(t, db, "SET SESSION sql_mode = 'STRICT_TRANS_TABLES'")

	// column names as MySQL reports them
	rows, err := db.Query("SELECT K, seq AS S, COUNT(*) FROM p")
	if err != nil {
		t.Fatal(err)
	}
	cols, _ := rows.Columns()
	rows.Close()
	if len(cols) != 3 || cols[0] != "K" || cols[1] != "S" || cols[2] != "COUNT(*)" {
		t.Fatalf("column names = %v", cols)
	}
	rows, _ = db.Query("SELECT * FROM p")
	cols, _ = rows.Columns()
	rows.Close()
	if len(cols) != 3 || cols[0] != "k" || cols[1] != "seq" || cols[2] != "v" {
		t.Fatalf("column names = %v", cols)
	}
	// composite key lookups
	wantRows(t, queryStrings(t, db, "SELECT v FROM p WHERE k = ? AND seq = ?", "b", 1), "3")
	_, err = db.Exec("INSERT INTO p VALUES ('B', 1, 0)")
	me := wantMySQLErr(t, err, 1062)
	if me.Message != "Duplicate entry 'B-1' for key 'PRIMARY'" {
		t.Fatalf("message %q", me.Message)
	}
	_, err = db.Query("SELECT k FROM p GROUP BY k")
	if !errors.Is(err, ErrUnsupported) {
		t.Fatalf("GROUP BY: %v", err)
	}
}

func TestMultiStatement(t *testing.T) {
	s := newTestServer(t)
	db := openDB(t, s, "")
	mustExec(t, db, stockDDL)
	// the driver reports the last statement's OK packet
	r := mustExec(t, db, "INSERT INTO stock_tbl (commodity_code, count) VALUES ('a', 1), ('b', 1); UPDATE stock_tbl SET count = 2 WHERE id = 1;")
	if affected(t, r) != 1 {
		t.Fatalf("affected = %d, want 1 (last statement)", affected(t, r))
	}
	// argument markers are distributed over the statements in order
	r = mustExec(t, db, "UPDATE stock_tbl SET count = ? WHERE id = ?; UPDATE stock_tbl SET count = ? WHERE id IN (?, ?)", 10, 1, 20, 1, 2)
	if affected(t, r) != 2 {
		t.Fatalf("affected = %d", affected(t, r))
	}
	wantRows(t, queryStrings(t, db, "SELECT id, count FROM stock_tbl"), "1,20;2,20")
	// an error stops the execution; earlier statements stay in effect
	_, err := db.Exec("UPDATE stock_tbl SET count = 1 WHERE id = 1; INSERT INTO stock_tbl (id) VALUES (1); UPDATE stock_tbl SET count = 1 WHERE id = 2")
	wantMySQLErr(t, err, 1062)
	wantRows(t, queryStrings(t, db, "SELECT id, count FROM stock_tbl"), "1,1;2,20")
	// a query over several statements yields the first result set (and further ones)
	rows, err := db.Query("SELECT 1; SELECT 2, 3")
	if err != nil {
		t.Fatal(err)
	}
	defer rows.Close()
	var a, b int
	if !rows.Next() || rows.Scan(&a) != nil || a != 1 {
		t.Fatal("first result set")
	}
	if !rows.NextResultSet() || !rows.Next() || rows.Scan(&a, &b) != nil || a != 2 || b != 3 {
		t.Fatal("second result set")
	}
	n := 0
	for _, e := range s.Journal() {
		if e.Class == "update" {
			n++
		}
	}
	if n != 4 {
		t.Fatalf("journal has %d update entries, want 4 (one per sub-statement)", n)
	}
}
