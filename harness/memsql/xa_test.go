package memsql

import (
	"context"
	"database/sql"
	"database/sql/driver"
	"io"
	"testing"
)

func xaConn(t *testing.T, db *sql.DB) *sql.Conn {
	t.Helper()
	c, err := db.Conn(context.Background())
	if err != nil {
		t.Fatal(err)
	}
	t.Cleanup(func() { c.Close() })
	return c
}

func cexec(t *testing.T, c *sql.Conn, q string, args ...interface{}) {
	t.Helper()
	if _, err := c.ExecContext(context.Background(), q, args...); err != nil {
		t.Fatalf("%s: %v", q, err)
	}
}

func cerr(t *testing.T, c *sql.Conn, q string, num uint16) {
	t.Helper()
	_, err := c.ExecContext(context.Background(), q)
	wantMySQLErr(t, err, num)
}

func TestXAStateMachineDetached(t *testing.T) {
	s := newTestServer(t) // 8.0.30: prepared branches detach from the connection
	db := openDB(t, s, "")
	mustExec(t, db, stockDDL)
	mustExec(t, db, "INSERT INTO stock_tbl (commodity_code, count) VALUES ('a', 1), ('b', 2)")
	c1, c2 := xaConn(t, db), xaConn(t, db)

	// commands in the NON-EXISTING state
	cerr(t, c1, "XA END 'x1'", 1399)
	cerr(t, c1, "XA PREPARE 'x1'", 1399)
	cerr(t, c1, "XA COMMIT 'x1'", 1397)
	cerr(t, c1, "XA ROLLBACK 'x1'", 1397)
	cerr(t, c1, "XA START 'x1' JOIN", 1398)
	cerr(t, c1, "XA FROB 'x1'", 1064)

	// legal path: START -> work -> END -> PREPARE -> (other connection) COMMIT
	cexec(t, c1, "XA START 'x1'")
	cerr(t, c1, "XA START 'x2'", 1399) // already in a global transaction
	cerr(t, c2, "XA START 'x1'", 1440) // duplicate xid
	cerr(t, c1, "BEGIN", 1399)         // local transaction control is refused
	cerr(t, c1, "COMMIT", 1399)
	cerr(t, c1, "ROLLBACK", 1399)
	cerr(t, c1, "XA PREPARE 'x1'", 1399) // not IDLE yet
	cerr(t, c1, "XA COMMIT 'x1'", 1399)
	cerr(t, c1, "XA ROLLBACK 'x1'", 1399)
	cerr(t, c1, "XA END 'other'", 1397)
	cexec(t, c1, "UPDATE stock_tbl SET count = 100 WHERE id = 1")
	wantRows(t, queryStrings(t, db, "SELECT count FROM stock_tbl WHERE id = 1"), "1")
	cs := s.ConnStates()
	found := false
	for _, st := range cs {
		if st.XA == "active" && st.InTx && st.Locks == 1 {
			found = true
		}
	}
	if !found {
		t.Fatalf("conn states: %+v", cs)
	}
	cexec(t, c1, "XA END 'x1'")
	cerr(t, c1, "XA END 'x1'", 1399)
	cerr(t, c1, "UPDATE stock_tbl SET count = 5 WHERE id = 2", 1399) // no work in IDLE
	cerr(t, c1, "XA COMMIT 'x1'", 1399)                              // needs ONE PHASE from IDLE
	cerr(t, c1, "XA PREPARE 'other'", 1397)
	cexec(t, c1, "XA PREPARE 'x1'")
	if got := s.PreparedXA(); len(got) != 1 || got[0] != "x1" {
		t.Fatalf("PreparedXA = %v", got)
	}
	if !s.Idle() {
		t.Fatalf("connection must be free after a detached prepare: %+v", s.ConnStates())
	}
	// the connection is free again
	cexec(t, c1, "UPDATE stock_tbl SET count = 22 WHERE id = 2")
	// the prepared branch still holds its row lock
	s.SetLockWaitTimeout(50e6)
	cerr(t, c1, "UPDATE stock_tbl SET count = 0 WHERE id = 1", 1205)
	cerr(t, c2, "XA COMMIT 'x1' ONE PHASE", 1399)
	// XA RECOVER over the raw driver: text protocol values
	rec := rawQuery(t, db, "XA RECOVER")
	if len(rec) != 1 || string(rec[0].vals[0].([]byte)) != "1" || string(rec[0].vals[1].([]byte)) != "2" ||
		string(rec[0].vals[2].([]byte)) != "0" || string(rec[0].vals[3].([]byte)) != "x1" {
		t.Fatalf("XA RECOVER = %#v", rec)
	}
	if rec[0].cols[0] != "formatID" || rec[0].cols[1] != "gtrid_length" || rec[0].cols[2] != "bqual_length" || rec[0].cols[3] != "data" {
		t.Fatalf("XA RECOVER columns = %v", rec[0].cols)
	}
	cexec(t, c2, "XA COMMIT 'x1'") // any connection may finish it
	cerr(t, c2, "XA COMMIT 'x1'", 1397)
	wantRows(t, queryStrings(t, db, "SELECT count FROM stock_tbl WHERE id = 1"), "100")
	if len(s.PreparedXA()) != 0 {
		t.Fatal("prepared list not empty")
	}

	// rollback of a prepared branch from another connection; xid with bqual and formatID
	cexec(t, c1, "XA START 'g2','b2',7")
	cexec(t, c1, "DELETE FROM stock_tbl WHERE id = 2")
	cexec(t, c1, "XA END 'g2','b2',7")
	cexec(t, c1, "XA PREPARE 'g2','b2',7")
	cerr(t, c2, "XA ROLLBACK 'g2'", 1397) // a different xid
	cexec(t, c2, "XA ROLLBACK 'g2', 'b2', 7")
	wantRows(t, queryStrings(t, db, "SELECT COUNT(*) FROM stock_tbl"), "2")

	// one-phase commit and rollback from IDLE
	cexec(t, c1, "XA START 'x3'")
	cexec(t, c1, "UPDATE stock_tbl SET count = 3 WHERE id = 1")
	cexec(t, c1, "XA END 'x3'")
	cexec(t, c1, "XA COMMIT 'x3' ONE PHASE")
	cexec(t, c1, "XA START 'x4'")
	cexec(t, c1, "UPDATE stock_tbl SET count = 4 WHERE id = 1")
	cexec(t, c1, "XA END 'x4'")
	cexec(t, c1, "XA ROLLBACK 'x4'")
	wantRows(t, queryStrings(t, db, "SELECT count FROM stock_tbl WHERE id = 1"), "3")

	// XA START inside a local transaction
	cexec(t, c1, "BEGIN")
	cerr(t, c1, "XA START 'x5'", 1400)
	cexec(t, c1, "ROLLBACK")

	// closing a connection in ACTIVE/IDLE rolls back, PREPARED survives
	c3, _ := db.Conn(context.Background())
	c3.ExecContext(context.Background(), "XA START 'x6'")
	c3.ExecContext(context.Background(), "UPDATE stock_tbl SET count = 6 WHERE id = 1")
	c3.Raw(func(dc interface{}) error { return dc.(driver.Conn).Close() })
	c3.Close()
	wantRows(t, queryStrings(t, db, "SELECT count FROM stock_tbl WHERE id = 1"), "3")
	cexec(t, c1, "XA START 'x6'") // the xid is free again
	cexec(t, c1, "XA END 'x6'")
	cexec(t, c1, "XA ROLLBACK 'x6'")
	if !s.Idle() {
		t.Fatalf("not idle: %+v", s.ConnStates())
	}

	// journal: classes and xid texts
	var seen []string
	for _, e := range s.Journal() {
		if e.Class == "xa_start" && e.Err == "" {
			seen = append(seen, e.XAID)
		}
	}
	if len(seen) < 5 || seen[0] != "x1" || seen[1] != "g2,b2,7" {
		t.Fatalf("journal xa_start xids: %v", seen)
	}
}

func TestXAAttachedBefore8029(t *testing.T) {
	s := newTestServer(t)
	s.SetVersion("5.7.36")
	db := openDB(t, s, "")
	mustExec(t, db, stockDDL)
	mustExec(t, db, "INSERT INTO stock_tbl (commodity_code, count) VALUES ('a', 1)")
	c1, c2 := xaConn(t, db), xaConn(t, db)
	cexec(t, c1, "XA START 'y1'")
	cexec(t, c1, "UPDATE stock_tbl SET count = 9 WHERE id = 1")
	cexec(t, c1, "XA END 'y1'")
	cexec(t, c1, "XA PREPARE 'y1'")
	// still attached: other connections do not see it, the holder cannot do anything else
	cerr(t, c2, "XA COMMIT 'y1'", 1397)
	cerr(t, c2, "XA ROLLBACK 'y1'", 1397)
	cerr(t, c1, "UPDATE stock_tbl SET count = 1 WHERE id = 1", 1399)
	cerr(t, c1, "XA START 'y2'", 1399)
	cerr(t, c1, "XA COMMIT 'y1' ONE PHASE", 1399)
	if got := s.PreparedXA(); len(got) != 1 {
		t.Fatalf("PreparedXA = %v", got)
	}
	foundPrepared := false
	for _, st := range s.ConnStates() {
		if st.XA == "prepared" {
			foundPrepared = true
		}
	}
	if !foundPrepared || s.Idle() {
		t.Fatalf("conn states: %+v", s.ConnStates())
	}
	cexec(t, c1, "XA COMMIT 'y1'")
	wantRows(t, queryStrings(t, db, "SELECT count FROM stock_tbl WHERE id = 1"), "9")

	// a prepared branch survives the close of its connection and can then be finished by anyone
	c3, _ := db.Conn(context.Background())
	for _, q := range []string{"XA START 'y3'", "UPDATE stock_tbl SET count = 10 WHERE id = 1", "XA END 'y3'", "XA PREPARE 'y3'"} {
		if _, err := c3.ExecContext(context.Background(), q); err != nil {
			t.Fatal(err)
		}
	}
	c3.Raw(func(dc interface{}) error { return dc.(driver.Conn).Close() })
	c3.Close()
	wantRows(t, queryStrings(t, db, "SELECT count FROM stock_tbl WHERE id = 1"), "9")
	cexec(t, c2, "XA ROLLBACK 'y3'")
	wantRows(t, queryStrings(t, db, "SELECT count FROM stock_tbl WHERE id = 1"), "9")
}

// The repo's MysqlXAConn.Recover reads dest[3].(string); the MySQL driver hands out []byte.
func TestXARecoverValueKind(t *testing.T) {
	s := newTestServer(t)
	db := openDB(t, s, "")
	c := xaConn(t, db)
	cexec(t, c, "XA START 'r1'")
	cexec(t, c, "XA END 'r1'")
	cexec(t, c, "XA PREPARE 'r1'")
	err := c.Raw(func(dc interface{}) error {
		rows, err := dc.(driver.QueryerContext).QueryContext(context.Background(), "XA RECOVER", nil)
		if err != nil {
			return err
		}
		defer rows.Close()
		dest := make([]driver.Value, 4)
		if err := rows.Next(dest); err != nil {
			return err
		}
		if _, ok := dest[3].([]byte); !ok {
			t.Errorf("XA RECOVER data kind %T, want []byte (text protocol)", dest[3])
		}
		if err := rows.Next(dest); err != io.EOF {
			t.Errorf("second Next: %v", err)
		}
		return nil
	})
	if err != nil {
		t.Fatal(err)
	}
}
