package memsql

import (
	"context"
	"database/sql/driver"
	"errors"
	"fmt"
	"sort"
	"strconv"
	"strings"
	"time"

	"github.com/arana-db/parser/ast"
	"github.com/arana-db/parser/format"
	"github.com/arana-db/parser/opcode"
	"github.com/go-sql-driver/mysql"
)

// colMeta is the metadata of one result-set column (what the server would send in a column definition packet).
type colMeta struct {
	name      string
	table     string
	fieldType byte
	flags     fieldFlag
	length    uint32
	decimals  byte
	binary    bool    // charset is binary
	col       *column // source column, if any
}

type resultSet struct {
	cols []colMeta
	rows [][]interface{}
}

// runOut is the outcome of one statement string.
type runOut struct {
	affected int64
	lastID   int64
	sets     []*resultSet
}

// stmtOut is the outcome of one statement.
type stmtOut struct {
	affected int64
	lastID   int64
	set      *resultSet
	keys     []string
	xaid     string
}

func errNumber(err error) int {
	var me *mysql.MySQLError
	if errors.As(err, &me) {
		return int(me.Number)
	}
	return 0
}

// run executes a (possibly multi-statement) string on the connection. args are normalised values.
func (c *conn) run(ctx context.Context, sql string, args []interface{}, raw []driver.Value, prepared bool) (*runOut, error) {
	p, err := parseSQL(sql)
	if err != nil {
		c.journalParseError(sql, raw, prepared, err)
		return nil, err
	}
	return c.runParsed(ctx, p, args, raw, prepared)
}

func (c *conn) journalParseError(sql string, args []driver.Value, prepared bool, err error) {
	if c.admin {
		return
	}
	s := c.srv
	s.mu.Lock()
	e := Entry{Conn: c.id, Class: "other", SQL: sql, Args: journalArgs(args), Prepared: prepared, Err: err.Error(), ErrNo: errNumber(err), InTx: c.tx != nil}
	e.Seq = s.seqSource()
	s.journal = append(s.journal, e)
	obs := s.observer
	s.mu.Unlock()
	if obs != nil {
		obs(e)
	}
}

// journalArgs copies the arguments as received from the caller (driver.Value kinds).
func journalArgs(args []driver.Value) []interface{} {
	if len(args) == 0 {
		return nil
	}
	out := make([]interface{}, len(args))
	for i, a := range args {
		if b, ok := a.([]byte); ok {
			a = cloneBytes(b)
		}
		out[i] = a
	}
	return out
}

func (c *conn) runParsed(ctx context.Context, p *parsedSQL, args []interface{}, raw []driver.Value, prepared bool) (*runOut, error) {
	if len(args) != p.nparams {
		return nil, fmt.Errorf("argument count mismatch (got: %d; has: %d)", len(args), p.nparams)
	}
	out := &runOut{}
	base := 0
	for _, st := range p.stmts {
		sargs := args[base : base+st.nparams]
		var sraw []driver.Value
		if len(raw) == len(args) {
			sraw = raw[base : base+st.nparams]
		}
		base += st.nparams
		so, err := c.runOne(ctx, st, sargs, sraw, prepared)
		if err != nil {
			return nil, err
		}
		if so.set != nil {
			out.sets = append(out.sets, so.set)
		} else {
			out.affected, out.lastID = so.affected, so.lastID
		}
	}
	return out, nil
}

// runOne takes one statement through gate, fault plan, execution, journal and observer.
func (c *conn) runOne(ctx context.Context, st *parsedStmt, args []interface{}, raw []driver.Value, prepared bool) (*stmtOut, error) {
	s := c.srv
	e := Entry{Conn: c.id, Class: st.class, Table: st.table, SQL: st.text, Args: journalArgs(raw), Prepared: prepared}
	if st.xa != nil {
		e.XAID = st.xa.xid
	}
	if !c.admin {
		s.mu.Lock()
		if c.closed {
			err := c.deadErrLocked()
			s.mu.Unlock()
			return nil, err
		}
		e.InTx = c.tx != nil
		gate := s.gate
		s.mu.Unlock()
		if gate != nil {
			if gerr := gate(&e); gerr != nil {
				s.mu.Lock()
				e.InTx = c.tx != nil
				e.Err, e.ErrNo = gerr.Error(), errNumber(gerr)
				e.Seq = s.seqSource()
				s.journal = append(s.journal, e)
				obs := s.observer
				s.mu.Unlock()
				if obs != nil {
					obs(e)
				}
				return nil, gerr
			}
		}
	}

	s.mu.Lock()
	if c.closed {
		err := c.deadErrLocked()
		s.mu.Unlock()
		return nil, err
	}
	e.InTx = c.tx != nil
	var fault *faultState
	if !c.admin {
		fault = s.matchFault(false, &e)
	}
	var so *stmtOut
	var err error
	if fault != nil && !fault.After {
		err = fault.Err
		if st.class == "commit" && c.tx != nil && c.tx.xaState == xaNone {
			// a failed COMMIT leaves nothing behind: InnoDB rolls the transaction back
			s.rollbackTxn(c.tx)
		}
		if fault.Kill || st.class == "rollback" {
			// a ROLLBACK only fails when the connection is lost: the server then rolls back by itself
			c.killLocked()
		}
	} else {
		for {
			so, err = c.execOnce(ctx, st, args)
			if err == errRetry {
				continue
			}
			break
		}
		if err != nil && errors.Is(err, ErrUnsupported) && !strings.Contains(err.Error(), st.text) {
			err = fmt.Errorf("%w: %s", err, st.text)
		}
		if err != nil && ctx != nil && ctx.Err() != nil && err == ctx.Err() {
			// the MySQL driver closes the connection when a statement is cancelled
			c.killLocked()
		}
		if fault != nil && err == nil {
			err = fault.Err
			if fault.Kill {
				c.killLocked()
			}
		}
	}
	if so != nil {
		e.Affected, e.LastID, e.Keys = so.affected, so.lastID, so.keys
		if so.set != nil {
			e.Affected = 0
		}
	}
	if err != nil {
		e.Err, e.ErrNo = err.Error(), errNumber(err)
	}
	var obs func(Entry)
	if !c.admin {
		e.Seq = s.seqSource()
		s.journal = append(s.journal, e)
		obs = s.observer
	}
	s.mu.Unlock()
	if obs != nil {
		obs(e)
	}
	if err != nil {
		return nil, err
	}
	return so, nil
}

// withStmtTx runs fn as one atomic statement inside the connection's transaction (or an implicit one).
// fn is re-run from scratch after every lock wait.
func (c *conn) withStmtTx(fn func(tx *txn) error) error {
	s := c.srv
	tx := c.tx
	implicit := false
	if tx == nil {
		tx = s.newTxn(c)
		if c.autocommit {
			implicit = true
		} else {
			c.tx = tx
		}
	}
	mark := len(tx.undo)
	for {
		err := fn(tx)
		switch {
		case err == nil:
			if implicit {
				s.commitTxn(tx)
			}
			return nil
		case err == errWaited:
			s.rollbackTo(tx, mark)
			continue
		case err == errRetry:
			return errRetry
		case err == errDeadlock:
			s.rollbackTxn(tx)
			return err
		default:
			s.rollbackTo(tx, mark)
			if implicit {
				s.rollbackTxn(tx)
			}
			return err
		}
	}
}

func xaRMFail(st xaState) error {
	return myErr(1399, "XAER_RMFAIL: The command cannot be executed when global transaction is in the  %s state", st.name())
}

// execOnce executes one statement with s.mu held.
func (c *conn) execOnce(ctx context.Context, st *parsedStmt, args []interface{}) (*stmtOut, error) {
	s := c.srv
	if st.xa != nil {
		return c.execXA(st.xa)
	}
	// XA state gating
	if c.tx != nil {
		switch c.tx.xaState {
		case xaIdle, xaPrepared:
			switch st.class {
			case "set", "show", "other":
			default:
				return nil, xaRMFail(c.tx.xaState)
			}
		case xaActive:
			switch st.class {
			case "begin", "commit", "rollback", "ddl":
				return nil, xaRMFail(c.tx.xaState)
			}
		}
	}
	ev := &evaluator{conn: c, args: args, markers: st.markers, now: s.clock()}
	switch st.class {
	case "savepoint":
		if c.tx == nil {
			if c.autocommit {
				return &stmtOut{}, nil // no transaction: the savepoint vanishes immediately
			}
			c.tx = s.newTxn(c)
		}
		tx := c.tx
		for i, sp := range tx.savepoints {
			if sp.name == st.spName {
				tx.savepoints = append(tx.savepoints[:i], tx.savepoints[i+1:]...)
				break
			}
		}
		tx.savepoints = append(tx.savepoints, savepoint{name: st.spName, undoLen: len(tx.undo)})
		return &stmtOut{}, nil
	case "rollback_to", "release_savepoint":
		if c.tx != nil {
			tx := c.tx
			for i := len(tx.savepoints) - 1; i >= 0; i-- {
				if tx.savepoints[i].name == st.spName {
					if st.class == "rollback_to" {
						s.rollbackTo(tx, tx.savepoints[i].undoLen)
						tx.savepoints = tx.savepoints[:i+1]
					} else {
						tx.savepoints = tx.savepoints[:i]
					}
					return &stmtOut{}, nil
				}
			}
		}
		return nil, myErr(1305, "SAVEPOINT %s does not exist", st.spName)
	}

	switch n := st.node.(type) {
	case *ast.BeginStmt:
		if c.tx != nil {
			s.commitTxn(c.tx) // implicit commit
		}
		c.tx = s.newTxn(c)
		return &stmtOut{}, nil
	case *ast.CommitStmt:
		if c.tx != nil {
			s.commitTxn(c.tx)
		}
		return &stmtOut{}, nil
	case *ast.RollbackStmt:
		if c.tx != nil {
			s.rollbackTxn(c.tx)
		}
		return &stmtOut{}, nil
	case *ast.SetStmt:
		for _, v := range n.Variables {
			if strings.EqualFold(v.Name, "autocommit") && v.Value != nil {
				val, err := ev.eval(v.Value)
				if err != nil {
					return nil, err
				}
				on := false
				switch x := val.(type) {
				case string:
					on = strings.EqualFold(x, "on") || x == "1" || strings.EqualFold(x, "true")
				default:
					on, _ = truth(val)
				}
				if on && !c.autocommit && c.tx != nil && c.tx.xaState == xaNone {
					s.commitTxn(c.tx)
				}
				c.autocommit = on
			}
		}
		return &stmtOut{}, nil
	case *ast.UseStmt:
		c.db = n.DBName
		return &stmtOut{}, nil
	case *ast.ShowStmt:
		rs, err := c.execShow(n, ev)
		if err != nil {
			return nil, err
		}
		return &stmtOut{set: rs}, nil
	case *ast.CreateTableStmt:
		c.implicitCommit()
		if _, exists := s.tables[n.Table.Name.L]; exists {
			if n.IfNotExists {
				return &stmtOut{}, nil
			}
			return nil, myErr(1050, "Table '%s' already exists", n.Table.Name.O)
		}
		t, err := buildTable(n)
		if err != nil {
			return nil, err
		}
		s.tables[t.lname] = t
		return &stmtOut{}, nil
	case *ast.DropTableStmt:
		if n.IsView {
			return nil, fmt.Errorf("%w: %s", ErrUnsupported, st.text)
		}
		c.implicitCommit()
		var missing []string
		for _, tn := range n.Tables {
			t, ok := s.tables[tn.Name.L]
			if !ok {
				missing = append(missing, c.dbName()+"."+tn.Name.O)
				continue
			}
			s.dropRows(t)
			delete(s.tables, tn.Name.L)
		}
		if len(missing) > 0 && !n.IfExists {
			return nil, myErr(1051, "Unknown table '%s'", strings.Join(missing, ","))
		}
		return &stmtOut{}, nil
	case *ast.TruncateTableStmt:
		c.implicitCommit()
		t, err := c.lookupTable(n.Table)
		if err != nil {
			return nil, err
		}
		s.dropRows(t)
		t.rows = map[string]*row{}
		t.autoInc = 1
		return &stmtOut{}, nil
	case *ast.SelectStmt:
		return c.execSelect(ctx, st, n, ev)
	case *ast.InsertStmt:
		return c.execInsert(ctx, st, n, ev)
	case *ast.UpdateStmt:
		return c.execUpdate(ctx, st, n, ev)
	case *ast.DeleteStmt:
		return c.execDelete(ctx, st, n, ev)
	}
	return nil, fmt.Errorf("%w: %s", ErrUnsupported, st.text)
}

func (c *conn) implicitCommit() {
	if c.tx != nil && c.tx.xaState == xaNone {
		c.srv.commitTxn(c.tx)
	}
}

func (c *conn) dbName() string {
	if c.db == "" {
		return "memsql"
	}
	return c.db
}

// dropRows detaches every row of t from the transactions that lock it.
func (s *Server) dropRows(t *table) {
	for _, r := range t.rows {
		if r.owner != nil {
			delete(r.owner.locks, r)
			r.owner = nil
		}
		r.committed, r.pending, r.hasPend = nil, nil, false
	}
	s.cond.Broadcast()
}

func (c *conn) lookupTable(tn *ast.TableName) (*table, error) {
	t, ok := c.srv.tables[tn.Name.L]
	if !ok {
		db := tn.Schema.O
		if db == "" {
			db = c.dbName()
		}
		return nil, myErr(1146, "Table '%s.%s' doesn't exist", db, tn.Name.O)
	}
	return t, nil
}

func (c *conn) tableFromRefs(refs *ast.TableRefsClause, what string) (*table, string, error) {
	tn, alias, ok := singleTable(refs)
	if !ok || tn == nil {
		return nil, "", fmt.Errorf("%w: %s over joins or derived tables", ErrUnsupported, what)
	}
	if tn.Schema.L == "information_schema" {
		return nil, "", myErr(1044, "Access denied for user 'root'@'%%' to database 'information_schema'")
	}
	t, err := c.lookupTable(tn)
	return t, alias, err
}

// ---------------------------------------------------------------- SELECT

type aggFinder struct{ found []*ast.AggregateFuncExpr }

func (a *aggFinder) Enter(n ast.Node) (ast.Node, bool) {
	if f, ok := n.(*ast.AggregateFuncExpr); ok {
		a.found = append(a.found, f)
		return n, true
	}
	return n, false
}
func (a *aggFinder) Leave(n ast.Node) (ast.Node, bool) { return n, true }

type unsupportedFinder struct{ what string }

func (u *unsupportedFinder) Enter(n ast.Node) (ast.Node, bool) {
	switch n.(type) {
	case *ast.SubqueryExpr, *ast.ExistsSubqueryExpr, *ast.CompareSubqueryExpr:
		u.what = "subquery"
	case *ast.WindowFuncExpr:
		u.what = "window function"
	}
	return n, false
}
func (u *unsupportedFinder) Leave(n ast.Node) (ast.Node, bool) { return n, true }

func fieldName(f *ast.SelectField) string {
	if f.AsName.O != "" {
		return f.AsName.O
	}
	if cn, ok := f.Expr.(*ast.ColumnNameExpr); ok {
		return cn.Name.Name.O
	}
	if t := strings.TrimSpace(f.Text()); t != "" {
		return t
	}
	if t := strings.TrimSpace(f.Expr.Text()); t != "" {
		return t
	}
	var sb strings.Builder
	if err := f.Expr.Restore(format.NewRestoreCtx(format.DefaultRestoreFlags, &sb)); err == nil {
		return sb.String()
	}
	return "?"
}

// source is what a SELECT reads from.
type source struct {
	tbl    *table // nil for virtual / no table
	name   string // lower-cased table name
	alias  string
	cols   []colMeta
	colIdx map[string]int
	rows   []rowVersion // for virtual tables: r == nil
}

func (c *conn) execSelect(ctx context.Context, st *parsedStmt, sel *ast.SelectStmt, ev *evaluator) (*stmtOut, error) {
	if sel.GroupBy != nil || sel.Having != nil || len(sel.WindowSpecs) > 0 || sel.With != nil ||
		sel.SelectIntoOpt != nil || sel.Kind != ast.SelectStmtKindSelect || sel.Distinct {
		return nil, fmt.Errorf("%w: %s", ErrUnsupported, st.text)
	}
	if st.unsupported != "" {
		return nil, fmt.Errorf("%w (%s): %s", ErrUnsupported, st.unsupported, st.text)
	}
	lock := sel.LockInfo != nil && sel.LockInfo.LockType != ast.SelectLockNone
	tn, alias, ok := singleTable(sel.From)
	if !ok {
		return nil, fmt.Errorf("%w (join or derived table): %s", ErrUnsupported, st.text)
	}
	var out *stmtOut
	body := func(tx *txn) error {
		src, err := c.openSource(tn, alias, ev)
		if err != nil {
			return err
		}
		o, err := c.selectFrom(ctx, tx, st, sel, src, ev, lock && src.tbl != nil)
		if err != nil {
			return err
		}
		out = o
		return nil
	}
	if c.noLock || tn == nil || tn.Schema.L == "information_schema" || (tn.Schema.L == "" && tn.Name.L == "dual") {
		lock = false
	}
	if lock {
		if err := c.withStmtTx(body); err != nil {
			return nil, err
		}
		return out, nil
	}
	if err := body(c.tx); err != nil {
		return nil, err
	}
	return out, nil
}

func (c *conn) openSource(tn *ast.TableName, alias string, ev *evaluator) (*source, error) {
	if tn == nil || (tn.Schema.L == "" && tn.Name.L == "dual") {
		return &source{colIdx: map[string]int{}, rows: []rowVersion{{}}}, nil
	}
	if tn.Schema.L == "information_schema" {
		return c.infoSchemaSource(tn, alias, ev)
	}
	t, err := c.lookupTable(tn)
	if err != nil {
		return nil, err
	}
	src := &source{tbl: t, name: t.lname, alias: alias, colIdx: t.colIdx}
	for _, col := range t.cols {
		src.cols = append(src.cols, col.meta(t.name))
	}
	return src, nil
}

// matchRows returns the rows of t visible to tx that satisfy where, in primary-key order. With
// forWrite it waits for (returns errWaited after waiting on) rows locked by other transactions
// that the predicate touches in their committed or their uncommitted version.
func (c *conn) matchRows(ctx context.Context, tx *txn, t *table, alias string, where ast.ExprNode, ev *evaluator, forWrite bool) ([]rowVersion, error) {
	rc := &rowCtx{colIdx: t.colIdx, tname: t.lname, alias: alias, tbl: t}
	saved, savedClause := ev.row, ev.clause
	ev.row, ev.clause = rc, "where clause"
	defer func() { ev.row, ev.clause = saved, savedClause }()
	test := func(vals []interface{}) (bool, error) {
		if where == nil {
			return true, nil
		}
		rc.vals = vals
		v, err := ev.eval(where)
		if err != nil {
			return false, err
		}
		if _, isRow := v.(rowValue); isRow {
			return false, myErr(1241, "Operand should contain 1 column(s)")
		}
		tr, null := truth(v)
		return tr && !null, nil
	}
	if len(t.rows) == 0 && where != nil {
		// still surface unknown-column errors on empty tables
		if _, err := test(make([]interface{}, len(t.cols))); err != nil {
			return nil, err
		}
	}
	var out []rowVersion
	for _, r := range t.rows {
		if forWrite && r.owner != nil && r.owner != tx {
			hit := false
			for _, ver := range [][]interface{}{r.committed, r.pending} {
				if ver == nil {
					continue
				}
				ok, err := test(ver)
				if err != nil {
					return nil, err
				}
				hit = hit || ok
			}
			if hit {
				if err := c.srv.waitFor(ctx, tx, r); err != nil {
					return nil, err
				}
			}
			continue
		}
		vals := r.visible(tx)
		if vals == nil {
			continue
		}
		ok, err := test(vals)
		if err != nil {
			return nil, err
		}
		if ok {
			out = append(out, rowVersion{r: r, vals: vals})
		}
	}
	t.sortRows(out)
	return out, nil
}

func evalLimit(ev *evaluator, lim *ast.Limit) (offset, count int64, err error) {
	offset, count = 0, -1
	if lim == nil {
		return
	}
	get := func(e ast.ExprNode) (int64, error) {
		v, err := ev.eval(e)
		if err != nil {
			return 0, err
		}
		switch x := v.(type) {
		case int64:
			if x < 0 {
				return 0, syntaxError(strconv.FormatInt(x, 10))
			}
			return x, nil
		case uint64:
			return int64(x), nil
		case string, []byte:
			// a string argument bound to LIMIT ? is a syntax error in MySQL
			return 0, syntaxError("'" + valueText(x) + "'")
		case nil:
			return 0, syntaxError("NULL")
		}
		f, _ := toFloat(v)
		return int64(f), nil
	}
	if lim.Count != nil {
		if count, err = get(lim.Count); err != nil {
			return
		}
	}
	if lim.Offset != nil {
		if offset, err = get(lim.Offset); err != nil {
			return
		}
	}
	return
}

type orderKeyFn func(rv rowVersion) ([]interface{}, error)

func (c *conn) orderRows(rows []rowVersion, order *ast.OrderByClause, ev *evaluator, rc *rowCtx, fields []*ast.SelectField) error {
	if order == nil || len(order.Items) == 0 {
		return nil
	}
	saved, savedClause := ev.row, ev.clause
	ev.row, ev.clause = rc, "order clause"
	defer func() { ev.row, ev.clause = saved, savedClause }()
	keys := make([][]interface{}, len(rows))
	for i, rv := range rows {
		rc.vals = rv.vals
		k := make([]interface{}, len(order.Items))
		for j, it := range order.Items {
			expr := it.Expr
			if cn, ok := expr.(*ast.ColumnNameExpr); ok && cn.Name.Table.L == "" {
				if _, known := rc.colIdx[cn.Name.Name.L]; !known {
					for _, f := range fields {
						if f.Expr != nil && f.AsName.L == cn.Name.Name.L {
							expr = f.Expr
						}
					}
				}
			} else if pe, ok := expr.(*ast.PositionExpr); ok {
				pos := pe.N
				if pos < 1 || pos > len(fields) || fields[pos-1].Expr == nil {
					return myErr(1054, "Unknown column '%d' in 'order clause'", pos)
				}
				expr = fields[pos-1].Expr
			}
			v, err := ev.eval(expr)
			if err != nil {
				return err
			}
			k[j] = v
		}
		keys[i] = k
	}
	idx := make([]int, len(rows))
	for i := range idx {
		idx[i] = i
	}
	sort.SliceStable(idx, func(a, b int) bool {
		ka, kb := keys[idx[a]], keys[idx[b]]
		for j, it := range order.Items {
			cmp := orderCompare(ka[j], kb[j])
			if cmp != 0 {
				if it.Desc {
					return cmp > 0
				}
				return cmp < 0
			}
		}
		return false
	})
	sorted := make([]rowVersion, len(rows))
	for i, j := range idx {
		sorted[i] = rows[j]
	}
	copy(rows, sorted)
	return nil
}

func applyLimit(rows []rowVersion, offset, count int64) []rowVersion {
	if offset > 0 {
		if offset >= int64(len(rows)) {
			return nil
		}
		rows = rows[offset:]
	}
	if count >= 0 && count < int64(len(rows)) {
		rows = rows[:count]
	}
	return rows
}

func (c *conn) selectFrom(ctx context.Context, tx *txn, st *parsedStmt, sel *ast.SelectStmt, src *source, ev *evaluator, lock bool) (*stmtOut, error) {
	rc := &rowCtx{colIdx: src.colIdx, tname: src.name, alias: src.alias, tbl: src.tbl}
	var rows []rowVersion
	var err error
	if src.tbl != nil {
		rows, err = c.matchRows(ctx, tx, src.tbl, src.alias, sel.Where, ev, lock)
		if err != nil {
			return nil, err
		}
	} else {
		ev.row, ev.clause = rc, "where clause"
		for _, rv := range src.rows {
			if sel.Where != nil {
				rc.vals = rv.vals
				v, err := ev.eval(sel.Where)
				if err != nil {
					return nil, err
				}
				if tr, null := truth(v); !tr || null {
					continue
				}
			}
			rows = append(rows, rv)
		}
		ev.row, ev.clause = nil, ""
	}

	// expand the select list
	type outField struct {
		expr ast.ExprNode
		col  int // >= 0: direct column of the source
		meta colMeta
	}
	var fields []outField
	var selFields []*ast.SelectField
	for _, f := range sel.Fields.Fields {
		if f.WildCard != nil {
			if src.cols == nil {
				return nil, myErr(1096, "No tables used")
			}
			if q := f.WildCard.Table.L; q != "" && q != src.name && q != src.alias {
				return nil, myErr(1051, "Unknown table '%s'", f.WildCard.Table.O)
			}
			for i, m := range src.cols {
				fields = append(fields, outField{col: i, meta: m})
			}
			continue
		}
		selFields = append(selFields, f)
		of := outField{expr: f.Expr, col: -1}
		of.meta.name = fieldName(f)
		if cn, ok := f.Expr.(*ast.ColumnNameExpr); ok {
			ev.row, ev.clause = rc, "field list"
			i, err := ev.resolveColumn(cn.Name)
			ev.row, ev.clause = nil, ""
			if err != nil {
				return nil, err
			}
			of.col = i
			name := of.meta.name
			of.meta = src.cols[i]
			of.meta.name = name
		}
		fields = append(fields, of)
	}

	af := &aggFinder{found: st.aggs}

	// ORDER BY / LIMIT select (and lock) the final row set
	if len(af.found) == 0 {
		if err := c.orderRows(rows, sel.OrderBy, ev, rc, selFields); err != nil {
			return nil, err
		}
		off, cnt, err := evalLimit(ev, sel.Limit)
		if err != nil {
			return nil, err
		}
		rows = applyLimit(rows, off, cnt)
	}
	out := &stmtOut{}
	if lock {
		for _, rv := range rows {
			tx.lock(src.tbl, rv.r)
			out.keys = append(out.keys, src.tbl.rowKeyText(rv.r))
		}
		sort.Strings(out.keys)
	}

	rs := &resultSet{}
	ev.row, ev.clause = rc, "field list"
	defer func() { ev.row, ev.clause = nil, "" }()
	if len(af.found) > 0 {
		aggs, err := c.computeAggregates(af.found, rows, ev, rc)
		if err != nil {
			return nil, err
		}
		ev.aggs = aggs
		defer func() { ev.aggs = nil }()
		rc.vals = make([]interface{}, len(src.cols))
		if len(rows) > 0 {
			rc.vals = rows[0].vals
		}
		vals := make([]interface{}, len(fields))
		for i, f := range fields {
			if f.col >= 0 {
				vals[i] = rc.vals[f.col]
				continue
			}
			v, err := ev.eval(f.expr)
			if err != nil {
				return nil, err
			}
			vals[i] = v
		}
		rs.rows = append(rs.rows, vals)
		off, cnt, err := evalLimit(ev, sel.Limit)
		if err != nil {
			return nil, err
		}
		if off > 0 || cnt == 0 {
			rs.rows = nil
		}
	} else {
		for _, rv := range rows {
			rc.vals = rv.vals
			vals := make([]interface{}, len(fields))
			for i, f := range fields {
				if f.col >= 0 {
					vals[i] = rv.vals[f.col]
					continue
				}
				v, err := ev.eval(f.expr)
				if err != nil {
					return nil, err
				}
				if _, isRow := v.(rowValue); isRow {
					return nil, myErr(1241, "Operand should contain 1 column(s)")
				}
				vals[i] = v
			}
			rs.rows = append(rs.rows, vals)
		}
		if len(rows) == 0 {
			// validate expressions even when nothing matches (unknown columns, unsupported functions)
			rc.vals = make([]interface{}, len(src.cols))
			for _, f := range fields {
				if f.col < 0 {
					if _, err := ev.eval(f.expr); err != nil {
						return nil, err
					}
				}
			}
		}
	}
	// metadata of computed fields comes from the values
	for i, f := range fields {
		if f.col >= 0 {
			rs.cols = append(rs.cols, f.meta)
			continue
		}
		var sample interface{}
		nullable := len(rs.rows) == 0
		for _, r := range rs.rows {
			if r[i] == nil {
				nullable = true
			} else if sample == nil {
				sample = r[i]
			}
		}
		m := metaFromValue(f.meta.name, sample)
		if nullable {
			m.flags &^= flagNotNULL
		}
		if sample == nil && len(rs.rows) == 0 {
			m.fieldType = fieldTypeVarString
			m.binary = false
		}
		rs.cols = append(rs.cols, m)
	}
	out.set = rs
	return out, nil
}

func (c *conn) computeAggregates(found []*ast.AggregateFuncExpr, rows []rowVersion, ev *evaluator, rc *rowCtx) (map[*ast.AggregateFuncExpr]interface{}, error) {
	out := map[*ast.AggregateFuncExpr]interface{}{}
	for _, a := range found {
		name := strings.ToLower(a.F)
		if a.Distinct {
			return nil, fmt.Errorf("%w: %s(DISTINCT ...)", ErrUnsupported, a.F)
		}
		var count int64
		var acc interface{}
		for _, rv := range rows {
			rc.vals = rv.vals
			var v interface{} = int64(1)
			if len(a.Args) > 0 {
				x, err := ev.eval(a.Args[0])
				if err != nil {
					return nil, err
				}
				v = x
			}
			if v == nil {
				continue
			}
			count++
			switch name {
			case "sum", "avg":
				if acc == nil {
					acc = v
					if !isNumericKind(v) {
						f, _ := toFloat(v)
						acc = f
					}
				} else {
					s, err := arith(opcode.Plus, acc, v)
					if err != nil {
						return nil, err
					}
					acc = s
				}
			case "min":
				if acc == nil || orderCompare(v, acc) < 0 {
					acc = v
				}
			case "max":
				if acc == nil || orderCompare(v, acc) > 0 {
					acc = v
				}
			}
		}
		switch name {
		case "count":
			out[a] = count
		case "sum":
			if i, ok := acc.(int64); ok {
				acc = decVal(strconv.FormatInt(i, 10))
			} else if u, ok := acc.(uint64); ok {
				acc = decVal(strconv.FormatUint(u, 10))
			}
			out[a] = acc
		case "avg":
			if acc == nil {
				out[a] = nil
			} else if f, ok := acc.(float64); ok {
				out[a] = f / float64(count)
			} else {
				r, _ := toRat(acc)
				q, _ := toRat(count)
				out[a] = ratToDec(r.Quo(r, q), decScale(acc)+4)
			}
		case "min", "max":
			out[a] = acc
		default:
			return nil, fmt.Errorf("%w: aggregate %s()", ErrUnsupported, a.F)
		}
	}
	return out, nil
}

// ---------------------------------------------------------------- INSERT

func dupEntry(t *table, ix *index, vals []interface{}) error {
	parts := make([]string, len(ix.cols))
	for i, ci := range ix.cols {
		parts[i] = keyText(vals[ci])
	}
	return myErr(1062, "Duplicate entry '%s' for key '%s'", strings.Join(parts, "-"), ix.name)
}

func uniqueKeyOf(t *table, ix *index, vals []interface{}) (string, bool) {
	parts := make([]string, len(ix.cols))
	for i, ci := range ix.cols {
		if vals[ci] == nil {
			return "", false
		}
		parts[i] = indexKeyPart(t.cols[ci], vals[ci])
	}
	return strings.Join(parts, "\x00"), true
}

// findConflict looks for a row other than self that collides with vals on the primary key or a unique
// index, as seen by tx. Collisions with rows locked by other transactions are waited for.
func (c *conn) findConflict(ctx context.Context, tx *txn, t *table, vals []interface{}, self *row) (*row, *index, error) {
	s := c.srv
	for _, ix := range t.indexes {
		if !ix.unique {
			continue
		}
		if ix.primary {
			key, _ := t.pkKey(vals)
			r := t.rows[key]
			if r == nil || r == self {
				continue
			}
			if r.owner != nil && r.owner != tx {
				return nil, nil, s.waitFor(ctx, tx, r)
			}
			if r.visible(tx) != nil {
				return r, ix, nil
			}
			continue
		}
		k, ok := uniqueKeyOf(t, ix, vals)
		if !ok {
			continue
		}
		for _, r := range t.rows {
			if r == self {
				continue
			}
			if r.owner != nil && r.owner != tx {
				for _, ver := range [][]interface{}{r.committed, r.pending} {
					if ver == nil {
						continue
					}
					if k2, ok := uniqueKeyOf(t, ix, ver); ok && k2 == k {
						return nil, nil, s.waitFor(ctx, tx, r)
					}
				}
				continue
			}
			ver := r.visible(tx)
			if ver == nil {
				continue
			}
			if k2, ok := uniqueKeyOf(t, ix, ver); ok && k2 == k {
				return r, ix, nil
			}
		}
	}
	return nil, nil, nil
}

// placeRow stores vals as a new row version under its key (after findConflict found no collision).
func (c *conn) placeRow(tx *txn, t *table, vals []interface{}) *row {
	var key string
	if t.pk != nil {
		key, _ = t.pkKey(vals)
	}
	if key != "" || t.pk != nil {
		if r := t.rows[key]; r != nil {
			tx.lock(t, r)
			tx.write(t, r, vals)
			return r
		}
	}
	t.nextRowID++
	r := &row{id: t.nextRowID, key: key}
	if t.pk == nil {
		r.key = "#" + strconv.FormatInt(r.id, 10)
	}
	t.rows[r.key] = r
	tx.lock(t, r)
	tx.write(t, r, vals)
	return r
}

func (c *conn) execInsert(ctx context.Context, st *parsedStmt, ins *ast.InsertStmt, ev *evaluator) (*stmtOut, error) {
	if st.unsupported != "" {
		return nil, fmt.Errorf("%w: INSERT with %s", ErrUnsupported, st.unsupported)
	}
	if ins.Select != nil {
		return nil, fmt.Errorf("%w: INSERT ... SELECT", ErrUnsupported)
	}
	var out *insertOut
	err := c.withStmtTx(func(tx *txn) error {
		o, err := c.insertBody(ctx, tx, ins, ev)
		if err != nil {
			return err
		}
		out = o
		return nil
	})
	if err != nil {
		return nil, err
	}
	if out.lastGenerated > 0 {
		c.lastInsertID = out.lastGenerated
	}
	c.rowCount = out.affected
	return &out.stmtOut, nil
}

type insertOut struct {
	stmtOut
	lastGenerated int64
}

func (c *conn) insertBody(ctx context.Context, tx *txn, ins *ast.InsertStmt, ev *evaluator) (*insertOut, error) {
	t, alias, err := c.tableFromRefs(ins.Table, "INSERT")
	if err != nil {
		return nil, err
	}
	var colOrder []int
	lists := ins.Lists
	switch {
	case len(ins.Setlist) > 0:
		var l []ast.ExprNode
		for _, a := range ins.Setlist {
			ci, ok := t.column(a.Column.Name.O)
			if !ok {
				return nil, myErr(1054, "Unknown column '%s' in 'field list'", a.Column.Name.O)
			}
			colOrder = append(colOrder, ci)
			l = append(l, a.Expr)
		}
		lists = [][]ast.ExprNode{l}
	case len(ins.Columns) > 0:
		seen := map[int]bool{}
		for _, cn := range ins.Columns {
			ci, ok := t.column(cn.Name.O)
			if !ok {
				return nil, myErr(1054, "Unknown column '%s' in 'field list'", cn.Name.O)
			}
			if seen[ci] {
				return nil, myErr(1110, "Column '%s' specified twice", cn.Name.O)
			}
			seen[ci] = true
			colOrder = append(colOrder, ci)
		}
	default:
		for i := range t.cols {
			colOrder = append(colOrder, i)
		}
	}
	out := &insertOut{}
	var firstGenerated, lastExplicit, updatedID int64
	rc := &rowCtx{colIdx: t.colIdx, tname: t.lname, alias: alias, tbl: t}
	ev.row, ev.clause = rc, "field list"
	defer func() { ev.row, ev.clause, ev.insertRow = nil, "", nil }()

	for rowNum, list := range lists {
		if len(list) != len(colOrder) && !(len(list) == 0 && len(ins.Columns) == 0 && len(ins.Setlist) == 0) {
			return nil, myErr(1136, "Column count doesn't match value count at row %d", rowNum+1)
		}
		vals := make([]interface{}, len(t.cols))
		set := make([]bool, len(t.cols))
		rc.vals = vals
		for i, expr := range list {
			ci := colOrder[i]
			if d, ok := expr.(*ast.DefaultExpr); ok && d.Name == nil {
				continue
			}
			v, err := ev.eval(expr)
			if err != nil {
				return nil, err
			}
			if _, isRow := v.(rowValue); isRow {
				return nil, myErr(1241, "Operand should contain 1 column(s)")
			}
			vals[ci], set[ci] = v, true
		}
		generated := false
		for ci, col := range t.cols {
			if set[ci] {
				if vals[ci] == nil && col.notNull && !col.autoInc {
					if ins.IgnoreErr {
						// IGNORE turns NULL into the implicit default; keep it simple and strict
					}
					return nil, myErr(1048, "Column '%s' cannot be null", col.name)
				}
				cv, merr := coerce(col, vals[ci])
				if merr != nil {
					merr.Message = strings.Replace(merr.Message, "at row 1", "at row "+strconv.Itoa(rowNum+1), 1)
					return nil, merr
				}
				vals[ci] = cv
				continue
			}
			if col.autoInc {
				continue
			}
			dv, err := ev.columnDefault(col)
			if err != nil {
				return nil, err
			}
			vals[ci] = dv
		}
		if t.autoCol >= 0 {
			ac := t.cols[t.autoCol]
			cur := vals[t.autoCol]
			zero := false
			if cur != nil {
				f, _ := toFloat(cur)
				zero = f == 0
			}
			if cur == nil || zero {
				id := t.autoInc
				t.autoInc++
				cv, merr := coerce(ac, id)
				if merr != nil {
					return nil, myErr(1467, "Failed to read auto-increment value from storage engine")
				}
				vals[t.autoCol] = cv
				generated = true
				if firstGenerated == 0 {
					firstGenerated = id
				}
			} else {
				f, _ := toFloat(cur)
				if int64(f) >= t.autoInc {
					t.autoInc = int64(f) + 1
				}
				lastExplicit = int64(f)
			}
		}
		_ = generated

		// resolve collisions
		replaced := int64(0)
		inserted := false
		for {
			r, ix, err := c.findConflict(ctx, tx, t, vals, nil)
			if err != nil {
				return nil, err
			}
			if r == nil {
				nr := c.placeRow(tx, t, vals)
				out.keys = append(out.keys, t.rowKeyText(nr))
				inserted = true
				break
			}
			if ins.IsReplace {
				tx.lock(t, r)
				tx.write(t, r, nil)
				replaced++
				continue
			}
			if len(ins.OnDuplicate) > 0 {
				tx.lock(t, r)
				old := r.visible(tx)
				ev.insertRow = vals
				changed, nr, err := c.updateRow(ctx, tx, t, r, old, ins.OnDuplicate, ev, rc)
				ev.insertRow = nil
				rc.vals = vals
				if err != nil {
					return nil, err
				}
				if !changed && c.foundRows {
					out.affected++
				}
				if changed {
					out.affected += 2
					if t.autoCol >= 0 {
						f, _ := toFloat(nr.visible(tx)[t.autoCol])
						if updatedID == 0 {
							updatedID = int64(f)
						}
					}
				}
				out.keys = append(out.keys, t.rowKeyText(nr))
				break
			}
			if ins.IgnoreErr {
				break
			}
			return nil, dupEntry(t, ix, vals)
		}
		if inserted {
			out.affected += 1 + replaced
		}
	}
	switch {
	case firstGenerated > 0:
		out.lastID = firstGenerated
		out.lastGenerated = firstGenerated
	case updatedID > 0:
		out.lastID = updatedID
	case lastExplicit > 0 && out.affected > 0:
		out.lastID = lastExplicit
	}
	sort.Strings(out.keys)
	return out, nil
}

// ---------------------------------------------------------------- UPDATE / DELETE

// updateRow applies assignments to row r (owned by tx). It returns whether the row changed and the
// row record that now holds the data (different from r when the primary key changed).
func (c *conn) updateRow(ctx context.Context, tx *txn, t *table, r *row, old []interface{}, list []*ast.Assignment, ev *evaluator, rc *rowCtx) (bool, *row, error) {
	nv := make([]interface{}, len(old))
	copy(nv, old)
	assigned := make([]bool, len(old))
	rc.vals = nv
	for _, a := range list {
		if a.Column.Table.L != "" && a.Column.Table.L != rc.tname && a.Column.Table.L != rc.alias {
			return false, nil, myErr(1054, "Unknown column '%s.%s' in 'field list'", a.Column.Table.O, a.Column.Name.O)
		}
		ci, ok := t.column(a.Column.Name.O)
		if !ok {
			return false, nil, myErr(1054, "Unknown column '%s' in 'field list'", a.Column.Name.O)
		}
		col := t.cols[ci]
		var v interface{}
		if d, isDef := a.Expr.(*ast.DefaultExpr); isDef && d.Name == nil {
			dv, err := ev.columnDefault(col)
			if err != nil {
				return false, nil, err
			}
			v = dv
		} else {
			x, err := ev.eval(a.Expr)
			if err != nil {
				return false, nil, err
			}
			if _, isRow := x.(rowValue); isRow {
				return false, nil, myErr(1241, "Operand should contain 1 column(s)")
			}
			v = x
		}
		if v == nil && col.notNull {
			return false, nil, myErr(1048, "Column '%s' cannot be null", col.name)
		}
		cv, merr := coerce(col, v)
		if merr != nil {
			return false, nil, merr
		}
		nv[ci] = cv
		assigned[ci] = true
	}
	changed := false
	for i := range nv {
		if !valuesIdentical(old[i], nv[i]) {
			changed = true
			break
		}
	}
	if !changed {
		return false, r, nil
	}
	for ci, col := range t.cols {
		if col.onUpdateNow && !assigned[ci] {
			cv, merr := coerce(col, ev.nowVal(col.fsp()))
			if merr == nil {
				nv[ci] = cv
			}
		}
	}
	cr, ix, err := c.findConflict(ctx, tx, t, nv, r)
	if err != nil {
		return false, nil, err
	}
	if cr != nil {
		return false, nil, dupEntry(t, ix, nv)
	}
	if t.pk != nil {
		if nk, _ := t.pkKey(nv); nk != r.key {
			tx.write(t, r, nil)
			nr := c.placeRow(tx, t, nv)
			return true, nr, nil
		}
	}
	tx.write(t, r, nv)
	return true, r, nil
}

func (c *conn) execUpdate(ctx context.Context, st *parsedStmt, up *ast.UpdateStmt, ev *evaluator) (*stmtOut, error) {
	if up.MultipleTable || up.With != nil {
		return nil, fmt.Errorf("%w: multi-table UPDATE", ErrUnsupported)
	}
	if st.unsupported != "" {
		return nil, fmt.Errorf("%w: UPDATE with %s", ErrUnsupported, st.unsupported)
	}
	var out *stmtOut
	err := c.withStmtTx(func(tx *txn) error {
		t, alias, err := c.tableFromRefs(up.TableRefs, "UPDATE")
		if err != nil {
			return err
		}
		rows, err := c.matchRows(ctx, tx, t, alias, up.Where, ev, true)
		if err != nil {
			return err
		}
		rc := &rowCtx{colIdx: t.colIdx, tname: t.lname, alias: alias, tbl: t}
		if err := c.orderRows(rows, up.Order, ev, rc, nil); err != nil {
			return err
		}
		_, cnt, err := evalLimit(ev, up.Limit)
		if err != nil {
			return err
		}
		rows = applyLimit(rows, 0, cnt)
		o := &stmtOut{}
		ev.row, ev.clause = rc, "field list"
		defer func() { ev.row, ev.clause = nil, "" }()
		if len(rows) == 0 {
			// validate the assignment targets even when nothing matches
			for _, a := range up.List {
				if _, ok := t.column(a.Column.Name.O); !ok {
					return myErr(1054, "Unknown column '%s' in 'field list'", a.Column.Name.O)
				}
			}
		}
		for _, rv := range rows {
			tx.lock(t, rv.r)
			changed, nr, err := c.updateRow(ctx, tx, t, rv.r, rv.vals, up.List, ev, rc)
			if err != nil {
				return err
			}
			if changed || c.foundRows {
				o.affected++
			}
			o.keys = append(o.keys, t.rowKeyText(nr))
		}
		sort.Strings(o.keys)
		out = o
		return nil
	})
	if err != nil {
		return nil, err
	}
	c.rowCount = out.affected
	return out, nil
}

func (c *conn) execDelete(ctx context.Context, st *parsedStmt, del *ast.DeleteStmt, ev *evaluator) (*stmtOut, error) {
	if del.IsMultiTable || del.With != nil {
		return nil, fmt.Errorf("%w: multi-table DELETE", ErrUnsupported)
	}
	if st.unsupported != "" {
		return nil, fmt.Errorf("%w: DELETE with %s", ErrUnsupported, st.unsupported)
	}
	var out *stmtOut
	err := c.withStmtTx(func(tx *txn) error {
		t, alias, err := c.tableFromRefs(del.TableRefs, "DELETE")
		if err != nil {
			return err
		}
		rows, err := c.matchRows(ctx, tx, t, alias, del.Where, ev, true)
		if err != nil {
			return err
		}
		rc := &rowCtx{colIdx: t.colIdx, tname: t.lname, alias: alias, tbl: t}
		if err := c.orderRows(rows, del.Order, ev, rc, nil); err != nil {
			return err
		}
		_, cnt, err := evalLimit(ev, del.Limit)
		if err != nil {
			return err
		}
		rows = applyLimit(rows, 0, cnt)
		o := &stmtOut{}
		for _, rv := range rows {
			o.keys = append(o.keys, t.rowKeyText(rv.r))
			tx.lock(t, rv.r)
			tx.write(t, rv.r, nil)
			o.affected++
		}
		sort.Strings(o.keys)
		out = o
		return nil
	})
	if err != nil {
		return nil, err
	}
	c.rowCount = out.affected
	return out, nil
}

// ---------------------------------------------------------------- XA

func versionAtLeast(v string, major, minor, patch int) bool {
	parts := strings.SplitN(v, ".", 3)
	num := func(i int) int {
		if i >= len(parts) {
			return 0
		}
		s := parts[i]
		j := 0
		for j < len(s) && s[j] >= '0' && s[j] <= '9' {
			j++
		}
		n, _ := strconv.Atoi(s[:j])
		return n
	}
	a, b, cc := num(0), num(1), num(2)
	if a != major {
		return a > major
	}
	if b != minor {
		return b > minor
	}
	return cc >= patch
}

func (c *conn) execXA(cmd *xaCmd) (*stmtOut, error) {
	s := c.srv
	out := &stmtOut{xaid: cmd.xid}
	own := c.tx != nil && c.tx.xaState != xaNone
	state := xaNone
	if own {
		state = c.tx.xaState
	}
	nota := myErr(1397, "XAER_NOTA: Unknown XID")
	switch cmd.verb {
	case "start":
		if cmd.opt == "resume" && own && state == xaIdle {
			if c.tx.xid != cmd.xid {
				return nil, nota
			}
			c.tx.xaState = xaActive
			return out, nil
		}
		if cmd.opt != "" {
			return nil, myErr(1398, "XAER_INVAL: Invalid arguments (or unsupported command)")
		}
		if own {
			return nil, xaRMFail(state)
		}
		if c.tx != nil {
			return nil, myErr(1400, "XAER_OUTSIDE: Some work is done outside global transaction")
		}
		if _, dup := s.xa[cmd.xid]; dup {
			return nil, myErr(1440, "XAER_DUPID: The XID already exists")
		}
		tx := s.newTxn(c)
		tx.xid, tx.xaCmd, tx.xaState = cmd.xid, cmd, xaActive
		s.xa[cmd.xid] = tx
		c.tx = tx
		return out, nil
	case "end":
		if !own || state != xaActive {
			return nil, xaRMFail(state)
		}
		if c.tx.xid != cmd.xid {
			return nil, nota
		}
		c.tx.xaState = xaIdle
		return out, nil
	case "prepare":
		if !own || state != xaIdle {
			return nil, xaRMFail(state)
		}
		if c.tx.xid != cmd.xid {
			return nil, nota
		}
		tx := c.tx
		tx.xaState = xaPrepared
		tx.savepoints = nil
		if versionAtLeast(s.version, 8, 0, 29) {
			tx.conn = nil
			c.tx = nil
		}
		return out, nil
	case "commit", "rollback":
		commit := cmd.verb == "commit"
		onePhase := cmd.opt == "onephase"
		if own && c.tx.xid == cmd.xid {
			tx := c.tx
			switch {
			case commit && state == xaIdle && onePhase,
				commit && state == xaPrepared && !onePhase:
				s.commitTxn(tx)
			case !commit && (state == xaIdle || state == xaPrepared):
				s.rollbackTxn(tx)
			default:
				return nil, xaRMFail(state)
			}
			return out, nil
		}
		if own {
			return nil, xaRMFail(state)
		}
		if c.tx != nil {
			return nil, myErr(1400, "XAER_OUTSIDE: Some work is done outside global transaction")
		}
		tx := s.xa[cmd.xid]
		if tx == nil || tx.xaState != xaPrepared || tx.conn != nil {
			return nil, nota
		}
		if onePhase {
			return nil, xaRMFail(xaPrepared)
		}
		if commit {
			s.commitTxn(tx)
		} else {
			s.rollbackTxn(tx)
		}
		return out, nil
	case "recover":
		rs := &resultSet{cols: []colMeta{
			{name: "formatID", fieldType: fieldTypeLong, flags: flagNotNULL | flagBinary, binary: true},
			{name: "gtrid_length", fieldType: fieldTypeLong, flags: flagNotNULL | flagBinary, binary: true},
			{name: "bqual_length", fieldType: fieldTypeLong, flags: flagNotNULL | flagBinary, binary: true},
			{name: "data", fieldType: fieldTypeVarString, flags: flagNotNULL},
		}}
		var ids []string
		for id, tx := range s.xa {
			if tx.xaState == xaPrepared {
				ids = append(ids, id)
			}
		}
		sort.Strings(ids)
		for _, id := range ids {
			x := s.xa[id].xaCmd
			rs.rows = append(rs.rows, []interface{}{x.formatID, int64(len(x.gtrid)), int64(len(x.bqual)), x.gtrid + x.bqual})
		}
		out.set = rs
		return out, nil
	}
	return nil, fmt.Errorf("%w: XA %s", ErrUnsupported, cmd.verb)
}

// ---------------------------------------------------------------- SHOW

func strCol(name string) colMeta {
	return colMeta{name: name, fieldType: fieldTypeVarString, flags: flagNotNULL, decimals: 0}
}
func intCol(name string) colMeta {
	return colMeta{name: name, fieldType: fieldTypeLongLong, flags: flagNotNULL | flagBinary, binary: true}
}

func (c *conn) execShow(n *ast.ShowStmt, ev *evaluator) (*resultSet, error) {
	s := c.srv
	switch n.Tp {
	case ast.ShowVariables:
		vars := [][2]string{
			{"auto_increment_increment", "1"},
		}
		rs := &resultSet{cols: []colMeta{strCol("Variable_name"), strCol("Value")}}
		if n.Where != nil {
			return nil, fmt.Errorf("%w: SHOW VARIABLES WHERE", ErrUnsupported)
		}
		for _, kv := range vars {
			if n.Pattern != nil {
				p, err := ev.eval(n.Pattern.Pattern)
				if err != nil {
					return nil, err
				}
				if !likeMatch(kv[0], valueText(p), n.Pattern.Escape, true) {
					continue
				}
			}
			rs.rows = append(rs.rows, []interface{}{kv[0], kv[1]})
		}
		return rs, nil
	case ast.ShowIndex:
		t, err := c.lookupTable(n.Table)
		if err != nil {
			return nil, err
		}
		rs := &resultSet{cols: []colMeta{strCol("Table"), intCol("Non_unique"), strCol("Key_name"), intCol("Seq_in_index"),
			nullable(strCol("Column_name")), nullable(strCol("Collation")), nullable(intCol("Cardinality")), nullable(intCol("Sub_part")),
			nullable(strCol("Packed")), strCol("Null"), strCol("Index_type"), strCol("Comment"), strCol("Index_comment"),
			strCol("Visible"), nullable(strCol("Expression"))}}
		for _, r := range statisticsRows(t, c.dbName()) {
			rs.rows = append(rs.rows, []interface{}{t.name, r.nonUnique, r.indexName, r.seq, r.column, "A", int64(0), nil, nil, r.nullable, "BTREE", "", "", "YES", nil})
		}
		return rs, nil
	case ast.ShowTables:
		rs := &resultSet{cols: []colMeta{strCol("Tables_in_" + c.dbName())}}
		var names []string
		for _, t := range s.tables {
			names = append(names, t.name)
		}
		sort.Strings(names)
		for _, nm := range names {
			if n.Pattern != nil {
				p, err := ev.eval(n.Pattern.Pattern)
				if err != nil {
					return nil, err
				}
				if !likeMatch(nm, valueText(p), n.Pattern.Escape, true) {
					continue
				}
			}
			rs.rows = append(rs.rows, []interface{}{nm})
		}
		return rs, nil
	case ast.ShowColumns:
		t, err := c.lookupTable(n.Table)
		if err != nil {
			return nil, err
		}
		rs := &resultSet{cols: []colMeta{strCol("Field"), strCol("Type"), strCol("Null"), strCol("Key"), nullable(strCol("Default")), strCol("Extra")}}
		for _, col := range t.cols {
			null := "YES"
			if col.notNull {
				null = "NO"
			}
			rs.rows = append(rs.rows, []interface{}{col.name, col.columnTypeText(), null, col.keyFlag, col.defaultText(), col.extraText()})
		}
		return rs, nil
	case ast.ShowWarnings, ast.ShowErrors:
		return &resultSet{cols: []colMeta{strCol("Level"), intCol("Code"), strCol("Message")}}, nil
	case ast.ShowDatabases:
		rs := &resultSet{cols: []colMeta{strCol("Database")}}
		rs.rows = append(rs.rows, []interface{}{"information_schema"}, []interface{}{c.dbName()})
		return rs, nil
	}
	var sb strings.Builder
	_ = n.Restore(format.NewRestoreCtx(format.DefaultRestoreFlags, &sb))
	return nil, fmt.Errorf("%w: %s", ErrUnsupported, sb.String())
}

func nullable(m colMeta) colMeta {
	m.flags &^= flagNotNULL
	return m
}

var _ = time.Now
