package memsql

import (
	"context"
	"database/sql"
	"database/sql/driver"
	"fmt"
	"io"
	"reflect"
	"testing"
	"time"
)

const allTypesDDL = "CREATE TABLE `all_types` (" +
	"`id` BIGINT NOT NULL AUTO_INCREMENT," +
	"`c_tiny` TINYINT NOT NULL," +
	"`c_utiny` TINYINT UNSIGNED," +
	"`c_small` SMALLINT," +
	"`c_medium` MEDIUMINT," +
	"`c_int` INT(11) NOT NULL DEFAULT 7," +
	"`c_uint` INT UNSIGNED NOT NULL DEFAULT 0," +
	"`c_big` BIGINT," +
	"`c_ubig` BIGINT UNSIGNED," +
	"`c_dec` DECIMAL(10,2)," +
	"`c_num` NUMERIC(5,0) NOT NULL DEFAULT 0," +
	"`c_float` FLOAT," +
	"`c_double` DOUBLE NOT NULL DEFAULT 0," +
	"`c_char` CHAR(4)," +
	"`c_varchar` VARCHAR(32) NOT NULL DEFAULT 'dflt'," +
	"`c_text` TEXT," +
	"`c_longtext` LONGTEXT," +
	"`c_blob` BLOB," +
	"`c_longblob` LONGBLOB," +
	"`c_varbinary` VARBINARY(16)," +
	"`c_binary` BINARY(4)," +
	"`c_bit` BIT(8)," +
	"`c_date` DATE," +
	"`c_datetime` DATETIME(3)," +
	"`c_timestamp` TIMESTAMP(6) NOT NULL DEFAULT CURRENT_TIMESTAMP(6) ON UPDATE CURRENT_TIMESTAMP(6)," +
	"`c_time` TIME," +
	"`c_json` JSON," +
	"`c_year` YEAR," +
	"`c_enum` ENUM('a','b','c')," +
	"PRIMARY KEY (`id`)) ENGINE=InnoDB DEFAULT CHARSET=utf8mb4"

const allTypesInsert = "INSERT INTO all_types (c_tiny,c_utiny,c_small,c_medium,c_int,c_uint,c_big,c_ubig,c_dec,c_num,c_float,c_double,c_char,c_varchar,c_text,c_longtext,c_blob,c_longblob,c_varbinary,c_binary,c_bit,c_date,c_datetime,c_timestamp,c_time,c_json,c_year,c_enum) VALUES (?,?,?,?,?,?,?,?,?,?,?,?,?,?,?,?,?,?,?,?,?,?,?,?,?,?,?,?)"

func allTypesArgs() []interface{} {
	return []interface{}{
		-5, 200, -300, 70000, 123456, uint32(4000000000), int64(-9000000000), uint64(18446744073709551615),
		"1234.567", 42, 1.5, 2.25, "ab", "hello", "some text", "long text", []byte{1, 2, 3}, []byte{0, 255}, []byte("vb"), []byte("bi"),
		5, "2024-02-29", "2024-02-29 12:34:56.7894", time.Date(2024, 3, 1, 1, 2, 3, 456789000, time.UTC), "12:34:56", `{"a": 1}`, 2024, "b",
	}
}

type rawRow struct {
	cols []string
	vals []driver.Value
}

func rawQuery(t *testing.T, db *sql.DB, q string, args ...interface{}) []rawRow {
	t.Helper()
	conn, err := db.Conn(context.Background())
	if err != nil {
		t.Fatal(err)
	}
	defer conn.Close()
	var out []rawRow
	err = conn.Raw(func(dc interface{}) error {
		var rows driver.Rows
		if len(args) == 0 {
			r, err := dc.(driver.QueryerContext).QueryContext(context.Background(), q, nil)
			if err != nil {
				return err
			}
			rows = r
		} else {
			st, err := dc.(driver.ConnPrepareContext).PrepareContext(context.Background(), q)
			if err != nil {
				return err
			}
			defer st.Close()
			nv := make([]driver.NamedValue, len(args))
			for i, a := range args {
				nv[i] = driver.NamedValue{Ordinal: i + 1, Value: a}
			}
			r, err := st.(driver.StmtQueryContext).QueryContext(context.Background(), nv)
			if err != nil {
				return err
			}
			rows = r
		}
		defer rows.Close()
		for {
			dest := make([]driver.Value, len(rows.Columns()))
			if err := rows.Next(dest); err != nil {
				if err == io.EOF {
					return nil
				}
				return err
			}
			out = append(out, rawRow{cols: rows.Columns(), vals: dest})
		}
	})
	if err != nil {
		t.Fatal(err)
	}
	return out
}

func TestAllTypesRoundTrip(t *testing.T) {
	s := newTestServer(t)
	db := openDB(t, s, "")
	mustExec(t, db, allTypesDDL)
	r := mustExec(t, db, allTypesInsert, allTypesArgs()...)
	if affected(t, r) != 1 || lastID(t, r) != 1 {
		t.Fatalf("affected/lastID = %d/%d", affected(t, r), lastID(t, r))
	}
	// a row of NULLs / defaults
	r = mustExec(t, db, "INSERT INTO all_types (c_tiny) VALUES (1)")
	if lastID(t, r) != 2 {
		t.Fatalf("lastID = %d", lastID(t, r))
	}

	// text protocol: every non-NULL value is []byte
	text := rawQuery(t, db, "SELECT * FROM all_types ORDER BY id")
	if len(text) != 2 {
		t.Fatalf("rows = %d", len(text))
	}
	wantText := map[string]string{
		"id": "1", "c_tiny": "-5", "c_utiny": "200", "c_small": "-300", "c_medium": "70000", "c_int": "123456",
		"c_uint": "4000000000", "c_big": "-9000000000", "c_ubig": "18446744073709551615", "c_dec": "1234.57", "c_num": "42",
		"c_float": "1.5", "c_double": "2.25", "c_char": "ab", "c_varchar": "hello", "c_text": "some text", "c_longtext": "long text",
		"c_blob": "\x01\x02\x03", "c_longblob": "\x00\xff", "c_varbinary": "vb", "c_binary": "bi\x00\x00", "c_bit": "\x05",
		"c_date": "2024-02-29", "c_datetime": "2024-02-29 12:34:56.789", "c_timestamp": "2024-03-01 01:02:03.456789",
		"c_time": "12:34:56", "c_json": `{"a": 1}`, "c_year": "2024", "c_enum": "b",
	}
	for i, c := range text[0].cols {
		b, ok := text[0].vals[i].([]byte)
		if !ok {
			t.Errorf("text protocol column %s: kind %T, want []byte", c, text[0].vals[i])
			continue
		}
		if string(b) != wantText[c] {
			t.Errorf("text protocol column %s = %q, want %q", c, b, wantText[c])
		}
	}
	// second row: NULLs and defaults
	for i, c := range text[1].cols {
		v := text[1].vals[i]
		switch c {
		case "id":
			if string(v.([]byte)) != "2" {
				t.Errorf("id = %q", v)
			}
		case "c_tiny":
			if string(v.([]byte)) != "1" {
				t.Errorf("c_tiny = %q", v)
			}
		case "c_int":
			if string(v.([]byte)) != "7" {
				t.Errorf("c_int default = %q", v)
			}
		case "c_uint", "c_num", "c_double":
			if string(v.([]byte)) != "0" {
				t.Errorf("%s default = %q", c, v)
			}
		case "c_varchar":
			if string(v.([]byte)) != "dflt" {
				t.Errorf("c_varchar default = %q", v)
			}
		case "c_timestamp":
			if len(v.([]byte)) != 26 {
				t.Errorf("c_timestamp default = %q", v)
			}
		default:
			if v != nil {
				t.Errorf("column %s = %v, want NULL", c, v)
			}
		}
	}

	// binary protocol: typed values
	bin := rawQuery(t, db, "SELECT * FROM all_types WHERE id = ?", int64(1))
	if len(bin) != 1 {
		t.Fatalf("rows = %d", len(bin))
	}
	wantBin := map[string]interface{}{
		"id": int64(1), "c_tiny": int64(-5), "c_utiny": int64(200), "c_small": int64(-300), "c_medium": int64(70000),
		"c_int": int64(123456), "c_uint": int64(4000000000), "c_big": int64(-9000000000), "c_ubig": []byte("18446744073709551615"),
		"c_dec": []byte("1234.57"), "c_num": []byte("42"), "c_float": float32(1.5), "c_double": float64(2.25),
		"c_char": []byte("ab"), "c_varchar": []byte("hello"), "c_text": []byte("some text"), "c_longtext": []byte("long text"),
		"c_blob": []byte{1, 2, 3}, "c_longblob": []byte{0, 255}, "c_varbinary": []byte("vb"), "c_binary": []byte("bi\x00\x00"),
		"c_bit": []byte{5}, "c_date": []byte("2024-02-29"), "c_datetime": []byte("2024-02-29 12:34:56.789"),
		"c_timestamp": []byte("2024-03-01 01:02:03.456789"), "c_time": []byte("12:34:56"), "c_json": []byte(`{"a": 1}`),
		"c_year": int64(2024), "c_enum": []byte("b"),
	}
	for i, c := range bin[0].cols {
		if !reflect.DeepEqual(bin[0].vals[i], wantBin[c]) {
			t.Errorf("binary protocol column %s = %#v (%T), want %#v (%T)", c, bin[0].vals[i], bin[0].vals[i], wantBin[c], wantBin[c])
		}
	}
	binNull := rawQuery(t, db, "SELECT c_small, c_dec, c_text, c_blob, c_date, c_bit FROM all_types WHERE id = ?", int64(2))
	for i, v := range binNull[0].vals {
		if v != nil {
			t.Errorf("NULL column %d = %#v", i, v)
		}
	}
}

func TestParseTime(t *testing.T) {
	s := newTestServer(t)
	db := openDB(t, s, "parseTime=true&interpolateParams=true")
	mustExec(t, db, allTypesDDL)
	mustExec(t, db, allTypesInsert, allTypesArgs()...)
	for _, args := range [][]interface{}{nil, {int64(1)}} {
		q := "SELECT c_date, c_datetime, c_timestamp, c_time FROM all_types"
		if args != nil {
			q += " WHERE id = ?"
		}
		rows := rawQuery(t, db, q, args...)
		v := rows[0].vals
		if d, ok := v[0].(time.Time); !ok || !d.Equal(time.Date(2024, 2, 29, 0, 0, 0, 0, time.UTC)) {
			t.Errorf("c_date = %#v", v[0])
		}
		if d, ok := v[1].(time.Time); !ok || !d.Equal(time.Date(2024, 2, 29, 12, 34, 56, 789000000, time.UTC)) {
			t.Errorf("c_datetime = %#v", v[1])
		}
		if d, ok := v[2].(time.Time); !ok || !d.Equal(time.Date(2024, 3, 1, 1, 2, 3, 456789000, time.UTC)) {
			t.Errorf("c_timestamp = %#v", v[2])
		}
		if b, ok := v[3].([]byte); !ok || string(b) != "12:34:56" {
			t.Errorf("c_time = %#v", v[3])
		}
	}
	var ts time.Time
	if err := db.QueryRow("SELECT c_timestamp FROM all_types WHERE id = ?", 1).Scan(&ts); err != nil {
		t.Fatal(err)
	}
}

func TestColumnTypes(t *testing.T) {
	s := newTestServer(t)
	db := openDB(t, s, "")
	mustExec(t, db, allTypesDDL)
	rows, err := db.Query("SELECT * FROM all_types")
	if err != nil {
		t.Fatal(err)
	}
	defer rows.Close()
	cts, err := rows.ColumnTypes()
	if err != nil {
		t.Fatal(err)
	}
	type want struct {
		dbType   string
		scan     reflect.Type
		nullable bool
	}
	w := map[string]want{
		"id":          {"BIGINT", scanTypeInt64, false},
		"c_tiny":      {"TINYINT", scanTypeInt8, false},
		"c_utiny":     {"TINYINT", scanTypeNullInt, true},
		"c_small":     {"SMALLINT", scanTypeNullInt, true},
		"c_medium":    {"MEDIUMINT", scanTypeNullInt, true},
		"c_int":       {"INT", scanTypeInt32, false},
		"c_uint":      {"INT", scanTypeUint32, false},
		"c_big":       {"BIGINT", scanTypeNullInt, true},
		"c_ubig":      {"BIGINT", scanTypeNullInt, true},
		"c_dec":       {"DECIMAL", scanTypeRawBytes, true},
		"c_num":       {"DECIMAL", scanTypeRawBytes, false},
		"c_float":     {"FLOAT", scanTypeNullFloat, true},
		"c_double":    {"DOUBLE", scanTypeFloat64, false},
		"c_char":      {"CHAR", scanTypeRawBytes, true},
		"c_varchar":   {"VARCHAR", scanTypeRawBytes, false},
		"c_text":      {"TEXT", scanTypeRawBytes, true},
		"c_longtext":  {"TEXT", scanTypeRawBytes, true}, // the server reports all TEXT flavours as BLOB type
		"c_blob":      {"BLOB", scanTypeRawBytes, true},
		"c_longblob":  {"BLOB", scanTypeRawBytes, true},
		"c_varbinary": {"VARBINARY", scanTypeRawBytes, true},
		"c_binary":    {"BINARY", scanTypeRawBytes, true},
		"c_bit":       {"BIT", scanTypeRawBytes, true},
		"c_date":      {"DATE", scanTypeNullTime, true},
		"c_datetime":  {"DATETIME", scanTypeNullTime, true},
		"c_timestamp": {"TIMESTAMP", scanTypeNullTime, false},
		"c_time":      {"TIME", scanTypeRawBytes, true},
		"c_json":      {"JSON", scanTypeRawBytes, true},
		"c_year":      {"YEAR", scanTypeNullInt, true},
		"c_enum":      {"CHAR", scanTypeRawBytes, true},
	}
	if len(cts) != len(w) {
		t.Fatalf("columns = %d, want %d", len(cts), len(w))
	}
	for _, ct := range cts {
		x := w[ct.Name()]
		if ct.DatabaseTypeName() != x.dbType {
			t.Errorf("%s DatabaseTypeName = %s, want %s", ct.Name(), ct.DatabaseTypeName(), x.dbType)
		}
		if ct.ScanType() != x.scan {
			t.Errorf("%s ScanType = %v, want %v", ct.Name(), ct.ScanType(), x.scan)
		}
		if n, ok := ct.Nullable(); !ok || n != x.nullable {
			t.Errorf("%s Nullable = %v,%v want %v", ct.Name(), n, ok, x.nullable)
		}
		switch ct.Name() {
		case "c_dec":
			if p, sc, ok := ct.DecimalSize(); !ok || p != 10 || sc != 2 {
				t.Errorf("c_dec DecimalSize = %d,%d,%v", p, sc, ok)
			}
		case "c_num":
			if p, sc, ok := ct.DecimalSize(); !ok || p != 5 || sc != 0 {
				t.Errorf("c_num DecimalSize = %d,%d,%v", p, sc, ok)
			}
		case "c_datetime":
			if p, sc, ok := ct.DecimalSize(); !ok || p != 3 || sc != 3 {
				t.Errorf("c_datetime DecimalSize = %d,%d,%v", p, sc, ok)
			}
		case "c_int":
			if _, _, ok := ct.DecimalSize(); ok {
				t.Errorf("c_int has DecimalSize")
			}
		}
	}
}

func TestArgumentKinds(t *testing.T) {
	s := newTestServer(t)
	db := openDB(t, s, "")
	mustExec(t, db, "CREATE TABLE k (id BIGINT UNSIGNED PRIMARY KEY, v VARCHAR(64), b BLOB, f DOUBLE, ok TINYINT, ts DATETIME(6))")
	// through database/sql: uint64 with the high bit passes the NamedValueChecker
	mustExec(t, db, "INSERT INTO k (id, v, b, f, ok, ts) VALUES (?,?,?,?,?,?)",
		uint64(1<<63+5), "s", []byte("bb"), 1.25, true, time.Date(2024, 1, 2, 3, 4, 5, 0, time.UTC))
	wantRows(t, queryStrings(t, db, "SELECT id, v, b, f, ok, ts FROM k"), "9223372036854775813,s,bb,1.25,1,2024-01-02 03:04:05.000000")

	// raw driver call with a uint64 and json.RawMessage argument (bypassing database/sql's converter)
	conn, _ := db.Conn(context.Background())
	defer conn.Close()
	err := conn.Raw(func(dc interface{}) error {
		st, err := dc.(driver.Conn).Prepare("INSERT INTO k (id, v) VALUES (?, ?)")
		if err != nil {
			return err
		}
		defer st.Close()
		if st.NumInput() != 2 {
			return fmt.Errorf("NumInput = %d", st.NumInput())
		}
		if _, err := st.Exec([]driver.Value{uint64(7), []byte(`raw`)}); err != nil {
			return err
		}
		// unsupported kind
		if _, err := st.Exec([]driver.Value{int32(8), "x"}); err == nil {
			return fmt.Errorf("int32 argument accepted")
		}
		// wrong count
		if _, err := st.Exec([]driver.Value{int64(8)}); err == nil {
			return fmt.Errorf("argument count mismatch accepted")
		}
		return nil
	})
	if err != nil {
		t.Fatal(err)
	}
	wantRows(t, queryStrings(t, db, "SELECT v FROM k WHERE id = 7"), "raw")

	// database/sql checks the argument count itself thanks to the exact NumInput
	if _, err := db.Exec("INSERT INTO k (id, v) VALUES (?, ?)", 9); err == nil {
		t.Fatal("argument count mismatch accepted")
	}
}

func TestInterpolateParamsFalseSkips(t *testing.T) {
	s := newTestServer(t)
	db := openDB(t, s, "interpolateParams=false")
	mustExec(t, db, "CREATE TABLE k (id INT PRIMARY KEY, v VARCHAR(8))")
	conn, _ := db.Conn(context.Background())
	defer conn.Close()
	err := conn.Raw(func(dc interface{}) error {
		_, err := dc.(driver.ExecerContext).ExecContext(context.Background(), "INSERT INTO k VALUES (?, ?)",
			[]driver.NamedValue{{Ordinal: 1, Value: int64(1)}, {Ordinal: 2, Value: "a"}})
		if err != driver.ErrSkip {
			return fmt.Errorf("ExecContext with args and interpolateParams=false: %v, want driver.ErrSkip", err)
		}
		_, err = dc.(driver.QueryerContext).QueryContext(context.Background(), "SELECT * FROM k WHERE id = ?",
			[]driver.NamedValue{{Ordinal: 1, Value: int64(1)}})
		if err != driver.ErrSkip {
			return fmt.Errorf("QueryContext with args and interpolateParams=false: %v, want driver.ErrSkip", err)
		}
		return nil
	})
	if err != nil {
		t.Fatal(err)
	}
	// database/sql falls back to prepare + execute
	mustExec(t, db, "INSERT INTO k VALUES (?, ?)", 1, "a")
	wantRows(t, queryStrings(t, db, "SELECT v FROM k WHERE id = ?", 1), "a")
	for _, e := range s.Journal() {
		if e.Class == "insert" && !e.Prepared {
			t.Errorf("insert with interpolateParams=false should be prepared: %+v", e)
		}
	}
}

// An empty, non-NULL string or binary value is a non-nil empty []byte in both protocols (never nil, which is NULL).
func TestEmptyValuesAreNotNull(t *testing.T) {
	s := newTestServer(t)
	db := openDB(t, s, "")
	mustExec(t, db, "CREATE TABLE e (id INT PRIMARY KEY, vb VARBINARY(8), bl BLOB, vc VARCHAR(8), tx TEXT)")
	mustExec(t, db, "INSERT INTO e VALUES (1, ?, ?, ?, ?)", []byte{}, []byte{}, "", "")
	mustExec(t, db, "INSERT INTO e VALUES (2, '', x'', '', '')")
	mustExec(t, db, "INSERT INTO e VALUES (3, NULL, NULL, NULL, NULL)")
	for _, args := range [][]interface{}{nil, {int64(0)}} {
		q := "SELECT vb, bl, vc, tx FROM e WHERE id < 3"
		if args != nil {
			q = "SELECT vb, bl, vc, tx FROM e WHERE id < 3 AND id > ?"
		}
		for _, r := range rawQuery(t, db, q, args...) {
			for i, v := range r.vals {
				b, ok := v.([]byte)
				if !ok || b == nil || len(b) != 0 {
					t.Errorf("args=%v column %s = %#v, want non-nil empty []byte", args, r.cols[i], v)
				}
			}
		}
	}
	var vb interface{}
	if err := db.QueryRow("SELECT vb FROM e WHERE id = ?", 1).Scan(&vb); err != nil || vb == nil {
		t.Fatalf("empty VARBINARY scanned as %#v (%v)", vb, err)
	}
	if err := db.QueryRow("SELECT vb FROM e WHERE id = ?", 3).Scan(&vb); err != nil || vb != nil {
		t.Fatalf("NULL VARBINARY scanned as %#v (%v)", vb, err)
	}
	wantRows(t, queryStrings(t, db, "SELECT id FROM e WHERE vb IS NULL"), "3")
	wantRows(t, queryStrings(t, db, "SELECT id FROM e WHERE vb = ''"), "1;2")
	if snap := s.Snapshot("e")["e"]; snap[0]["vb"] != "0x" || snap[2]["vb"] != nil {
		t.Fatalf("snapshot: %v", snap)
	}
}
