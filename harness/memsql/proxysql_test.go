package memsql

import (
	"bytes"
	"testing"

	aparser "github.com/arana-db/parser"
	"github.com/arana-db/parser/ast"
	"github.com/arana-db/parser/format"
	"github.com/arana-db/parser/model"
)

// restoreBeforeImageSelect rebuilds the before-image query the way
// /repo/pkg/datasource/sql/exec/at/update_executor.go buildBeforeImageSQL does.
func restoreBeforeImageSelect(t *testing.T, sql string) string {
	t.Helper()
	nodes, _, err := aparser.New().Parse(sql, "", "")
	if err != nil {
		t.Fatal(err)
	}
	sel := ast.SelectStmt{
		SelectStmtOpts: &ast.SelectStmtOpts{},
		Fields: &ast.FieldList{Fields: []*ast.SelectField{{Expr: &ast.ColumnNameExpr{
			Name: &ast.ColumnName{Name: model.CIStr{O: "*", L: "*"}}}}}},
		LockInfo: &ast.SelectLockInfo{LockType: ast.SelectLockForUpdate},
	}
	switch st := nodes[0].(type) {
	case *ast.UpdateStmt:
		sel.From, sel.Where, sel.OrderBy, sel.Limit, sel.TableHints = st.TableRefs, st.Where, st.Order, st.Limit, st.TableHints
	case *ast.DeleteStmt:
		sel.From, sel.Where, sel.OrderBy, sel.Limit, sel.TableHints = st.TableRefs, st.Where, st.Order, st.Limit, st.TableHints
	default:
		t.Fatalf("unexpected %T", st)
	}
	b := &bytes.Buffer{}
	if err := sel.Restore(format.NewRestoreCtx(format.RestoreKeyWordUppercase, b)); err != nil {
		t.Fatal(err)
	}
	return b.String()
}

// The SQL shapes the AT executors and undo executors send to the target connection.
func TestProxyStatementShapes(t *testing.T) {
	s := newTestServer(t)
	db := openDB(t, s, "")
	mustExec(t, db, stockDDL)
	mustExec(t, db, "CREATE TABLE t_user (id int NOT NULL, userCode varchar(16) NOT NULL, name varchar(32), age int DEFAULT 18, PRIMARY KEY (id, userCode))")
	mustExec(t, db, "INSERT INTO stock_tbl (commodity_code, count) VALUES ('a', 1), ('b', 2), ('c', 3)")
	mustExec(t, db, "INSERT INTO t_user VALUES (1, 'u1', 'n1', 20), (2, 'u2', 'n2', 30), (3, 'u3', NULL, 40)")

	tx, _ := db.Begin()
	defer tx.Rollback()

	// before image of an UPDATE / DELETE: a `*` column reference restored from the AST
	q := restoreBeforeImageSelect(t, "update stock_tbl set count = count - ? where commodity_code = ? and id between ? and ? order by id desc limit ?")
	t.Log(q)
	wantRows(t, queryStrings(t, tx, q, "b", 1, 3, 5), "2,b,2")
	// (string literals in the source statement lose their quotes in the repo's Restore call, so only markers here)
	q = restoreBeforeImageSelect(t, "delete from `t_user` where (id, userCode) in ((?, ?), (3, ?)) and age > 10")
	t.Log(q)
	wantRows(t, queryStrings(t, tx, q, 1, "u1", "u3"), "1,u1,n1,20;3,u3,NULL,40")

	// after image / current records by primary keys
	wantRows(t, queryStrings(t, tx, "SELECT * FROM stock_tbl WHERE  (`id`) IN ((?),(?)) ", 1, 3), "1,a,1;3,c,3")
	wantRows(t, queryStrings(t, tx, "SELECT * FROM t_user WHERE (`id`,`userCode`) IN ((?,?),(?,?)) OR (`id`,`userCode`) IN ((?,?)) FOR UPDATE", 1, "u1", 2, "zz", 3, "u3"), "1,u1,n1,20;3,u3,NULL,40")
	wantRows(t, queryStrings(t, tx, "SELECT `name`, `id`, `userCode` FROM t_user WHERE (`id`,`userCode`) IN ((?,?))  ", 2, "u2"), "n2,2,u2")
	// insert: after image by inserted keys
	wantRows(t, queryStrings(t, tx, "SELECT `id`, `commodity_code`, `count` FROM stock_tbl WHERE (`id`) IN ((?),(?)) ", int64(2), int64(3)), "2,b,2;3,c,3")
	// insert on duplicate key update: before image over all unique indexes, DEFAULT(col) for missing columns
	wantRows(t, queryStrings(t, tx, "SELECT * FROM stock_tbl  WHERE (id = ? )  OR (commodity_code = ? ) ", 1, "c"), "1,a,1;3,c,3")
	wantRows(t, queryStrings(t, tx, "SELECT * FROM t_user  WHERE (id = ?  and userCode = ? )  OR (age = DEFAULT(age)  and userCode = ? ) ", 1, "u1", "x"), "1,u1,n1,20")
	_, err := tx.Query("SELECT * FROM t_user WHERE id = DEFAULT(id)") // no default: an error in MySQL too
	wantMySQLErr(t, err, 1364)
	// multi update / multi delete images
	wantRows(t, queryStrings(t, tx, "SELECT SQL_NO_CACHE * FROM stock_tbl WHERE (`id`=?) OR (`commodity_code`=? AND `count`>1) FOR UPDATE", 1, "c"), "1,a,1;3,c,3")
	wantRows(t, queryStrings(t, tx, "SELECT SQL_NO_CACHE * FROM stock_tbl FOR UPDATE"), "1,a,1;2,b,2;3,c,3")

	// undo (compensation) statements
	r := mustExec(t, tx, "UPDATE stock_tbl SET `commodity_code` = ? , `count` = ?  WHERE `id` = ?  ", "a", 100, 1)
	if affected(t, r) != 1 {
		t.Fatalf("affected = %d", affected(t, r))
	}
	r = mustExec(t, tx, "UPDATE t_user SET `name` = ? , `age` = ?  WHERE `id` = ?  and `userCode` = ?  ", "zz", 1, 2, "u2")
	if affected(t, r) != 1 {
		t.Fatalf("affected = %d", affected(t, r))
	}
	r = mustExec(t, tx, "DELETE FROM t_user WHERE `id` = ?  and `userCode` = ?  ", 3, "u3")
	if affected(t, r) != 1 {
		t.Fatalf("affected = %d", affected(t, r))
	}
	r = mustExec(t, tx, "INSERT INTO t_user (`name`, `age`, `id`, `userCode`) VALUES (?, ?, ?, ?)", nil, 40, 3, "u3")
	if affected(t, r) != 1 {
		t.Fatalf("affected = %d", affected(t, r))
	}
	// SELECT ... FOR UPDATE primary-key projection (select_for_update_executor)
	wantRows(t, queryStrings(t, tx, "SELECT SQL_NO_CACHE id,userCode FROM t_user WHERE age > ? FOR UPDATE", 25), "3,u3")
	wantRows(t, queryStrings(t, tx, "SELECT VERSION()"), "8.0.30")
	// auto increment discovery
	wantRows(t, queryStrings(t, tx, "SELECT LAST_INSERT_ID()"), "1")
}
