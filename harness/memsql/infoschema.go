package memsql

import (
	"fmt"
	"sort"
	"strings"

	"github.com/arana-db/parser/ast"
)

type statRow struct {
	nonUnique int64
	indexName string
	seq       int64
	column    string
	nullable  string
}

func statisticsRows(t *table, db string) []statRow {
	var out []statRow
	for _, ix := range t.indexes {
		for i, ci := range ix.cols {
			r := statRow{indexName: ix.name, seq: int64(i + 1), column: t.cols[ci].name}
			if !ix.unique {
				r.nonUnique = 1
			}
			if !t.cols[ci].notNull {
				r.nullable = "YES"
			}
			out = append(out, r)
		}
	}
	return out
}

type vcol struct {
	name string
	meta colMeta
}

func vStr(name string, notNull bool) vcol {
	m := colMeta{name: name, fieldType: fieldTypeVarString}
	if notNull {
		m.flags |= flagNotNULL
	}
	return vcol{name: name, meta: m}
}
func vText(name string, notNull bool) vcol {
	m := colMeta{name: name, fieldType: fieldTypeBLOB, flags: flagBLOB}
	if notNull {
		m.flags |= flagNotNULL
	}
	return vcol{name: name, meta: m}
}
func vInt(name string, notNull bool, unsigned bool) vcol {
	m := colMeta{name: name, fieldType: fieldTypeLongLong, flags: flagBinary, binary: true}
	if notNull {
		m.flags |= flagNotNULL
	}
	if unsigned {
		m.flags |= flagUnsigned
	}
	return vcol{name: name, meta: m}
}
func vInt32(name string, notNull bool, unsigned bool) vcol {
	v := vInt(name, notNull, unsigned)
	v.meta.fieldType = fieldTypeLong
	return v
}

var columnsView = []vcol{
	vStr("TABLE_CATALOG", false), vStr("TABLE_SCHEMA", false), vStr("TABLE_NAME", false), vStr("COLUMN_NAME", false),
	vInt32("ORDINAL_POSITION", true, true), vText("COLUMN_DEFAULT", false), vStr("IS_NULLABLE", true), vText("DATA_TYPE", false),
	vInt("CHARACTER_MAXIMUM_LENGTH", false, false), vInt("CHARACTER_OCTET_LENGTH", false, false),
	vInt("NUMERIC_PRECISION", false, true), vInt("NUMERIC_SCALE", false, true), vInt32("DATETIME_PRECISION", false, true),
	vStr("CHARACTER_SET_NAME", false), vStr("COLLATION_NAME", false), vText("COLUMN_TYPE", true), vStr("COLUMN_KEY", true),
	vStr("EXTRA", false), vStr("PRIVILEGES", false), vText("COLUMN_COMMENT", true), vText("GENERATION_EXPRESSION", true),
	vInt32("SRS_ID", false, true),
}

var statisticsView = []vcol{
	vStr("TABLE_CATALOG", false), vStr("TABLE_SCHEMA", false), vStr("TABLE_NAME", false), vInt32("NON_UNIQUE", true, false),
	vStr("INDEX_SCHEMA", false), vStr("INDEX_NAME", false), vInt32("SEQ_IN_INDEX", true, true), vStr("COLUMN_NAME", false),
	vStr("COLLATION", false), vInt("CARDINALITY", false, false), vInt("SUB_PART", false, false), vStr("PACKED", false),
	vStr("NULLABLE", true), vStr("INDEX_TYPE", true), vStr("COMMENT", true), vStr("INDEX_COMMENT", true),
	vStr("IS_VISIBLE", true), vText("EXPRESSION", false),
}

var tablesView = []vcol{
	vStr("TABLE_CATALOG", false), vStr("TABLE_SCHEMA", false), vStr("TABLE_NAME", false), vStr("TABLE_TYPE", true),
	vStr("ENGINE", false), vInt32("VERSION", false, false), vStr("ROW_FORMAT", false), vInt("TABLE_ROWS", false, true),
	vInt("AUTO_INCREMENT", false, true), vStr("TABLE_COLLATION", false), vText("TABLE_COMMENT", false),
}

func numericPrecision(c *column) (prec, scale interface{}) {
	switch c.typ {
	case tTinyInt:
		return int64(3), int64(0)
	case tSmallInt:
		return int64(5), int64(0)
	case tMediumInt:
		return int64(7), int64(0)
	case tInt:
		return int64(10), int64(0)
	case tBigInt:
		if c.unsigned {
			return int64(20), int64(0)
		}
		return int64(19), int64(0)
	case tDecimal:
		return int64(c.precision()), int64(c.scale())
	case tFloat:
		return int64(12), nil
	case tDouble:
		return int64(22), nil
	case tBit:
		return int64(c.flen), nil
	}
	return nil, nil
}

func charLength(c *column) (chars, octets interface{}) {
	switch c.typ {
	case tChar, tVarchar:
		l := c.flen
		if l < 0 {
			l = 1
		}
		return int64(l), int64(l * 4)
	case tBinary, tVarbinary:
		l := c.flen
		if l < 0 {
			l = 1
		}
		return int64(l), int64(l)
	case tTinyText, tTinyBlob:
		return int64(255), int64(255)
	case tText, tBlob:
		return int64(65535), int64(65535)
	case tMediumText, tMediumBlob:
		return int64(16777215), int64(16777215)
	case tLongText, tLongBlob:
		return int64(4294967295), int64(4294967295)
	case tEnum:
		m := 0
		for _, e := range c.elems {
			if len([]rune(e)) > m {
				m = len([]rune(e))
			}
		}
		return int64(m), int64(m * 4)
	}
	return nil, nil
}

// infoSchemaSource materialises INFORMATION_SCHEMA.{COLUMNS,STATISTICS,TABLES} for the connection's schema.
func (c *conn) infoSchemaSource(tn *ast.TableName, alias string, ev *evaluator) (*source, error) {
	s := c.srv
	db := c.dbName()
	var view []vcol
	var rows [][]interface{}
	names := make([]string, 0, len(s.tables))
	for n := range s.tables {
		names = append(names, n)
	}
	sort.Strings(names)
	switch tn.Name.L {
	case "columns":
		view = columnsView
		for _, n := range names {
			t := s.tables[n]
			for i, col := range t.cols {
				null := "YES"
				if col.notNull {
					null = "NO"
				}
				chars, octets := charLength(col)
				prec, scale := numericPrecision(col)
				var dtp interface{}
				if col.typ == tDatetime || col.typ == tTimestamp || col.typ == tTime {
					dtp = int64(col.fsp())
				}
				var cs, coll interface{}
				if col.isString() || col.typ == tEnum || col.typ == tSet {
					cs, coll = "utf8mb4", "utf8mb4_general_ci"
				}
				rows = append(rows, []interface{}{
					"def", db, t.name, col.name, uint64(i + 1), col.defaultText(), null, dataTypeNames[col.typ],
					chars, octets, prec, scale, dtp, cs, coll, col.columnTypeText(), col.keyFlag,
					col.extraText(), "select,insert,update,references", col.comment, "", nil,
				})
			}
		}
	case "statistics":
		view = statisticsView
		for _, n := range names {
			t := s.tables[n]
			for _, r := range statisticsRows(t, db) {
				rows = append(rows, []interface{}{
					"def", db, t.name, r.nonUnique, db, r.indexName, uint64(r.seq), r.column,
					"A", int64(0), nil, nil, r.nullable, "BTREE", "", "", "YES", nil,
				})
			}
		}
	case "tables":
		view = tablesView
		for _, n := range names {
			t := s.tables[n]
			var ai interface{}
			if t.autoCol >= 0 {
				ai = uint64(t.autoInc)
			}
			rows = append(rows, []interface{}{
				"def", db, t.name, "BASE TABLE", "InnoDB", int64(10), "Dynamic", uint64(len(t.visibleRows(nil))),
				ai, "utf8mb4_general_ci", "",
			})
		}
	default:
		return nil, fmt.Errorf("%w: INFORMATION_SCHEMA.%s", ErrUnsupported, tn.Name.O)
	}
	src := &source{name: tn.Name.L, alias: alias, colIdx: map[string]int{}}
	for i, v := range view {
		m := v.meta
		m.table = strings.ToUpper(tn.Name.L)
		src.cols = append(src.cols, m)
		src.colIdx[strings.ToLower(v.name)] = i
	}
	for _, r := range rows {
		src.rows = append(src.rows, rowVersion{vals: r})
	}
	// the table-name argument may arrive back-quoted: strip the quotes from string arguments
	for i, a := range ev.args {
		if str, ok := a.(string); ok && len(str) >= 2 && str[0] == '`' && str[len(str)-1] == '`' {
			cp := make([]interface{}, len(ev.args))
			copy(cp, ev.args)
			cp[i] = str[1 : len(str)-1]
			ev.args = cp
		}
	}
	return src, nil
}
