// Package memsql is an in-memory stand-in for a MySQL server behind Go's database/sql/driver
// interface. It executes the SQL the seata-go proxy emits against real, stateful, transactional
// tables, and offers a journal, a fault plan, a statement gate and snapshots for verification.
package memsql

import (
	"crypto/sha256"
	"encoding/hex"
	"encoding/json"
	"errors"
	"fmt"
	"sort"
	"strings"
	"sync"
	"sync/atomic"
	"time"

	"github.com/go-sql-driver/mysql"
)

// ErrUnsupported marks a statement (or expression) memsql does not implement.
var ErrUnsupported = errors.New("memsql: unsupported statement")

// Entry is one journal record: a statement that reached a client connection.
type Entry struct {
	Seq      int64
	Conn     int
	Class    string
	Table    string
	SQL      string
	Args     []interface{}
	Prepared bool
	Keys     []string
	Affected int64
	LastID   int64
	Err      string
	ErrNo    int
	InTx     bool
	XAID     string
}

// ConnState describes one client connection.
type ConnState struct {
	Conn   int
	InTx   bool
	Locks  int
	XA     string // "", "active", "idle", "prepared" (prepared only while still attached to the connection)
	Closed bool
}

// Fault is one entry of the fault plan.
type Fault struct {
	Class     string
	Table     string
	Conn      int
	Nth       int
	Times     int
	Err       error
	OnConnect bool
	After     bool
	// Kill additionally breaks the connection after the fault fired (like a network failure):
	// its transaction is rolled back (unless After on a commit) and later use returns driver.ErrBadConn.
	Kill bool
	// SkipMeta: metadata queries outside a transaction (INFORMATION_SCHEMA.*) are neither counted nor failed.  The
	// client's table-metadata cache refreshes itself on a one-minute ticker from a background goroutine; without
	// this a fault planned for "the n-th statement of this rollback" now and then lands on the bystander's query.
	SkipMeta bool
}

type faultState struct {
	Fault
	id    int
	seen  int
	fired int
}

// Server is one in-memory MySQL instance.
type Server struct {
	host string

	mu   sync.Mutex
	cond *sync.Cond

	version  string
	tables   map[string]*table
	epoch    int64
	conns    map[int]*conn
	nextConn int
	nextTxn  int64
	xa       map[string]*txn // xid -> transaction in ACTIVE / IDLE / PREPARED state
	lockWait time.Duration
	clock    func() time.Time

	journal    []Entry
	seqSource  func() int64
	seqCounter int64
	faults     []*faultState
	nextFault  int
	fired      int
	gate       func(e *Entry) error
	observer   func(e Entry)
}

var (
	registryMu sync.Mutex
	registry   = map[string]*Server{}
)

// NewServer creates a server and registers it under host (replacing an existing registration).
func NewServer(host string) *Server {
	s := &Server{
		host:     host,
		version:  "8.0.30",
		tables:   map[string]*table{},
		conns:    map[int]*conn{},
		xa:       map[string]*txn{},
		lockWait: 2 * time.Second,
		clock:    time.Now,
	}
	s.cond = sync.NewCond(&s.mu)
	s.seqSource = func() int64 { return atomic.AddInt64(&s.seqCounter, 1) }
	registryMu.Lock()
	registry[strings.ToLower(host)] = s
	registryMu.Unlock()
	return s
}

// Lookup returns the server registered under host, or nil.
func Lookup(host string) *Server {
	registryMu.Lock()
	defer registryMu.Unlock()
	return registry[strings.ToLower(host)]
}

// Host returns the name the server is registered under.
func (s *Server) Host() string { return s.host }

// DSN returns a real MySQL DSN whose address resolves to this server. interpolateParams=true is what the
// seata-go samples use: with interpolateParams=false the MySQL driver answers conn-level Exec/Query
// calls that carry arguments with driver.ErrSkip, which memsql reproduces (see DSNWithParams).
func (s *Server) DSN(db string) string {
	return s.DSNWithParams(db, "multiStatements=true&interpolateParams=true")
}

// DSNWithParams builds a DSN with caller-chosen parameters, e.g. "parseTime=true&interpolateParams=false".
func (s *Server) DSNWithParams(db, params string) string {
	d := fmt.Sprintf("root:pw@tcp(%s:3306)/%s", s.host, db)
	if params != "" {
		d += "?" + params
	}
	return d
}

// SetVersion sets what SELECT VERSION() returns (and selects the XA detach behaviour: >= 8.0.29 detaches on prepare).
func (s *Server) SetVersion(v string) {
	s.mu.Lock()
	s.version = v
	s.mu.Unlock()
}

// SetClock overrides the clock used by NOW() and CURRENT_TIMESTAMP defaults.
func (s *Server) SetClock(f func() time.Time) {
	s.mu.Lock()
	if f == nil {
		f = time.Now
	}
	s.clock = f
	s.mu.Unlock()
}

// SetLockWaitTimeout sets how long a statement waits for a row lock before failing with error 1205.
func (s *Server) SetLockWaitTimeout(d time.Duration) {
	s.mu.Lock()
	s.lockWait = d
	s.mu.Unlock()
}

// SetSeqSource replaces the journal sequence source.
func (s *Server) SetSeqSource(f func() int64) {
	s.mu.Lock()
	if f == nil {
		f = func() int64 { return atomic.AddInt64(&s.seqCounter, 1) }
	}
	s.seqSource = f
	s.mu.Unlock()
}

// SetGate installs the statement gate (nil removes it).
func (s *Server) SetGate(g func(e *Entry) error) {
	s.mu.Lock()
	s.gate = g
	s.mu.Unlock()
}

// SetObserver installs the statement observer (nil removes it).
func (s *Server) SetObserver(o func(e Entry)) {
	s.mu.Lock()
	s.observer = o
	s.mu.Unlock()
}

// Reset drops all tables, rows, locks, XA state, journal, fault plan, gate and observer. Client
// connections stay usable; their transaction state is cleared.
func (s *Server) Reset() {
	s.mu.Lock()
	defer s.mu.Unlock()
	s.tables = map[string]*table{}
	s.xa = map[string]*txn{}
	s.epoch++
	for id, c := range s.conns {
		if c.closed {
			delete(s.conns, id)
			continue
		}
		c.tx = nil
		c.autocommit = true
		c.lastInsertID = 0
		c.rowCount = 0
	}
	s.journal = nil
	s.faults = nil
	s.fired = 0
	s.gate = nil
	s.observer = nil
	s.cond.Broadcast()
}

// Journal returns a copy of the journal.
func (s *Server) Journal() []Entry {
	s.mu.Lock()
	defer s.mu.Unlock()
	out := make([]Entry, len(s.journal))
	copy(out, s.journal)
	return out
}

// ClearJournal empties the journal.
func (s *Server) ClearJournal() {
	s.mu.Lock()
	s.journal = nil
	s.mu.Unlock()
}

// AddFault appends a fault to the plan and returns its id.
func (s *Server) AddFault(f Fault) int {
	s.mu.Lock()
	defer s.mu.Unlock()
	s.nextFault++
	if f.Times <= 0 {
		f.Times = 1
	}
	if f.Err == nil {
		f.Err = &mysql.MySQLError{Number: 1105, Message: "memsql injected fault"}
	}
	f.Class = strings.ToLower(f.Class)
	f.Table = strings.ToLower(f.Table)
	s.faults = append(s.faults, &faultState{Fault: f, id: s.nextFault})
	return s.nextFault
}

// ClearFaults removes all faults.
func (s *Server) ClearFaults() {
	s.mu.Lock()
	s.faults = nil
	s.mu.Unlock()
}

// FaultsFired returns how many times faults fired since the last Reset.
func (s *Server) FaultsFired() int {
	s.mu.Lock()
	defer s.mu.Unlock()
	return s.fired
}

// matchFault is called with s.mu held. Every enabled matching fault counts the statement;
// the first one that is due fires.
func (s *Server) matchFault(connect bool, e *Entry) *faultState {
	var hit *faultState
	for _, f := range s.faults {
		if f.fired >= f.Times || f.OnConnect != connect {
			continue
		}
		if !connect {
			if f.Class != "" && f.Class != e.Class {
				continue
			}
			if f.Table != "" && f.Table != e.Table {
				continue
			}
			if f.Conn != 0 && f.Conn != e.Conn {
				continue
			}
			if f.SkipMeta && !e.InTx && strings.HasPrefix(e.Table, "information_schema") {
				continue
			}
		}
		f.seen++
		nth := f.Nth
		if nth < 1 {
			nth = 1
		}
		if hit == nil && f.seen >= nth {
			hit = f
		}
	}
	if hit != nil {
		hit.fired++
		s.fired++
	}
	return hit
}

// ConnStates lists the client connections (closed ones are kept until Reset).
func (s *Server) ConnStates() []ConnState {
	s.mu.Lock()
	defer s.mu.Unlock()
	out := make([]ConnState, 0, len(s.conns))
	for _, c := range s.conns {
		cs := ConnState{Conn: c.id, Closed: c.closed}
		if c.tx != nil {
			cs.InTx = true
			cs.Locks = len(c.tx.locks)
			switch c.tx.xaState {
			case xaActive:
				cs.XA = "active"
			case xaIdle:
				cs.XA = "idle"
			case xaPrepared:
				cs.XA = "prepared"
			}
		}
		out = append(out, cs)
	}
	sort.Slice(out, func(i, j int) bool { return out[i].Conn < out[j].Conn })
	return out
}

// Idle reports whether no open client connection is inside a transaction, holds row locks or is in an XA state.
func (s *Server) Idle() bool {
	for _, cs := range s.ConnStates() {
		if !cs.Closed && (cs.InTx || cs.Locks > 0 || cs.XA != "") {
			return false
		}
	}
	return true
}

// OpenConns returns the number of connections opened and not yet closed.
func (s *Server) OpenConns() int {
	s.mu.Lock()
	defer s.mu.Unlock()
	n := 0
	for _, c := range s.conns {
		if !c.closed {
			n++
		}
	}
	return n
}

// PreparedXA lists the xids in PREPARED state.
func (s *Server) PreparedXA() []string {
	s.mu.Lock()
	defer s.mu.Unlock()
	var out []string
	for id, t := range s.xa {
		if t.xaState == xaPrepared {
			out = append(out, id)
		}
	}
	sort.Strings(out)
	return out
}

// LockedRows returns, per table, the canonical key texts of rows currently locked by any transaction.
func (s *Server) LockedRows() map[string][]string {
	s.mu.Lock()
	defer s.mu.Unlock()
	out := map[string][]string{}
	for name, t := range s.tables {
		for _, r := range t.rows {
			if r.owner != nil {
				out[name] = append(out[name], t.rowKeyText(r))
			}
		}
		sort.Strings(out[name])
	}
	return out
}

// Snapshot returns the committed rows of the named tables (all tables when none are named).
func (s *Server) Snapshot(tables ...string) map[string][]map[string]interface{} {
	s.mu.Lock()
	defer s.mu.Unlock()
	out := map[string][]map[string]interface{}{}
	want := map[string]bool{}
	for _, t := range tables {
		want[strings.ToLower(unquoteIdent(t))] = true
	}
	for name, t := range s.tables {
		if len(want) > 0 && !want[name] {
			continue
		}
		rows := t.visibleRows(nil)
		t.sortRows(rows)
		list := make([]map[string]interface{}, 0, len(rows))
		for _, rv := range rows {
			m := make(map[string]interface{}, len(t.cols))
			for i, c := range t.cols {
				m[c.name] = canonicalValue(rv.vals[i], c)
			}
			list = append(list, m)
		}
		out[name] = list
	}
	for name := range want {
		if _, ok := out[name]; !ok {
			out[name] = []map[string]interface{}{}
		}
	}
	return out
}

// SnapshotHash is a hash of the JSON encoding of Snapshot.
func (s *Server) SnapshotHash(tables ...string) string {
	b, err := json.Marshal(s.Snapshot(tables...))
	if err != nil {
		panic(err)
	}
	h := sha256.Sum256(b)
	return hex.EncodeToString(h[:])
}

// Tables lists the table names (lower case, sorted).
func (s *Server) Tables() []string {
	s.mu.Lock()
	defer s.mu.Unlock()
	var out []string
	for n := range s.tables {
		out = append(out, n)
	}
	sort.Strings(out)
	return out
}

// ---- admin path ----

func (s *Server) adminConn() *conn {
	return &conn{srv: s, id: 0, admin: true, autocommit: true, db: "memsql", loc: time.UTC, interpolate: true}
}

// Exec runs statements on a private admin connection in autocommit mode: not journaled, not subject
// to the fault plan or the gate. It waits for row locks like any other connection.
func (s *Server) Exec(sql string, args ...interface{}) (affected int64, err error) {
	c := s.adminConn()
	defer c.adminClose()
	nargs, err := adminArgs(args)
	if err != nil {
		return 0, err
	}
	out, err := c.run(nil, sql, nargs, nil, false)
	if err != nil {
		return 0, err
	}
	return out.affected, nil
}

// MustExec is Exec that panics on error.
func (s *Server) MustExec(sql string, args ...interface{}) {
	if _, err := s.Exec(sql, args...); err != nil {
		panic(fmt.Sprintf("memsql.MustExec(%q): %v", sql, err))
	}
}

// Query reads committed data on the admin path (no locks). Values are canonical like Snapshot's.
func (s *Server) Query(sql string, args ...interface{}) (cols []string, rows [][]interface{}, err error) {
	c := s.adminConn()
	c.noLock = true
	defer c.adminClose()
	nargs, err := adminArgs(args)
	if err != nil {
		return nil, nil, err
	}
	out, err := c.run(nil, sql, nargs, nil, false)
	if err != nil {
		return nil, nil, err
	}
	if len(out.sets) == 0 {
		return nil, nil, nil
	}
	rs := out.sets[0]
	for _, m := range rs.cols {
		cols = append(cols, m.name)
	}
	for _, r := range rs.rows {
		o := make([]interface{}, len(r))
		for i, v := range r {
			o[i] = canonicalValue(v, rs.cols[i].col)
			if tv, ok := v.(timeVal); ok && rs.cols[i].col == nil {
				o[i] = formatTimeVal(tv, rs.cols[i].fieldType, int(rs.cols[i].decimals))
			}
		}
		rows = append(rows, o)
	}
	return cols, rows, nil
}

func adminArgs(args []interface{}) ([]interface{}, error) {
	out := make([]interface{}, len(args))
	for i, a := range args {
		v, err := converter{}.ConvertValue(a)
		if err != nil {
			return nil, err
		}
		n, err := normalizeArg(v, time.UTC)
		if err != nil {
			return nil, err
		}
		out[i] = n
	}
	return out, nil
}
