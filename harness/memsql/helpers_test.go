package memsql

import (
	"database/sql"
	"errors"
	"fmt"
	"strings"
	"sync/atomic"
	"testing"
	"time"

	"github.com/go-sql-driver/mysql"
)

var hostCounter int64

func newTestServer(t testing.TB) *Server {
	t.Helper()
	host := fmt.Sprintf("memsql-test-%d", atomic.AddInt64(&hostCounter, 1))
	return NewServer(host)
}

func openDB(t testing.TB, s *Server, params string) *sql.DB {
	t.Helper()
	dsn := s.DSN("testdb")
	if params != "" {
		dsn = s.DSNWithParams("testdb", params)
	}
	db, err := sql.Open("memsql", dsn)
	if err != nil {
		t.Fatal(err)
	}
	t.Cleanup(func() { db.Close() })
	return db
}

func mustExec(t testing.TB, db interface {
	Exec(string, ...interface{}) (sql.Result, error)
}, q string, args ...interface{}) sql.Result {
	t.Helper()
	r, err := db.Exec(q, args...)
	if err != nil {
		t.Fatalf("exec %q: %v", q, err)
	}
	return r
}

func affected(t testing.TB, r sql.Result) int64 {
	t.Helper()
	n, err := r.RowsAffected()
	if err != nil {
		t.Fatal(err)
	}
	return n
}

func lastID(t testing.TB, r sql.Result) int64 {
	t.Helper()
	n, err := r.LastInsertId()
	if err != nil {
		t.Fatal(err)
	}
	return n
}

func wantMySQLErr(t testing.TB, err error, num uint16) *mysql.MySQLError {
	t.Helper()
	if err == nil {
		t.Fatalf("expected MySQL error %d, got nil", num)
	}
	var me *mysql.MySQLError
	if !errors.As(err, &me) {
		t.Fatalf("expected *mysql.MySQLError %d, got %T: %v", num, err, err)
	}
	if me.Number != num {
		t.Fatalf("expected MySQL error %d, got %d: %s", num, me.Number, me.Message)
	}
	return me
}

// queryStrings runs a query and renders every value with %v ([]byte as string, nil as NULL).
func queryStrings(t testing.TB, db interface {
	Query(string, ...interface{}) (*sql.Rows, error)
}, q string, args ...interface{}) [][]string {
	t.Helper()
	rows, err := db.Query(q, args...)
	if err != nil {
		t.Fatalf("query %q: %v", q, err)
	}
	defer rows.Close()
	cols, _ := rows.Columns()
	var out [][]string
	for rows.Next() {
		vals := make([]interface{}, len(cols))
		ptrs := make([]interface{}, len(cols))
		for i := range vals {
			ptrs[i] = &vals[i]
		}
		if err := rows.Scan(ptrs...); err != nil {
			t.Fatal(err)
		}
		row := make([]string, len(cols))
		for i, v := range vals {
			switch x := v.(type) {
			case nil:
				row[i] = "NULL"
			case []byte:
				row[i] = string(x)
			case time.Time:
				row[i] = x.Format("2006-01-02 15:04:05.999999")
			default:
				row[i] = fmt.Sprint(x)
			}
		}
		out = append(out, row)
	}
	if err := rows.Err(); err != nil {
		t.Fatal(err)
	}
	return out
}

func flat(rows [][]string) string {
	parts := make([]string, len(rows))
	for i, r := range rows {
		parts[i] = strings.Join(r, ",")
	}
	return strings.Join(parts, ";")
}

func wantRows(t testing.TB, got [][]string, want string) {
	t.Helper()
	if g := flat(got); g != want {
		t.Fatalf("rows mismatch\n got: %s\nwant: %s", g, want)
	}
}
