package memsql

import (
	"context"
	"database/sql/driver"
	"testing"
	"time"

	"seata.apache.org/seata-go/pkg/datasource/sql/undo"
	"seata.apache.org/seata-go/pkg/datasource/sql/undo/base"
	"seata.apache.org/seata-go/pkg/rm/tcc/fence/enum"
	"seata.apache.org/seata-go/pkg/rm/tcc/fence/store/db/dao"
	"seata.apache.org/seata-go/pkg/rm/tcc/fence/store/db/model"
)

// The repo's undo-log manager, unmodified, against memsql.
func TestRepoUndoLogManager(t *testing.T) {
	s := newTestServer(t)
	db := openDB(t, s, "")
	ctx := context.Background()
	conn, err := db.Conn(ctx)
	if err != nil {
		t.Fatal(err)
	}
	defer conn.Close()
	m := base.NewBaseUndoLogManager()
	// HasUndoLogTable never closes its rows, which pins the *sql.Conn for good (Close would block):
	// give it connections of its own
	probe1, _ := db.Conn(ctx)
	if ok, err := m.HasUndoLogTable(ctx, probe1); ok {
		t.Fatalf("HasUndoLogTable on an empty server: %v %v", ok, err)
	}
	probe1.Close() // the failed query left no rows behind
	mustExec(t, db, undoLogDDL)
	probe2, _ := db.Conn(ctx)
	if ok, err := m.HasUndoLogTable(ctx, probe2); !ok || err != nil {
		t.Fatalf("HasUndoLogTable: %v %v", ok, err)
	}
	rec := undo.UndologRecord{BranchID: 1 << 62, XID: "10.0.0.1:8091:4242", Context: []byte("serializer=json"), RollbackInfo: []byte("{}"), LogStatus: undo.UndoLogStatueNormnal}
	// raw driver connection, uint64 argument
	err = conn.Raw(func(dc interface{}) error { return m.InsertUndoLog(rec, dc.(driver.Conn)) })
	if err != nil {
		t.Fatal(err)
	}
	rec.BranchID = 7
	if err := m.InsertUndoLogWithSqlConn(ctx, rec, conn); err != nil {
		t.Fatal(err)
	}
	err = m.InsertUndoLogWithSqlConn(ctx, rec, conn)
	wantMySQLErr(t, err, 1062)
	wantRows(t, queryStrings(t, db, "SELECT id, branch_id, xid, log_status FROM undo_log"),
		"1,4611686018427387904,10.0.0.1:8091:4242,0;2,7,10.0.0.1:8091:4242,0")
	if err := m.DeleteUndoLog(ctx, rec.XID, 7, conn); err != nil {
		t.Fatal(err)
	}
	wantRows(t, queryStrings(t, db, "SELECT COUNT(*) FROM undo_log"), "1")
	// BatchDeleteUndoLog passes 2 arguments for 2n markers: database/sql must refuse it (exact NumInput)
	if err := m.BatchDeleteUndoLog([]string{rec.XID, "x"}, []int64{1 << 62, 3}, conn); err == nil {
		t.Log("BatchDeleteUndoLog unexpectedly succeeded")
	} else {
		t.Logf("BatchDeleteUndoLog: %v", err)
	}
}

// The repo's TCC fence DAO, unmodified, against memsql (needs parseTime=true like on MySQL).
func TestRepoTccFenceDAO(t *testing.T) {
	s := newTestServer(t)
	db := openDB(t, s, "parseTime=true&interpolateParams=true")
	mustExec(t, db, tccFenceDDL)
	mapper := dao.GetTccFenceStoreDatabaseMapper()
	tx, _ := db.Begin()
	do := &model.TCCFenceDO{Xid: "g-1", BranchId: 5, ActionName: "act", Status: enum.StatusTried}
	if err := mapper.InsertTCCFenceDO(tx, do); err != nil {
		t.Fatal(err)
	}
	if err := mapper.InsertTCCFenceDO(tx, do); err == nil {
		t.Fatal("duplicate fence insert succeeded")
	}
	got, err := mapper.QueryTCCFenceDO(tx, "g-1", 5)
	if err != nil || got == nil || got.Status != enum.StatusTried || got.ActionName != "act" || time.Since(got.GmtCreate) > time.Minute {
		t.Fatalf("QueryTCCFenceDO: %+v %v", got, err)
	}
	if err := mapper.UpdateTCCFenceDO(tx, "g-1", 5, enum.StatusTried, enum.StatusCommitted); err != nil {
		t.Fatal(err)
	}
	if err := mapper.UpdateTCCFenceDO(tx, "g-1", 5, enum.StatusTried, enum.StatusRollbacked); err == nil {
		t.Fatal("update with a stale old status succeeded")
	}
	if err := tx.Commit(); err != nil {
		t.Fatal(err)
	}
	tx, _ = db.Begin()
	if err := mapper.DeleteTCCFenceDOByMdfDate(tx, time.Now().Add(time.Hour)); err != nil {
		t.Fatal(err)
	}
	tx.Commit()
	wantRows(t, queryStrings(t, db, "SELECT COUNT(*) FROM tcc_fence_log"), "0")
	tx, _ = db.Begin()
	mapper.InsertTCCFenceDO(tx, do)
	if err := mapper.DeleteTCCFenceDO(tx, "g-1", 5); err != nil {
		t.Fatal(err)
	}
	tx.Commit()
	if !s.Idle() {
		t.Fatalf("not idle: %+v", s.ConnStates())
	}
}
