package memsql

import (
	"fmt"
	"math/big"
	"strconv"
	"strings"
	"time"

	"github.com/arana-db/parser/ast"
	"github.com/arana-db/parser/opcode"
	"github.com/arana-db/parser/test_driver"
)

// rowCtx is the row a column reference resolves against.
type rowCtx struct {
	colIdx map[string]int // lower-cased column name -> position
	tname  string         // lower-cased table name
	alias  string         // lower-cased alias ("" if none)
	vals   []interface{}
	tbl    *table // nil for virtual tables
}

type evaluator struct {
	conn      *conn
	args      []interface{}                        // normalised arguments of the whole statement string
	markers   map[*test_driver.ParamMarkerExpr]int // marker -> argument index
	row       *rowCtx
	insertRow []interface{} // for VALUES(col) in ON DUPLICATE KEY UPDATE
	aggs      map[*ast.AggregateFuncExpr]interface{}
	now       time.Time
	clause    string
}

// rowValue is the result of evaluating a row constructor (a, b, ...).
type rowValue []interface{}

func unsupportedExpr(n ast.Node) error {
	return fmt.Errorf("%w: expression %T", ErrUnsupported, n)
}

func datumValue(v ast.ValueExpr) interface{} {
	switch x := v.GetValue().(type) {
	case nil:
		return nil
	case int64:
		return x
	case uint64:
		return x
	case int:
		return int64(x)
	case float32:
		return float64(x)
	case float64:
		return x
	case string:
		return x
	case []byte:
		return x
	case test_driver.BinaryLiteral:
		return []byte(x)
	case *test_driver.MyDecimal:
		return decVal(x.String())
	default:
		return fmt.Sprint(x)
	}
}

func (ev *evaluator) clauseName() string {
	if ev.clause == "" {
		return "field list"
	}
	return ev.clause
}

func (ev *evaluator) resolveColumn(cn *ast.ColumnName) (int, error) {
	if ev.row == nil {
		return 0, myErr(1054, "Unknown column '%s' in '%s'", cn.Name.O, ev.clauseName())
	}
	if cn.Table.L != "" && cn.Table.L != ev.row.tname && cn.Table.L != ev.row.alias {
		return 0, myErr(1054, "Unknown column '%s.%s' in '%s'", cn.Table.O, cn.Name.O, ev.clauseName())
	}
	i, ok := ev.row.colIdx[cn.Name.L]
	if !ok {
		return 0, myErr(1054, "Unknown column '%s' in '%s'", cn.Name.O, ev.clauseName())
	}
	return i, nil
}

func (ev *evaluator) eval(n ast.ExprNode) (interface{}, error) {
	switch e := n.(type) {
	case *test_driver.ParamMarkerExpr:
		i, ok := ev.markers[e]
		if !ok || i >= len(ev.args) {
			return nil, myErr(1210, "Incorrect arguments to mysqld_stmt_execute")
		}
		return ev.args[i], nil
	case ast.ValueExpr:
		return datumValue(e), nil
	case *ast.ColumnNameExpr:
		i, err := ev.resolveColumn(e.Name)
		if err != nil {
			return nil, err
		}
		return ev.row.vals[i], nil
	case *ast.ParenthesesExpr:
		return ev.eval(e.Expr)
	case *ast.BinaryOperationExpr:
		return ev.evalBinary(e)
	case *ast.UnaryOperationExpr:
		v, err := ev.eval(e.V)
		if err != nil {
			return nil, err
		}
		return evalUnary(e.Op, v)
	case *ast.IsNullExpr:
		v, err := ev.eval(e.Expr)
		if err != nil {
			return nil, err
		}
		if rv, ok := v.(rowValue); ok {
			_ = rv
			return nil, myErr(1241, "Operand should contain 1 column(s)")
		}
		return boolVal((v == nil) != e.Not), nil
	case *ast.IsTruthExpr:
		v, err := ev.eval(e.Expr)
		if err != nil {
			return nil, err
		}
		t, null := truth(v)
		res := !null && (t == (e.True != 0))
		return boolVal(res != e.Not), nil
	case *ast.BetweenExpr:
		v, err := ev.eval(e.Expr)
		if err != nil {
			return nil, err
		}
		lo, err := ev.eval(e.Left)
		if err != nil {
			return nil, err
		}
		hi, err := ev.eval(e.Right)
		if err != nil {
			return nil, err
		}
		c1, n1 := compareValues(v, lo)
		c2, n2 := compareValues(v, hi)
		ge := tri{val: c1 >= 0, null: n1}
		le := tri{val: c2 <= 0, null: n2}
		r := triAnd(ge, le)
		if e.Not {
			r = triNot(r)
		}
		return r.value(), nil
	case *ast.PatternInExpr:
		if e.Sel != nil {
			return nil, fmt.Errorf("%w: IN (subquery)", ErrUnsupported)
		}
		v, err := ev.eval(e.Expr)
		if err != nil {
			return nil, err
		}
		res := tri{val: false}
		for _, item := range e.List {
			iv, err := ev.eval(item)
			if err != nil {
				return nil, err
			}
			eq, err := equalTri(v, iv)
			if err != nil {
				return nil, err
			}
			res = triOr(res, eq)
			if res.val && !res.null {
				break
			}
		}
		if e.Not {
			res = triNot(res)
		}
		return res.value(), nil
	case *ast.PatternLikeExpr:
		v, err := ev.eval(e.Expr)
		if err != nil {
			return nil, err
		}
		p, err := ev.eval(e.Pattern)
		if err != nil {
			return nil, err
		}
		if v == nil || p == nil {
			return nil, nil
		}
		_, vb := v.([]byte)
		_, pb := p.([]byte)
		m := likeMatch(valueText(v), valueText(p), e.Escape, !(vb || pb))
		return boolVal(m != e.Not), nil
	case *ast.RowExpr:
		out := make(rowValue, len(e.Values))
		for i, x := range e.Values {
			v, err := ev.eval(x)
			if err != nil {
				return nil, err
			}
			out[i] = v
		}
		return out, nil
	case *ast.DefaultExpr:
		if e.Name == nil {
			return nil, fmt.Errorf("%w: DEFAULT outside INSERT/UPDATE value position", ErrUnsupported)
		}
		i, err := ev.resolveColumn(e.Name)
		if err != nil {
			return nil, err
		}
		if ev.row.tbl == nil {
			return nil, nil
		}
		c := ev.row.tbl.cols[i]
		v, merr := ev.columnDefault(c)
		if merr != nil {
			return nil, merr
		}
		return v, nil
	case *ast.ValuesExpr:
		if ev.insertRow == nil {
			return nil, nil // VALUES() outside ON DUPLICATE KEY UPDATE is NULL
		}
		i, err := ev.resolveColumn(e.Column.Name)
		if err != nil {
			return nil, err
		}
		return ev.insertRow[i], nil
	case *ast.FuncCallExpr:
		return ev.evalFunc(e)
	case *ast.AggregateFuncExpr:
		if ev.aggs != nil {
			if v, ok := ev.aggs[e]; ok {
				return v, nil
			}
		}
		return nil, myErr(1111, "Invalid use of group function")
	case *ast.VariableExpr:
		return ev.evalVariable(e)
	case *ast.CaseExpr:
		var base interface{}
		var err error
		if e.Value != nil {
			if base, err = ev.eval(e.Value); err != nil {
				return nil, err
			}
		}
		for _, w := range e.WhenClauses {
			cv, err := ev.eval(w.Expr)
			if err != nil {
				return nil, err
			}
			hit := false
			if e.Value != nil {
				c, null := compareValues(base, cv)
				hit = !null && c == 0
			} else {
				t, null := truth(cv)
				hit = t && !null
			}
			if hit {
				return ev.eval(w.Result)
			}
		}
		if e.ElseClause != nil {
			return ev.eval(e.ElseClause)
		}
		return nil, nil
	}
	return nil, unsupportedExpr(n)
}

// three-valued logic
type tri struct {
	val  bool
	null bool
}

func (t tri) value() interface{} {
	if t.null {
		return nil
	}
	return boolVal(t.val)
}
func triOf(v interface{}) tri {
	t, null := truth(v)
	return tri{val: t, null: null}
}
func triAnd(a, b tri) tri {
	if (!a.null && !a.val) || (!b.null && !b.val) {
		return tri{val: false}
	}
	if a.null || b.null {
		return tri{null: true}
	}
	return tri{val: true}
}
func triOr(a, b tri) tri {
	if (!a.null && a.val) || (!b.null && b.val) {
		return tri{val: true}
	}
	if a.null || b.null {
		return tri{null: true}
	}
	return tri{val: false}
}
func triNot(a tri) tri {
	if a.null {
		return a
	}
	return tri{val: !a.val}
}

func equalTri(a, b interface{}) (tri, error) {
	ra, aRow := a.(rowValue)
	rb, bRow := b.(rowValue)
	if aRow || bRow {
		if !aRow || !bRow || len(ra) != len(rb) {
			n := 1
			if aRow {
				n = len(ra)
			}
			return tri{}, myErr(1241, "Operand should contain %d column(s)", n)
		}
		res := tri{val: true}
		for i := range ra {
			e, err := equalTri(ra[i], rb[i])
			if err != nil {
				return tri{}, err
			}
			res = triAnd(res, e)
		}
		return res, nil
	}
	c, null := compareValues(a, b)
	return tri{val: c == 0, null: null}, nil
}

func (ev *evaluator) evalBinary(e *ast.BinaryOperationExpr) (interface{}, error) {
	switch e.Op {
	case opcode.LogicAnd, opcode.LogicOr, opcode.LogicXor:
		l, err := ev.eval(e.L)
		if err != nil {
			return nil, err
		}
		lt := triOf(l)
		// short circuit keeps errors in dead branches away, like MySQL
		if e.Op == opcode.LogicAnd && !lt.null && !lt.val {
			return boolVal(false), nil
		}
		if e.Op == opcode.LogicOr && !lt.null && lt.val {
			return boolVal(true), nil
		}
		r, err := ev.eval(e.R)
		if err != nil {
			return nil, err
		}
		rt := triOf(r)
		switch e.Op {
		case opcode.LogicAnd:
			return triAnd(lt, rt).value(), nil
		case opcode.LogicOr:
			return triOr(lt, rt).value(), nil
		default:
			if lt.null || rt.null {
				return nil, nil
			}
			return boolVal(lt.val != rt.val), nil
		}
	}
	l, err := ev.eval(e.L)
	if err != nil {
		return nil, err
	}
	r, err := ev.eval(e.R)
	if err != nil {
		return nil, err
	}
	switch e.Op {
	case opcode.EQ:
		t, err := equalTri(l, r)
		if err != nil {
			return nil, err
		}
		return t.value(), nil
	case opcode.NE:
		t, err := equalTri(l, r)
		if err != nil {
			return nil, err
		}
		return triNot(t).value(), nil
	case opcode.NullEQ:
		if l == nil || r == nil {
			return boolVal(l == nil && r == nil), nil
		}
		t, err := equalTri(l, r)
		if err != nil {
			return nil, err
		}
		return boolVal(t.val && !t.null), nil
	case opcode.LT, opcode.LE, opcode.GT, opcode.GE:
		if _, ok := l.(rowValue); ok {
			return nil, fmt.Errorf("%w: row-value ordering comparison", ErrUnsupported)
		}
		if _, ok := r.(rowValue); ok {
			return nil, fmt.Errorf("%w: row-value ordering comparison", ErrUnsupported)
		}
		c, null := compareValues(l, r)
		if null {
			return nil, nil
		}
		switch e.Op {
		case opcode.LT:
			return boolVal(c < 0), nil
		case opcode.LE:
			return boolVal(c <= 0), nil
		case opcode.GT:
			return boolVal(c > 0), nil
		default:
			return boolVal(c >= 0), nil
		}
	case opcode.Plus, opcode.Minus, opcode.Mul, opcode.Div, opcode.IntDiv, opcode.Mod:
		return arith(e.Op, l, r)
	case opcode.And, opcode.Or, opcode.Xor, opcode.LeftShift, opcode.RightShift:
		if l == nil || r == nil {
			return nil, nil
		}
		fl, _ := toFloat(l)
		fr, _ := toFloat(r)
		a, b := uint64(int64(fl)), uint64(int64(fr))
		switch e.Op {
		case opcode.And:
			return a & b, nil
		case opcode.Or:
			return a | b, nil
		case opcode.Xor:
			return a ^ b, nil
		case opcode.LeftShift:
			return a << b, nil
		default:
			return a >> b, nil
		}
	}
	return nil, fmt.Errorf("%w: operator %s", ErrUnsupported, e.Op.String())
}

func evalUnary(op opcode.Op, v interface{}) (interface{}, error) {
	switch op {
	case opcode.Not, opcode.Not2:
		return triNot(triOf(v)).value(), nil
	case opcode.Plus:
		return v, nil
	case opcode.Minus:
		switch x := v.(type) {
		case nil:
			return nil, nil
		case int64:
			return -x, nil
		case uint64:
			if x <= 1<<63 {
				return -int64(x), nil
			}
			return nil, myErr(1690, "BIGINT value is out of range in '-%d'", x)
		case float64:
			return -x, nil
		case decVal:
			if strings.HasPrefix(string(x), "-") {
				return decVal(x[1:]), nil
			}
			return decVal("-" + string(x)), nil
		default:
			f, _ := toFloat(v)
			return -f, nil
		}
	case opcode.BitNeg:
		if v == nil {
			return nil, nil
		}
		f, _ := toFloat(v)
		return ^uint64(int64(f)), nil
	}
	return nil, fmt.Errorf("%w: unary operator %s", ErrUnsupported, op.String())
}

func isIntKind(v interface{}) bool {
	switch v.(type) {
	case int64, uint64:
		return true
	}
	return false
}

func arith(op opcode.Op, l, r interface{}) (interface{}, error) {
	if l == nil || r == nil {
		return nil, nil
	}
	if _, ok := l.(rowValue); ok {
		return nil, myErr(1241, "Operand should contain 1 column(s)")
	}
	if _, ok := r.(rowValue); ok {
		return nil, myErr(1241, "Operand should contain 1 column(s)")
	}
	if tv, ok := l.(timeVal); ok {
		f, _ := toFloat(tv)
		l = int64(f)
	}
	if tv, ok := r.(timeVal); ok {
		f, _ := toFloat(tv)
		r = int64(f)
	}
	if isIntKind(l) && isIntKind(r) && op != opcode.Div {
		a, _ := toRat(l)
		b, _ := toRat(r)
		x, y := a.Num(), b.Num()
		z := new(big.Int)
		switch op {
		case opcode.Plus:
			z.Add(x, y)
		case opcode.Minus:
			z.Sub(x, y)
		case opcode.Mul:
			z.Mul(x, y)
		case opcode.IntDiv:
			if y.Sign() == 0 {
				return nil, nil
			}
			z.Quo(x, y)
		case opcode.Mod:
			if y.Sign() == 0 {
				return nil, nil
			}
			z.Rem(x, y)
		}
		_, lu := l.(uint64)
		_, ru := r.(uint64)
		if lu || ru {
			if z.Sign() < 0 || !z.IsUint64() {
				return nil, myErr(1690, "BIGINT UNSIGNED value is out of range in '(%s %s %s)'", valueText(l), op.String(), valueText(r))
			}
			return z.Uint64(), nil
		}
		if !z.IsInt64() {
			return nil, myErr(1690, "BIGINT value is out of range in '(%s %s %s)'", valueText(l), op.String(), valueText(r))
		}
		return z.Int64(), nil
	}
	_, lf := l.(float64)
	_, rf := r.(float64)
	_, ls := l.(string)
	_, rs := r.(string)
	_, lb := l.([]byte)
	_, rb := r.([]byte)
	if lf || rf || ls || rs || lb || rb {
		a, _ := toFloat(l)
		b, _ := toFloat(r)
		switch op {
		case opcode.Plus:
			return a + b, nil
		case opcode.Minus:
			return a - b, nil
		case opcode.Mul:
			return a * b, nil
		case opcode.Div:
			if b == 0 {
				return nil, nil
			}
			return a / b, nil
		case opcode.IntDiv:
			if b == 0 {
				return nil, nil
			}
			return int64(a / b), nil
		case opcode.Mod:
			if b == 0 {
				return nil, nil
			}
			return float64(int64(a) % int64(b)), nil
		}
	}
	a, ok1 := toRat(l)
	b, ok2 := toRat(r)
	if !ok1 || !ok2 {
		return nil, fmt.Errorf("%w: arithmetic on %T and %T", ErrUnsupported, l, r)
	}
	sl, sr := decScale(l), decScale(r)
	z := new(big.Rat)
	switch op {
	case opcode.Plus:
		return ratToDec(z.Add(a, b), maxInt(sl, sr)), nil
	case opcode.Minus:
		return ratToDec(z.Sub(a, b), maxInt(sl, sr)), nil
	case opcode.Mul:
		return ratToDec(z.Mul(a, b), sl+sr), nil
	case opcode.Div:
		if b.Sign() == 0 {
			return nil, nil
		}
		return ratToDec(z.Quo(a, b), sl+4), nil
	case opcode.IntDiv:
		if b.Sign() == 0 {
			return nil, nil
		}
		q := z.Quo(a, b)
		i := new(big.Int).Quo(q.Num(), q.Denom())
		return i.Int64(), nil
	case opcode.Mod:
		if b.Sign() == 0 {
			return nil, nil
		}
		q := new(big.Rat).Quo(a, b)
		i := new(big.Int).Quo(q.Num(), q.Denom())
		m := new(big.Rat).Sub(a, new(big.Rat).Mul(b, new(big.Rat).SetInt(i)))
		return ratToDec(m, maxInt(sl, sr)), nil
	}
	return nil, fmt.Errorf("%w: operator %s", ErrUnsupported, op.String())
}

func maxInt(a, b int) int {
	if a > b {
		return a
	}
	return b
}

func (ev *evaluator) nowVal(fsp int) timeVal {
	t := ev.now
	if t.IsZero() {
		t = time.Now()
	}
	if ev.conn != nil && ev.conn.loc != nil {
		t = t.In(ev.conn.loc)
	}
	tv := timeToVal(t)
	// NOW(n) truncates
	if fsp < 0 {
		fsp = 0
	}
	if fsp > 6 {
		fsp = 6
	}
	s := string(tv)
	return timeVal(s[:20+fsp] + strings.Repeat("0", 6-fsp))
}

func (ev *evaluator) columnDefault(c *column) (interface{}, error) {
	if c.defaultNow {
		v, merr := coerce(c, ev.nowVal(c.fsp()))
		if merr != nil {
			return nil, merr
		}
		return v, nil
	}
	if c.hasDefault {
		return c.defaultVal, nil
	}
	if !c.notNull {
		return nil, nil
	}
	return nil, myErr(1364, "Field '%s' doesn't have a default value", c.name)
}

func (ev *evaluator) evalArgs(args []ast.ExprNode) ([]interface{}, error) {
	out := make([]interface{}, len(args))
	for i, a := range args {
		v, err := ev.eval(a)
		if err != nil {
			return nil, err
		}
		if _, ok := v.(rowValue); ok {
			return nil, myErr(1241, "Operand should contain 1 column(s)")
		}
		out[i] = v
	}
	return out, nil
}

func (ev *evaluator) evalFunc(e *ast.FuncCallExpr) (interface{}, error) {
	name := e.FnName.L
	args, err := ev.evalArgs(e.Args)
	if err != nil {
		return nil, err
	}
	argc := func(min, max int) error {
		if len(args) < min || (max >= 0 && len(args) > max) {
			return myErr(1582, "Incorrect parameter count in the call to native function '%s'", e.FnName.O)
		}
		return nil
	}
	switch name {
	case "now", "current_timestamp", "localtime", "localtimestamp", "sysdate":
		fsp := 0
		if len(args) > 0 && args[0] != nil {
			f, _ := toFloat(args[0])
			fsp = int(f)
		}
		return ev.nowVal(fsp), nil
	case "curdate", "current_date":
		tv := ev.nowVal(0)
		return timeVal(string(tv[:10]) + " 00:00:00.000000"), nil
	case "utc_timestamp":
		t := ev.now
		if t.IsZero() {
			t = time.Now()
		}
		return timeToVal(t.UTC().Truncate(time.Second)), nil
	case "unix_timestamp":
		t := ev.now
		if t.IsZero() {
			t = time.Now()
		}
		return t.Unix(), nil
	case "version":
		if ev.conn != nil {
			return ev.conn.srv.version, nil
		}
		return "8.0.30", nil
	case "database", "schema":
		if ev.conn != nil && ev.conn.db != "" {
			return ev.conn.db, nil
		}
		return nil, nil
	case "connection_id":
		if ev.conn != nil {
			return int64(ev.conn.id), nil
		}
		return int64(0), nil
	case "last_insert_id":
		if ev.conn != nil {
			if len(args) == 1 && args[0] != nil {
				f, _ := toFloat(args[0])
				ev.conn.lastInsertID = int64(f)
			}
			return uint64(ev.conn.lastInsertID), nil
		}
		return uint64(0), nil
	case "row_count":
		if ev.conn != nil {
			return ev.conn.rowCount, nil
		}
		return int64(-1), nil
	case "concat":
		var sb strings.Builder
		for _, a := range args {
			if a == nil {
				return nil, nil
			}
			sb.WriteString(valueText(a))
		}
		return sb.String(), nil
	case "concat_ws":
		if err := argc(2, -1); err != nil {
			return nil, err
		}
		if args[0] == nil {
			return nil, nil
		}
		var parts []string
		for _, a := range args[1:] {
			if a != nil {
				parts = append(parts, valueText(a))
			}
		}
		return strings.Join(parts, valueText(args[0])), nil
	case "ifnull":
		if err := argc(2, 2); err != nil {
			return nil, err
		}
		if args[0] != nil {
			return args[0], nil
		}
		return args[1], nil
	case "coalesce":
		for _, a := range args {
			if a != nil {
				return a, nil
			}
		}
		return nil, nil
	case "nullif":
		if err := argc(2, 2); err != nil {
			return nil, err
		}
		c, null := compareValues(args[0], args[1])
		if !null && c == 0 {
			return nil, nil
		}
		return args[0], nil
	case "if":
		if err := argc(3, 3); err != nil {
			return nil, err
		}
		t, null := truth(args[0])
		if t && !null {
			return args[1], nil
		}
		return args[2], nil
	case "lower", "lcase":
		if err := argc(1, 1); err != nil {
			return nil, err
		}
		if args[0] == nil {
			return nil, nil
		}
		return strings.ToLower(valueText(args[0])), nil
	case "upper", "ucase":
		if err := argc(1, 1); err != nil {
			return nil, err
		}
		if args[0] == nil {
			return nil, nil
		}
		return strings.ToUpper(valueText(args[0])), nil
	case "length", "octet_length":
		if err := argc(1, 1); err != nil {
			return nil, err
		}
		if args[0] == nil {
			return nil, nil
		}
		return int64(len(valueText(args[0]))), nil
	case "char_length", "character_length":
		if err := argc(1, 1); err != nil {
			return nil, err
		}
		if args[0] == nil {
			return nil, nil
		}
		return int64(len([]rune(valueText(args[0])))), nil
	case "abs":
		if err := argc(1, 1); err != nil {
			return nil, err
		}
		switch x := args[0].(type) {
		case nil:
			return nil, nil
		case int64:
			if x < 0 {
				return -x, nil
			}
			return x, nil
		case uint64:
			return x, nil
		case decVal:
			return decVal(strings.TrimPrefix(string(x), "-")), nil
		default:
			f, _ := toFloat(x)
			if f < 0 {
				f = -f
			}
			return f, nil
		}
	case "hex":
		if err := argc(1, 1); err != nil {
			return nil, err
		}
		switch x := args[0].(type) {
		case nil:
			return nil, nil
		case int64:
			return strings.ToUpper(strconv.FormatUint(uint64(x), 16)), nil
		case uint64:
			return strings.ToUpper(strconv.FormatUint(x, 16)), nil
		default:
			return strings.ToUpper(fmt.Sprintf("%x", valueText(x))), nil
		}
	}
	return nil, fmt.Errorf("%w: function %s()", ErrUnsupported, e.FnName.O)
}

func (ev *evaluator) evalVariable(e *ast.VariableExpr) (interface{}, error) {
	if !e.IsSystem {
		return nil, fmt.Errorf("%w: user variable @%s", ErrUnsupported, e.Name)
	}
	switch strings.ToLower(e.Name) {
	case "auto_increment_increment", "auto_increment_offset":
		return int64(1), nil
	case "version":
		if ev.conn != nil {
			return ev.conn.srv.version, nil
		}
		return "8.0.30", nil
	case "autocommit":
		if ev.conn != nil && !ev.conn.autocommit {
			return int64(0), nil
		}
		return int64(1), nil
	case "tx_isolation", "transaction_isolation":
		return "READ-COMMITTED", nil
	case "max_allowed_packet":
		return int64(67108864), nil
	case "sql_mode":
		return "STRICT_TRANS_TABLES,NO_ENGINE_SUBSTITUTION", nil
	case "innodb_lock_wait_timeout":
		if ev.conn != nil {
			return int64(ev.conn.srv.lockWait / time.Second), nil
		}
		return int64(50), nil
	case "tx_read_only", "transaction_read_only":
		return int64(0), nil
	case "time_zone":
		return "SYSTEM", nil
	}
	return nil, fmt.Errorf("%w: system variable @@%s", ErrUnsupported, e.Name)
}

// metaFromValue derives result-set metadata for a computed (non-column) select field.
func metaFromValue(name string, v interface{}) colMeta {
	m := colMeta{name: name, binary: true}
	switch x := v.(type) {
	case nil:
		m.fieldType = fieldTypeNULL
	case int64:
		m.fieldType = fieldTypeLongLong
		m.flags = flagNotNULL | flagBinary
	case uint64:
		m.fieldType = fieldTypeLongLong
		m.flags = flagNotNULL | flagBinary | flagUnsigned
	case float64:
		m.fieldType = fieldTypeDouble
		m.flags = flagNotNULL | flagBinary
		m.decimals = 0x1f
	case decVal:
		m.fieldType = fieldTypeNewDecimal
		m.flags = flagNotNULL | flagBinary
		sc := decScale(x)
		m.decimals = byte(sc)
		l := len(strings.TrimPrefix(string(x), "-"))
		if sc == 0 {
			l++ // length counts sign; precision = length-1 when scale is 0
		} else {
			l++ // digits + '.' + sign
		}
		m.length = uint32(l)
	case timeVal:
		m.fieldType = fieldTypeDateTime
		m.flags = flagNotNULL | flagBinary
		m.decimals = byte(timeValFsp(x))
	case []byte:
		m.fieldType = fieldTypeVarString
		m.flags = flagNotNULL | flagBinary
	default:
		m.fieldType = fieldTypeVarString
		m.flags = flagNotNULL
		m.binary = false
		m.decimals = 0x1f
	}
	return m
}
