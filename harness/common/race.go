// Parsing of the Go race detector's log (GORACE=log_path=...): shared by the drivers that run under -race.
package common

import (
	"bufio"
	"os"
	"path/filepath"
	"regexp"
	"sort"
	"strings"
)

// frames of the repository's code: /repo, or the scratch tree named by VERIF_REPO (tools/try_mutant_alt.sh)
var frameRE = regexp.MustCompile(`^\s+(` + regexp.QuoteMeta(repoDir()) + `/[^\s:]+):(\d+)`)

func repoDir() string {
	if d := os.Getenv("VERIF_REPO"); d != "" {
		return strings.TrimRight(d, "/")
	}
	return "/repo"
}

var (
	funcRE    = regexp.MustCompile(`^\s+seata\.apache\.org/seata-go/(\S+)\(\)$`)
	anyFuncRE = regexp.MustCompile(`^\s+([^\s/][^\s]*)\(\)$`)
	// "Read at", "Previous write at", "Atomic read at", "Previous atomic write at" ...
	accessRE = regexp.MustCompile(`^(Previous )?([Aa]tomic )?([Rr]ead|[Ww]rite) at `)
)

// RaceReports parses the race detector's log (GORACE=log_path=...) into distinct signatures: per report
// the innermost repository function of each of the two conflicting accesses ("a|b", sorted).  An access
// whose stack has no frame in the repository (a race inside the harness or a stand-in) is named by its
// innermost function with the prefix "ext:", so that no report is dropped silently.
func RaceReports(base string) []string {
	if base == "" {
		return nil
	}
	files, _ := filepath.Glob(base + ".*")
	seen := map[string]bool{}
	for _, f := range files {
		fh, err := os.Open(f)
		if err != nil {
			continue
		}
		sc := bufio.NewScanner(fh)
		sc.Buffer(make([]byte, 1<<20), 1<<24)
		var cur []string
		inStack, got := false, false
		lastFunc, lastAny, firstAny := "", "", ""
		endStack := func() {
			if inStack && !got && firstAny != "" {
				cur = append(cur, "ext:"+firstAny)
			}
			inStack = false
		}
		flush := func() {
			endStack()
			if len(cur) > 0 {
				sort.Strings(cur)
				seen[strings.Join(cur, "|")] = true
			}
			cur = nil
		}
		for sc.Scan() {
			ln := sc.Text()
			switch {
			case strings.HasPrefix(ln, "WARNING: DATA RACE"):
				flush()
			case accessRE.MatchString(ln):
				endStack()
				inStack, got, firstAny = true, false, ""
			case strings.HasPrefix(ln, "Goroutine ") || ln == "" || strings.HasPrefix(ln, "=========="):
				endStack()
			default:
				if m := funcRE.FindStringSubmatch(ln); m != nil {
					lastFunc = m[1]
				}
				if m := anyFuncRE.FindStringSubmatch(ln); m != nil {
					lastAny = m[1]
					if inStack && firstAny == "" {
						firstAny = lastAny
					}
				}
				if inStack && !got {
					if m := frameRE.FindStringSubmatch(ln); m != nil {
						cur = append(cur, lastFunc)
						got = true
					}
				}
			}
		}
		flush()
		fh.Close()
	}
	out := make([]string, 0, len(seen))
	for k := range seen {
		out = append(out, k)
	}
	sort.Strings(out)
	return out
}
