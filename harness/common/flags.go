// Package common holds what every driver binary shares: flags, seeding, the discarding logger.
package common

import (
	"flag"
	"fmt"
	"math/rand"
	"os"
	"strconv"
	"strings"
)

type Opts struct {
	Scenarios string
	Out       string
	Tier      string
	Seed      int64
	Prop      string
	Only      map[int]bool // scenario indices to run (replay / reproduction); nil = all
	Mode      string
	ShardK    int
	ShardN    int
}

func Parse() *Opts {
	o := &Opts{}
	only := ""
	flag.StringVar(&o.Scenarios, "scenarios", "", "ndjson file of TLC-generated scenarios")
	flag.StringVar(&o.Out, "out", "", "ndjson trace file to write")
	flag.StringVar(&o.Tier, "tier", "quick", "quick|thorough")
	flag.Int64Var(&o.Seed, "seed", 1, "seed for every random choice")
	flag.StringVar(&o.Prop, "prop", "", "property id the run is for")
	flag.StringVar(&only, "only", "", "comma separated scenario indices (0-based, in file order after de-duplication)")
	flag.StringVar(&o.Mode, "mode", "", "driver specific sub-mode")
	shard := ""
	flag.StringVar(&shard, "shard", "", "k/n: run only scenarios with index %% n == k; trace ids are offset per shard")
	flag.Parse()
	o.ShardN = 1
	if shard != "" {
		if _, err := fmt.Sscanf(shard, "%d/%d", &o.ShardK, &o.ShardN); err != nil || o.ShardN < 1 {
			Fatal("bad -shard %q", shard)
		}
	}
	if only != "" {
		o.Only = map[int]bool{}
		for _, p := range strings.Split(only, ",") {
			i, err := strconv.Atoi(strings.TrimSpace(p))
			if err != nil {
				Fatal("bad -only: %v", err)
			}
			o.Only[i] = true
		}
	}
	if o.Out == "" {
		Fatal("-out required")
	}
	return o
}

func (o *Opts) Want(i int) bool {
	if o.ShardN > 1 && i%o.ShardN != o.ShardK {
		return false
	}
	return o.Only == nil || o.Only[i]
}

// TraceBase is the first trace id of this shard (ids must be unique across the shards of a run).
func (o *Opts) TraceBase() int { return o.ShardK*10_000_000 + 1 }

func (o *Opts) Thorough() bool { return o.Tier == "thorough" }

func (o *Opts) Rand(salt int64) *rand.Rand { return rand.New(rand.NewSource(o.Seed*1000003 + salt)) }

// Fatal reports an infrastructure problem (exit 3: the checker maps it to "inconclusive").
func Fatal(f string, a ...interface{}) {
	fmt.Fprintf(os.Stderr, "DRIVER-FATAL: "+f+"\n", a...)
	os.Exit(3)
}
