package atlab

import (
	"context"
	"database/sql"
	"encoding/hex"
	"encoding/json"
	"fmt"
	"sort"
	"strings"
	"sync"
	"time"

	sqlpkg "seata.apache.org/seata-go/pkg/datasource/sql"
	"seata.apache.org/seata-go/pkg/protocol/branch"
	"seata.apache.org/seata-go/pkg/protocol/message"

	"verif/harness/memsql"
	"verif/harness/tc"
)

const UndoDDL = `CREATE TABLE undo_log (
 id bigint NOT NULL AUTO_INCREMENT, branch_id bigint NOT NULL, xid varchar(128) NOT NULL, context varchar(128) NOT NULL,
 rollback_info longblob NOT NULL, log_status int NOT NULL, log_created datetime(6) NOT NULL, log_modified datetime(6) NOT NULL,
 PRIMARY KEY (id), UNIQUE KEY ux_undo_log (xid, branch_id))`

// Lab is one proxied database plus its coordinator (one per process: the client keeps its
// configuration and registries in package globals).
type Lab struct {
	// Prelude, if set, runs first inside every explicit local transaction the lab opens (ExecSQL, RunBranch):
	// what an application did in the transaction before the statements under observation - for example a
	// statement that failed and was handled
	Prelude func(ctx context.Context, tx *sql.Tx)

	Srv   *memsql.Server
	DB    *sql.DB // AT proxy over memsql
	Bare  *sql.DB // memsql without the proxy
	Coord *tc.TC
	Sess  *tc.Session
	RID   string // resource id the proxy registered
	NKeys int
	mu    sync.Mutex
}

var registerOnce sync.Once

// Open initialises the client (once), the coordinator stand-in, the memsql server and the proxy.
func Open(cfg tc.Config, host string) *Lab {
	tc.InitClient(cfg)
	l := &Lab{NKeys: 2}
	l.Coord = tc.NewTC("10.0.0.1:8091")
	l.Sess = l.Coord.OpenSession("s1")
	waitFor(func() bool { return len(l.Coord.Log()) >= 1 }, time.Second)
	l.Srv = memsql.NewServer(host)
	l.Srv.SetSeqSource(tc.NextSeq)
	l.Srv.SetLockWaitTimeout(400 * time.Millisecond)
	l.Srv.MustExec(UndoDDL)
	registerOnce.Do(func() {
		sqlpkg.VerifRegisterDrivers("seata-at-memsql", "seata-xa-memsql", memsql.Driver{})
	})
	db, err := sql.Open("seata-at-memsql", l.DSN())
	if err != nil {
		panic(err)
	}
	l.DB = db
	bare, err := sql.Open("memsql", l.DSN())
	if err != nil {
		panic(err)
	}
	l.Bare = bare
	for _, r := range l.Coord.Log() {
		if req, ok := r.Body.(message.RegisterRMRequest); ok {
			l.RID = req.ResourceIds
		}
	}
	return l
}

// DSN is the data source name of the lab database. parseTime=true: without it go-sql-driver/mysql hands
// DATETIME columns over as []byte, which the proxy's image scan (sql.NullTime) cannot take - taken as a
// deployment requirement of the client, not as a finding (leniency rule, DESIGN.md 4.1).
func (l *Lab) DSN() string {
	return l.Srv.DSNWithParams("testdb", "multiStatements=true&interpolateParams=true&parseTime=true")
}

func waitFor(f func() bool, d time.Duration) bool {
	end := time.Now().Add(d)
	for time.Now().Before(end) {
		if f() {
			return true
		}
		time.Sleep(time.Millisecond)
	}
	return f()
}

// Reset empties the database and the coordinator's log and lock table, and creates the tables.
func (l *Lab) Reset(schemas ...*Schema) {
	// recycle the pools: a connection a previous scenario left in a bad state (for example inside a
	// transaction, see C02) must not leak into the next scenario
	for _, db := range []*sql.DB{l.DB, l.Bare} {
		db.SetMaxIdleConns(0)
		db.SetMaxIdleConns(2)
	}
	l.Srv.Reset()
	l.Srv.SetSeqSource(tc.NextSeq)
	l.Srv.SetLockWaitTimeout(400 * time.Millisecond)
	l.Srv.MustExec(UndoDDL)
	for _, s := range schemas {
		l.Srv.MustExec(s.DDL)
	}
	l.Coord.ClearLog()
	l.Coord.ResetLocks()
}

// Reopen replaces the proxy handle by a fresh one on the same data source: what a second application instance
// (or a restarted one) holds - its own resource registration and its own table-metadata cache, filled by
// whatever statement touches a table first.
func (l *Lab) Reopen() {
	old := l.DB
	db, err := sql.Open("seata-at-memsql", l.DSN())
	if err != nil {
		panic(err)
	}
	l.DB = db
	_ = old.Close()
}

// Load puts the abstract table into the concrete table (admin path, not journaled).
func (l *Lab) Load(s *Schema, rows []Row) {
	for i, r := range rows {
		for _, q := range s.RowSQL(i+1, r) {
			l.Srv.MustExec(q)
		}
	}
}

// Put is the foreign writer: a committed write by someone outside any global transaction.
func (l *Lab) Put(s *Schema, k int, r Row) error {
	for _, q := range s.RowSQL(k, r) {
		if _, err := l.Srv.Exec(q); err != nil {
			return err
		}
	}
	return nil
}

// Project returns the abstract image of the committed table: index k-1 holds key k.
// extra > 0 means rows exist that are no key of 1..NKeys.
func (l *Lab) Project(s *Schema) (rows []Row, extra int) {
	rows = make([]Row, l.NKeys)
	for i := range rows {
		rows[i] = Absent
	}
	for _, r := range l.Srv.Snapshot(s.Name)[s.Name] {
		k := s.KeyOf(r, l.NKeys)
		if k == 0 {
			extra++
			continue
		}
		rows[k-1] = s.ToAbstract(r)
	}
	return
}

// UndoState returns "none" | "normal" | "marker" | "other" for (xid, branch id).
func (l *Lab) UndoState(xid string, bid int64) string {
	for _, r := range l.Srv.Snapshot("undo_log")["undo_log"] {
		if fmt.Sprint(r["xid"]) == xid && fmt.Sprint(r["branch_id"]) == fmt.Sprint(bid) {
			switch fmt.Sprint(r["log_status"]) {
			case "0":
				return "normal"
			case "1":
				return "marker"
			}
			return "other"
		}
	}
	return "none"
}

func (l *Lab) UndoRows() int { return len(l.Srv.Snapshot("undo_log")["undo_log"]) }

// Idle reports whether no client connection is inside a transaction or holds row locks.
func (l *Lab) Idle() bool {
	for _, c := range l.Srv.ConnStates() {
		if c.Closed {
			continue
		}
		if c.InTx || c.Locks > 0 || (c.XA != "" && c.XA != "none") {
			return false
		}
	}
	return true
}

// ExecSQL runs one concrete statement as a branch (autocommit or explicit transaction).
func (l *Lab) ExecSQL(ctx context.Context, q string, args []interface{}, explicit bool) (err error) {
	if !explicit {
		defer func() {
			if p := recover(); p != nil {
				err = fmt.Errorf("panic: %v", p)
			}
		}()
		_, err = l.DB.ExecContext(ctx, q, args...)
		return err
	}
	tx, err := l.DB.BeginTx(ctx, nil)
	if err != nil {
		return err
	}
	if l.Prelude != nil {
		l.Prelude(ctx, tx)
	}
	defer func() {
		// what a careful application does (defer tx.Rollback()): a panic out of the driver must not
		// leave the transaction open
		if p := recover(); p != nil {
			_ = tx.Rollback()
			err = fmt.Errorf("panic: %v", p)
		}
	}()
	if _, err := tx.ExecContext(ctx, q, args...); err != nil {
		_ = tx.Rollback()
		return err
	}
	return tx.Commit()
}

// Image is one row image of an undo log in abstract form.
type Image struct {
	Key    int    `json:"key"`
	Kind   string `json:"kind"` // ins | upd | del
	Before Row    `json:"before"`
	After  Row    `json:"after"`
	Stmt   int    `json:"stmt"`
}

// UndoImages decodes the undo-log row of (xid, bid) written with the json serializer (no compression)
// into abstract images: statement order, rows by ascending key. u = -3 marks "column not in the image".
func (l *Lab) UndoImages(s *Schema, xid string, bid int64) (imgs []Image, ok bool, why string) {
	for _, r := range l.Srv.Snapshot("undo_log")["undo_log"] {
		if fmt.Sprint(r["xid"]) != xid || fmt.Sprint(r["branch_id"]) != fmt.Sprint(bid) {
			continue
		}
		raw := fmt.Sprint(r["rollback_info"])
		if !strings.HasPrefix(raw, "0x") {
			return nil, false, "rollback_info is not binary"
		}
		b, err := hex.DecodeString(raw[2:])
		if err != nil {
			return nil, false, err.Error()
		}
		var log struct {
			SqlUndoLogs []struct {
				SqlType     string `json:"sqlType"`
				BeforeImage *jimg  `json:"beforeImage"`
				AfterImage  *jimg  `json:"afterImage"`
			} `json:"sqlUndoLogs"`
		}
		if err := json.Unmarshal(b, &log); err != nil {
			return nil, false, "undo log is not json: " + err.Error()
		}
		for si, ul := range log.SqlUndoLogs {
			before := ul.BeforeImage.rows(s, l.NKeys)
			after := ul.AfterImage.rows(s, l.NKeys)
			keys := map[int]bool{}
			for k := range before {
				keys[k] = true
			}
			for k := range after {
				keys[k] = true
			}
			ks := make([]int, 0, len(keys))
			for k := range keys {
				ks = append(ks, k)
			}
			sort.Ints(ks)
			for _, k := range ks {
				im := Image{Key: k, Before: Absent, After: Absent, Stmt: si + 1}
				if v, ok := before[k]; ok {
					im.Before = v
				}
				if v, ok := after[k]; ok {
					im.After = v
				}
				switch {
				case im.Before == Absent && im.After != Absent:
					im.Kind = "ins"
				case im.Before != Absent && im.After == Absent:
					im.Kind = "del"
				default:
					im.Kind = "upd"
				}
				imgs = append(imgs, im)
			}
		}
		return imgs, true, ""
	}
	return nil, false, "no undo log row"
}

type jimg struct {
	Rows []struct {
		Fields []struct {
			Name  string      `json:"name"`
			Value interface{} `json:"value"`
		} `json:"fields"`
	} `json:"rows"`
}

func (j *jimg) rows(s *Schema, nkeys int) map[int]Row {
	out := map[int]Row{}
	if j == nil {
		return out
	}
	for _, r := range j.Rows {
		m := map[string]interface{}{}
		for _, f := range r.Fields {
			v := f.Value
			if fl, ok := v.(float64); ok {
				v = int64(fl)
			}
			m[strings.ToLower(f.Name)] = v
		}
		k := s.KeyOf(m, nkeys)
		if k == 0 {
			out[-1] = Row{-2, -2} // a row that is none of the keys
			continue
		}
		row := Row{-2, -2}
		if w1, ok := m["w1"].(int64); ok {
			got, has := m["w2"]
			row.W = s.WOf(w1, got, has)
		}
		if zt, has := m["z_txt"]; has && s.Zoo && fmt.Sprint(zt) != s.ZTxt(k) {
			row.W = -2 // the TEXT column of the image is not this row's text
		}
		if u1, has := m["u1"]; has {
			if u, ok := u1.(int64); ok {
				row.U = int(u - 7)
			}
		} else {
			row.U = -3
		}
		out[k] = row
	}
	return out
}

// RunBranch executes the statements of one branch through the proxy inside the global transaction
// carried by ctx: one statement in autocommit use, or all of them in an explicit transaction.
func (l *Lab) RunBranch(ctx context.Context, s *Schema, stmts []Stmt, style Style) (err error) {
	if len(stmts) == 1 && !style.Explicit {
		q, args := s.SQL(stmts[0], style)
		return l.ExecSQL(ctx, q, args, false)
	}
	tx, err := l.DB.BeginTx(ctx, nil)
	if err != nil {
		return err
	}
	if l.Prelude != nil {
		l.Prelude(ctx, tx)
	}
	defer func() {
		if p := recover(); p != nil {
			_ = tx.Rollback()
			err = fmt.Errorf("panic: %v", p)
		}
	}()
	for _, st := range stmts {
		q, args := s.SQL(st, style)
		if _, err := tx.ExecContext(ctx, q, args...); err != nil {
			_ = tx.Rollback()
			return err
		}
	}
	return tx.Commit()
}

// Registered returns the branches the coordinator registered for xid, in registration order.
type RegBranch struct {
	Bid     int64
	LockKey string
	RID     string
	Seq     int64
}

func (l *Lab) Registered(xid string) []RegBranch {
	var reqs = map[int32]message.BranchRegisterRequest{}
	var out []RegBranch
	for _, r := range l.Coord.Log() {
		if r.Dir == "in" {
			if req, ok := r.Body.(message.BranchRegisterRequest); ok && req.Xid == xid && r.Note == "" {
				reqs[r.ID] = req
			}
		} else if resp, ok := r.Body.(message.BranchRegisterResponse); ok {
			if req, ok := reqs[r.ID]; ok && resp.ResultCode == message.ResultCodeSuccess {
				out = append(out, RegBranch{Bid: resp.BranchId, LockKey: req.LockKey, RID: req.ResourceId, Seq: r.Seq})
			}
		}
	}
	sort.Slice(out, func(i, j int) bool { return out[i].Seq < out[j].Seq })
	return out
}

func StatusName(st branch.BranchStatus, ok bool) string {
	if !ok {
		return "noreply"
	}
	switch st {
	case branch.BranchStatusPhasetwoRollbacked:
		return "rollbacked"
	case branch.BranchStatusPhasetwoCommitted:
		return "committed"
	}
	return "failed"
}

// Rollback delivers BranchRollback(xid, bid) with an optional database fault at the fail-th client
// statement from now on; it reports the status the coordinator received and whether the fault fired.
func (l *Lab) Rollback(xid string, bid int64, fail int) (status string, fired bool) {
	before := l.Srv.FaultsFired()
	if fail > 0 {
		l.Srv.AddFault(memsql.Fault{Nth: fail, SkipMeta: true})
	}
	st, ok := l.Coord.BranchRollback(l.Sess, xid, bid, branch.BranchTypeAT, l.RID, nil, 8*time.Second)
	l.Srv.ClearFaults()
	return StatusName(st, ok), l.Srv.FaultsFired() > before
}

// AutoCompatible reports whether the scenario's inserts can be expressed on the auto-increment schema
// (generated ids must equal the abstract keys).
func AutoCompatible(init []Row, branches [][]Stmt) bool {
	counter := 1
	for i, r := range init {
		if r.W >= 0 {
			counter = i + 2
		}
	}
	for _, b := range branches {
		for _, st := range b {
			if st.Kind == "ups" {
				return false
			}
			if st.Kind != "ins" {
				continue
			}
			ks := append([]int(nil), st.Keys...)
			sort.Ints(ks)
			for _, k := range ks {
				if k != counter {
					return false
				}
				counter++
			}
		}
	}
	return true
}
