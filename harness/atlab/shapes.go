package atlab

import (
	"fmt"
	"sort"
	"strings"
)

// Shapes of WHERE clauses (C18): every shape selects exactly the statement's key set.
var WhereShapes = []string{"eq", "in", "between", "paren", "andtrue", "orderlimit", "not", "cmp"}

// Places of bound parameters between SET/VALUES and WHERE.
var Places = []string{"bound", "literal", "setlit", "wherelit"}

// ShapeSQL renders an abstract statement with the given WHERE shape and parameter placement.
// Only for schemas with a single integer key column.
func (s *Schema) ShapeSQL(st Stmt, shape, place string) (string, []interface{}, bool) {
	if s.KeyKind != "int" {
		return "", nil, false
	}
	setLit := place == "literal" || place == "setlit"
	whereLit := place == "literal" || place == "wherelit"
	var sb strings.Builder
	var args []interface{}
	val := func(l bool, v interface{}) {
		if l {
			sb.WriteString(lit(v))
		} else {
			sb.WriteString("?")
			args = append(args, v)
		}
	}
	ks := append([]int(nil), st.Keys...)
	sort.Ints(ks)
	ids := make([]interface{}, len(ks))
	for i, k := range ks {
		ids[i] = int64(k)
	}
	none := []interface{}{int64(9998), int64(9999)}
	where := func() bool {
		w := func(v interface{}) { val(whereLit, v) }
		inForm := func() {
			vs := ids
			if len(vs) == 0 {
				vs = none
			}
			sb.WriteString("id IN (")
			for i, v := range vs {
				if i > 0 {
					sb.WriteString(", ")
				}
				w(v)
			}
			sb.WriteString(")")
		}
		switch shape {
		case "eq":
			if len(ids) == 0 {
				sb.WriteString("id = ")
				w(none[1])
				return true
			}
			for i, v := range ids {
				if i > 0 {
					sb.WriteString(" OR ")
				}
				sb.WriteString("id = ")
				w(v)
			}
		case "in":
			inForm()
		case "between":
			lo, hi := none[0], none[1]
			if len(ids) > 0 {
				lo, hi = ids[0], ids[len(ids)-1]
			}
			if len(ids) == 2 && ks[1]-ks[0] != 1 {
				return false
			}
			sb.WriteString("id BETWEEN ")
			w(lo)
			sb.WriteString(" AND ")
			w(hi)
		case "paren":
			if len(ids) == 0 {
				sb.WriteString("(id = ")
				w(none[1])
				sb.WriteString(")")
				return true
			}
			for i, v := range ids {
				if i > 0 {
					sb.WriteString(" OR ")
				}
				sb.WriteString("(id = ")
				w(v)
				sb.WriteString(")")
			}
		case "andtrue":
			inForm()
			sb.WriteString(" AND u1 >= ")
			w(int64(0))
		case "orderlimit":
			inForm()
			n := len(ids)
			if n == 0 {
				n = 1
			}
			sb.WriteString(fmt.Sprintf(" ORDER BY id LIMIT %d", n))
		case "not":
			if len(ids) == 0 {
				return false
			}
			sb.WriteString("NOT (")
			for i, v := range ids {
				if i > 0 {
					sb.WriteString(" AND ")
				}
				sb.WriteString("id <> ")
				w(v)
			}
			sb.WriteString(")")
			// NOT(id<>1 AND id<>2) == id=1 OR id=2
		case "cmp":
			lo, hi := none[0], none[1]
			if len(ids) > 0 {
				lo, hi = ids[0], ids[len(ids)-1]
			}
			if len(ids) == 2 && ks[1]-ks[0] != 1 {
				return false
			}
			sb.WriteString("id >= ")
			w(lo)
			sb.WriteString(" AND id <= ")
			w(hi)
		default:
			return false
		}
		return true
	}
	switch st.Kind {
	case "upd":
		sb.WriteString("UPDATE " + s.Name + " SET w1 = ")
		val(setLit, s.W1(st.W))
		sb.WriteString(", w2 = ")
		val(setLit, s.W2(st.W))
		sb.WriteString(" WHERE ")
		if !where() {
			return "", nil, false
		}
	case "del":
		sb.WriteString("DELETE FROM " + s.Name + " WHERE ")
		if !where() {
			return "", nil, false
		}
	case "ins", "ups":
		// VALUES lists: placement decides which columns are literals ("setlit": value columns literal,
		// key bound; "wherelit": key literal, value columns bound)
		if shape != "eq" { // VALUES has no WHERE: one shape only
			return "", nil, false
		}
		if s.Auto {
			return "", nil, false
		}
		cols := "id, w1, w2, u1"
		if s.Zoo {
			cols += ", z_txt"
		}
		sb.WriteString("INSERT INTO " + s.Name + " (" + cols + ") VALUES ")
		for i, k := range ks {
			if i > 0 {
				sb.WriteString(", ")
			}
			sb.WriteString("(")
			val(whereLit, int64(k))
			sb.WriteString(", ")
			val(setLit, s.W1(st.W))
			sb.WriteString(", ")
			val(setLit, s.W2(st.W))
			sb.WriteString(", ")
			val(setLit, s.U1(st.U))
			if s.Zoo {
				sb.WriteString(", ")
				val(setLit, s.ZTxt(k))
			}
			sb.WriteString(")")
		}
		if st.Kind == "ups" {
			sb.WriteString(" ON DUPLICATE KEY UPDATE w1 = VALUES(w1), w2 = VALUES(w2)")
		}
	default:
		return "", nil, false
	}
	return sb.String(), args, true
}
