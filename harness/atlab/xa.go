package atlab

import (
	"database/sql"
	"time"

	sqlpkg "seata.apache.org/seata-go/pkg/datasource/sql"
	"seata.apache.org/seata-go/pkg/protocol/message"

	"verif/harness/memsql"
	"verif/harness/tc"
)

// XAHoldForever is the largest duration: with it as xa_two_phase_hold_time the resource manager's
// background checker (which force-closes held connections once per second, on a wall-clock ticker)
// never fires, so that replays are deterministic.
const XAHoldForever = "2562047h47m16.854775807s"

// XAClientYaml is the client section that configures the XA resource manager for the labs.
const XAClientYaml = "    xa:\n      xa_two_phase_hold_time: " + XAHoldForever + "\n"

// XALab is one database behind the XA flavour of the proxy driver, plus the coordinator stand-in.
// Several XALabs (for example one per server version) share one coordinator: pass the first lab's
// Coord and Sess to the later ones.
type XALab struct {
	Srv     *memsql.Server
	DB      *sql.DB // XA proxy over memsql (the current "process")
	Coord   *tc.TC
	Sess    *tc.Session
	RID     string
	Version string
	DSN     string
	opened  int
}

// OpenXA initialises the client (once), a memsql server reporting the given MySQL version and the XA
// proxy over it.  The proxy reads the version when the sql.DB is opened: it must be set before.
func OpenXA(cfg tc.Config, host, version string, share *XALab) *XALab {
	if cfg.ClientExtra == "" {
		cfg.ClientExtra = XAClientYaml
	}
	tc.InitClient(cfg)
	l := &XALab{Version: version}
	if share != nil {
		l.Coord, l.Sess = share.Coord, share.Sess
	} else {
		l.Coord = tc.NewTC("10.0.0.1:8091")
		l.Sess = l.Coord.OpenSession("s1")
		waitFor(func() bool { return len(l.Coord.Log()) >= 1 }, time.Second)
	}
	l.Srv = memsql.NewServer(host)
	l.Srv.SetVersion(version)
	l.Srv.SetSeqSource(tc.NextSeq)
	l.Srv.SetLockWaitTimeout(400 * time.Millisecond)
	registerOnce.Do(func() {
		sqlpkg.VerifRegisterDrivers("seata-at-memsql", "seata-xa-memsql", memsql.Driver{})
	})
	l.DSN = l.Srv.DSN("testdb")
	l.DB = l.open()
	for _, r := range l.Coord.Log() {
		if req, ok := r.Body.(message.RegisterRMRequest); ok {
			l.RID = req.ResourceIds
		}
	}
	return l
}

func (l *XALab) open() *sql.DB {
	db, err := sql.Open("seata-xa-memsql", l.DSN)
	if err != nil {
		panic(err)
	}
	db.SetMaxIdleConns(2)
	l.opened++
	return db
}

// Restart simulates the death of the client process and the start of a new one on the same
// database: the server loses every connection of the old process (active and idle branches are
// rolled back, prepared ones survive detached), and a second sql.DB is opened on the same DSN - its
// resource replaces the old one in the resource manager and has never seen any branch.
func (l *XALab) Restart() {
	old := l.DB
	l.Srv.KillClientConns()
	l.DB = l.open()
	old.Close()
}

// Other opens a second sql.DB on the same DSN without disturbing the connections of the first: the
// resource manager now addresses a resource that never saw phase one, while the process that ran
// phase one is still alive and holds its connections.
func (l *XALab) Other() {
	l.DB = l.open()
}

// Recycle closes the pooled connections of the current sql.DB (client side) and every connection the
// server still has (server side), so that the next scenario starts with fresh connections.
func (l *XALab) Recycle() {
	l.DB.SetMaxIdleConns(0)
	l.DB.SetMaxIdleConns(2)
	l.Srv.KillClientConns()
}

// ResetXA empties the database, the journal and the coordinator's log.
func (l *XALab) ResetXA(ddl ...string) {
	l.Srv.Reset()
	l.Srv.SetSeqSource(tc.NextSeq)
	l.Srv.SetLockWaitTimeout(400 * time.Millisecond)
	for _, q := range ddl {
		l.Srv.MustExec(q)
	}
	l.Coord.ClearLog()
	l.Coord.ResetLocks()
}

// ConnsInXA counts the open connections that are in XA ACTIVE or IDLE state.
func (l *XALab) ConnsInXA() int {
	n := 0
	for _, c := range l.Srv.ConnStates() {
		if !c.Closed && (c.XA == "active" || c.XA == "idle") {
			n++
		}
	}
	return n
}
