// Package atlab is the AT-mode laboratory shared by the AT drivers: the proxy driver over memsql, the
// coordinator stand-in, a family of concrete schemas with a mapping between the abstract rows of the
// TLA+ specifications ([w, u] or Absent) and concrete column values, and builders that turn abstract
// statements into concrete SQL in several spellings.
package atlab

import (
	"fmt"
	"math/rand"
	"strings"
)

// Row is the abstract row of ATRollback.tla / ATPhaseOne.tla: the written part w, the unwritten part u.
// W = -1 is Absent; W = -2 marks a concrete row that is no image of any abstract row ("other").
type Row struct {
	W int `json:"w"`
	U int `json:"u"`
}

var Absent = Row{-1, -1}

// Stmt is an abstract statement.
type Stmt struct {
	Kind string `json:"kind"` // ins | upd | del | ups
	Keys []int  `json:"keys"`
	W    int    `json:"w"`
	U    int    `json:"u"`
}

// Schema is one member of the schema family.
type Schema struct {
	Name     string   // table name (unique per variant: the client caches table metadata per table name)
	DDL      string
	KeyCols  []string
	Auto     bool     // first key column is AUTO_INCREMENT
	Nullable bool     // w2 is NULL for w = 0
	NullOnly bool     // the written part lives in the nullable column alone: w1 stays 10 whatever w is
	W2Vals   []interface{} // with NullOnly: the value of w2 for w = 0, 1, 2 (default: NULL, "v1", "v2")
	Zoo      bool     // extra columns of many types with fixed per-key values
	Harsh    bool     // zoo with the value classes that have known defects (C08)
	KeyKind  string   // int | comp | str
}

// Family returns the schema family. Names are fixed so that a cached table definition never goes stale.
func Family() []*Schema {
	// t_zoo: many column types with values every serializer and the undo validation handle. The value classes
	// with known defects (DECIMAL, BIGINT beyond 2^53, FLOAT, binary, unsigned ...) are C08's business and are
	// kept out of the other properties' schema family on purpose (named switch: schema t_zooh, VERIF_ZOO_HARSH=1).
	zoo := `, z_dbl DOUBLE NOT NULL DEFAULT 2.25, z_big BIGINT NOT NULL DEFAULT 1234567890123,` +
		` z_ts DATETIME NOT NULL DEFAULT '2024-02-03 04:05:06', z_txt TEXT, z_tiny TINYINT NOT NULL DEFAULT 1`
	zooh := `, z_dec DECIMAL(10,2) NOT NULL DEFAULT 1.50, z_dbl DOUBLE NOT NULL DEFAULT 2.25, z_big BIGINT NOT NULL DEFAULT 9007199254740993,` +
		` z_ts DATETIME NOT NULL DEFAULT '2024-02-03 04:05:06', z_txt TEXT, z_tiny TINYINT NOT NULL DEFAULT 1`
	return []*Schema{
		{Name: "t_int", KeyKind: "int", KeyCols: []string{"id"},
			DDL: "CREATE TABLE t_int (id INT NOT NULL, w1 INT NOT NULL, w2 VARCHAR(64) NOT NULL, u1 INT NOT NULL DEFAULT 7, PRIMARY KEY (id))"},
		{Name: "t_null", KeyKind: "int", KeyCols: []string{"id"}, Nullable: true,
			DDL: "CREATE TABLE t_null (id BIGINT NOT NULL, w1 INT NOT NULL, w2 VARCHAR(64) NULL, u1 INT NOT NULL DEFAULT 7, PRIMARY KEY (id))"},
		{Name: "t_comp", KeyKind: "comp", KeyCols: []string{"id", "sub"},
			DDL: "CREATE TABLE t_comp (id INT NOT NULL, sub VARCHAR(16) NOT NULL, w1 INT NOT NULL, w2 VARCHAR(64) NOT NULL, u1 INT NOT NULL DEFAULT 7, PRIMARY KEY (id, sub))"},
		{Name: "t_str", KeyKind: "str", KeyCols: []string{"id"},
			DDL: "CREATE TABLE t_str (id VARCHAR(32) NOT NULL, w1 INT NOT NULL, w2 VARCHAR(64) NOT NULL, u1 INT NOT NULL DEFAULT 7, PRIMARY KEY (id))"},
		{Name: "t_auto", KeyKind: "int", KeyCols: []string{"id"}, Auto: true,
			DDL: "CREATE TABLE t_auto (id BIGINT NOT NULL AUTO_INCREMENT, w1 INT NOT NULL, w2 VARCHAR(64) NOT NULL, u1 INT NOT NULL DEFAULT 7, PRIMARY KEY (id))"},
		{Name: "t_zoo", KeyKind: "int", KeyCols: []string{"id"}, Zoo: true,
			DDL: "CREATE TABLE t_zoo (id INT NOT NULL, w1 INT NOT NULL, w2 VARCHAR(64) NOT NULL, u1 INT NOT NULL DEFAULT 7" + zoo + ", PRIMARY KEY (id))"},
		{Name: "t_zooh", KeyKind: "int", KeyCols: []string{"id"}, Zoo: true, Harsh: true,
			DDL: "CREATE TABLE t_zooh (id INT NOT NULL, w1 INT NOT NULL, w2 VARCHAR(64) NOT NULL, u1 INT NOT NULL DEFAULT 7" + zooh + ", PRIMARY KEY (id))"},
		// t_nullw (SCHEMA=t_nullw only, never in the rotation): a statement that writes w = 0 changes nothing but a
		// nullable column, and changes it to NULL
		{Name: "t_nullw", KeyKind: "int", KeyCols: []string{"id"}, Nullable: true, NullOnly: true,
			DDL: "CREATE TABLE t_nullw (id INT NOT NULL, w1 INT NOT NULL, w2 VARCHAR(64) NULL, u1 INT NOT NULL DEFAULT 7, PRIMARY KEY (id))"},
		// t_compc (SCHEMA=t_compc only): composite keys whose values concatenate to the same text ((1,"12") and (11,"2"))
		{Name: "t_compc", KeyKind: "compc", KeyCols: []string{"id", "sub"},
			DDL: "CREATE TABLE t_compc (id INT NOT NULL, sub VARCHAR(16) NOT NULL, w1 INT NOT NULL, w2 VARCHAR(64) NOT NULL, u1 INT NOT NULL DEFAULT 7, PRIMARY KEY (id, sub))"},
		// t_compr: a composite key declared in another order than the table's columns (PRIMARY KEY (id, sub) on a table
		// whose columns start sub, id): the key text of a row must not depend on which of the two orders a code path
		// happens to walk
		{Name: "t_compr", KeyKind: "compr", KeyCols: []string{"sub", "id"},
			DDL: "CREATE TABLE t_compr (sub VARCHAR(16) NOT NULL, id INT NOT NULL, w1 INT NOT NULL, w2 VARCHAR(64) NOT NULL, u1 INT NOT NULL DEFAULT 7, PRIMARY KEY (id, sub))"},
		// t_uq (SCHEMA=t_uq only): a secondary UNIQUE index on a nullable column. Key 1 is the row with id 1 and
		// code NULL, key 2 the row with code 'c2' (id 2 when seeded or inserted, id 102 when an upsert creates it):
		// an upsert of key 2 names id 102 and reaches the existing row through the unique index, not the primary key
		{Name: "t_uq", KeyKind: "uq", KeyCols: []string{"id"},
			DDL: "CREATE TABLE t_uq (id INT NOT NULL, code VARCHAR(16) NULL, w1 INT NOT NULL, w2 VARCHAR(64) NOT NULL, u1 INT NOT NULL DEFAULT 7, PRIMARY KEY (id), UNIQUE KEY uq_code (code))"},
		// t_numw (SCHEMA=t_numw only): the written part is a VARCHAR whose three values are different texts of the
		// same number (none of them is valid base64, which is C08's open finding F-C08-4)
		{Name: "t_numw", KeyKind: "int", KeyCols: []string{"id"}, NullOnly: true, W2Vals: []interface{}{"042", "42", "42.0"},
			DDL: "CREATE TABLE t_numw (id INT NOT NULL, w1 INT NOT NULL, w2 VARCHAR(64) NOT NULL, u1 INT NOT NULL DEFAULT 7, PRIMARY KEY (id))"},
	}
}

func ByName(name string) *Schema {
	for _, s := range Family() {
		if s.Name == name {
			return s
		}
	}
	return nil
}

// KeyVals returns the concrete key column values of abstract key k.
func (s *Schema) KeyVals(k int) []interface{} {
	switch s.KeyKind {
	case "comp":
		// all rows share the leading key column: a client that identifies rows by it alone confuses them
		return []interface{}{int64(5), fmt.Sprintf("s%d", k)}
	case "compr":
		return []interface{}{fmt.Sprintf("s%d", k), int64(5)}
	case "compc":
		if k == 1 {
			return []interface{}{int64(1), "12"}
		}
		return []interface{}{int64(11), fmt.Sprint(k)}
	case "str":
		// key texts that contain the separators of the lock-key grammar
		return []interface{}{[]string{"", "k_1", "k,2", "k:3", "k;4"}[k]}
	}
	return []interface{}{int64(k)}
}

// KeyText is the canonical text of key k as memsql's journal/snapshot spells it.
func (s *Schema) KeyText(k int) string {
	v := s.KeyVals(k)
	parts := make([]string, len(v))
	for i, x := range v {
		parts[i] = fmt.Sprint(x)
	}
	return strings.Join(parts, "_")
}

func (s *Schema) W1(w int) int64 {
	if s.NullOnly {
		return 10
	}
	return int64(10 + w)
}

// WOf is the inverse of (W1, W2): the abstract written part of concrete values, -2 if they are no image
func (s *Schema) WOf(w1 int64, w2 interface{}, hasW2 bool) int {
	if s.NullOnly {
		if w1 != 10 || !hasW2 {
			return -2
		}
		for w := 0; w <= 9; w++ {
			if w2 == s.W2(w) {
				return w
			}
		}
		return -2
	}
	w := int(w1 - 10)
	if w < 0 || w > 9 {
		return -2
	}
	want := s.W2(w)
	if !hasW2 || (want == nil) != (w2 == nil) || (want != nil && w2 != want) {
		return -2
	}
	return w
}
func (s *Schema) W2(w int) interface{} {
	if s.W2Vals != nil && w >= 0 && w < len(s.W2Vals) {
		return s.W2Vals[w]
	}
	if s.Nullable && w == 0 {
		return nil
	}
	return fmt.Sprintf("v%d", w)
}
func (s *Schema) U1(u int) int64 { return int64(7 + u) }

// ZTxt is the TEXT value every row of key k of a zoo schema carries: texts of different lengths per key, so
// that a value leaking from one row of an image into the next (shared scan buffers) is no row's value.
func (s *Schema) ZTxt(k int) string {
	switch k {
	case 1:
		return "alpha-beta-gamma-delta-epsilon"
	case 2:
		return "mu"
	}
	return fmt.Sprintf("text-of-key-%d", k)
}

// ToAbstract maps a concrete snapshot row to the abstract row; "other" (W=-2) if it is no image.
func (s *Schema) ToAbstract(row map[string]interface{}) Row {
	w1, ok1 := row["w1"].(int64)
	u1, ok2 := row["u1"].(int64)
	if !ok1 || !ok2 {
		return Row{-2, -2}
	}
	u := int(u1 - 7)
	got, has := row["w2"]
	w := s.WOf(w1, got, has)
	if w < 0 || u < 0 || u > 9 {
		return Row{-2, -2}
	}
	if s.Zoo {
		big := "1234567890123"
		if s.Harsh {
			big = "9007199254740993"
			if fmt.Sprint(row["z_dec"]) != "1.50" {
				return Row{-2, -2}
			}
		}
		if fmt.Sprint(row["z_big"]) != big || fmt.Sprint(row["z_tiny"]) != "1" || fmt.Sprint(row["z_dbl"]) != "2.25" ||
			!strings.HasPrefix(fmt.Sprint(row["z_ts"]), "2024-02-03 04:05:06") || fmt.Sprint(row["z_txt"]) != s.ZTxt(s.KeyOf(row, 9)) {
			return Row{-2, -2}
		}
	}
	return Row{w, u}
}

// KeyOf finds the abstract key of a concrete snapshot row (0 if none of 1..nkeys).
func (s *Schema) KeyOf(row map[string]interface{}, nkeys int) int {
	if s.KeyKind == "uq" {
		switch fmt.Sprint(row["id"]) {
		case "1":
			return 1
		case "2", "102":
			return 2
		}
		return 0
	}
	for k := 1; k <= nkeys; k++ {
		kv := s.KeyVals(k)
		match := true
		for i, c := range s.KeyCols {
			if fmt.Sprint(row[c]) != fmt.Sprint(kv[i]) {
				match = false
			}
		}
		if match {
			return k
		}
	}
	return 0
}

// Style chooses among equivalent spellings of a statement.
type Style struct {
	Literal  bool // literals instead of bound parameters
	InList   bool // IN (...) instead of OR-ed equalities for several keys
	Explicit bool // run the branch in an explicit transaction (BeginTx/Commit) even for one statement
	Upper    bool // upper-case table name
	Multi    bool // UPDATE / DELETE of several rows as one multi-statement string ("UPDATE ..; UPDATE ..")
	// NoWhereFirst (with Multi): a DELETE of all rows (2 keys = the whole table in the labs) is spelt
	// "DELETE FROM t; DELETE FROM t WHERE <last key>" - the first statement has no WHERE clause
	NoWhereFirst bool
	// RefuseReports: the coordinator does not take the status report of a late phase one (every attempt fails)
	RefuseReports bool
	// PkLate: INSERT lists a numeric column, written as a literal, before the primary key column
	// ("INSERT INTO t (w1, id, w2, u1) VALUES (11, ?, ?, ?)")
	PkLate bool
	// FailFirst: in an explicit local transaction the application first runs an UPDATE of an existing row that
	// the database fails, handles the error and carries on (MySQL rolls back the statement, not the transaction)
	FailFirst bool
	// FailIns (with FailFirst): the statement that fails is an INSERT of a key that exists (a duplicate-key error
	// the database raises by itself), not an UPDATE hit by an injected fault
	FailIns bool
	// switches that steer around statement forms with known phase-one defects (reported under C16/C18),
	// so that they do not mask everything downstream of phase one
	// OmitU: INSERT does not name the column the statements never write (u1); it gets its DEFAULT, which is the
	// value the abstract insert gives it (u = 0).  The after image must still speak about the whole row.
	OmitU      bool
	Parens     bool // parenthesised key conditions (WHERE (a = ? AND b = ?)): image query loses its arguments
	LitStrKeys bool // string literals in WHERE: the image query is rebuilt without the quotes
}

// IsMulti: the statement is rendered as a multi-statement string under this style
func (st Style) IsMulti(s Stmt) bool {
	return st.Multi && (s.Kind == "upd" || s.Kind == "del") && len(s.Keys) >= 2
}

func RandStyle(r *rand.Rand) Style {
	return Style{Literal: r.Intn(3) == 0, InList: r.Intn(2) == 0, Explicit: r.Intn(3) == 0, Upper: false, Multi: r.Intn(4) == 0, FailFirst: r.Intn(4) == 0, NoWhereFirst: r.Intn(2) == 0, RefuseReports: r.Intn(2) == 0, PkLate: r.Intn(3) == 0, OmitU: r.Intn(3) == 0, FailIns: r.Intn(2) == 0}
}

func lit(v interface{}) string {
	switch x := v.(type) {
	case nil:
		return "NULL"
	case string:
		return "'" + strings.ReplaceAll(x, "'", "''") + "'"
	default:
		return fmt.Sprint(x)
	}
}

type sqlb struct {
	sb   strings.Builder
	args []interface{}
	lit  bool
}

func (b *sqlb) val(v interface{}) {
	if b.lit {
		b.sb.WriteString(lit(v))
		return
	}
	b.sb.WriteString("?")
	b.args = append(b.args, v)
}

func (s *Schema) keyCond(b *sqlb, keys []int, st Style) {
	if s.KeyKind != "int" && !st.LitStrKeys && b.lit {
		// bind the key values, keep literals elsewhere
		b.lit = false
		defer func() { b.lit = true }()
	}
	if len(keys) == 0 {
		// matches nothing
		b.sb.WriteString(s.KeyCols[0] + " = ")
		if s.KeyKind == "str" || s.KeyKind == "compr" {
			b.val("nokey")
		} else {
			b.val(int64(9999))
		}
		return
	}
	if len(s.KeyCols) == 1 && (st.InList || len(keys) == 1) {
		if len(keys) == 1 {
			b.sb.WriteString(s.KeyCols[0] + " = ")
			b.val(s.KeyVals(keys[0])[0])
			return
		}
		b.sb.WriteString(s.KeyCols[0] + " IN (")
		for i, k := range keys {
			if i > 0 {
				b.sb.WriteString(", ")
			}
			b.val(s.KeyVals(k)[0])
		}
		b.sb.WriteString(")")
		return
	}
	for i, k := range keys {
		if i > 0 {
			b.sb.WriteString(" OR ")
		}
		kv := s.KeyVals(k)
		if len(s.KeyCols) > 1 && st.Parens {
			b.sb.WriteString("(")
		}
		for j, c := range s.KeyCols {
			if j > 0 {
				b.sb.WriteString(" AND ")
			}
			b.sb.WriteString(c + " = ")
			b.val(kv[j])
		}
		if len(s.KeyCols) > 1 && st.Parens {
			b.sb.WriteString(")")
		}
	}
}

// SQL renders an abstract statement.
func (s *Schema) SQL(st Stmt, style Style) (string, []interface{}) {
	if style.IsMulti(st) {
		// one single-row statement per key, joined into one string
		one := style
		one.Multi = false
		var qs []string
		var args []interface{}
		if style.NoWhereFirst && st.Kind == "del" && len(st.Keys) == 2 {
			tbl := s.Name
			if style.Upper {
				tbl = strings.ToUpper(tbl)
			}
			q, a := s.SQL(Stmt{Kind: "del", Keys: st.Keys[1:], W: st.W, U: st.U}, one)
			return "DELETE FROM " + tbl + "; " + q, a
		}
		for _, k := range st.Keys {
			q, a := s.SQL(Stmt{Kind: st.Kind, Keys: []int{k}, W: st.W, U: st.U}, one)
			qs = append(qs, q)
			args = append(args, a...)
		}
		return strings.Join(qs, "; "), args
	}
	b := &sqlb{lit: style.Literal}
	tbl := s.Name
	if style.Upper {
		tbl = strings.ToUpper(tbl)
	}
	switch st.Kind {
	case "upd":
		b.sb.WriteString("UPDATE " + tbl + " SET w1 = ")
		b.val(s.W1(st.W))
		b.sb.WriteString(", w2 = ")
		b.val(s.W2(st.W))
		b.sb.WriteString(" WHERE ")
		s.keyCond(b, st.Keys, style)
	case "del":
		b.sb.WriteString("DELETE FROM " + tbl + " WHERE ")
		s.keyCond(b, st.Keys, style)
	case "ins", "ups":
		if s.KeyKind == "uq" {
			b.sb.WriteString("INSERT INTO " + tbl + " (id, code, w1, w2, u1) VALUES ")
			for i, k := range st.Keys {
				if i > 0 {
					b.sb.WriteString(", ")
				}
				id, code := int64(k), interface{}(nil)
				if k == 2 {
					code = "c2"
					if st.Kind == "ups" {
						id = 102
					}
				}
				b.sb.WriteString("(")
				b.val(id)
				b.sb.WriteString(", ")
				b.val(code)
				b.sb.WriteString(", ")
				b.val(s.W1(st.W))
				b.sb.WriteString(", ")
				b.val(s.W2(st.W))
				b.sb.WriteString(", ")
				b.val(s.U1(st.U))
				b.sb.WriteString(")")
			}
			if st.Kind == "ups" {
				b.sb.WriteString(" ON DUPLICATE KEY UPDATE w1 = VALUES(w1), w2 = VALUES(w2)")
			}
			break
		}
		if style.PkLate && s.KeyKind == "int" && len(s.KeyCols) == 1 && !s.Auto {
			cols := []string{"w1", s.KeyCols[0], "w2", "u1"}
			if s.Zoo {
				cols = append(cols, "z_txt")
			}
			b.sb.WriteString("INSERT INTO " + tbl + " (" + strings.Join(cols, ", ") + ") VALUES ")
			for i, k := range st.Keys {
				if i > 0 {
					b.sb.WriteString(", ")
				}
				if i%2 == 1 {
					// rows differ in which values before the key are literals: the position of the key among the
					// bound arguments has to be worked out row by row
					b.sb.WriteString("(")
					b.val(s.W1(st.W))
					b.sb.WriteString(", ")
				} else {
					b.sb.WriteString("(" + fmt.Sprint(s.W1(st.W)) + ", ")
				}
				b.val(s.KeyVals(k)[0])
				b.sb.WriteString(", ")
				b.val(s.W2(st.W))
				b.sb.WriteString(", ")
				b.val(s.U1(st.U))
				if s.Zoo {
					b.sb.WriteString(", ")
					b.val(s.ZTxt(k))
				}
				b.sb.WriteString(")")
			}
			if st.Kind == "ups" {
				b.sb.WriteString(" ON DUPLICATE KEY UPDATE w1 = VALUES(w1), w2 = VALUES(w2)")
			}
			break
		}
		cols := append([]string{}, s.KeyCols...)
		auto := s.Auto && st.Kind == "ins"
		if auto {
			cols = cols[1:]
		}
		omitU := style.OmitU && st.U == 0
		cols = append(cols, "w1", "w2")
		if !omitU {
			cols = append(cols, "u1")
		}
		if s.Zoo {
			cols = append(cols, "z_txt")
		}
		b.sb.WriteString("INSERT INTO " + tbl + " (" + strings.Join(cols, ", ") + ") VALUES ")
		for i, k := range st.Keys {
			if i > 0 {
				b.sb.WriteString(", ")
			}
			b.sb.WriteString("(")
			kv := s.KeyVals(k)
			if auto {
				kv = kv[1:]
			}
			for _, v := range kv {
				b.val(v)
				b.sb.WriteString(", ")
			}
			b.val(s.W1(st.W))
			b.sb.WriteString(", ")
			b.val(s.W2(st.W))
			if !omitU {
				b.sb.WriteString(", ")
				b.val(s.U1(st.U))
			}
			if s.Zoo {
				b.sb.WriteString(", ")
				b.val(s.ZTxt(k))
			}
			b.sb.WriteString(")")
		}
		if st.Kind == "ups" {
			b.sb.WriteString(" ON DUPLICATE KEY UPDATE w1 = VALUES(w1), w2 = VALUES(w2)")
		}
	}
	return b.sb.String(), b.args
}

// SelectForUpdateSQL: a locking read of the given keys (bound parameters)
func (s *Schema) SelectForUpdateSQL(keys []int) (string, []interface{}) {
	b := &sqlb{}
	b.sb.WriteString("SELECT * FROM " + s.Name + " WHERE ")
	s.keyCond(b, keys, Style{})
	b.sb.WriteString(" FOR UPDATE")
	return b.sb.String(), b.args
}

// RowSQL is the admin-path statement that puts abstract row r at key k (used for initial contents and
// for the foreign writer).
func (s *Schema) RowSQL(k int, r Row) []string {
	b := &sqlb{lit: true}
	b.sb.WriteString("DELETE FROM " + s.Name + " WHERE ")
	s.keyCond(b, []int{k}, Style{Literal: true, LitStrKeys: true})
	out := []string{b.sb.String()}
	if r.W >= 0 {
		kind := "ups"
		if s.KeyKind == "uq" {
			kind = "ins" // seeded rows carry their own id (an upsert of key 2 would name id 102)
		}
		sql, _ := s.SQL(Stmt{Kind: kind, Keys: []int{k}, W: r.W, U: r.U}, Style{Literal: true, LitStrKeys: true})
		sql = strings.Replace(sql, " ON DUPLICATE KEY UPDATE w1 = VALUES(w1), w2 = VALUES(w2)", "", 1)
		out = append(out, sql)
	}
	return out
}
