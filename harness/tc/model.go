package tc

import (
	"fmt"
	"strings"
	"sync"
	"time"

	"seata.apache.org/seata-go/pkg/protocol/branch"
	"seata.apache.org/seata-go/pkg/protocol/message"
	serrors "seata.apache.org/seata-go/pkg/util/errors"
)

// Reply is the coordinator's reaction to one client request.
type Reply struct {
	Body     interface{}   // response body; nil = no reply at all (the client will time out after 20 s)
	NetErr   error         // non-nil: the write fails, the client sees a transport error immediately
	Delay    time.Duration // deliver the reply after this delay
	Before   func()        // runs on the replying goroutine before the reply is delivered
	Twice    bool          // deliver the reply twice
	HoldBack chan struct{} // if non-nil the reply is delivered when the channel is closed
}

// Record is one entry of the coordinator's log.
type Record struct {
	Seq     int64
	Dir     string // "in" (client -> TC) | "out" (TC -> client)
	Kind    string // GlobalBegin, GlobalCommit, GlobalRollback, BranchRegister, BranchReport, LockQuery, RegisterTM, RegisterRM, Heartbeat, BranchCommitResult, BranchRollbackResult, ...
	ID      int32
	Session string
	Body    interface{}
	Note    string
}

// TC is a scriptable model coordinator on top of fake sessions.
type TC struct {
	mu       sync.Mutex
	Sessions []*Session
	log      []Record
	nextXid  int64
	nextBid  int64
	nextID   int32
	Addr     string
	locks    map[string]string // resource^table:pk -> xid
	waiters  map[int32]chan message.RpcMessage
	// Script, if set, is consulted first for every client request (under no lock).  Returning
	// ok=false falls through to the model behaviour.
	Script func(kind string, m Msg) (Reply, bool)
	// Observe is called for every record appended to the log (under the TC mutex; keep it short).
	Observe func(r Record)
}

func NewTC(addr string) *TC {
	return &TC{Addr: addr, locks: map[string]string{}, waiters: map[int32]chan message.RpcMessage{}, nextID: 1 << 20, nextBid: 1000}
}

func Kind(body interface{}) string {
	switch body.(type) {
	case message.GlobalBeginRequest:
		return "GlobalBegin"
	case message.GlobalCommitRequest:
		return "GlobalCommit"
	case message.GlobalRollbackRequest:
		return "GlobalRollback"
	case message.GlobalStatusRequest:
		return "GlobalStatus"
	case message.GlobalReportRequest:
		return "GlobalReport"
	case message.BranchRegisterRequest:
		return "BranchRegister"
	case message.BranchReportRequest:
		return "BranchReport"
	case message.GlobalLockQueryRequest:
		return "LockQuery"
	case message.RegisterTMRequest:
		return "RegisterTM"
	case message.RegisterRMRequest:
		return "RegisterRM"
	case message.HeartBeatMessage:
		return "Heartbeat"
	case message.BranchCommitResponse:
		return "BranchCommitResult"
	case message.BranchRollbackResponse:
		return "BranchRollbackResult"
	case message.BranchCommitRequest:
		return "BranchCommit"
	case message.BranchRollbackRequest:
		return "BranchRollback"
	case message.UndoLogDeleteRequest:
		return "UndoLogDelete"
	}
	return fmt.Sprintf("%T", body)
}

// NewSession creates a session attached to this coordinator and opens it on the client.
func (t *TC) NewSession(name string) *Session {
	s := NewSession(name, t.Addr)
	s.SetOnWrite(t.onWrite)
	t.mu.Lock()
	t.Sessions = append(t.Sessions, s)
	t.mu.Unlock()
	return s
}

func (t *TC) OpenSession(name string) *Session {
	s := t.NewSession(name)
	if err := s.Open(); err != nil {
		panic(err)
	}
	return s
}

func (t *TC) record(r Record) {
	t.mu.Lock()
	t.log = append(t.log, r)
	if t.Observe != nil {
		t.Observe(r)
	}
	t.mu.Unlock()
}

func (t *TC) Log() []Record {
	t.mu.Lock()
	defer t.mu.Unlock()
	return append([]Record(nil), t.log...)
}

func (t *TC) ClearLog() {
	t.mu.Lock()
	t.log = nil
	t.mu.Unlock()
}

func (t *TC) ResetLocks() {
	t.mu.Lock()
	t.locks = map[string]string{}
	t.mu.Unlock()
}

// onWrite runs inside the client's WritePkg.
func (t *TC) onWrite(m Msg) error {
	kind := Kind(m.Rpc.Body)
	if m.Rpc.Type == message.GettyRequestTypeResponse {
		// a reply of the client to a coordinator request
		t.record(Record{Seq: m.Seq, Dir: "in", Kind: kind, ID: m.Rpc.ID, Session: m.Session.Name, Body: m.Rpc.Body})
		t.mu.Lock()
		w := t.waiters[m.Rpc.ID]
		t.mu.Unlock()
		if w != nil {
			select {
			case w <- m.Rpc:
			default:
			}
		}
		return nil
	}
	var rep Reply
	ok := false
	if t.Script != nil {
		rep, ok = t.Script(kind, m)
	}
	if !ok {
		rep = t.Model(kind, m)
	}
	if rep.NetErr != nil {
		t.record(Record{Seq: m.Seq, Dir: "in", Kind: kind, ID: m.Rpc.ID, Session: m.Session.Name, Body: m.Rpc.Body, Note: "neterr"})
		return rep.NetErr
	}
	t.record(Record{Seq: m.Seq, Dir: "in", Kind: kind, ID: m.Rpc.ID, Session: m.Session.Name, Body: m.Rpc.Body})
	if rep.Body == nil && rep.Before == nil {
		return nil
	}
	go func() {
		if rep.HoldBack != nil {
			<-rep.HoldBack
		}
		if rep.Delay > 0 {
			time.Sleep(rep.Delay)
		}
		if rep.Before != nil {
			rep.Before()
		}
		if rep.Body == nil {
			return
		}
		out := message.RpcMessage{ID: m.Rpc.ID, Type: message.GettyRequestTypeResponse, Codec: m.Rpc.Codec, Body: rep.Body}
		t.record(Record{Seq: NextSeq(), Dir: "out", Kind: Kind(rep.Body), ID: m.Rpc.ID, Session: m.Session.Name, Body: rep.Body})
		m.Session.Deliver(out)
		if rep.Twice {
			m.Session.Deliver(out)
		}
	}()
	return nil
}

func okResult() message.AbstractResultMessage {
	return message.AbstractResultMessage{ResultCode: message.ResultCodeSuccess}
}

func FailResult(msg string) message.AbstractResultMessage {
	return message.AbstractResultMessage{ResultCode: message.ResultCodeFailed, Msg: msg}
}

// LockKeys parses "table:pk1,pk2;table2:pk" into canonical "table:pk" strings.
func LockKeys(lockKey string) []string {
	var out []string
	for _, part := range strings.Split(lockKey, ";") {
		part = strings.TrimSpace(part)
		if part == "" {
			continue
		}
		i := strings.Index(part, ":")
		if i < 0 {
			out = append(out, part)
			continue
		}
		tbl := part[:i]
		for _, pk := range strings.Split(part[i+1:], ",") {
			out = append(out, tbl+":"+pk)
		}
	}
	return out
}

// Model is the default behaviour of a healthy coordinator.
func (t *TC) Model(kind string, m Msg) Reply {
	switch req := m.Rpc.Body.(type) {
	case message.GlobalBeginRequest:
		t.mu.Lock()
		t.nextXid++
		xid := fmt.Sprintf("%s:%d", t.Addr, 2000+t.nextXid)
		t.mu.Unlock()
		return Reply{Body: message.GlobalBeginResponse{AbstractTransactionResponse: message.AbstractTransactionResponse{AbstractResultMessage: okResult()}, Xid: xid}}
	case message.GlobalCommitRequest:
		t.releaseLocks(req.Xid)
		return Reply{Body: message.GlobalCommitResponse{AbstractGlobalEndResponse: message.AbstractGlobalEndResponse{
			AbstractTransactionResponse: message.AbstractTransactionResponse{AbstractResultMessage: okResult()}, GlobalStatus: message.GlobalStatusCommitted}}}
	case message.GlobalRollbackRequest:
		return Reply{Body: message.GlobalRollbackResponse{AbstractGlobalEndResponse: message.AbstractGlobalEndResponse{
			AbstractTransactionResponse: message.AbstractTransactionResponse{AbstractResultMessage: okResult()}, GlobalStatus: message.GlobalStatusRollbacked}}}
	case message.BranchRegisterRequest:
		keys := LockKeys(req.LockKey)
		t.mu.Lock()
		for _, k := range keys {
			if owner, held := t.locks[req.ResourceId+"^"+k]; held && owner != req.Xid {
				t.mu.Unlock()
				return Reply{Body: message.BranchRegisterResponse{AbstractTransactionResponse: message.AbstractTransactionResponse{
					AbstractResultMessage: FailResult("LockKeyConflict: " + k + " held by " + owner), TransactionErrorCode: serrors.TransactionErrorCodeLockKeyConflict}}}
			}
		}
		for _, k := range keys {
			t.locks[req.ResourceId+"^"+k] = req.Xid
		}
		t.nextBid++
		bid := t.nextBid
		t.mu.Unlock()
		return Reply{Body: message.BranchRegisterResponse{AbstractTransactionResponse: message.AbstractTransactionResponse{AbstractResultMessage: okResult()}, BranchId: bid}}
	case message.BranchReportRequest:
		return Reply{Body: message.BranchReportResponse{AbstractTransactionResponse: message.AbstractTransactionResponse{AbstractResultMessage: okResult()}}}
	case message.GlobalLockQueryRequest:
		keys := LockKeys(req.LockKey)
		lockable := true
		t.mu.Lock()
		for _, k := range keys {
			if owner, held := t.locks[req.ResourceId+"^"+k]; held && owner != req.Xid {
				lockable = false
			}
		}
		t.mu.Unlock()
		return Reply{Body: message.GlobalLockQueryResponse{AbstractTransactionResponse: message.AbstractTransactionResponse{AbstractResultMessage: okResult()}, Lockable: lockable}}
	case message.RegisterRMRequest:
		return Reply{Body: message.RegisterRMResponse{AbstractIdentifyResponse: message.AbstractIdentifyResponse{AbstractResultMessage: okResult(), Version: "1.5.2", Identified: true}}}
	case message.RegisterTMRequest:
		return Reply{Body: message.RegisterTMResponse{AbstractIdentifyResponse: message.AbstractIdentifyResponse{AbstractResultMessage: okResult(), Version: "1.5.2", Identified: true}}}
	case message.HeartBeatMessage:
		return Reply{}
	}
	return Reply{}
}

func (t *TC) releaseLocks(xid string) {
	t.mu.Lock()
	for k, v := range t.locks {
		if v == xid {
			delete(t.locks, k)
		}
	}
	t.mu.Unlock()
}

// ReleaseLocks drops the global locks of xid (what the coordinator does when a global transaction ends).
func (t *TC) ReleaseLocks(xid string) { t.releaseLocks(xid) }

// Locks returns a copy of the lock table.
func (t *TC) Locks() map[string]string {
	t.mu.Lock()
	defer t.mu.Unlock()
	out := map[string]string{}
	for k, v := range t.locks {
		out[k] = v
	}
	return out
}

// NextID allocates a message id for a coordinator-originated request.
func (t *TC) NextID() int32 {
	t.mu.Lock()
	defer t.mu.Unlock()
	t.nextID++
	return t.nextID
}

// Request sends a coordinator-originated request (phase two) over s through the client's real
// dispatch and waits for the client's response with the same message id.  A nil response with
// ok=false means the client did not answer within the timeout.
func (t *TC) Request(s *Session, id int32, body interface{}, timeout time.Duration) (resp message.RpcMessage, ok bool) {
	ch := make(chan message.RpcMessage, 4)
	t.mu.Lock()
	t.waiters[id] = ch
	t.mu.Unlock()
	defer func() {
		t.mu.Lock()
		delete(t.waiters, id)
		t.mu.Unlock()
	}()
	t.record(Record{Seq: NextSeq(), Dir: "out", Kind: Kind(body), ID: id, Session: s.Name, Body: body})
	done := make(chan struct{})
	go func() {
		defer close(done)
		defer func() {
			if p := recover(); p != nil {
				t.record(Record{Seq: NextSeq(), Dir: "in", Kind: "PANIC", ID: id, Session: s.Name, Note: fmt.Sprint(p)})
			}
		}()
		s.Deliver(message.RpcMessage{ID: id, Type: message.GettyRequestTypeRequestSync, Codec: 1, Body: body})
	}()
	select {
	case r := <-ch:
		return r, true
	case <-done:
		// the client's dispatch is synchronous: once it has returned, a response has either been
		// written already or will never be
		select {
		case r := <-ch:
			return r, true
		default:
			return message.RpcMessage{}, false
		}
	case <-time.After(timeout):
		return message.RpcMessage{}, false
	}
}

func EndReq(xid string, bid int64, bt branch.BranchType, rid string, data []byte) message.AbstractBranchEndRequest {
	return message.AbstractBranchEndRequest{Xid: xid, BranchId: bid, BranchType: bt, ResourceId: rid, ApplicationData: data}
}

// BranchRollback delivers a BranchRollbackRequest and returns the reported status (ok=false: no reply).
func (t *TC) BranchRollback(s *Session, xid string, bid int64, bt branch.BranchType, rid string, data []byte, timeout time.Duration) (branch.BranchStatus, bool) {
	r, ok := t.Request(s, t.NextID(), message.BranchRollbackRequest{AbstractBranchEndRequest: EndReq(xid, bid, bt, rid, data)}, timeout)
	if !ok {
		return 0, false
	}
	if resp, is := r.Body.(message.BranchRollbackResponse); is {
		return resp.BranchStatus, true
	}
	return 0, false
}

// BranchCommit delivers a BranchCommitRequest and returns the reported status (ok=false: no reply).
func (t *TC) BranchCommit(s *Session, xid string, bid int64, bt branch.BranchType, rid string, data []byte, timeout time.Duration) (branch.BranchStatus, bool) {
	r, ok := t.Request(s, t.NextID(), message.BranchCommitRequest{AbstractBranchEndRequest: EndReq(xid, bid, bt, rid, data)}, timeout)
	if !ok {
		return 0, false
	}
	if resp, is := r.Body.(message.BranchCommitResponse); is {
		return resp.BranchStatus, true
	}
	return 0, false
}
