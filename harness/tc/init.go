package tc

import (
	"fmt"
	"os"
	"path/filepath"
	"sync"

	"seata.apache.org/seata-go/pkg/client"
	"seata.apache.org/seata-go/pkg/util/log"
)

// Config is the part of the client configuration the drivers vary.  Everything else keeps the
// flag defaults, which is what an application that ships only these keys would get.
type Config struct {
	LoadBalance       string // getty.load-balance-type: XID | RandomLoadBalance | RoundRobinLoadBalance | ConsistentHashLoadBalance | LeastActiveLoadBalance
	CommitRetry       int
	RollbackRetry     int
	Serialization     string // undo log-serialization: json | protobuf
	CompressType      string // undo compress type
	CompressEnable    bool
	CompressThreshold string
	DataValidation    bool
	OnlyCareUpdate    bool
	ReportRetry       int
	ReportSuccess     bool
	LockRetryInterval string
	LockRetryTimes    int
	AsyncBufferLimit  int
	AsyncInterval     string // async-worker commit-queue interval? (see yaml below)
	AsyncWorkerCount  int
	AsyncBufferSize   int
	AsyncQueueSize    int
	FenceTable        string
	Extra             string // raw yaml appended under "seata:"
	ClientExtra       string // raw yaml appended under "seata: client:" (4 spaces of indentation), e.g. the xa section
}

func DefaultConfig() Config {
	return Config{LoadBalance: "XID", CommitRetry: 3, RollbackRetry: 3, Serialization: "json", CompressType: "None",
		CompressEnable: false, CompressThreshold: "64k", DataValidation: true, OnlyCareUpdate: true, ReportRetry: 5,
		LockRetryInterval: "10ms", LockRetryTimes: 2, FenceTable: "tcc_fence_log"}
}

var initOnce sync.Once

type nopLogger struct{}

func (nopLogger) Debug(v ...interface{})                 {}
func (nopLogger) Debugf(format string, v ...interface{}) {}
func (nopLogger) Info(v ...interface{})                  {}
func (nopLogger) Infof(format string, v ...interface{})  {}
func (nopLogger) Warn(v ...interface{})                  {}
func (nopLogger) Warnf(format string, v ...interface{})  {}
func (nopLogger) Error(v ...interface{})                 {}
func (nopLogger) Errorf(format string, v ...interface{}) {}
func (nopLogger) Panic(v ...interface{})                 {}
func (nopLogger) Panicf(format string, v ...interface{}) {}
func (nopLogger) Fatal(v ...interface{})                 {}
func (nopLogger) Fatalf(format string, v ...interface{}) {}

// Quiet replaces the client's logger by a discarding one (unless VERIF_LOG is set).
func Quiet() {
	if os.Getenv("VERIF_LOG") == "" {
		log.SetLogger(nopLogger{})
	}
}

func b(v bool) string {
	if v {
		return "true"
	}
	return "false"
}

// InitClient initialises the seata client the documented way (client.InitPath on a yaml file), once
// per process, with a file registry whose group list is empty so that no TCP client is started: the
// only sessions are the fake ones opened by the driver.
func InitClient(c Config) {
	initOnce.Do(func() {
		dir, err := os.MkdirTemp("", "verif-seata-conf")
		if err != nil {
			panic(err)
		}
		defer os.RemoveAll(dir)
		yaml := fmt.Sprintf(`seata:
  enabled: true
  application-id: verif-app
  tx-service-group: default_tx_group
  client:
    rm:
      async-commit-buffer-limit: 10000
      report-retry-count: %d
      report-success-enable: %s
      lock:
        retry-interval: %s
        retry-times: %d
        retry-policy-branch-rollback-on-conflict: true
    tm:
      commit-retry-count: %d
      rollback-retry-count: %d
      default-global-transaction-timeout: 60s
    undo:
      data-validation: %s
      log-serialization: %s
      log-table: undo_log
      only-care-update-columns: %s
      compress:
        enable: %s
        type: %s
        threshold: %s
%s  service:
    vgroup-mapping:
      default_tx_group: default
    grouplist:
      default: ""
  registry:
    type: file
  tcc:
    fence:
      log-table-name: %s
      clean-period: 60s
  getty:
    reconnect-interval: 0
    connection-num: 1
    load-balance-type: %s
%s`, c.ReportRetry, b(c.ReportSuccess), c.LockRetryInterval, c.LockRetryTimes, c.CommitRetry, c.RollbackRetry,
			b(c.DataValidation), c.Serialization, b(c.OnlyCareUpdate), b(c.CompressEnable), c.CompressType,
			c.CompressThreshold, c.ClientExtra, c.FenceTable, c.LoadBalance, c.Extra)
		path := filepath.Join(dir, "seatago.yml")
		if err := os.WriteFile(path, []byte(yaml), 0o644); err != nil {
			panic(err)
		}
		client.InitPath(path)
		Quiet()
	})
}
