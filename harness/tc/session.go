// Package tc is the in-process coordinator (TC) stand-in.
//
// It needs no seam in the client: a fake getty.Session is registered with the client's real session
// manager through the public event-listener entry point (OnOpen), so every request the client sends
// travels through the real GettyRemotingClient / GettyRemoting / session selection / futures table
// and arrives at Session.WritePkg; replies and coordinator-initiated requests are delivered through
// the real OnMessage dispatch (listener -> processors -> resource managers).  Only the TCP transport
// and the byte codec are bypassed (they are C12/C13's business).
package tc

import (
	"fmt"
	"sync"
	"sync/atomic"
	"time"

	getty "github.com/apache/dubbo-getty"

	"seata.apache.org/seata-go/pkg/protocol/message"
	sgetty "seata.apache.org/seata-go/pkg/remoting/getty"
)

// Seq is the global sequence counter shared by all stand-ins (TC sessions and memsql servers): an
// event's number is taken at its linearization point, under the mutex of the stand-in that emits it.
var seq int64

func NextSeq() int64 { return atomic.AddInt64(&seq, 1) }

// Msg is one message that reached the coordinator over a session.
type Msg struct {
	Seq     int64
	Session *Session
	Rpc     message.RpcMessage
}

// Session is a fake getty.Session.  The embedded nil interface makes every method the client does
// not use panic loudly instead of silently doing nothing.
type Session struct {
	getty.Session
	Name   string
	Addr   string
	closed atomic.Bool
	attrs  sync.Map

	mu sync.Mutex
	// OnWrite is called for every package the client writes to the session, synchronously inside
	// WritePkg (the client's sending goroutine).  A non-nil error is returned to the client as a
	// transport error (nothing was "sent").
	OnWrite func(m Msg) error
}

func NewSession(name, addr string) *Session { return &Session{Name: name, Addr: addr} }

func (s *Session) IsClosed() bool     { return s.closed.Load() }
func (s *Session) RemoteAddr() string { return s.Addr }
func (s *Session) LocalAddr() string  { return "127.0.0.1:0" }
func (s *Session) Stat() string       { return "fake-session:" + s.Name + "@" + s.Addr }
func (s *Session) ID() uint32         { return 0 }
func (s *Session) Close()             { s.closed.Store(true) }
func (s *Session) SetClosed(b bool)   { s.closed.Store(b) }
func (s *Session) GetAttribute(k interface{}) interface{} {
	v, _ := s.attrs.Load(k)
	return v
}
func (s *Session) SetAttribute(k, v interface{}) { s.attrs.Store(k, v) }
func (s *Session) RemoveAttribute(k interface{})  { s.attrs.Delete(k) }
func (s *Session) UpdateActive()                  {}
func (s *Session) GetActive() time.Time           { return time.Now() }

func (s *Session) WritePkg(pkg interface{}, timeout time.Duration) (int, int, error) {
	if s.closed.Load() {
		return 0, 0, fmt.Errorf("fake session %s is closed", s.Name)
	}
	rpc, ok := pkg.(message.RpcMessage)
	if !ok {
		return 0, 0, fmt.Errorf("fake session: package is %T, not RpcMessage", pkg)
	}
	s.mu.Lock()
	h := s.OnWrite
	s.mu.Unlock()
	if h == nil {
		return 0, 0, nil
	}
	m := Msg{Seq: NextSeq(), Session: s, Rpc: rpc}
	if err := h(m); err != nil {
		return 0, 0, err
	}
	return 1, 1, nil
}

func (s *Session) SetOnWrite(h func(m Msg) error) {
	s.mu.Lock()
	s.OnWrite = h
	s.mu.Unlock()
}

// Open registers the session with the client (real OnOpen: session manager registration + the
// RegisterTMRequest the client sends on every new session).
func (s *Session) Open() error {
	return sgetty.GetGettyClientHandlerInstance().OnOpen(s)
}

// Lose makes the session unusable and tells the client, the way getty does when the peer resets.
func (s *Session) Lose() {
	s.closed.Store(true)
	sgetty.GetGettyClientHandlerInstance().OnClose(s)
}

// LoseByError is the loss as getty reports a read error (reset by peer, a frame that cannot be decoded, the
// heartbeat giving up): handlePackage calls the listener's OnError and then, for the same session, its OnClose.
func (s *Session) LoseByError(err error) {
	s.closed.Store(true)
	h := sgetty.GetGettyClientHandlerInstance()
	h.OnError(s, err)
	h.OnClose(s)
}

// Deliver hands a message to the client's real dispatch, on the caller's goroutine (getty delivers
// each package on a task-pool goroutine; callers use `go s.Deliver(..)` to get the same concurrency).
func (s *Session) Deliver(m message.RpcMessage) {
	sgetty.GetGettyClientHandlerInstance().OnMessage(s, m)
}
