// Package rmstub provides recording stand-ins for the three resource managers (AT, TCC, XA).  They are
// registered in rm.GetRmCacheInstance() after the client has been initialised and thereby replace the
// real managers of the process: what is under test is the path listener -> processor -> manager cache
// -> response construction, not the managers (those are other properties' business).
package rmstub

import (
	"context"
	"sync"

	"seata.apache.org/seata-go/pkg/protocol/branch"
	"seata.apache.org/seata-go/pkg/rm"
)

// Handler decides the outcome of one phase-two call; it runs on the goroutine that called the manager
// and may block.
type Handler func(mgr branch.BranchType, op string, res rm.BranchResource) (branch.BranchStatus, error)

type Stub struct {
	BT        branch.BranchType
	H         Handler
	resources sync.Map
}

func (s *Stub) BranchCommit(ctx context.Context, res rm.BranchResource) (branch.BranchStatus, error) {
	return s.H(s.BT, "commit", res)
}

func (s *Stub) BranchRollback(ctx context.Context, res rm.BranchResource) (branch.BranchStatus, error) {
	return s.H(s.BT, "rollback", res)
}

func (s *Stub) BranchRegister(ctx context.Context, p rm.BranchRegisterParam) (int64, error) {
	return rm.GetRMRemotingInstance().BranchRegister(p)
}

func (s *Stub) BranchReport(ctx context.Context, p rm.BranchReportParam) error {
	return rm.GetRMRemotingInstance().BranchReport(p)
}

func (s *Stub) LockQuery(ctx context.Context, p rm.LockQueryParam) (bool, error) {
	return rm.GetRMRemotingInstance().LockQuery(p)
}

func (s *Stub) RegisterResource(r rm.Resource) error {
	s.resources.Store(r.GetResourceId(), r)
	return nil
}

func (s *Stub) UnregisterResource(r rm.Resource) error {
	s.resources.Delete(r.GetResourceId())
	return nil
}

func (s *Stub) GetCachedResources() *sync.Map { return &s.resources }

func (s *Stub) GetBranchType() branch.BranchType { return s.BT }

var Types = map[string]branch.BranchType{"AT": branch.BranchTypeAT, "TCC": branch.BranchTypeTCC, "XA": branch.BranchTypeXA}

func Name(bt branch.BranchType) string {
	for n, t := range Types {
		if t == bt {
			return n
		}
	}
	return "?"
}

// Install registers a stub for every branch type (call it after tc.InitClient).
func Install(h Handler) {
	for _, bt := range Types {
		rm.GetRmCacheInstance().RegisterResourceManager(&Stub{BT: bt, H: h})
	}
}
