// Package tctcp is the coordinator (TC) stand-in that speaks the Seata v1 wire protocol over a real
// TCP socket (127.0.0.1:0), so that the client's real transport stack is exercised end to end:
// file registry -> getty.NewTCPClient -> getty session -> RpcPackageHandler.Read/Write -> codec ->
// listener -> processors.
//
// Nothing in this package calls the repository's codec or frame reader/writer.  Message bodies are
// encoded and decoded by an interpreter of the layout table that TLC exports from
// specs/WireLayout.tla (this file; generalised from harness/cmd/wire), frames by frame.go (written
// from the layout comment of the protocol).  The only knowledge about /repo's Go types is the
// name mapping in model.go (which struct a message type of the table is, which struct field a table
// field is); it is used to build the values the driver hands to the client's API, to read the values
// the client's API returns, and to reuse the in-process coordinator model (harness/tc) for replies.
package tctcp

import (
	"bytes"
	"encoding/binary"
	"encoding/json"
	"errors"
	"math"
)

// Desc is one field descriptor of the exported layout table.
type Desc struct {
	F     string `json:"f"`
	K     string `json:"k"`
	Cf    string `json:"cf"`
	Cv    int    `json:"cv"`
	Trunc int    `json:"trunc"`
}

// Table is WireLayout.tla's table as exported by TLC (WireLayout_MC!TableLine).
type Table struct {
	Table   map[string][]Desc `json:"table"`
	Codes   map[string]int    `json:"codes"`
	Sends   []string          `json:"sends"`
	Expects []string          `json:"expects"`
	byCode  map[int]string
}

// Val is a concrete field value.
type Val struct {
	B []byte // strings and byte fields
	U uint64 // u8, i64 (two's complement), ms32 (milliseconds)
	T bool   // booleans
}

type Vals map[string]Val

// IsTableLine recognises the table among the lines of a scenario file.
func IsTableLine(raw []byte) bool { return bytes.Contains(raw, []byte(`"table":{`)) }

// LoadTable finds the table among the raw scenario lines.
func LoadTable(raws []json.RawMessage) (*Table, error) {
	for _, raw := range raws {
		if IsTableLine(raw) {
			tb := &Table{}
			if err := json.Unmarshal(raw, tb); err != nil {
				return nil, err
			}
			if len(tb.Table) == 0 || len(tb.Codes) != len(tb.Table) {
				return nil, errors.New("layout table is incomplete")
			}
			tb.byCode = map[int]string{}
			for ty, c := range tb.Codes {
				tb.byCode[c] = ty
			}
			return tb, nil
		}
	}
	return nil, errors.New("no layout table among the scenarios")
}

func Width(k string) int {
	switch k {
	case "str8":
		return 1
	case "str16", "bytes16":
		return 2
	case "str32", "bytes32":
		return 4
	}
	return 0
}

func IsStr(k string) bool { return Width(k) > 0 }

func PrefixMax(k string) int {
	switch Width(k) {
	case 1:
		return math.MaxUint8
	case 2:
		return math.MaxUint16
	}
	return math.MaxUint32
}

func fixedLen(k string) int {
	switch k {
	case "u8", "bool8":
		return 1
	case "bool16":
		return 2
	case "ms32":
		return 4
	case "i64":
		return 8
	}
	return 0
}

func present(d Desc, vals Vals) bool { return d.Cf == "" || int(vals[d.Cf].U) == d.Cv }

func putUint(b []byte, w int, x uint64) []byte {
	for i := w - 1; i >= 0; i-- {
		b = append(b, byte(x>>(8*uint(i))))
	}
	return b
}

func boolU(t bool) uint64 {
	if t {
		return 1
	}
	return 0
}

// WireNormal is what the peer must end up with: absent fields zero, the truncatable field cut to `cut`
// bytes (cut < 0: not cut).
func (tb *Table) WireNormal(ty string, vals Vals, cut int) Vals {
	out := Vals{}
	for _, d := range tb.Table[ty] {
		v := vals[d.F]
		if !present(d, vals) {
			v = Val{}
		} else if d.Trunc > 0 && cut >= 0 && cut < len(v.B) {
			v = Val{B: v.B[:cut]}
		}
		out[d.F] = v
	}
	return out
}

// CanonCut is the canonical cut of the truncatable field that is on the wire (-1: none).
func (tb *Table) CanonCut(ty string, vals Vals) int {
	for _, d := range tb.Table[ty] {
		if d.Trunc > 0 && present(d, vals) {
			n := len(vals[d.F].B)
			if n > d.Trunc {
				return d.Trunc
			}
			return n
		}
	}
	return -1
}

// Encode encodes a wire-normal message body (type code first).
func (tb *Table) Encode(ty string, w Vals) []byte {
	b := putUint(nil, 2, uint64(tb.Codes[ty]))
	for _, d := range tb.Table[ty] {
		if !present(d, w) {
			continue
		}
		v := w[d.F]
		switch d.K {
		case "u8":
			b = append(b, byte(v.U))
		case "bool8":
			b = putUint(b, 1, boolU(v.T))
		case "bool16":
			b = putUint(b, 2, boolU(v.T))
		case "ms32":
			b = putUint(b, 4, v.U)
		case "i64":
			b = putUint(b, 8, v.U)
		default:
			b = putUint(b, Width(d.K), uint64(len(v.B)))
			b = append(b, v.B...)
		}
	}
	return b
}

// TruncPrefix gives the offset and descriptor of the length prefix of the truncatable field that is
// on the wire (ok=false: none).
func (tb *Table) TruncPrefix(ty string, vals Vals) (d Desc, off int, ok bool) {
	off = 2
	for _, x := range tb.Table[ty] {
		if !present(x, vals) {
			continue
		}
		if x.Trunc > 0 {
			return x, off, true
		}
		if IsStr(x.K) {
			off += Width(x.K) + len(vals[x.F].B)
		} else {
			off += fixedLen(x.K)
		}
	}
	return Desc{}, 0, false
}

// TypeOf reads the type code of a body.
func (tb *Table) TypeOf(b []byte) (string, bool) {
	if len(b) < 2 {
		return "", false
	}
	ty, ok := tb.byCode[int(binary.BigEndian.Uint16(b))]
	return ty, ok
}

// Decode decodes a body of the given type by the table; left = bytes not consumed (-1: the body ran out
// of bytes or carries another type code).
func (tb *Table) Decode(ty string, b []byte) (Vals, int) {
	out := Vals{}
	if len(b) < 2 || int(binary.BigEndian.Uint16(b)) != tb.Codes[ty] {
		return out, -1
	}
	p := 2
	take := func(n int) ([]byte, bool) {
		if n < 0 || p+n > len(b) {
			return nil, false
		}
		s := b[p : p+n]
		p += n
		return s, true
	}
	num := func(n int) (uint64, bool) {
		s, ok := take(n)
		var x uint64
		for _, c := range s {
			x = x<<8 | uint64(c)
		}
		return x, ok
	}
	for _, d := range tb.Table[ty] {
		if !present(d, out) {
			out[d.F] = Val{}
			continue
		}
		var v Val
		var ok bool
		switch d.K {
		case "u8":
			v.U, ok = num(1)
		case "bool8":
			v.U, ok = num(1)
			v.T, v.U = v.U == 1, 0
		case "bool16":
			v.U, ok = num(2)
			v.T, v.U = v.U == 1, 0
		case "ms32":
			v.U, ok = num(4)
		case "i64":
			v.U, ok = num(8)
		default:
			var n uint64
			if n, ok = num(Width(d.K)); ok {
				var s []byte
				s, ok = take(int(n))
				v.B = append([]byte(nil), s...)
			}
		}
		if !ok {
			return out, -1
		}
		out[d.F] = v
	}
	return out, len(b) - p
}

// SameVals compares two messages field by field.
func SameVals(a, b Vals) bool {
	if len(a) != len(b) {
		return false
	}
	for k, x := range a {
		y, ok := b[k]
		if !ok || !bytes.Equal(x.B, y.B) || x.U != y.U || x.T != y.T {
			return false
		}
	}
	return true
}

// Diff names the fields in which two messages differ (for diagnostics).
func Diff(a, b Vals) []string {
	var out []string
	for k, x := range a {
		y, ok := b[k]
		if !ok || !bytes.Equal(x.B, y.B) || x.U != y.U || x.T != y.T {
			out = append(out, k)
		}
	}
	for k := range b {
		if _, ok := a[k]; !ok {
			out = append(out, k)
		}
	}
	return out
}

// S is a string value, N a numeric one, Bo a boolean one (helpers for hand-built messages).
func S(s string) Val  { return Val{B: []byte(s)} }
func N(u uint64) Val  { return Val{U: u} }
func Bo(t bool) Val   { return Val{T: t} }
func I64(i int64) Val { return Val{U: uint64(i)} }
