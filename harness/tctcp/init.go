package tctcp

import (
	"fmt"
	"os"
	"path/filepath"
	"sync"

	getty "github.com/apache/dubbo-getty"

	"seata.apache.org/seata-go/pkg/client"

	"verif/harness/tc"
)

// ClientConfig is what the TCP drivers vary in the client's configuration file.
type ClientConfig struct {
	Addr              string // seata.service.grouplist.default: ip:port of the stand-in
	LoadBalance       string // getty.load-balance-type
	ReconnectInterval int    // getty.reconnect-interval (0: getty's default of 300 ms)
	CronPeriod        string // getty.session.cron-period: the heartbeat period
	MaxMsgLen         int    // getty.session.max-msg-len
	CommitRetry       int
	RollbackRetry     int
}

func DefaultClientConfig(addr string) ClientConfig {
	return ClientConfig{Addr: addr, LoadBalance: "XID", ReconnectInterval: 0, CronPeriod: "1s", MaxMsgLen: 16498688,
		CommitRetry: 1, RollbackRetry: 1}
}

var initOnce sync.Once

type nopGettyLogger struct{}

func (nopGettyLogger) Info(args ...interface{})                  {}
func (nopGettyLogger) Warn(args ...interface{})                  {}
func (nopGettyLogger) Error(args ...interface{})                 {}
func (nopGettyLogger) Debug(args ...interface{})                 {}
func (nopGettyLogger) Infof(fmt string, args ...interface{})     {}
func (nopGettyLogger) Warnf(fmt string, args ...interface{})     {}
func (nopGettyLogger) Errorf(fmt string, args ...interface{})    {}
func (nopGettyLogger) Debugf(fmt string, args ...interface{})    {}

// Yaml is the configuration file an application would ship: file registry, one coordinator address.
func Yaml(c ClientConfig) string {
	return fmt.Sprintf(`seata:
  enabled: true
  application-id: verif-app
  tx-service-group: default_tx_group
  client:
    rm:
      async-commit-buffer-limit: 10000
      report-retry-count: 5
      report-success-enable: false
      lock:
        retry-interval: 10ms
        retry-times: 2
        retry-policy-branch-rollback-on-conflict: true
    tm:
      commit-retry-count: %d
      rollback-retry-count: %d
      default-global-transaction-timeout: 60s
    undo:
      data-validation: true
      log-serialization: json
      log-table: undo_log
      only-care-update-columns: true
      compress:
        enable: false
        type: None
        threshold: 64k
  service:
    vgroup-mapping:
      default_tx_group: default
    grouplist:
      default: %s
  registry:
    type: file
  tcc:
    fence:
      log-table-name: tcc_fence_log
      clean-period: 60s
  getty:
    reconnect-interval: %d
    connection-num: 1
    load-balance-type: %s
    session:
      compress-encoding: false
      tcp-no-delay: true
      tcp-keep-alive: true
      keep-alive-period: 120s
      tcp-r-buf-size: 262144
      tcp-w-buf-size: 65536
      tcp-read-timeout: 1s
      tcp-write-timeout: 5s
      wait-timeout: 1s
      max-msg-len: %d
      session-name: client
      cron-period: %s
`, c.CommitRetry, c.RollbackRetry, c.Addr, c.ReconnectInterval, c.LoadBalance, c.MaxMsgLen, c.CronPeriod)
}

// InitClient initialises the seata client the documented way - client.InitPath on a yaml file whose file
// registry lists the stand-in's address - once per process.  The client then dials the stand-in itself
// (getty.NewTCPClient) and keeps the connection up.
func InitClient(c ClientConfig) {
	initOnce.Do(func() {
		dir, err := os.MkdirTemp("", "verif-seata-tcp-conf")
		if err != nil {
			panic(err)
		}
		defer os.RemoveAll(dir)
		path := filepath.Join(dir, "seatago.yml")
		if err := os.WriteFile(path, []byte(Yaml(c)), 0o644); err != nil {
			panic(err)
		}
		client.InitPath(path)
		tc.Quiet()
		if os.Getenv("VERIF_LOG") == "" {
			// (the client's log package hands its own logger to getty while it initialises)
			getty.SetLogger(nopGettyLogger{})
		}
	})
}
