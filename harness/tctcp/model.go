package tctcp

import (
	"fmt"
	"reflect"
	"time"

	"seata.apache.org/seata-go/pkg/protocol/message"

	"verif/harness/tc"
)

// ---------------------------------------------------------------- hand-written name mapping (the only one)

var goType = map[string]reflect.Type{
	"GlobalBeginRequest":      reflect.TypeOf(message.GlobalBeginRequest{}),
	"GlobalBeginResponse":     reflect.TypeOf(message.GlobalBeginResponse{}),
	"BranchCommitRequest":     reflect.TypeOf(message.BranchCommitRequest{}),
	"BranchCommitResponse":    reflect.TypeOf(message.BranchCommitResponse{}),
	"BranchRollbackRequest":   reflect.TypeOf(message.BranchRollbackRequest{}),
	"BranchRollbackResponse":  reflect.TypeOf(message.BranchRollbackResponse{}),
	"GlobalCommitRequest":     reflect.TypeOf(message.GlobalCommitRequest{}),
	"GlobalCommitResponse":    reflect.TypeOf(message.GlobalCommitResponse{}),
	"GlobalRollbackRequest":   reflect.TypeOf(message.GlobalRollbackRequest{}),
	"GlobalRollbackResponse":  reflect.TypeOf(message.GlobalRollbackResponse{}),
	"BranchRegisterRequest":   reflect.TypeOf(message.BranchRegisterRequest{}),
	"BranchRegisterResponse":  reflect.TypeOf(message.BranchRegisterResponse{}),
	"BranchReportRequest":     reflect.TypeOf(message.BranchReportRequest{}),
	"BranchReportResponse":    reflect.TypeOf(message.BranchReportResponse{}),
	"GlobalStatusRequest":     reflect.TypeOf(message.GlobalStatusRequest{}),
	"GlobalStatusResponse":    reflect.TypeOf(message.GlobalStatusResponse{}),
	"GlobalReportRequest":     reflect.TypeOf(message.GlobalReportRequest{}),
	"GlobalReportResponse":    reflect.TypeOf(message.GlobalReportResponse{}),
	"GlobalLockQueryRequest":  reflect.TypeOf(message.GlobalLockQueryRequest{}),
	"GlobalLockQueryResponse": reflect.TypeOf(message.GlobalLockQueryResponse{}),
	"RegisterTMRequest":       reflect.TypeOf(message.RegisterTMRequest{}),
	"RegisterTMResponse":      reflect.TypeOf(message.RegisterTMResponse{}),
	"RegisterRMRequest":       reflect.TypeOf(message.RegisterRMRequest{}),
	"RegisterRMResponse":      reflect.TypeOf(message.RegisterRMResponse{}),
}

// table field name -> Go struct field (possibly promoted from an embedded struct)
var goField = map[string]string{
	"xid": "Xid", "branchId": "BranchId", "branchType": "BranchType", "resourceId": "ResourceId",
	"applicationData": "ApplicationData", "extraData": "ExtraData", "lockKey": "LockKey",
	"resultCode": "ResultCode", "msg": "Msg", "transactionErrorCode": "TransactionErrorCode",
	"globalStatus": "GlobalStatus", "branchStatus": "BranchStatus", "status": "Status",
	"timeout": "Timeout", "transactionName": "TransactionName",
	"version": "Version", "applicationId": "ApplicationId", "transactionServiceGroup": "TransactionServiceGroup",
	"resourceIds": "ResourceIds", "identified": "Identified", "lockable": "Lockable",
}

var typeName = func() map[reflect.Type]string {
	m := map[reflect.Type]string{}
	for n, t := range goType {
		m[t] = n
	}
	return m
}()

// ToStruct builds the real message.* value for (ty, vals); fields that are not in the table stay zero.
func (tb *Table) ToStruct(ty string, vals Vals) (interface{}, error) {
	t, ok := goType[ty]
	if !ok {
		return nil, fmt.Errorf("no Go type for message type %q of the exported table", ty)
	}
	p := reflect.New(t).Elem()
	for _, d := range tb.Table[ty] {
		name, ok := goField[d.F]
		if !ok {
			return nil, fmt.Errorf("no Go field for table field %q", d.F)
		}
		f := p.FieldByName(name)
		if !f.IsValid() {
			return nil, fmt.Errorf("%s has no field %s", ty, name)
		}
		v := vals[d.F]
		switch d.K {
		case "u8":
			switch f.Kind() {
			case reflect.Uint8, reflect.Uint16, reflect.Uint32, reflect.Uint64, reflect.Uint:
				f.SetUint(v.U)
			case reflect.Int8:
				f.SetInt(int64(int8(byte(v.U))))
			default:
				f.SetInt(int64(v.U))
			}
		case "i64":
			f.SetInt(int64(v.U))
		case "ms32":
			f.SetInt(int64(v.U) * int64(time.Millisecond))
		case "bool8", "bool16":
			f.SetBool(v.T)
		default:
			if f.Kind() == reflect.String {
				f.SetString(string(v.B))
			} else if len(v.B) > 0 {
				f.SetBytes(append([]byte(nil), v.B...))
			}
		}
	}
	return p.Interface(), nil
}

// FromStruct reads a real message.* value back into table terms.
func (tb *Table) FromStruct(msg interface{}) (string, Vals, bool) {
	if msg == nil {
		return "", nil, false
	}
	rv := reflect.ValueOf(msg)
	if rv.Kind() == reflect.Ptr && !rv.IsNil() {
		rv = rv.Elem()
	}
	ty, ok := typeName[rv.Type()]
	if !ok {
		return "", nil, false
	}
	out := Vals{}
	for _, d := range tb.Table[ty] {
		f := rv.FieldByName(goField[d.F])
		if !f.IsValid() {
			return ty, nil, false
		}
		var v Val
		switch d.K {
		case "u8":
			switch f.Kind() {
			case reflect.Uint8, reflect.Uint16, reflect.Uint32, reflect.Uint64, reflect.Uint:
				v.U = f.Uint()
			default:
				v.U = uint64(f.Int())
				if f.Kind() == reflect.Int8 {
					v.U = uint64(byte(int8(f.Int())))
				}
			}
		case "i64":
			v.U = uint64(f.Int())
		case "ms32":
			v.U = uint64(f.Int() / int64(time.Millisecond))
		case "bool8", "bool16":
			v.T = f.Bool()
		default:
			if f.Kind() == reflect.String {
				v.B = []byte(f.String())
			} else {
				v.B = append([]byte(nil), f.Bytes()...)
			}
		}
		if len(v.B) == 0 {
			v.B = nil
		}
		out[d.F] = v
	}
	return ty, out, true
}

// Norm makes empty and nil byte values the same (they are the same message).
func Norm(v Vals) Vals {
	out := Vals{}
	for k, x := range v {
		if len(x.B) == 0 {
			x.B = nil
		}
		out[k] = x
	}
	return out
}

// ModelReply answers a client request the way the in-process coordinator model (harness/tc: xid and branch
// id allocation, lock table) does.  ok=false: the model has no answer for this message.
func (s *Server) ModelReply(ty string, vals Vals) (string, Vals, bool) {
	st, err := s.Table.ToStruct(ty, vals)
	if err != nil {
		return "", nil, false
	}
	rep := s.Model.Model(tc.Kind(st), tc.Msg{Rpc: message.RpcMessage{Body: st}})
	if rep.Body == nil {
		return "", nil, false
	}
	return s.Table.FromStruct(rep.Body)
}
