package tctcp

import (
	"bufio"
	"errors"
	"fmt"
	"io"
	"net"
	"sync"
	"sync/atomic"
	"time"

	"verif/harness/tc"
)

// Record is one entry of the coordinator's log: a frame read from or written to a connection, or the end
// of a connection.
type Record struct {
	Seq   int64
	Conn  int    // 1-based index of the connection in order of acceptance
	Dir   string // "in" (client -> TC) | "out" (TC -> client) | "end" (the connection ended)
	Frame Frame
	Ty    string // message type of the body by the layout table ("" for heartbeats and unknown codes)
	Vals  Vals   // the body decoded by the table interpreter
	Left  int    // bytes of the body the table interpreter did not consume (-1: not decodable)
	Note  string // "end": eof | reset | frame-error: ... | closed-by-tc
}

// Conn is one accepted connection.
type Conn struct {
	Idx    int
	srv    *Server
	c      *net.TCPConn
	wmu    sync.Mutex
	closed atomic.Bool
	done   chan struct{}
	local  atomic.Bool // closed by the stand-in itself
}

// Server is the TCP coordinator stand-in.
type Server struct {
	Table *Table
	Model *tc.TC // in-process coordinator model reused for default replies (never its sessions)
	Addr  string

	ln      *net.TCPListener
	mu      sync.Mutex
	conns   []*Conn
	log     []Record
	waiters map[int32]chan Record
	nextID  int32

	// OnRequest, if set, sees every client request (sync, one-way) and heartbeat ping before the server
	// reacts, on the connection's reader goroutine.  Returning true means "handled": the server does not
	// answer by itself.
	OnRequest func(c *Conn, r Record) bool
	// MaxFrame bounds the frames the reader accepts (0: 64 MiB).
	MaxFrame int
}

func NewServer(tb *Table) (*Server, error) {
	ln, err := net.ListenTCP("tcp4", &net.TCPAddr{IP: net.IPv4(127, 0, 0, 1), Port: 0})
	if err != nil {
		return nil, err
	}
	s := &Server{Table: tb, ln: ln, Addr: ln.Addr().String(), waiters: map[int32]chan Record{}, nextID: 1 << 20}
	s.Model = tc.NewTC(s.Addr)
	go s.accept()
	return s, nil
}

func (s *Server) Close() { s.ln.Close() }

func (s *Server) accept() {
	for {
		c, err := s.ln.AcceptTCP()
		if err != nil {
			return
		}
		c.SetNoDelay(true)
		s.mu.Lock()
		cn := &Conn{Idx: len(s.conns) + 1, srv: s, c: c, done: make(chan struct{})}
		s.conns = append(s.conns, cn)
		s.mu.Unlock()
		go cn.read()
	}
}

func (s *Server) record(r Record) Record {
	s.mu.Lock()
	r.Seq = tc.NextSeq()
	s.log = append(s.log, r)
	s.mu.Unlock()
	return r
}

// Log returns a copy of the log.
func (s *Server) Log() []Record {
	s.mu.Lock()
	defer s.mu.Unlock()
	return append([]Record(nil), s.log...)
}

// Since returns the records after position pos of the log (pos = an earlier Len()).
func (s *Server) Since(pos int) []Record {
	s.mu.Lock()
	defer s.mu.Unlock()
	if pos > len(s.log) {
		pos = len(s.log)
	}
	return append([]Record(nil), s.log[pos:]...)
}

func (s *Server) Len() int { s.mu.Lock(); defer s.mu.Unlock(); return len(s.log) }

// NConns is the number of connections accepted so far.
func (s *Server) NConns() int { s.mu.Lock(); defer s.mu.Unlock(); return len(s.conns) }

// ConnAt returns connection idx (1-based) or nil.
func (s *Server) ConnAt(idx int) *Conn {
	s.mu.Lock()
	defer s.mu.Unlock()
	if idx < 1 || idx > len(s.conns) {
		return nil
	}
	return s.conns[idx-1]
}

// WaitConn waits until connection idx has been accepted.
func (s *Server) WaitConn(idx int, d time.Duration) *Conn {
	end := time.Now().Add(d)
	for {
		if c := s.ConnAt(idx); c != nil {
			return c
		}
		if time.Now().After(end) {
			return nil
		}
		time.Sleep(200 * time.Microsecond)
	}
}

// WaitFor waits for a record after position pos that satisfies pred.
func (s *Server) WaitFor(pos int, d time.Duration, pred func(r Record) bool) (Record, bool) {
	end := time.Now().Add(d)
	for {
		for _, r := range s.Since(pos) {
			if pred(r) {
				return r, true
			}
		}
		if time.Now().After(end) {
			return Record{}, false
		}
		time.Sleep(200 * time.Microsecond)
	}
}

// NextID allocates a message id of the coordinator's own id space.
func (s *Server) NextID() int32 {
	s.mu.Lock()
	defer s.mu.Unlock()
	s.nextID++
	return s.nextID
}

func (c *Conn) read() {
	defer close(c.done)
	max := c.srv.MaxFrame
	if max == 0 {
		max = 64 << 20
	}
	rd := bufio.NewReaderSize(c.c, 1<<16)
	for {
		f, err := ReadFrame(rd, max)
		if err != nil {
			note := "reset"
			var fe *FrameError
			switch {
			case errors.As(err, &fe):
				note = "frame-error: " + fe.What
			case err == io.EOF:
				note = "eof"
			case c.local.Load():
				note = "closed-by-tc"
			case err == io.ErrUnexpectedEOF:
				note = "eof-inside-frame"
			}
			c.closed.Store(true)
			c.srv.record(Record{Conn: c.Idx, Dir: "end", Note: note})
			if fe != nil {
				c.RST()
			}
			return
		}
		r := Record{Conn: c.Idx, Dir: "in", Frame: f}
		if f.Type != TypeHeartbeatReq && f.Type != TypeHeartbeatResp {
			if ty, ok := c.srv.Table.TypeOf(f.Body); ok {
				r.Ty = ty
				r.Vals, r.Left = c.srv.Table.Decode(ty, f.Body)
			} else {
				r.Left = -1
			}
		}
		r = c.srv.record(r)
		c.dispatch(r)
	}
}

func (c *Conn) dispatch(r Record) {
	s := c.srv
	switch r.Frame.Type {
	case TypeResponse:
		s.mu.Lock()
		w := s.waiters[r.Frame.ID]
		s.mu.Unlock()
		if w != nil {
			select {
			case w <- r:
			default:
			}
		} else if s.OnRequest != nil {
			s.OnRequest(c, r) // a response nobody asked for: the script may want to see it
		}
	case TypeHeartbeatReq:
		if s.OnRequest != nil && s.OnRequest(c, r) {
			return
		}
		c.SendFrame(Frame{ID: r.Frame.ID, Type: TypeHeartbeatResp, Codec: CodecSeata})
	case TypeRequestSync, TypeRequestOneway:
		if s.OnRequest != nil && s.OnRequest(c, r) {
			return
		}
		if r.Ty == "" || r.Left != 0 {
			return
		}
		if rty, rv, ok := s.ModelReply(r.Ty, r.Vals); ok {
			c.Reply(r.Frame.ID, rty, rv)
		}
	}
}

// SendFrame writes one frame in one piece.
func (c *Conn) SendFrame(f Frame) error {
	r := Record{Conn: c.Idx, Dir: "out", Frame: f}
	if ty, ok := c.srv.Table.TypeOf(f.Body); ok {
		r.Ty = ty
	}
	c.wmu.Lock()
	defer c.wmu.Unlock()
	c.srv.record(r)
	_, err := c.c.Write(EncodeFrame(f))
	return err
}

// Reply sends a response with the request's id.
func (c *Conn) Reply(id int32, ty string, vals Vals) error {
	return c.SendFrame(Frame{ID: id, Type: TypeResponse, Codec: CodecSeata, Body: c.srv.Table.Encode(ty, vals)})
}

// WriteChunks writes stream cut into the given chunk sizes (the rest, if any, as one more chunk), every
// chunk with one Write on a TCP_NODELAY socket and a pause in between.  It returns the chunk sizes written.
func (c *Conn) WriteChunks(stream []byte, cuts []int, pause func(k int) time.Duration) ([]int, error) {
	c.wmu.Lock()
	defer c.wmu.Unlock()
	var written []int
	off := 0
	sizes := append([]int(nil), cuts...)
	sum := 0
	for _, n := range sizes {
		sum += n
	}
	if sum < len(stream) {
		sizes = append(sizes, len(stream)-sum)
	}
	for k, n := range sizes {
		if off+n > len(stream) {
			n = len(stream) - off
		}
		if n <= 0 {
			break
		}
		if k > 0 && pause != nil {
			time.Sleep(pause(k))
		}
		if _, err := c.c.Write(stream[off : off+n]); err != nil {
			return written, err
		}
		written = append(written, n)
		off += n
	}
	return written, nil
}

// RST drops the connection with a TCP reset (what makes getty reconnect; a clean close does not).
func (c *Conn) RST() {
	c.local.Store(true)
	c.closed.Store(true)
	c.c.SetLinger(0)
	c.c.Close()
}

// Close closes the connection cleanly (FIN).
func (c *Conn) Close() {
	c.local.Store(true)
	c.closed.Store(true)
	c.c.Close()
}

// Peer is the client's address of this connection (the session's local address).
func (c *Conn) Peer() string { return c.c.RemoteAddr().String() }

// Closed: the connection has ended (either side).
func (c *Conn) Closed() bool { return c.closed.Load() }

// Done is closed when the connection's reader has finished.
func (c *Conn) Done() <-chan struct{} { return c.done }

// Request sends a coordinator-originated request and waits for the client's response with the same id.
func (s *Server) Request(c *Conn, id int32, ty string, vals Vals, timeout time.Duration) (Record, bool) {
	ch := make(chan Record, 4)
	s.mu.Lock()
	s.waiters[id] = ch
	s.mu.Unlock()
	defer func() {
		s.mu.Lock()
		delete(s.waiters, id)
		s.mu.Unlock()
	}()
	if err := c.SendFrame(Frame{ID: id, Type: TypeRequestSync, Codec: CodecSeata, Body: s.Table.Encode(ty, vals)}); err != nil {
		return Record{}, false
	}
	select {
	case r := <-ch:
		return r, true
	case <-c.done:
		select {
		case r := <-ch:
			return r, true
		default:
			return Record{}, false
		}
	case <-time.After(timeout):
		return Record{}, false
	}
}

// Expect registers interest in the client's response with this id before the request is written by other
// means (WriteChunks); the returned function waits for it.
func (s *Server) Expect(id int32) (wait func(timeout time.Duration) (Record, bool), ready func() bool) {
	ch := make(chan Record, 4)
	s.mu.Lock()
	s.waiters[id] = ch
	s.mu.Unlock()
	ready = func() bool { return len(ch) > 0 }
	wait = func(timeout time.Duration) (Record, bool) {
		defer func() {
			s.mu.Lock()
			delete(s.waiters, id)
			s.mu.Unlock()
		}()
		select {
		case r := <-ch:
			return r, true
		case <-time.After(timeout):
			return Record{}, false
		}
	}
	return
}

func (r Record) String() string {
	return fmt.Sprintf("#%d conn%d %s type=%d id=%d %s left=%d %s", r.Seq, r.Conn, r.Dir, r.Frame.Type, r.Frame.ID, r.Ty, r.Left, r.Note)
}
