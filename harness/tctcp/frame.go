package tctcp

import (
	"encoding/binary"
	"fmt"
	"io"
)

// The Seata v1 frame (https://github.com/seata/seata/issues/893), written from the layout:
//
//	0-1 magic 0xdada | 2 protocol version (1) | 3-6 full length (head+body, u32) | 7-8 head length (u16,
//	16 + head map) | 9 message type | 10 serializer | 11 compressor | 12-15 request id (u32) |
//	head map: (u16 key length, key, u16 value length, value)* | body
const (
	HeaderLen = 16

	TypeRequestSync   = 0
	TypeResponse      = 1
	TypeRequestOneway = 2
	TypeHeartbeatReq  = 3
	TypeHeartbeatResp = 4

	CodecSeata = 1
)

type KV struct{ K, V string }

// Frame is one frame as this package's own reader sees it / own writer builds it.
type Frame struct {
	ID    int32
	Type  byte
	Codec byte
	Comp  byte
	Head  []KV
	Body  []byte
}

// EncodeFrame is the independent frame writer.
func EncodeFrame(f Frame) []byte {
	var hm []byte
	for _, e := range f.Head {
		hm = binary.BigEndian.AppendUint16(hm, uint16(len(e.K)))
		hm = append(hm, e.K...)
		hm = binary.BigEndian.AppendUint16(hm, uint16(len(e.V)))
		hm = append(hm, e.V...)
	}
	head := HeaderLen + len(hm)
	total := head + len(f.Body)
	b := make([]byte, 0, total)
	b = append(b, 0xda, 0xda, 1)
	b = binary.BigEndian.AppendUint32(b, uint32(total))
	b = binary.BigEndian.AppendUint16(b, uint16(head))
	b = append(b, f.Type, f.Codec, f.Comp)
	b = binary.BigEndian.AppendUint32(b, uint32(f.ID))
	b = append(b, hm...)
	b = append(b, f.Body...)
	return b
}

// FrameError is a violation of the frame layout in the byte stream the client wrote.
type FrameError struct{ What string }

func (e *FrameError) Error() string { return "frame layout: " + e.What }

// ReadFrame is the independent, strict frame reader: it reads exactly one frame from r.  An io error
// (EOF, reset) is returned as it is; a layout violation as *FrameError.
func ReadFrame(r io.Reader, maxLen int) (Frame, error) {
	var h [HeaderLen]byte
	if _, err := io.ReadFull(r, h[:]); err != nil {
		return Frame{}, err
	}
	if h[0] != 0xda || h[1] != 0xda {
		return Frame{}, &FrameError{fmt.Sprintf("magic %02x%02x", h[0], h[1])}
	}
	if h[2] != 1 {
		return Frame{}, &FrameError{fmt.Sprintf("protocol version %d", h[2])}
	}
	total := int(binary.BigEndian.Uint32(h[3:7]))
	head := int(binary.BigEndian.Uint16(h[7:9]))
	if head < HeaderLen || total < head {
		return Frame{}, &FrameError{fmt.Sprintf("lengths total=%d head=%d", total, head)}
	}
	if maxLen > 0 && total > maxLen {
		return Frame{}, &FrameError{fmt.Sprintf("total length %d beyond %d", total, maxLen)}
	}
	f := Frame{Type: h[9], Codec: h[10], Comp: h[11], ID: int32(binary.BigEndian.Uint32(h[12:16]))}
	if f.Type > TypeHeartbeatResp {
		return Frame{}, &FrameError{fmt.Sprintf("message type %d", f.Type)}
	}
	rest := make([]byte, total-HeaderLen)
	if _, err := io.ReadFull(r, rest); err != nil {
		if err == io.EOF {
			err = io.ErrUnexpectedEOF
		}
		return Frame{}, err
	}
	hm := rest[:head-HeaderLen]
	f.Body = rest[head-HeaderLen:]
	for len(hm) > 0 {
		var kv [2]string
		for i := 0; i < 2; i++ {
			if len(hm) < 2 {
				return Frame{}, &FrameError{"head map cut inside a length"}
			}
			n := int(binary.BigEndian.Uint16(hm))
			hm = hm[2:]
			if n > len(hm) {
				return Frame{}, &FrameError{"head map entry beyond the head length"}
			}
			kv[i] = string(hm[:n])
			hm = hm[n:]
		}
		f.Head = append(f.Head, KV{kv[0], kv[1]})
	}
	if (f.Type == TypeHeartbeatReq || f.Type == TypeHeartbeatResp) && len(f.Body) != 0 {
		return Frame{}, &FrameError{fmt.Sprintf("heartbeat with a body of %d bytes", len(f.Body))}
	}
	return f, nil
}
