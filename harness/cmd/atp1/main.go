// Driver for ATPhaseOne.tla (C02, C03 single-transaction part, C18): replays TLC-generated
// (statement, mode, coordinator answer, database fault position, report failures) scenarios against
// the real AT proxy driver over memsql, and records the merged sequence of what the database and the
// coordinator observed, in the order of a counter shared by both stand-ins.
package main

import (
	"context"
	"encoding/json"
	"errors"
	"fmt"
	"os"
	"sort"
	"strings"
	"time"

	"seata.apache.org/seata-go/pkg/protocol/branch"
	"seata.apache.org/seata-go/pkg/protocol/message"
	serrors "seata.apache.org/seata-go/pkg/util/errors"
	"seata.apache.org/seata-go/pkg/tm"

	"verif/harness/atlab"
	"verif/harness/common"
	"verif/harness/memsql"
	"verif/harness/tc"
	"verif/harness/trace"
)

type scenario struct {
	Mode     string `json:"mode"`
	Kind     string `json:"kind"`
	Rows     int    `json:"rows"`
	Reg      string `json:"reg"`
	FailAt   int    `json:"failAt"`
	RepFails int    `json:"repfails"`
	Past     string `json:"past"` // what the pooled connection was used for before: "none", "gauto", "lexp"
	Then     string `json:"then"` // explicit mode: a second statement that matches no row ("upd0", "del0"), or "none"
}

func env(name, def string) string {
	if v := os.Getenv(name); v != "" {
		return v
	}
	return def
}

type obs struct {
	seq int64
	ev  string
	kv  []interface{}
}

func main() {
	o := common.Parse()
	cfg := tc.DefaultConfig()
	cfg.OnlyCareUpdate = env("ONLYCARE", "true") == "true"
	lab := atlab.Open(cfg, fmt.Sprintf("p1db%d", o.ShardK))
	fam := atlab.Family()
	raws, err := trace.ReadScenarios(o.Scenarios)
	if err != nil {
		common.Fatal("%v", err)
	}
	w, err := trace.NewWriter(o.Out)
	if err != nil {
		common.Fatal("%v", err)
	}
	w.SetBase(o.TraceBase())
	nsch := 2
	if o.Thorough() {
		nsch = 4
	}
	warmed := map[string]bool{}
	for i, raw := range raws {
		if !o.Want(i) {
			continue
		}
		var sc scenario
		if err := json.Unmarshal(raw, &sc); err != nil {
			common.Fatal("scenario %d: %v", i, err)
		}
		schema := fam[(i+int(o.Seed))%nsch]
		r := o.Rand(int64(i))
		style := atlab.Style{Literal: false, InList: r.Intn(2) == 0}
		if !warmed[schema.Name] {
			warm(lab, schema)
			warmed[schema.Name] = true
		}
		cls := fmt.Sprintf("schema=%s,mode=%s,kind=%s,rows=%d,reg=%s,failAt=%d,repfails=%d", schema.Name, sc.Mode, sc.Kind, sc.Rows, sc.Reg, sc.FailAt, sc.RepFails)
		if sc.Past != "" && sc.Past != "none" {
			cls += ",past=" + sc.Past
		}
		if sc.Then != "" && sc.Then != "none" {
			cls += ",then=" + sc.Then
		}
		t := w.Begin(map[string]interface{}{"i": i, "sc": sc, "schema": schema.Name}, cls)
		run(lab, t, sc, schema, style)
		t.Close()
	}
	if err := w.Close(); err != nil {
		common.Fatal("%v", err)
	}
	fmt.Printf("DRIVER-OK traces=%d scenarios=%d\n", w.Count(), len(raws))
}

// warm fills the client's table-metadata cache for the schema, so that metadata queries do not shift
// the statement indices the fault plan counts
func warm(lab *atlab.Lab, s *atlab.Schema) {
	lab.Reset(s)
	lab.Load(s, []atlab.Row{{0, 0}, {0, 0}})
	_ = tm.WithGlobalTx(context.Background(), &tm.GtxConfig{Name: "warm", Timeout: 30 * time.Second}, func(ctx context.Context) error {
		return lab.RunBranch(ctx, s, []atlab.Stmt{{Kind: "upd", Keys: []int{1}, W: 1}}, atlab.Style{})
	})
}

func stmtFor(sc scenario) (init []atlab.Row, st atlab.Stmt) {
	keys := []int{}
	for k := 1; k <= sc.Rows; k++ {
		keys = append(keys, k)
	}
	switch sc.Kind {
	case "ins":
		return []atlab.Row{atlab.Absent, atlab.Absent}, atlab.Stmt{Kind: "ins", Keys: keys, W: 1}
	case "upd":
		return []atlab.Row{{0, 0}, {0, 0}}, atlab.Stmt{Kind: "upd", Keys: keys, W: 1}
	case "del":
		return []atlab.Row{{0, 0}, {0, 0}}, atlab.Stmt{Kind: "del", Keys: keys, W: 1}
	case "upsh":
		return []atlab.Row{{0, 0}, {0, 0}}, atlab.Stmt{Kind: "ups", Keys: []int{1}, W: 1}
	default: // upsm
		return []atlab.Row{atlab.Absent, {0, 0}}, atlab.Stmt{Kind: "ups", Keys: []int{1}, W: 1}
	}
}

func run(lab *atlab.Lab, t *trace.T, sc scenario, schema *atlab.Schema, style atlab.Style) {
	lab.Reset(schema)
	init, st := stmtFor(sc)
	lab.Load(schema, init)
	if sc.Past == "gauto" || sc.Past == "lexp" {
		// the connection the branch will get from the pool has a past (it is no part of the trace): an autocommit
		// statement of an earlier global transaction, or an explicit local transaction outside any global transaction
		pq, pa := schema.SQL(atlab.Stmt{Kind: "ups", Keys: []int{2}, W: 2}, atlab.Style{})
		if sc.Past == "gauto" {
			_ = tm.WithGlobalTx(context.Background(), &tm.GtxConfig{Name: "atp1-past", Timeout: 30 * time.Second}, func(ctx context.Context) error {
				_, err := lab.DB.ExecContext(ctx, pq, pa...)
				return err
			})
		} else if tx, err := lab.DB.BeginTx(context.Background(), nil); err == nil {
			_, _ = tx.ExecContext(context.Background(), pq, pa...)
			_ = tx.Commit()
		}
		lab.Load(schema, init)
		lab.Coord.ResetLocks()
	}
	snapBefore := lab.Srv.SnapshotHash(schema.Name)
	t.Add("Start", "mode", sc.Mode, "sig", "start")

	repLeft := sc.RepFails
	lab.Coord.Script = func(kind string, m tc.Msg) (tc.Reply, bool) {
		switch kind {
		case "BranchRegister":
			switch sc.Reg {
			case "conflict":
				return tc.Reply{Body: message.BranchRegisterResponse{AbstractTransactionResponse: message.AbstractTransactionResponse{
					AbstractResultMessage: tc.FailResult("LockKeyConflict"), TransactionErrorCode: serrors.TransactionErrorCodeLockKeyConflict}}}, true
			case "fail":
				return tc.Reply{Body: message.BranchRegisterResponse{AbstractTransactionResponse: message.AbstractTransactionResponse{
					AbstractResultMessage: tc.FailResult("branch register refused")}}}, true
			case "neterr":
				return tc.Reply{NetErr: errors.New("write tcp: connection reset by peer")}, true
			}
		case "BranchReport":
			if repLeft > 0 {
				repLeft--
				return tc.Reply{NetErr: errors.New("write tcp: broken pipe")}, true
			}
		}
		return tc.Reply{}, false
	}
	defer func() { lab.Coord.Script = nil }()

	var callErr error
	var xid string
	_ = tm.WithGlobalTx(context.Background(), &tm.GtxConfig{Name: "atp1", Timeout: 30 * time.Second}, func(ctx context.Context) error {
		xid = tm.GetXID(ctx)
		lab.Srv.ClearJournal()
		lab.Coord.ClearLog()
		if sc.FailAt > 0 {
			lab.Srv.AddFault(memsql.Fault{Nth: sc.FailAt})
		}
		q, args := schema.SQL(st, style)
		if sc.Mode == "auto" {
			_, callErr = lab.DB.ExecContext(ctx, q, args...)
		} else {
			tx, err := lab.DB.BeginTx(ctx, nil)
			if err != nil {
				callErr = err
			} else if _, err := tx.ExecContext(ctx, q, args...); err != nil {
				callErr = err
				_ = tx.Rollback() // what an application does with a failed statement
			} else {
				if sc.Then == "upd0" || sc.Then == "del0" {
					q2, a2 := schema.SQL(atlab.Stmt{Kind: sc.Then[:3], Keys: []int{}, W: 2}, style)
					if _, err := tx.ExecContext(ctx, q2, a2...); err != nil {
						callErr = err
						_ = tx.Rollback()
					}
				}
				if callErr == nil {
					callErr = tx.Commit()
				}
			}
		}
		lab.Srv.ClearFaults()
		return callErr
	})
	fired := lab.Srv.FaultsFired() > 0

	// merge the two logs by the shared sequence counter
	var evs []obs
	stmtFailedSeq := int64(0)
	connIdx := map[int]int{}
	for _, e := range lab.Srv.Journal() {
		if _, ok := connIdx[e.Conn]; !ok {
			connIdx[e.Conn] = len(connIdx) + 1 // small per-trace connection numbers
		}
		e.Conn = connIdx[e.Conn]
		switch {
		case e.Class == "begin" && e.Err != "":
			evs = append(evs, obs{e.Seq, "BeginFailed", []interface{}{"c", e.Conn}})
		case e.Class == "begin":
			evs = append(evs, obs{e.Seq, "Begin", []interface{}{"c", e.Conn}})
		case e.Class == "commit":
			evs = append(evs, obs{e.Seq, "Commit", []interface{}{"c", e.Conn, "err", e.Err != ""}})
		case e.Class == "rollback":
			evs = append(evs, obs{e.Seq, "Rollback", []interface{}{"c", e.Conn}})
		case e.Table == "undo_log" && e.Class == "insert":
			evs = append(evs, obs{e.Seq, "UndoIns", []interface{}{"c", e.Conn, "err", e.Err != ""}})
		case strings.EqualFold(e.Table, schema.Name) && (e.Class == "insert" || e.Class == "update" || e.Class == "delete"):
			evs = append(evs, obs{e.Seq, "Dml", []interface{}{"c", e.Conn, "aff", int(min64(e.Affected, 2)), "err", e.Err != ""}})
		default:
			if e.Err != "" && stmtFailedSeq == 0 {
				// an image / metadata / locking query failed: the proxy has to fail the statement
				stmtFailedSeq = e.Seq
				evs = append(evs, obs{e.Seq, "StmtFailed", []interface{}{"class", e.Class}})
			}
		}
	}
	regIDs := map[int32]bool{}
	for _, r := range lab.Coord.Log() {
		switch b := r.Body.(type) {
		case message.BranchRegisterRequest:
			evs = append(evs, obs{r.Seq, "RegReq", nil})
			regIDs[r.ID] = true
			if r.Note == "neterr" {
				evs = append(evs, obs{r.Seq, "RegRep", []interface{}{"r", "neterr"}})
			}
		case message.BranchRegisterResponse:
			rr := "ok"
			if b.ResultCode != message.ResultCodeSuccess {
				rr = "fail"
				if b.TransactionErrorCode == serrors.TransactionErrorCodeLockKeyConflict {
					rr = "conflict"
				}
			}
			evs = append(evs, obs{r.Seq, "RegRep", []interface{}{"r", rr}})
		case message.BranchReportRequest:
			st := "failed"
			if b.Status == branch.BranchStatusPhaseoneDone {
				st = "done"
			}
			rr := "ok"
			if r.Note == "neterr" {
				rr = "neterr"
			}
			evs = append(evs, obs{r.Seq, "Report", []interface{}{"status", st, "r", rr}})
		}
	}
	sort.SliceStable(evs, func(i, j int) bool { return evs[i].seq < evs[j].seq })
	sig := fmt.Sprintf("%s:%s%d:%s:reg=%s:fired=%v", schema.Name, sc.Kind, sc.Rows, sc.Mode, sc.Reg, fired)
	if sc.Past != "" && sc.Past != "none" {
		sig += ":past=" + sc.Past
	}
	for _, e := range evs {
		kv := append([]interface{}{}, e.kv...)
		kv = append(kv, "sig", sig)
		t.Add(e.ev, kv...)
	}
	v := "nil"
	if callErr != nil {
		v = "err"
		if !fired && sc.Reg == "ok" && stmtFailedSeq == 0 {
			// the proxy refused the statement although nothing was injected: not this property's
			// business (C16/C18 report it); the rest of the trace is still checked
			t.Add("Refused", "why", callErr.Error(), "sig", sig)
		}
	}
	t.Add("Return", "v", v, "sig", sig+":ret="+v)
	// what is durable, and whether any connection is still inside a transaction
	biz := lab.Srv.SnapshotHash(schema.Name) != snapBefore
	// the undo log of THIS branch (a past transaction on the same pool may still be waiting for the asynchronous
	// deletion of its own)
	undo := false
	for _, row := range lab.Srv.Snapshot("undo_log")["undo_log"] {
		if fmt.Sprint(row["xid"]) == xid {
			undo = true
		}
	}
	t.Add("State", "biz", biz, "undo", undo, "intx", !lab.Idle(), "sig", sig+":ret="+v)
}

func min64(a, b int64) int64 {
	if a < b {
		return a
	}
	return b
}
