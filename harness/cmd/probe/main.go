package main

import (
	"context"
	"fmt"
	"os"
	"runtime/debug"
	"time"

	"seata.apache.org/seata-go/pkg/tm"

	"verif/harness/atlab"
	"verif/harness/tc"
)

func main() {
	lab := atlab.Open(tc.DefaultConfig(), "dbp")
	s := atlab.ByName(os.Args[1])
	kind := os.Args[2]
	lit := os.Args[3] == "lit"
	lab.Reset(s)
	lab.Load(s, []atlab.Row{{0, 0}, {0, 0}})
	if kind == "ins" {
		lab.Load(s, []atlab.Row{atlab.Absent, atlab.Absent})
	}
	keys := []int{1}
	if len(os.Args) > 4 {
		keys = []int{1, 2}
	}
	var xid string
	err := tm.WithGlobalTx(context.Background(), &tm.GtxConfig{Name: "probe", Timeout: 30 * time.Second}, func(ctx context.Context) error {
		xid = tm.GetXID(ctx)
		q, a := s.SQL(atlab.Stmt{Kind: kind, Keys: keys, W: 1}, atlab.Style{Literal: lit, InList: true})
		func() {
			defer func() {
				if p := recover(); p != nil {
					fmt.Printf("PANIC %v\n%s\n", p, debug.Stack())
				}
			}()
			if os.Getenv("RAW") != "" {
				_, err := lab.DB.ExecContext(ctx, q, a...)
				fmt.Println("RAW:", err)
			}
		}()
		if err := lab.RunBranch(ctx, s, []atlab.Stmt{{Kind: kind, Keys: keys, W: 1}}, atlab.Style{Literal: lit, InList: true}); err != nil {
			return err
		}
		return fmt.Errorf("rollback please")
	})
	fmt.Println("ERR:", err)
	for _, r := range lab.Srv.Snapshot("undo_log")["undo_log"] {
		fmt.Println("UNDO:", r["context"], r["rollback_info"])
	}
	if os.Getenv("FOREIGN") != "" {
		fmt.Println("FOREIGN:", lab.Put(s, 1, atlab.Row{0, 0}))
	}
	for _, rb := range lab.Registered(xid) {
		st, fired := lab.Rollback(xid, rb.Bid, 0)
		fmt.Println("ROLLBACK:", st, fired)
	}
	fmt.Println(lab.Project(s))
	fmt.Println(lab.Srv.Snapshot(s.Name))
	for _, e := range lab.Srv.Journal() {
		fmt.Printf("  db c%d %-18s %-12s keys=%v err=%s | %s | %v\n", e.Conn, e.Class, e.Table, e.Keys, e.Err, e.SQL, e.Args)
	}
}
