// xahold: conformance driver for specs/XAHold.tla (C20, C17): the life of one XA connection between
// database/sql's pool, the resource manager's keeper and the hold-time checker.
//
//   - sequential leg: every maximal sequence of whole calls TLC enumerated (XAHold_Gen) is stepped through a real
//     XAConn (built by the verif accessor VerifNewXAHold over a counting target connection); after every call the
//     abstract state - kept, poolClosed, physClosed, keeper entry, calls of the target's Close, IsValid's answer -
//     is recorded, and TLC validates the trace against the specification (the call's critical sections are
//     unlogged steps of the specification).
//   - parallel leg: after keep, the pool goroutine (IsValid, then Close) races the phase-two goroutine (release);
//     -rounds times, yielding at random in front of each call. Only the calls' set and the state after the join
//     are recorded: TLC accepts the trace iff that state is reachable by SOME interleaving of the calls' critical
//     sections. A lost connection (given up by both, never closed) or a second Close of the target is not.
package main

import (
	"database/sql/driver"
	"encoding/json"
	"errors"
	"flag"
	"fmt"
	"runtime"
	"sync"
	"sync/atomic"

	sqlpkg "seata.apache.org/seata-go/pkg/datasource/sql"

	"verif/harness/common"
	"verif/harness/trace"
)

// target counts the closes of the physical connection
type target struct{ closes int32 }

func (t *target) Prepare(string) (driver.Stmt, error) { return nil, errors.New("not used") }
func (t *target) Begin() (driver.Tx, error)           { return nil, errors.New("not used") }
func (t *target) Close() error                        { atomic.AddInt32(&t.closes, 1); return nil }
func (t *target) IsValid() bool                       { return atomic.LoadInt32(&t.closes) == 0 }

// barrier lines the racing goroutines up more tightly than a channel wake-up does
func barrier(ready *int32, n int32) {
	atomic.AddInt32(ready, 1)
	for atomic.LoadInt32(ready) < n {
		runtime.Gosched()
	}
}

func b(x bool) int {
	if x {
		return 1
	}
	return 0
}

func state(h *sqlpkg.VerifXAHold, tg *target) []interface{} {
	k, pc, ph, kp := h.State()
	return []interface{}{"kept", b(k), "pclosed", b(pc), "phys", b(ph), "keeper", b(kp), "closes", int(atomic.LoadInt32(&tg.closes))}
}

func call(h *sqlpkg.VerifXAHold, op string) string {
	switch op {
	case "keep":
		h.Keep()
	case "valid":
		if h.IsValid() {
			return "yes"
		}
		return "no"
	case "close":
		if err := h.Close(); err != nil {
			return "err"
		}
	case "release":
		h.Release()
	case "force":
		if err := h.Force(); err != nil {
			return "err"
		}
	default:
		common.Fatal("unknown call %q", op)
	}
	return "-"
}

var rounds = flag.Int("rounds", 0, "parallel rounds (0: by tier)")

func main() {
	o := common.Parse()
	w, err := trace.NewWriter(o.Out)
	if err != nil {
		common.Fatal("%v", err)
	}
	w.SetBase(o.TraceBase())
	idx := 0
	if o.Scenarios != "" {
		raws, err := trace.ReadScenarios(o.Scenarios)
		if err != nil {
			common.Fatal("%v", err)
		}
		for _, raw := range raws {
			var sc struct {
				Calls []string `json:"calls"`
			}
			if err := json.Unmarshal(raw, &sc); err != nil {
				common.Fatal("%v", err)
			}
			i := idx
			idx++
			if !o.Want(i) {
				continue
			}
			tg := &target{}
			h := sqlpkg.VerifNewXAHold(tg, fmt.Sprintf("10.0.0.1:8091:%d", 7000+i), uint64(100+i))
			t := w.Begin(map[string]interface{}{"i": i, "sc": sc}, "seq")
			t.Add("Start")
			for _, op := range sc.Calls {
				res := call(h, op)
				t.Add("Calls", append([]interface{}{"procs", []string{op}, "res", res}, state(h, tg)...)...)
			}
			t.Close()
		}
	}
	// parallel leg: one scenario index for the whole leg (it is re-run as a whole)
	pi := idx
	if o.Want(pi) {
		n := *rounds
		if n == 0 {
			n = 200000
			if o.Thorough() {
				n = 3000000
			}
		}
		rnd := o.Rand(77)
		seen := map[string]bool{}
		for r := 0; r < n; r++ {
			tg := &target{}
			h := sqlpkg.VerifNewXAHold(tg, fmt.Sprintf("10.0.0.2:8091:%d", r), uint64(r+1))
			h.Keep()
			y1, y2, y3 := rnd.Intn(3), rnd.Intn(3), rnd.Intn(3)
			if r%5 == 3 {
				// second family: the pool has given the held connection up; phase two's release races the checker's
				// CloseForce (both end in the release steps, both may close the orphan: exactly one close)
				v := call(h, "valid")
				sv := state(h, tg)
				call(h, "close")
				sc := state(h, tg)
				var wg sync.WaitGroup
				var ready int32
				wg.Add(2)
				go func() {
					defer wg.Done()
					barrier(&ready, 2)
					for i := 0; i < y1; i++ {
						runtime.Gosched()
					}
					call(h, "release")
				}()
				go func() {
					defer wg.Done()
					barrier(&ready, 2)
					for i := 0; i < y2; i++ {
						runtime.Gosched()
					}
					call(h, "force")
				}()
				wg.Wait()
				st := state(h, tg)
				key := fmt.Sprint("B", v, sv, sc, st)
				if seen[key] {
					continue
				}
				seen[key] = true
				t := w.Begin(map[string]interface{}{"i": pi, "round": r}, "par-force")
				t.Add("Start")
				t.Add("Calls", "procs", []string{"keep"}, "res", "-", "kept", 1, "pclosed", 0, "phys", 0, "keeper", 1, "closes", 0)
				t.Add("Calls", append([]interface{}{"procs", []string{"valid"}, "res", v}, sv...)...)
				t.Add("Calls", append([]interface{}{"procs", []string{"close"}, "res", "-"}, sc...)...)
				t.Add("Calls", append([]interface{}{"procs", []string{"release", "force"}, "res", "-"}, st...)...)
				t.Close()
				continue
			}
			withForce := r%5 == 4
			var wg sync.WaitGroup
			var ready int32
			vres := "-"
			wg.Add(2)
			go func() {
				defer wg.Done()
				barrier(&ready, 2)
				for i := 0; i < y1; i++ {
					runtime.Gosched()
				}
				vres = call(h, "valid")
				for i := 0; i < y2; i++ {
					runtime.Gosched()
				}
				call(h, "close")
			}()
			go func() {
				defer wg.Done()
				barrier(&ready, 2)
				for i := 0; i < y3; i++ {
					runtime.Gosched()
				}
				call(h, "release")
			}()
			procs := []string{"valid", "close", "release"}
			wg.Wait()
			st := state(h, tg)
			var st2 []interface{}
			if withForce {
				// the checker's CloseForce writes unguarded fields Close also writes (rollBacked, xaBranchXid): it is
				// run after the pool is through with the connection
				call(h, "force")
				st2 = state(h, tg)
			}
			key := fmt.Sprint(vres, st, st2)
			if seen[key] {
				continue // same calls, same outcome: one trace stands for all of them
			}
			seen[key] = true
			t := w.Begin(map[string]interface{}{"i": pi, "round": r}, "par")
			t.Add("Start")
			t.Add("Calls", "procs", []string{"keep"}, "res", "-", "kept", 1, "pclosed", 0, "phys", 0, "keeper", 1, "closes", 0)
			t.Add("Calls", append([]interface{}{"procs", procs, "res", vres}, st...)...)
			if withForce {
				t.Add("Calls", append([]interface{}{"procs", []string{"force"}, "res", "-"}, st2...)...)
			}
			t.Close()
		}
	}
	n := w.Count()
	if err := w.Close(); err != nil {
		common.Fatal("%v", err)
	}
	fmt.Printf("DRIVER-OK traces=%d sequences=%d\n", n, idx)
}
