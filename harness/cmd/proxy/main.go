// Driver for Proxy.tla (C16): runs TLC-generated programs of database/sql calls twice on identical
// in-memory databases - through the AT (or XA) proxy driver and through the bare driver - and records,
// step by step, whether results and errors agree, and at the end whether the committed data agree, what
// else the proxy sent to the database and whether the coordinator heard anything.
package main

import (
	"context"
	"database/sql"
	"encoding/json"
	"errors"
	"fmt"
	"os"
	"runtime/debug"
	"strings"
	"time"

	"github.com/go-sql-driver/mysql"

	"seata.apache.org/seata-go/pkg/tm"

	"verif/harness/atlab"
	"verif/harness/common"
	"verif/harness/memsql"
	"verif/harness/tc"
	"verif/harness/trace"
)

type scenario struct {
	Gtx  bool     `json:"gtx"`
	Lit  bool     `json:"lit"`
	Prog []string `json:"prog"`
}

type execer interface {
	ExecContext(ctx context.Context, q string, args ...interface{}) (sql.Result, error)
	QueryContext(ctx context.Context, q string, args ...interface{}) (*sql.Rows, error)
	PrepareContext(ctx context.Context, q string) (*sql.Stmt, error)
}

type outcome struct {
	res string
	err string
}

func errClass(err error) string {
	if err == nil {
		return ""
	}
	var me *mysql.MySQLError
	if errors.As(err, &me) {
		return fmt.Sprintf("mysql-%d", me.Number)
	}
	return "error"
}

func queryAll(ctx context.Context, e execer, q string, args ...interface{}) outcome {
	rows, err := e.QueryContext(ctx, q, args...)
	if err != nil {
		return outcome{"", errClass(err)}
	}
	defer rows.Close()
	return scanAll(rows)
}

func scanAll(rows *sql.Rows) outcome {
	cols, _ := rows.Columns()
	var sb strings.Builder
	sb.WriteString(strings.Join(cols, ",") + "|")
	for rows.Next() {
		vals := make([]interface{}, len(cols))
		ptrs := make([]interface{}, len(cols))
		for i := range vals {
			ptrs[i] = &vals[i]
		}
		if err := rows.Scan(ptrs...); err != nil {
			return outcome{sb.String(), errClass(err)}
		}
		for _, v := range vals {
			if b, ok := v.([]byte); ok {
				v = string(b)
			}
			sb.WriteString(fmt.Sprintf("%v,", v))
		}
		sb.WriteString(";")
	}
	return outcome{sb.String(), errClass(rows.Err())}
}

func execOne(ctx context.Context, e execer, q string, args ...interface{}) outcome {
	r, err := e.ExecContext(ctx, q, args...)
	if err != nil {
		return outcome{"", errClass(err)}
	}
	a, _ := r.RowsAffected()
	id, _ := r.LastInsertId()
	return outcome{fmt.Sprintf("aff=%d,id=%d", a, id), ""}
}

// step executes one statement-level step
func step(ctx context.Context, e execer, kind string, lit bool) (o outcome) {
	defer func() {
		if p := recover(); p != nil {
			if os.Getenv("VERIF_STACK") != "" {
				fmt.Fprintf(os.Stderr, "PANIC %v\n%s\n", p, debug.Stack())
			}
			o = outcome{"", "panic"}
		}
	}()
	v := func(l string, a interface{}) (string, []interface{}) {
		if lit {
			return l, nil
		}
		return "?", []interface{}{a}
	}
	join := func(parts ...interface{}) (string, []interface{}) {
		var sb strings.Builder
		var args []interface{}
		for _, p := range parts {
			switch x := p.(type) {
			case string:
				sb.WriteString(x)
			case [2]interface{}:
				s, a := v(x[0].(string), x[1])
				sb.WriteString(s)
				args = append(args, a...)
			}
		}
		return sb.String(), args
	}
	switch kind {
	case "q":
		q, a := join("SELECT id, w1, w2, u1 FROM t_int WHERE id >= ", [2]interface{}{"1", int64(1)}, " ORDER BY id")
		return queryAll(ctx, e, q, a...)
	case "upd":
		q, a := join("UPDATE t_int SET w1 = ", [2]interface{}{"11", int64(11)}, ", w2 = ", [2]interface{}{"'v1'", "v1"}, " WHERE id = ", [2]interface{}{"1", int64(1)})
		return execOne(ctx, e, q, a...)
	case "ins":
		q, a := join("INSERT INTO t_int (id, w1, w2, u1) VALUES (", [2]interface{}{"2", int64(2)}, ", ", [2]interface{}{"12", int64(12)}, ", ", [2]interface{}{"'v2'", "v2"}, ", ", [2]interface{}{"7", int64(7)}, ")")
		return execOne(ctx, e, q, a...)
	case "dup":
		q, a := join("INSERT INTO t_int (id, w1, w2, u1) VALUES (", [2]interface{}{"1", int64(1)}, ", ", [2]interface{}{"13", int64(13)}, ", ", [2]interface{}{"'v3'", "v3"}, ", ", [2]interface{}{"8", int64(8)}, ")")
		return execOne(ctx, e, q, a...)
	case "del":
		q, a := join("DELETE FROM t_int WHERE id = ", [2]interface{}{"1", int64(1)})
		return execOne(ctx, e, q, a...)
	case "ups":
		q, a := join("INSERT INTO t_int (id, w1, w2, u1) VALUES (", [2]interface{}{"1", int64(1)}, ", ", [2]interface{}{"14", int64(14)}, ", ", [2]interface{}{"'v4'", "v4"}, ", ", [2]interface{}{"7", int64(7)}, ") ON DUPLICATE KEY UPDATE w1 = VALUES(w1), w2 = VALUES(w2)")
		return execOne(ctx, e, q, a...)
	case "updw":
		// a string compared in the WHERE clause (literal or bound)
		q, a := join("UPDATE t_int SET w1 = 18 WHERE w2 = ", [2]interface{}{"'v0'", "v0"})
		return execOne(ctx, e, q, a...)
	case "qfu":
		q, a := join("SELECT id, w1 FROM t_int WHERE id = ", [2]interface{}{"1", int64(1)}, " FOR UPDATE")
		return queryAll(ctx, e, q, a...)
	case "ddl":
		return execOne(ctx, e, "CREATE TABLE IF NOT EXISTS tmp_ddl (a INT NOT NULL, PRIMARY KEY (a))")
	case "multi":
		return execOne(ctx, e, "UPDATE t_int SET w1 = 15 WHERE id = 1; UPDATE t_int SET w1 = 16 WHERE id = 2")
	case "prep":
		st, err := e.PrepareContext(ctx, "UPDATE t_int SET w1 = ? WHERE id = ?")
		if err != nil {
			return outcome{"", "prepare-" + errClass(err)}
		}
		defer st.Close()
		r, err := st.ExecContext(ctx, int64(17), int64(1))
		if err != nil {
			return outcome{"", errClass(err)}
		}
		a, _ := r.RowsAffected()
		return outcome{fmt.Sprintf("aff=%d", a), ""}
	case "prepx":
		// a statement prepared in one context and executed in another (a statement cache filled inside a global
		// transaction and used by plain code later): what counts is the context of the execution
		st, err := e.PrepareContext(ctx, "UPDATE t_int SET w1 = ? WHERE id = ?")
		if err != nil {
			return outcome{"", "prepare-" + errClass(err)}
		}
		defer st.Close()
		xctx := ctx
		if _, inTx := e.(*sql.Tx); !inTx {
			xctx = context.Background()
		}
		r, err := st.ExecContext(xctx, int64(19), int64(1))
		if err != nil {
			return outcome{"", errClass(err)}
		}
		a, _ := r.RowsAffected()
		return outcome{fmt.Sprintf("aff=%d", a), ""}
	case "prepq":
		st, err := e.PrepareContext(ctx, "SELECT id, w1 FROM t_int WHERE id = ?")
		if err != nil {
			return outcome{"", "prepare-" + errClass(err)}
		}
		defer st.Close()
		rows, err := st.QueryContext(ctx, int64(1))
		if err != nil {
			return outcome{"", errClass(err)}
		}
		defer rows.Close()
		return scanAll(rows)
	}
	return outcome{"", "unknown-step"}
}

// program runs the whole program on one database; returns per-step outcomes
func program(ctx context.Context, db *sql.DB, srv *memsql.Server, sc scenario) (outs []outcome) {
	var tx *sql.Tx
	var e execer = db
	for _, k := range sc.Prog {
		switch k {
		case "begin", "beginro", "beginser":
			var err error
			var opts *sql.TxOptions
			switch k {
			case "beginro":
				opts = &sql.TxOptions{ReadOnly: true}
			case "beginser":
				opts = &sql.TxOptions{Isolation: sql.LevelSerializable}
			}
			tx, err = db.BeginTx(ctx, opts)
			if err != nil {
				outs = append(outs, outcome{"", "begin-" + errClass(err)})
				tx = nil
				continue
			}
			e = tx
			outs = append(outs, outcome{"begun", ""})
		case "commit", "rollback", "commitf":
			if tx == nil {
				outs = append(outs, outcome{"", "no-tx"})
				continue
			}
			var err error
			if k == "commitf" {
				// the database fails the COMMIT (deadlock found at commit) and rolls the transaction back
				srv.AddFault(memsql.Fault{Class: "commit", Err: &mysql.MySQLError{Number: 1213, Message: "Deadlock found when trying to get lock; try restarting transaction"}})
				err = tx.Commit()
				srv.ClearFaults()
			} else if k == "commit" {
				err = tx.Commit()
			} else {
				err = tx.Rollback()
			}
			outs = append(outs, outcome{k, errClass(err)})
			tx, e = nil, db
		case "drop":
			// the environment's step: the server closes the connections that sit idle in the pool, silently
			srv.DropIdleSilently()
			outs = append(outs, outcome{"dropped", ""})
		default:
			outs = append(outs, step(ctx, e, k, sc.Lit))
		}
	}
	if tx != nil {
		_ = tx.Rollback()
	}
	return
}

type jent struct {
	Class, Table, SQL, Args string
}

func journal(srv *memsql.Server) []jent {
	var out []jent
	for _, e := range srv.Journal() {
		out = append(out, jent{e.Class, e.Table, strings.Join(strings.Fields(e.SQL), " "), fmt.Sprint(e.Args)})
	}
	return out
}

func allowedExtra(j jent) bool {
	switch j.Class {
	case "begin", "commit", "rollback", "savepoint", "rollback_to", "release_savepoint", "set", "show", "select", "select_for_update":
		return true
	case "insert":
		return j.Table == "undo_log"
	}
	return false
}

func main() {
	o := common.Parse()
	flavour := os.Getenv("FLAVOUR") // "at" (default) | "xa"
	if flavour == "" {
		flavour = "at"
	}
	lab := atlab.Open(tc.DefaultConfig(), fmt.Sprintf("pxA%d", o.ShardK))
	proxied := lab.DB
	srvP := lab.Srv
	if flavour == "xa" {
		srvP = memsql.NewServer(fmt.Sprintf("pxX%d", o.ShardK))
		srvP.SetSeqSource(tc.NextSeq)
		var err error
		proxied, err = sql.Open("seata-xa-memsql", srvP.DSNWithParams("testdb", "multiStatements=true&interpolateParams=true&parseTime=true"))
		if err != nil {
			common.Fatal("%v", err)
		}
		time.Sleep(20 * time.Millisecond)
	}
	srvB := memsql.NewServer(fmt.Sprintf("pxB%d", o.ShardK))
	bare, err := sql.Open("memsql", srvB.DSNWithParams("testdb", "multiStatements=true&interpolateParams=true&parseTime=true"))
	if err != nil {
		common.Fatal("%v", err)
	}
	schema := atlab.ByName("t_int")
	raws, err := trace.ReadScenarios(o.Scenarios)
	if err != nil {
		common.Fatal("%v", err)
	}
	w, err := trace.NewWriter(o.Out)
	if err != nil {
		common.Fatal("%v", err)
	}
	w.SetBase(o.TraceBase())
	// warm the metadata cache so that journals of later programs are comparable
	reset := func() {
		for _, d := range []*sql.DB{proxied, bare} {
			d.SetMaxIdleConns(0)
			d.SetMaxIdleConns(2)
		}
		for _, s := range []*memsql.Server{srvP, srvB} {
			s.Reset()
			s.SetSeqSource(tc.NextSeq)
			s.MustExec(atlab.UndoDDL)
			s.MustExec(schema.DDL)
			s.MustExec("INSERT INTO t_int (id, w1, w2, u1) VALUES (1, 10, 'v0', 7)")
		}
		lab.Coord.ClearLog()
		lab.Coord.ResetLocks()
	}
	reset()
	_ = tm.WithGlobalTx(context.Background(), &tm.GtxConfig{Name: "warm", Timeout: 30 * time.Second}, func(ctx context.Context) error {
		_, err := proxied.ExecContext(ctx, "UPDATE t_int SET w1 = 10 WHERE id = 1")
		return err
	})
	for i, raw := range raws {
		if !o.Want(i) {
			continue
		}
		var sc scenario
		if err := json.Unmarshal(raw, &sc); err != nil {
			common.Fatal("scenario %d: %v", i, err)
		}
		if flavour == "xa" && sc.Gtx {
			continue // XA inside a global transaction is C17's business
		}
		cls := fmt.Sprintf("flavour=%s,gtx=%v,lit=%v,prog=%s", flavour, sc.Gtx, sc.Lit, strings.Join(sc.Prog, ">"))
		t := w.Begin(map[string]interface{}{"i": i, "sc": sc}, cls)
		reset()
		t.Add("Start", "gtx", sc.Gtx, "lit", sc.Lit, "sig", "start")
		outsB := program(context.Background(), bare, srvB, sc)
		var outsP []outcome
		if sc.Gtx {
			_ = tm.WithGlobalTx(context.Background(), &tm.GtxConfig{Name: "proxy", Timeout: 30 * time.Second}, func(ctx context.Context) error {
				lab.Coord.ClearLog()
				outsP = program(ctx, proxied, srvP, sc)
				return nil
			})
		} else {
			outsP = program(context.Background(), proxied, srvP, sc)
		}
		intxStep := false
		for k, kind := range sc.Prog {
			mode := "auto"
			if intxStep {
				mode = "intx"
			}
			sig := fmt.Sprintf("%s:gtx=%v:lit=%v:%s:%s", flavour, sc.Gtx, sc.Lit, kind, mode)
			var p, b outcome
			if k < len(outsP) {
				p = outsP[k]
			}
			if k < len(outsB) {
				b = outsB[k]
			}
			switch kind {
			case "begin", "beginro", "beginser":
				t.Add("Begin", "opt", kind, "sameErr", p.err == b.err, "sig", sig)
				intxStep = true
			case "commit", "rollback", "commitf":
				t.Add("EndTx", "how", kind, "sameErr", p.err == b.err, "sig", sig+":perr="+p.err+":berr="+b.err)
				intxStep = false
			default:
				t.Add("Step", "kind", kind, "sameRes", p.res == b.res, "sameErr", p.err == b.err,
					"sig", sig+":perr="+p.err+":berr="+b.err)
			}
		}
		// end of program
		sameData := srvP.SnapshotHash("t_int", "tmp_ddl") == srvB.SnapshotHash("t_int", "tmp_ddl")
		jp, jb := journal(srvP), journal(srvB)
		sameJournal := len(jp) == len(jb)
		if sameJournal {
			for k := range jp {
				if jp[k] != jb[k] {
					sameJournal = false
				}
			}
		}
		// the application's statements (what the bare database saw, transaction control aside) appear in
		// the proxied journal in the same order; everything else is of an allowed kind
		pos := 0
		appInOrder := true
		used := make([]bool, len(jp))
		for _, b := range jb {
			plainBegin := b.Class == "begin" && (strings.EqualFold(b.SQL, "START TRANSACTION") || strings.EqualFold(b.SQL, "BEGIN"))
			if plainBegin || b.Class == "commit" || b.Class == "rollback" {
				continue // transaction control is the proxy's to place; options asked for by the application are not
			}
			found := false
			for pos < len(jp) {
				if jp[pos].SQL == b.SQL && jp[pos].Args == b.Args {
					used[pos] = true
					pos++
					found = true
					break
				}
				pos++
			}
			if !found {
				appInOrder = false
				break
			}
		}
		extrasOK := true
		badExtra := ""
		for k, j := range jp {
			if !used[k] && !allowedExtra(j) {
				extrasOK = false
				badExtra = j.Class + ":" + j.Table
			}
		}
		tcreq := 0
		for _, r := range lab.Coord.Log() {
			if r.Dir == "in" && r.Kind != "GlobalBegin" && r.Kind != "GlobalCommit" && r.Kind != "GlobalRollback" && r.Kind != "Heartbeat" {
				tcreq++
			}
		}
		if sc.Gtx {
			tcreq = 0 // inside a global transaction coordinator traffic is expected
		}
		t.Add("Finish", "sameData", sameData, "sameJournal", sameJournal, "appInOrder", appInOrder, "extrasOK", extrasOK,
			"tcreq", tcreq, "sig", fmt.Sprintf("%s:gtx=%v:finish:data=%v:journal=%v:order=%v:extras=%v%s", flavour, sc.Gtx, sameData, sameJournal || sc.Gtx, appInOrder, extrasOK, badExtra))
		t.Close()
	}
	if err := w.Close(); err != nil {
		common.Fatal("%v", err)
	}
	fmt.Printf("DRIVER-OK traces=%d scenarios=%d\n", w.Count(), len(raws))
}
