package main

import (
	"context"
	"database/sql"
	"fmt"
	"os"
	"time"

	sqlpkg "seata.apache.org/seata-go/pkg/datasource/sql"
	"seata.apache.org/seata-go/pkg/protocol/branch"
	"seata.apache.org/seata-go/pkg/protocol/message"
	"seata.apache.org/seata-go/pkg/tm"

	"verif/harness/memsql"
	"verif/harness/tc"
)

const undoDDL = `CREATE TABLE undo_log (
 id bigint NOT NULL AUTO_INCREMENT, branch_id bigint NOT NULL, xid varchar(128) NOT NULL, context varchar(128) NOT NULL,
 rollback_info longblob NOT NULL, log_status int NOT NULL, log_created datetime(6) NOT NULL, log_modified datetime(6) NOT NULL,
 PRIMARY KEY (id), UNIQUE KEY ux_undo_log (xid, branch_id))`

func main() {
	os.Setenv("VERIF_LOG", os.Getenv("VERIF_LOG"))
	cfg := tc.DefaultConfig()
	tc.InitClient(cfg)
	coord := tc.NewTC("10.0.0.1:8091")
	sess := coord.OpenSession("s1")
	time.Sleep(50 * time.Millisecond)

	srv := memsql.NewServer("db1")
	srv.SetSeqSource(tc.NextSeq)
	srv.MustExec(undoDDL)
	srv.MustExec("CREATE TABLE acct (id int NOT NULL PRIMARY KEY, name varchar(32), bal int NOT NULL)")
	srv.MustExec("INSERT INTO acct VALUES (1,'a',100),(2,'b',200)")
	sqlpkg.VerifRegisterDrivers("seata-at-memsql", "seata-xa-memsql", memsql.Driver{})
	db, err := sql.Open("seata-at-memsql", srv.DSN("testdb"))
	if err != nil {
		panic(err)
	}
	snap0 := srv.SnapshotHash("acct")
	var xid string
	err = tm.WithGlobalTx(context.Background(), &tm.GtxConfig{Name: "smoke", Timeout: 10 * time.Second}, func(ctx context.Context) error {
		xid = tm.GetXID(ctx)
		res, err := db.ExecContext(ctx, "UPDATE acct SET bal = bal - ? WHERE id = ?", 10, 1)
		if err != nil {
			return err
		}
		n, _ := res.RowsAffected()
		fmt.Println("update affected", n)
		if _, err := db.ExecContext(ctx, "INSERT INTO acct (id, name, bal) VALUES (?, ?, ?)", 3, "c", 5); err != nil {
			return err
		}
		if _, err := db.ExecContext(ctx, "DELETE FROM acct WHERE id = 2"); err != nil {
			return err
		}
		return fmt.Errorf("business fails -> rollback")
	})
	fmt.Println("WithGlobalTx:", err)
	fmt.Println("after phase one:", srv.Snapshot("acct"))
	fmt.Println("undo rows:", len(srv.Snapshot("undo_log")["undo_log"]))
	for _, r := range coord.Log() {
		fmt.Printf("  tc %d %s %s id=%d %+v %s\n", r.Seq, r.Dir, r.Kind, r.ID, r.Body, r.Note)
	}
	// phase two: roll back every registered branch, last first
	var regs []tc.Record
	log := coord.Log()
	for i, r := range log {
		if r.Kind == "BranchRegister" && r.Dir == "in" {
			regs = append(regs, log[i])
		}
	}
	var bids []int64
	for _, r := range log {
		if r.Dir == "out" {
			if resp, ok := r.Body.(message.BranchRegisterResponse); ok {
				bids = append(bids, resp.BranchId)
			}
		}
	}
	for i := len(regs) - 1; i >= 0; i-- {
		req := regs[i].Body.(message.BranchRegisterRequest)
		st, ok := coord.BranchRollback(sess, xid, bids[i], branch.BranchTypeAT, req.ResourceId, nil, 10*time.Second)
		fmt.Println("branch rollback", bids[i], st, ok)
	}
	fmt.Println("after rollback:", srv.Snapshot("acct"))
	fmt.Println("restored:", srv.SnapshotHash("acct") == snap0, "undo rows:", len(srv.Snapshot("undo_log")["undo_log"]))
	for _, e := range srv.Journal() {
		fmt.Printf("  db %d c%d %-18s %-12s keys=%v aff=%d err=%s | %s\n", e.Seq, e.Conn, e.Class, e.Table, e.Keys, e.Affected, e.Err, trunc(e.SQL))
	}
	fmt.Println("conns:", srv.ConnStates())
}

func trunc(s string) string {
	if len(s) > 110 {
		return s[:110]
	}
	return s
}
